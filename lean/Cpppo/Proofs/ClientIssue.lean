import Cpppo.Model.ClientIssue
/-! Lemmas about `issue` (property C12): partition, indices, homogeneous bundles, non-empty packets. -/
namespace Cpppo.Client

variable {α κ : Type} [DecidableEq κ]

/-- the items a packet list yields, in order -/
def flatItems (ps : List (Packet α)) : List (Nat × α) :=
  ps.flatMap fun p => p.members.map fun a => (p.index, a)

def flatMembers (ps : List (Packet α)) : List α := ps.flatMap Packet.members

/-- all members of a packet have the bundle key of the first one -/
def Homogeneous (key : α → κ) (p : Packet α) : Prop :=
  ∀ f, p.members.head? = some f → ∀ m ∈ p.members, key m = key f

/-! ### single -/

theorem issueSingle_members (idx : Nat) (ops : List α) :
    flatMembers (issueSingle idx ops) = ops := by
  induction ops generalizing idx with
  | nil => rfl
  | cons a as ih =>
    simp only [issueSingle, flatMembers, List.flatMap_cons, List.singleton_append] at ih ⊢
    rw [ih]

theorem issueSingle_indices (idx : Nat) (ops : List α) :
    (issueSingle idx ops).map Packet.index = List.range' idx ops.length := by
  induction ops generalizing idx with
  | nil => rfl
  | cons a as ih =>
    simp only [issueSingle, List.map_cons, List.length_cons, List.range'_succ]
    rw [ih]

theorem issueSingle_shape (idx : Nat) (ops : List α) :
    ∀ p ∈ issueSingle idx ops, p.bundled = false ∧ ∃ a, p.members = [a] := by
  induction ops generalizing idx with
  | nil => intro p hp; simp [issueSingle] at hp
  | cons a as ih =>
    intro p hp
    simp only [issueSingle, List.mem_cons] at hp
    rcases hp with rfl | hp
    · exact ⟨rfl, a, rfl⟩
    · exact ih _ p hp

/-! ### multi -/

theorem fits_nil (est : α → Nat × Nat) (key : α → κ) (m rs ps : Nat) (op : α) :
    fits est key m [] rs ps op = true := by
  simp [fits]

theorem fits_key (est : α → Nat × Nat) (key : α → κ) (m rs ps : Nat) (f : α) (acc : List α) (op : α)
    (h : fits est key m (f :: acc) rs ps op = true) : key f = key op := by
  simp only [fits, List.head?_cons, Bool.and_eq_true, decide_eq_true_eq] at h
  exact h.2

theorem issueMulti_members (est : α → Nat × Nat) (key : α → κ) (m rmin pmin : Nat)
    (ops : List α) : ∀ (idx : Nat) (acc : List α) (rs ps : Nat),
    flatMembers (issueMulti est key m rmin pmin idx acc rs ps ops) = acc ++ ops := by
  induction ops with
  | nil =>
    intro idx acc rs ps
    simp only [issueMulti]
    cases acc <;> simp [flatMembers]
  | cons op ops ih =>
    intro idx acc rs ps
    simp only [issueMulti]
    split
    · rw [ih]; simp
    · simp only [flatMembers, List.flatMap_cons] at ih ⊢
      rw [ih]; simp

theorem issueMulti_indices (est : α → Nat × Nat) (key : α → κ) (m rmin pmin : Nat)
    (ops : List α) : ∀ (idx : Nat) (acc : List α) (rs ps : Nat),
    (issueMulti est key m rmin pmin idx acc rs ps ops).map Packet.index
      = List.range' idx (issueMulti est key m rmin pmin idx acc rs ps ops).length := by
  induction ops with
  | nil =>
    intro idx acc rs ps
    simp only [issueMulti]
    split <;> simp [List.range'_succ]
  | cons op ops ih =>
    intro idx acc rs ps
    simp only [issueMulti]
    split
    · exact ih _ _ _ _
    · simp only [List.map_cons, List.length_cons, List.range'_succ]
      rw [ih]

theorem issueMulti_nonempty (est : α → Nat × Nat) (key : α → κ) (m rmin pmin : Nat)
    (ops : List α) : ∀ (idx : Nat) (acc : List α) (rs ps : Nat),
    ∀ p ∈ issueMulti est key m rmin pmin idx acc rs ps ops, p.members ≠ [] ∧ p.bundled = true := by
  induction ops with
  | nil =>
    intro idx acc rs ps p hp
    simp only [issueMulti] at hp
    split at hp
    · simp at hp
    · rename_i hne
      simp only [List.mem_singleton] at hp
      subst hp
      refine ⟨?_, rfl⟩
      intro h
      simp only at h
      subst h
      simp at hne
  | cons op ops ih =>
    intro idx acc rs ps p hp
    simp only [issueMulti] at hp
    split at hp
    · exact ih _ _ _ _ p hp
    · rename_i hfit
      simp only [List.mem_cons] at hp
      rcases hp with rfl | hp
      · refine ⟨?_, rfl⟩
        intro h
        simp only at h
        subst h
        exact hfit (fits_nil est key m rs ps op)
      · exact ih _ _ _ _ p hp

theorem issueMulti_homogeneous (est : α → Nat × Nat) (key : α → κ) (m rmin pmin : Nat)
    (ops : List α) : ∀ (idx : Nat) (acc : List α) (rs ps : Nat),
    (∀ f, acc.head? = some f → ∀ a ∈ acc, key a = key f) →
    ∀ p ∈ issueMulti est key m rmin pmin idx acc rs ps ops, Homogeneous key p := by
  induction ops with
  | nil =>
    intro idx acc rs ps hacc p hp
    simp only [issueMulti] at hp
    split at hp
    · simp at hp
    · simp only [List.mem_singleton] at hp
      subst hp
      exact hacc
  | cons op ops ih =>
    intro idx acc rs ps hacc p hp
    simp only [issueMulti] at hp
    split at hp
    · rename_i hfit
      apply ih _ _ _ _ _ p hp
      intro f hf a ha
      cases acc with
      | nil =>
        simp only [List.nil_append, List.head?_cons, Option.some.injEq] at hf
        simp only [List.nil_append, List.mem_singleton] at ha
        subst hf; subst ha; rfl
      | cons g acc' =>
        simp only [List.cons_append, List.head?_cons, Option.some.injEq] at hf
        subst hf
        have hk := fits_key est key m rs ps g acc' op hfit
        simp only [List.cons_append, List.mem_cons, List.mem_append, List.mem_singleton,
          List.not_mem_nil, or_false] at ha
        rcases ha with rfl | ha | rfl
        · rfl
        · exact hacc g rfl a (by simp [ha])
        · exact hk.symm
    · simp only [List.mem_cons] at hp
      rcases hp with rfl | hp
      · exact hacc
      · apply ih _ _ _ _ _ p hp
        intro f hf a ha
        simp only [List.head?_cons, Option.some.injEq] at hf
        simp only [List.mem_singleton] at ha
        subst hf; subst ha; rfl

/-! ### issue -/

theorem issue_members (est : α → Nat × Nat) (key : α → κ) (m rmin pmin idx : Nat) (ops : List α) :
    flatMembers (issue est key m rmin pmin idx ops) = ops := by
  unfold issue
  split
  · exact issueSingle_members idx ops
  · simpa using issueMulti_members est key m rmin pmin ops idx [] rmin pmin

theorem issue_indices (est : α → Nat × Nat) (key : α → κ) (m rmin pmin idx : Nat) (ops : List α) :
    (issue est key m rmin pmin idx ops).map Packet.index
      = List.range' idx (issue est key m rmin pmin idx ops).length := by
  unfold issue
  split
  · rw [issueSingle_indices]
    congr 1
    have := congrArg List.length (issueSingle_indices (α := α) idx ops)
    simpa using this.symm
  · exact issueMulti_indices est key m rmin pmin ops idx [] rmin pmin

theorem issue_nonempty (est : α → Nat × Nat) (key : α → κ) (m rmin pmin idx : Nat) (ops : List α) :
    ∀ p ∈ issue est key m rmin pmin idx ops, p.members ≠ [] := by
  unfold issue
  split
  · intro p hp
    obtain ⟨_, a, ha⟩ := issueSingle_shape idx ops p hp
    simp [ha]
  · intro p hp
    exact (issueMulti_nonempty est key m rmin pmin ops idx [] rmin pmin p hp).1

theorem issue_homogeneous_head (est : α → Nat × Nat) (key : α → κ) (m rmin pmin idx : Nat) (ops : List α) :
    ∀ p ∈ issue est key m rmin pmin idx ops, Homogeneous key p := by
  unfold issue
  split
  · intro p hp f hf a ha
    obtain ⟨_, b, hb⟩ := issueSingle_shape idx ops p hp
    simp only [hb, List.head?_cons, Option.some.injEq] at hf
    simp only [hb, List.mem_singleton] at ha
    subst hf; subst ha; rfl
  · intro p hp
    exact issueMulti_homogeneous est key m rmin pmin ops idx [] rmin pmin (by simp) p hp

/-- the number of packets never exceeds the number of operations -/
theorem issue_length_le (est : α → Nat × Nat) (key : α → κ) (m rmin pmin idx : Nat) (ops : List α) :
    (issue est key m rmin pmin idx ops).length ≤ ops.length := by
  have hne := issue_nonempty est key m rmin pmin idx ops
  have hm := issue_members est key m rmin pmin idx ops
  generalize issue est key m rmin pmin idx ops = ps at hne hm
  rw [← hm]
  clear hm
  induction ps with
  | nil => simp
  | cons p ps ih =>
    have h1 : p.members ≠ [] := hne p (by simp)
    have h2 := ih (fun q hq => hne q (by simp [hq]))
    simp only [flatMembers, List.flatMap_cons, List.length_append, List.length_cons] at h2 ⊢
    have : 1 ≤ p.members.length := by
      cases hpm : p.members with
      | nil => exact absurd hpm h1
      | cons _ _ => simp
    omega

end Cpppo.Client
