import Cpppo.Model.ClientOps
import Cpppo.Proofs.ClientPath
/-! `parse_operations` on the rendering of a structured operation description (property C12). -/
namespace Cpppo.Client
open Cpppo.Py

/-! ### where: element, count -/

structure Place where
  elem : Option Nat := none
  count : Option Nat := none
  star : Bool := false          -- the count is written `*<count>` instead of as a range `[a-b]`

/-- a range needs an element and a positive count; `*count` needs the count -/
def Place.Ok (w : Place) : Prop :=
  if w.star then w.count.isSome = true
  else (∀ c, w.count = some c → 0 < c) ∧ (w.count.isSome = true → w.elem.isSome = true)

instance (w : Place) : Decidable w.Ok := by
  unfold Place.Ok
  cases w.star
  · simp only [Bool.false_eq_true, if_false]
    cases w.count with
    | none => exact isTrue ⟨by simp, by simp⟩
    | some c =>
      by_cases h : 0 < c
      · by_cases h2 : w.elem.isSome = true
        · exact isTrue ⟨by intro c' hc; cases hc; exact h, fun _ => h2⟩
        · exact isFalse (fun hh => h2 (hh.2 rfl))
      · exact isFalse (fun hh => h (hh.1 c rfl))
  · simp only [if_true]; infer_instance

def Place.text (w : Place) : Str :=
  if w.star then
    bracketText w.elem none ++ (match w.count with
      | some c => '*' :: decimal c
      | none => [])
  else bracketText w.elem w.count

def Place.E (w : Place) : Option Int := w.elem.map fun e => (e : Int)
def Place.C (w : Place) : Option Int := w.count.map fun c => (c : Int)

theorem place_tail (w : Place) (hw : w.Ok) : TailParses w.text w.E w.C := by
  unfold Place.Ok at hw
  unfold Place.text Place.E Place.C
  cases hs : w.star with
  | true =>
    rw [hs] at hw
    simp only [if_true] at hw ⊢
    cases hc : w.count with
    | none => rw [hc] at hw; cases hw
    | some c => exact star_tail w.elem c
  | false =>
    rw [hs] at hw
    simp only [Bool.false_eq_true, if_false] at hw ⊢
    have h := bracket_tail w.elem w.count hw.1
    have hco : countOut w.elem w.count = w.count.map fun c => (c : Int) := by
      cases he : w.elem with
      | some e => rfl
      | none =>
        cases hc : w.count with
        | none => rfl
        | some c =>
          have := hw.2 (by simp [hc])
          rw [he] at this; cases this
    rw [hco] at h
    exact h

/-! ### characters of rendered text -/

/-- no blank, no '=' and no '+': text that the first two splits of `parse_operations` leave alone -/
def Clean (s : Str) : Prop := ∀ c ∈ s, isSpace c = false ∧ c ≠ '=' ∧ c ≠ '+'

theorem Clean.append {a b : Str} (ha : Clean a) (hb : Clean b) : Clean (a ++ b) := by
  intro c hc
  rcases List.mem_append.mp hc with h | h
  · exact ha c h
  · exact hb c h

theorem Clean.cons {c : Char} {s : Str} (hc : isSpace c = false ∧ c ≠ '=' ∧ c ≠ '+') (hs : Clean s) :
    Clean (c :: s) := by
  intro x hx
  rcases List.mem_cons.mp hx with h | h
  · subst h; exact hc
  · exact hs x h

theorem Clean.nil : Clean [] := by intro c hc; cases hc

theorem clean_of_plain (s : Str) (h : ∀ c ∈ s, isSpecial c = false) : Clean s := by
  intro c hc
  have hp := h c hc
  refine ⟨plain_not_space s h c hc, ?_, ?_⟩
  · intro he; subst he; revert hp; decide
  · intro he; subst he; revert hp; decide

theorem clean_decimal (n : Nat) : Clean (decimal n) := clean_of_plain _ (decimal_plain n)

theorem clean_bracket (elem count : Option Nat) : Clean (bracketText elem count) := by
  unfold bracketText
  cases elem with
  | none => exact Clean.nil
  | some e =>
    cases count with
    | none =>
      exact Clean.cons (by decide) (Clean.append (clean_decimal e) (Clean.cons (by decide) Clean.nil))
    | some c =>
      have : Clean ('[' :: (decimal e ++ ('-' :: (decimal (e + c - 1) ++ [']'])))) :=
        Clean.cons (by decide) (Clean.append (clean_decimal e) (Clean.cons (by decide)
          (Clean.append (clean_decimal _) (Clean.cons (by decide) Clean.nil))))
      simpa [List.append_assoc] using this

theorem clean_place (w : Place) : Clean w.text := by
  unfold Place.text
  split
  · apply Clean.append (clean_bracket _ _)
    cases w.count with
    | none => exact Clean.nil
    | some c => exact Clean.cons (by decide) (clean_decimal c)
  · exact clean_bracket _ _

theorem place_no_dot (w : Place) : '.' ∉ w.text := by
  unfold Place.text
  split
  · intro hm
    rcases List.mem_append.mp hm with hm | hm
    · exact bracket_no '.' (by decide) (by decide) (by decide) (by decide) _ _ hm
    · cases hc : w.count with
      | none => rw [hc] at hm; cases hm
      | some c =>
        rw [hc] at hm
        rcases List.mem_cons.mp hm with h | h
        · revert h; decide
        · exact not_mem_decimal c '.' (by decide) h
  · exact bracket_no '.' (by decide) (by decide) (by decide) (by decide) _ _

/-- a tag name usable in an operation text: a `NameOk` name without blanks, '=' and '+' -/
def TagOk (n : Str) : Prop := NameOk n ∧ Clean n

instance (n : Str) : Decidable (TagOk n) := by
  unfold TagOk Clean; infer_instance

def PathBody.OpOk : PathBody → Prop
  | PathBody.symbolic n ms => ∀ m ∈ n :: ms, TagOk m
  | PathBody.numeric _ rest => rest.length ≤ 2

instance (b : PathBody) : Decidable b.OpOk := by
  cases b <;> simp only [PathBody.OpOk] <;> infer_instance

theorem PathBody.OpOk.ok {b : PathBody} (h : b.OpOk) : b.Ok := by
  cases b with
  | symbolic n ms => exact fun m hm => (h m hm).1
  | numeric c rest => exact h

theorem clean_dotted (n : Str) (ms : List Str) (h : ∀ m ∈ n :: ms, Clean m) : Clean (dotted n ms) := by
  induction ms generalizing n with
  | nil => simpa [dotted] using h n (by simp)
  | cons m ms ih =>
    simp only [dotted]
    exact Clean.append (h n (by simp)) (Clean.cons (by decide)
      (ih m (fun x hx => h x (by simp [List.mem_cons] at hx ⊢; exact Or.inr hx))))

theorem clean_more (vs : List Nat) : Clean (moreText vs) := by
  induction vs with
  | nil => exact Clean.nil
  | cons v vs ih =>
    have : Clean ('/' :: (decimal v ++ moreText vs)) :=
      Clean.cons (by decide) (Clean.append (clean_decimal v) ih)
    simpa [moreText] using this

theorem clean_body (b : PathBody) (h : b.OpOk) : Clean b.text := by
  cases b with
  | symbolic n ms => exact clean_dotted n ms (fun m hm => (h m hm).2)
  | numeric c rest =>
    have : Clean ('@' :: (hex04 (c : Int) ++ moreText rest)) :=
      Clean.cons (by decide) (Clean.append (clean_of_plain _ (hex04_plain c)) (clean_more rest))
    simpa [PathBody.text, stdText] using this

theorem Clean.strip {s : Str} (h : Clean s) : strip s = s := strip_plain s (fun c hc => (h c hc).1)

theorem Clean.noEq {s : Str} (h : Clean s) : '=' ∉ s := fun hm => (h '=' hm).2.1 rfl
theorem Clean.noPlus {s : Str} (h : Clean s) : '+' ∉ s := fun hm => (h '+' hm).2.2 rfl

/-! ### integers with a sign -/

/-- the characters `"%d" % v` can produce -/
def numChars : List Char := ['-', '0', '1', '2', '3', '4', '5', '6', '7', '8', '9']

theorem digit_numChars : ∀ d, d < 10 → digitChar true d ∈ numChars := by decide

theorem numChars_csv_ok : ∀ c ∈ numChars, (c == '"' || (decide (c.toNat < 32) && c != '\t')) = false := by
  decide

theorem decimal_numChars (n : Nat) : ∀ c ∈ decimal n, c ∈ numChars := by
  intro c hc
  unfold decimal at hc
  simp only [List.mem_map] at hc
  obtain ⟨d, hd, rfl⟩ := hc
  exact digit_numChars d (toDigits_lt 10 (by omega) n d hd)

theorem decimalInt_numChars (v : Int) : ∀ c ∈ decimalInt v, c ∈ numChars := by
  intro c hc
  unfold decimalInt at hc
  split at hc
  · rcases List.mem_cons.mp hc with h | h
    · subst h; decide
    · exact decimal_numChars _ c h
  · exact decimal_numChars _ c hc

theorem pyInt10_decimalInt (v : Int) : pyInt10 (decimalInt v) = some v := by
  unfold decimalInt
  split
  · rename_i hneg
    have hsp : ∀ c ∈ '-' :: decimal v.natAbs, isSpace c = false := by
      intro c hc
      rcases List.mem_cons.mp hc with h | h
      · subst h; decide
      · exact plain_not_space _ (decimal_plain _) c h
    unfold pyInt10
    rw [strip_plain _ hsp]
    simp only [splitSign]
    unfold decimal
    rw [pyDigits_render 10 (by omega) (by omega)]
    simp only [Option.map_some, applySign, if_true]
    congr 1
    omega
  · rename_i hneg
    rw [pyInt10_decimal]
    congr 1
    omega

theorem castVal_int (lo hi v : Int) (h : lo ≤ v ∧ v ≤ hi) :
    castVal (Kind.int lo hi) (decimalInt v) = Except.ok (Val.int v) := by
  simp [castVal, pyInt10_decimalInt, h]
  rfl

/-! ### the value list -/

def valuesText (vals : List Int) : Str := joinWith ',' (vals.map decimalInt)

theorem valuesText_chars (vals : List Int) : ∀ c ∈ valuesText vals, c = ',' ∨ c ∈ numChars := by
  unfold valuesText
  induction vals with
  | nil => intro c hc; cases hc
  | cons v vs ih =>
    cases vs with
    | nil =>
      intro c hc
      simp only [List.map_cons, List.map_nil, joinWith] at hc
      exact Or.inr (decimalInt_numChars v c hc)
    | cons w ws =>
      intro c hc
      simp only [List.map_cons, joinWith, List.mem_append, List.mem_cons] at hc
      rcases hc with h | h | h
      · exact Or.inr (decimalInt_numChars v c h)
      · exact Or.inl h
      · exact ih c (by simpa [joinWith] using h)

theorem decimalInt_ne_nil (v : Int) : decimalInt v ≠ [] := by
  unfold decimalInt
  split
  · simp
  · exact decimal_ne_nil _

theorem splitAll_values (v : Int) (vs : List Int) :
    splitAll ',' (valuesText (v :: vs)) = (v :: vs).map decimalInt := by
  unfold valuesText
  induction vs generalizing v with
  | nil =>
    simp only [List.map_cons, List.map_nil, joinWith]
    apply splitAll_none
    intro hm
    have := decimalInt_numChars v ',' hm
    revert this; decide
  | cons w ws ih =>
    simp only [List.map_cons, joinWith]
    rw [splitAll_append]
    · have := ih w
      simp only [List.map_cons] at this
      rw [this]
    · intro hm
      have := decimalInt_numChars v ',' hm
      revert this; decide

theorem dropSpace_decimalInt (v : Int) : (decimalInt v).dropWhile (· == ' ') = decimalInt v := by
  cases h : decimalInt v with
  | nil => rfl
  | cons c cs =>
    have := decimalInt_numChars v c (by simp [h])
    have hc : (c == ' ') = false := by
      revert this
      cases hcc : c == ' ' with
      | false => intro _; rfl
      | true => have := beq_iff_eq.mp hcc; subst this; decide
    simp [List.dropWhile, hc]

theorem csvRow_values (vals : List Int) :
    csvRow (valuesText vals) = Except.ok (vals.map decimalInt) := by
  have hbad : (valuesText vals).any (fun c => c == '"' || (c.toNat < 32 && c != '\t')) = false := by
    rw [List.any_eq_false]
    intro c hc
    rcases valuesText_chars vals c hc with h | h
    · subst h; decide
    · rw [numChars_csv_ok c h]; simp
  unfold csvRow
  rw [hbad]
  simp only [Bool.false_eq_true, if_false]
  cases vals with
  | nil => rfl
  | cons v vs =>
    have hne : valuesText (v :: vs) ≠ [] := by
      unfold valuesText
      cases vs with
      | nil => simpa [joinWith] using decimalInt_ne_nil v
      | cons w ws =>
        have := decimalInt_ne_nil v
        cases hd : decimalInt v with
        | nil => exact absurd hd this
        | cons _ _ => simp [joinWith, hd]
    rw [if_neg hne, splitAll_values]
    simp only [pure, Except.pure, List.map_map]
    congr 1
    apply List.map_congr_left
    intro x _
    exact dropSpace_decimalInt x

theorem mapExcept_castVal (lo hi : Int) (vals : List Int) (h : ∀ v ∈ vals, lo ≤ v ∧ v ≤ hi) :
    mapExcept (castVal (Kind.int lo hi)) (vals.map decimalInt) = Except.ok (vals.map Val.int) := by
  induction vals with
  | nil => rfl
  | cons v vs ih =>
    simp only [List.map_cons, mapExcept, castVal_int lo hi v (h v (by simp)),
      ih (fun x hx => h x (by simp [hx]))]

/-! ### the operation description -/

structure WriteSpec where
  ty : CipType
  lo : Int
  hi : Int
  vals : List Int

structure OpSpec where
  body : PathBody
  place : Place := {}
  offset : Option Nat := none
  write : Option WriteSpec := none

def offsetText : Option Nat → Str
  | some o => '+' :: decimal o
  | none => []

def writeText : Option WriteSpec → Str
  | some w => '=' :: '(' :: w.ty.name ++ ')' :: valuesText w.vals
  | none => []

/-- the text that spells the operation: `<path><where>[+<offset>][=(<TYPE>)<v>,<v>...]` -/
def OpSpec.text (s : OpSpec) : Str :=
  s.body.text ++ s.place.text ++ offsetText s.offset ++ writeText s.write

/-- the element count of the resulting operation -/
def OpSpec.elements (fragment : Bool) (s : OpSpec) : Option Int :=
  match s.write with
  | some w =>
    if s.offset = none ∧ fragment = false then some (s.place.C.getD (w.vals.length : Int))
    else s.place.C
  | none => s.place.C

/-- the operation it denotes -/
def OpSpec.denote (fragment : Bool) (s : OpSpec) : OpD :=
  { write := s.write.isSome
    offset := s.offset.map fun o => (o : Int)
    path := withElem s.body.segs s.place.E
    elements := s.elements fragment
    tagType := s.write.map fun w => w.ty.tagType
    data := s.write.map fun w => w.vals.map Val.int }

/-- the write part is well-formed for the type table: a listed integer type written by its
(upper-case, alphanumeric) name, values within the validator's range, and a count that is
consistent with the number of values -/
def WriteSpec.Ok (types : List CipType) (fragment : Bool) (offset : Option Nat) (C : Option Int)
    (w : WriteSpec) : Prop :=
  lookupType types w.ty.name = some w.ty
  ∧ upper w.ty.name = w.ty.name
  ∧ (∀ c ∈ w.ty.name, isAlnum c = true)
  ∧ w.ty.kind = Kind.int w.lo w.hi
  ∧ (∀ v ∈ w.vals, w.lo ≤ v ∧ v ≤ w.hi)
  ∧ (if offset = none ∧ fragment = false then C = none ∨ C = some (w.vals.length : Int)
     else ∃ el : Int, C = some el ∧ 0 < w.ty.size
        ∧ ((offset.getD 0 : Nat) : Int) % (w.ty.size : Int) = 0
        ∧ ((offset.getD 0 : Nat) : Int) / (w.ty.size : Int) + (w.vals.length : Int) ≤ el)

def OpSpec.Ok (types : List CipType) (fragment : Bool) (intType : Str) (s : OpSpec) : Prop :=
  s.body.OpOk ∧ s.place.Ok
  ∧ (∀ w, s.write = some w →
      (lookupType types (upper (strip intType))).isSome = true
      ∧ w.Ok types fragment s.offset s.place.C)

theorem checkCounts_ok (fragment : Bool) (offset : Option Nat) (C : Option Int) (w : WriteSpec)
    (types : List CipType) (hw : w.Ok types fragment offset C) (op : OpD)
    (hoff : op.offset = offset.map fun o => (o : Int)) (hel : op.elements = C) :
    checkCounts fragment w.ty.size op w.vals.length
      = Except.ok { op with elements :=
          if offset = none ∧ fragment = false then some (C.getD (w.vals.length : Int)) else C } := by
  obtain ⟨_, _, _, _, _, hcnt⟩ := hw
  unfold checkCounts
  by_cases hc : offset = none ∧ fragment = false
  · rw [if_pos hc] at hcnt
    have hoffn : op.offset = none := by rw [hoff, hc.1]; rfl
    rw [if_pos ⟨hoffn, hc.2⟩, if_pos hc]
    rcases hcnt with h | h
    · subst h; rw [hel]; simp; rfl
    · subst h; rw [hel]; simp; rfl
  · rw [if_neg hc] at hcnt
    obtain ⟨el, hC, hsz, hmod, hdiv⟩ := hcnt
    have hcond : ¬ (op.offset = none ∧ fragment = false) := by
      intro h
      apply hc
      refine ⟨?_, h.2⟩
      cases ho : offset with
      | none => rfl
      | some o => rw [hoff, ho] at h; cases h.1
    rw [if_neg hcond, if_neg hc, hel, hC]
    have hs0 : w.ty.size ≠ 0 := by omega
    have hget : op.offset.getD 0 = ((offset.getD 0 : Nat) : Int) := by
      rw [hoff]; cases offset <;> rfl
    simp only [hs0, if_false, hget, hmod, ne_eq, not_true_eq_false, hdiv, if_true]
    have : op = { op with elements := some el } := by
      cases op
      simp only at hel
      simp [hel, hC]
    rw [← this]
    rfl

/-! ### the parser on the rendered text -/

def NoSpEq (s : Str) : Prop := ∀ c ∈ s, isSpace c = false ∧ c ≠ '='

theorem NoSpEq.of_clean {s : Str} (h : Clean s) : NoSpEq s := fun c hc => ⟨(h c hc).1, (h c hc).2.1⟩

theorem NoSpEq.append {a b : Str} (ha : NoSpEq a) (hb : NoSpEq b) : NoSpEq (a ++ b) := by
  intro c hc
  rcases List.mem_append.mp hc with h | h
  · exact ha c h
  · exact hb c h

theorem noSpEq_offset (o : Option Nat) : NoSpEq (offsetText o) := by
  cases o with
  | none => intro c hc; cases hc
  | some n =>
    intro c hc
    rcases List.mem_cons.mp hc with h | h
    · subst h; exact ⟨by decide, by decide⟩
    · exact NoSpEq.of_clean (clean_decimal n) c h

/-- the value part of a write: `(<TYPE>)<v>,<v>...` -/
def rhsText (w : WriteSpec) : Str := '(' :: w.ty.name ++ ')' :: valuesText w.vals

theorem valueChars_facts : ∀ c ∈ ',' :: numChars,
    isSpace c = false ∧ c ≠ '.' ∧ c ≠ ')' ∧ c ≠ '(' := by decide

theorem rhs_chars (w : WriteSpec) (hn : ∀ c ∈ w.ty.name, isAlnum c = true) :
    ∀ c ∈ rhsText w, isSpace c = false ∧ c ≠ '.' := by
  intro c hc
  simp only [rhsText, List.mem_cons, List.mem_append] at hc
  rcases hc with (h | h) | (h | h)
  · subst h; exact ⟨by decide, by decide⟩
  · have hp := alnum_not_special c (hn c h)
    refine ⟨?_, ?_⟩
    · cases hsp : isSpace c with
      | false => rfl
      | true => rw [special_of_space c hsp] at hp; cases hp
    · intro he; subst he; revert hp; decide
  · subst h; exact ⟨by decide, by decide⟩
  · have := valueChars_facts c (by
      rcases valuesText_chars w.vals c h with h' | h'
      · subst h'; simp
      · simp [h'])
    exact ⟨this.1, this.2.1⟩

theorem parseValues_rhs (types : List CipType) (fragment : Bool) (intType : Str) (op : OpD)
    (w : WriteSpec) (hint : (lookupType types (upper (strip intType))).isSome = true)
    (h1 : lookupType types w.ty.name = some w.ty) (h2 : upper w.ty.name = w.ty.name)
    (h3 : ∀ c ∈ w.ty.name, isAlnum c = true) (h4 : w.ty.kind = Kind.int w.lo w.hi)
    (h5 : ∀ v ∈ w.vals, w.lo ≤ v ∧ v ≤ w.hi) :
    parseValues types fragment intType op (rhsText w)
      = checkCounts fragment w.ty.size
          { op with tagType := some w.ty.tagType, data := some (w.vals.map Val.int) }
          w.vals.length := by
  have hch := rhs_chars w h3
  have hnotmem : '.' ∉ rhsText w := fun hm => (hch '.' hm).2 rfl
  obtain ⟨ty0, hty0⟩ := Option.isSome_iff_exists.mp hint
  have hdef : defaultType types intType (rhsText w) = Except.ok ty0 := by
    simp [defaultType, hnotmem, hty0]
  have hstrip : strip (rhsText w) = rhsText w := strip_plain _ (fun c hc => (hch c hc).1)
  have hnamesp : ∀ c ∈ w.ty.name, isSpace c = false := by
    intro c hc
    have hp := alnum_not_special c (h3 c hc)
    cases hsp : isSpace c with
    | false => rfl
    | true => rw [special_of_space c hsp] at hp; cases hp
  have hclose : ')' ∉ '(' :: w.ty.name := by
    intro hm
    rcases List.mem_cons.mp hm with h | h
    · revert h; decide
    · have hp := alnum_not_special _ (h3 _ h); revert hp; decide
  have hsplit : splitFirst ')' (rhsText w) = some ('(' :: w.ty.name, valuesText w.vals) := by
    have := splitFirst_append ')' ('(' :: w.ty.name) (valuesText w.vals) hclose
    simpa [rhsText] using this
  have hopen : splitFirst '(' ('(' :: w.ty.name) = some ([], w.ty.name) := by
    simp [splitFirst]
  have hcast : castSplit types ty0 (rhsText w) = Except.ok (w.ty, valuesText w.vals) := by
    have hst : startsWith (strip (rhsText w)) '(' = true := by rw [hstrip]; rfl
    have hcon : (rhsText w).contains ')' = true := by simp [rhsText]
    simp only [castSplit, hst, hcon, Bool.and_self, if_true, hsplit, hopen,
      strip_plain _ hnamesp, h2, h1]
  simp only [parseValues, hdef, hcast, csvRow_values, h4, mapExcept_castVal w.lo w.hi w.vals h5,
    List.length_map]

theorem splitEq_spec (s : OpSpec) (hb : s.body.OpOk)
    (hn : ∀ w, s.write = some w → ∀ c ∈ w.ty.name, isAlnum c = true) :
    splitEq s.text
      = (s.body.text ++ s.place.text ++ offsetText s.offset,
         (match s.write with
          | some w => rhsText w
          | none => []), s.write.isSome) := by
  have hL : NoSpEq (s.body.text ++ s.place.text ++ offsetText s.offset) :=
    NoSpEq.append (NoSpEq.of_clean (Clean.append (clean_body s.body hb) (clean_place s.place)))
      (noSpEq_offset s.offset)
  have hnoeq : '=' ∉ s.body.text ++ s.place.text ++ offsetText s.offset :=
    fun hm => (hL '=' hm).2 rfl
  have hstripL := strip_plain _ (fun c hc => (hL c hc).1)
  unfold splitEq OpSpec.text
  cases hw : s.write with
  | none =>
    simp only [writeText, List.append_nil, splitFirst_none _ _ hnoeq, Option.isSome_none]
  | some w =>
    have hR := rhs_chars w (hn w hw)
    have : splitFirst '=' (s.body.text ++ s.place.text ++ offsetText s.offset ++ writeText (some w))
        = some (s.body.text ++ s.place.text ++ offsetText s.offset, rhsText w) := by
      simpa [writeText, rhsText] using splitFirst_append '=' _ (rhsText w) hnoeq
    simp only [this, hstripL, strip_plain _ (fun c hc => (hR c hc).1), Option.isSome_some]

theorem splitOff_spec (s : OpSpec) (hb : s.body.OpOk) :
    splitOff (s.body.text ++ s.place.text ++ offsetText s.offset)
      = Except.ok (s.body.text ++ s.place.text, s.offset.map fun o => (o : Int)) := by
  have hP : Clean (s.body.text ++ s.place.text) := Clean.append (clean_body s.body hb) (clean_place s.place)
  unfold splitOff
  cases ho : s.offset with
  | none =>
    simp only [offsetText, List.append_nil, splitFirst_none _ _ hP.noPlus]
    rfl
  | some o =>
    have hd := clean_decimal o
    simp only [offsetText, splitFirst_append _ _ _ hP.noPlus, hd.strip, hP.strip, decimal_ne_nil o,
      if_false, pyInt10_decimal]
    rfl

/-- **A textual operation description denotes exactly the operation it spells.** -/
theorem parseOperation_spells (types : List CipType) (fragment : Bool) (intType : Str) (s : OpSpec)
    (hs : s.Ok types fragment intType) :
    parseOperation types fragment intType s.text = Except.ok (s.denote fragment) := by
  obtain ⟨hb, hp, hw⟩ := hs
  have hname : ∀ w, s.write = some w → ∀ c ∈ w.ty.name, isAlnum c = true :=
    fun w h => (hw w h).2.2.2.1
  have hpath : parsePathElements (s.body.text ++ s.place.text) none none
      = Except.ok (withElem s.body.segs s.place.E, s.place.E, s.place.C) :=
    parse_body_tail s.body hb.ok s.place.text (place_no_dot s.place) _ _ (place_tail s.place hp)
  unfold parseOperation
  rw [splitEq_spec s hb hname]
  simp only [splitOff_spec s hb, hpath]
  cases hwr : s.write with
  | none =>
    simp [OpSpec.denote, OpSpec.elements, hwr]
  | some w =>
    obtain ⟨hint, h1, h2, h3, h4, h5, h6⟩ := hw w hwr
    have hne : rhsText w ≠ [] := by simp [rhsText]
    simp only [hne, if_false]
    rw [parseValues_rhs types fragment intType _ w hint h1 h2 h3 h4 h5]
    rw [checkCounts_ok fragment s.offset s.place.C w types ⟨h1, h2, h3, h4, h5, h6⟩ _ rfl rfl]
    simp [OpSpec.denote, OpSpec.elements, hwr]

end Cpppo.Client
