import Cpppo.Proofs.Epath
/-! The server's request parsers invert the reference request encoders (tag services, bundle). -/
namespace Cpppo.Interop
open Cpppo Cpppo.Logix Cpppo.Fields

/-- write requests carry whole elements of a known type (what `typed_data` accepts) -/
def WFSimple : Simple → Bool
  | .writeTag _ ty _ data => Srv.typedOk ty data
  | .writeFrag _ ty _ _ data => Srv.typedOk ty data
  | _ => true

theorem parseSimple_encSimple (s : Simple) (b : Bytes) (h : Ref.encSimple s = some b) (hw : WFSimple s = true) :
    Srv.parseSimple b = some s := by
  cases s with
  | readTag p n =>
    simp only [Ref.encSimple] at h
    split at h
    · rename_i e he
      split at h
      · rename_i hn
        simp only [Option.some.injEq] at h; subst h
        obtain ⟨segs, hp, hs⟩ := parseEpath_encEpath p e (Bytes.le 2 n) he
        have hn2 : n < 256 ^ 2 := by omega
        simp [Srv.parseSimple, hp, hs, Generated.svcReadTag, u_le' 2 n hn2]
      · simp at h
    · simp at h
  | readFrag p n off =>
    simp only [Ref.encSimple] at h
    split at h
    · rename_i e he
      split at h
      · rename_i hn
        simp only [Option.some.injEq] at h; subst h
        obtain ⟨segs, hp, hs⟩ := parseEpath_encEpath p e (Bytes.le 2 n ++ Bytes.le 4 off) he
        have hn2 : n < 256 ^ 2 := by omega
        have ho : off < 256 ^ 4 := by omega
        simp [Srv.parseSimple, hp, hs, Generated.svcReadTag, Generated.svcReadFrag, u_le 2 n _ hn2, u_le' 4 off ho]
      · simp at h
    · simp at h
  | writeTag p ty n data =>
    simp only [Ref.encSimple] at h
    split at h
    · rename_i e he
      split at h
      · rename_i hn
        simp only [Option.some.injEq] at h; subst h
        obtain ⟨segs, hp, hs⟩ := parseEpath_encEpath p e (Bytes.le 2 ty ++ (Bytes.le 2 n ++ data)) he
        have hn2 : n < 256 ^ 2 := by omega
        have ht : ty < 256 ^ 2 := by omega
        simp only [WFSimple] at hw
        simp [Srv.parseSimple, hp, hs, Generated.svcReadTag, Generated.svcReadFrag, Generated.svcWriteTag,
          u_le 2 ty _ ht, u_le 2 n _ hn2, hw]
      · simp at h
    · simp at h
  | writeFrag p ty n off data =>
    simp only [Ref.encSimple] at h
    split at h
    · rename_i e he
      split at h
      · rename_i hn
        simp only [Option.some.injEq] at h; subst h
        obtain ⟨segs, hp, hs⟩ := parseEpath_encEpath p e (Bytes.le 2 ty ++ (Bytes.le 2 n ++ (Bytes.le 4 off ++ data))) he
        have hn2 : n < 256 ^ 2 := by omega
        have ht : ty < 256 ^ 2 := by omega
        have ho : off < 256 ^ 4 := by omega
        simp only [WFSimple] at hw
        simp [Srv.parseSimple, hp, hs, Generated.svcReadTag, Generated.svcReadFrag, Generated.svcWriteTag,
          Generated.svcWriteFrag, u_le 2 ty _ ht, u_le 2 n _ hn2, u_le 4 off _ ho, hw]
      · simp at h
    · simp at h
  | getAttrSingle p => simp [Ref.encSimple] at h
  | setAttrSingle p d => simp [Ref.encSimple] at h
  | getAttrAll p => simp [Ref.encSimple] at h

theorem encSimple_head {s : Simple} {b : Bytes} (h : Ref.encSimple s = some b) :
    ∃ svc r, b = svc :: r ∧ svc ≠ Generated.svcMultiple := by
  cases s <;> simp only [Ref.encSimple] at h
  all_goals first
    | (split at h
       · split at h
         · simp only [Option.some.injEq] at h; subst h
           exact ⟨_, _, rfl, by simp [Generated.svcMultiple]⟩
         · simp at h
       · simp at h)
    | simp at h

/-! ### the member table -/

theorem offsetsFrom_length (o : Nat) (ms : List Bytes) : (Ref.offsetsFrom o ms).length = ms.length := by
  induction ms generalizing o with
  | nil => rfl
  | cons m rest ih => simp [Ref.offsetsFrom, ih]

theorem offsetsFrom_bound (o : Nat) (ms : List Bytes) : ∀ x ∈ Ref.offsetsFrom o ms, x ≤ o + (ms.map List.length).sum := by
  induction ms generalizing o with
  | nil => simp [Ref.offsetsFrom]
  | cons m rest ih =>
    intro x hx
    simp only [Ref.offsetsFrom, List.mem_cons] at hx
    simp only [List.map_cons, List.sum_cons]
    rcases hx with rfl | hx
    · omega
    · have := ih (o + m.length) x hx; omega

theorem memberSlices_table (hdr : Nat) (ms : List Bytes) (pre : Bytes) :
    Srv.memberSlices (pre ++ ms.flatten) hdr (Ref.offsetsFrom (hdr + pre.length) ms) = ms.map some := by
  induction ms generalizing pre with
  | nil => rfl
  | cons m rest ih =>
    cases rest with
    | nil =>
      simp only [Ref.offsetsFrom, Srv.memberSlices, List.flatten_cons, List.flatten_nil, List.append_nil, List.map_cons,
        List.map_nil]
      have : ¬ hdr + pre.length < hdr := by omega
      rw [if_neg this]
      have : hdr + pre.length - hdr = pre.length := by omega
      rw [this]; simp
    | cons m' rest' =>
      have hrec := ih (pre ++ m)
      simp only [Ref.offsetsFrom, Srv.memberSlices, List.map_cons] at hrec ⊢
      have h1 : ¬ (hdr + pre.length < hdr ∨ hdr + pre.length + m.length < hdr) := by omega
      rw [if_neg h1]
      have h2 : hdr + pre.length - hdr = pre.length := by omega
      have h3 : hdr + pre.length + m.length - (hdr + pre.length) = m.length := by omega
      rw [h2, h3]
      congr 1
      · simp
      · have : hdr + (pre ++ m).length = hdr + pre.length + m.length := by simp; omega
        rw [this] at hrec
        simpa [List.append_assoc] using hrec

def WFSimples (l : List Simple) : Bool := l.all WFSimple

theorem encSimples_cons {s : Simple} {rest : List Simple} {ms : List Bytes}
    (h : Ref.encSimples (s :: rest) = some ms) :
    ∃ a ms', Ref.encSimple s = some a ∧ Ref.encSimples rest = some ms' ∧ ms = a :: ms' := by
  simp only [Ref.encSimples] at h
  split at h
  · rename_i a b ha hb
    simp only [Option.some.injEq] at h
    exact ⟨a, b, ha, hb, h.symm⟩
  · simp at h

theorem parsePrefix_members (ss : List Simple) (ms : List Bytes) (h : Ref.encSimples ss = some ms)
    (hw : WFSimples ss = true) : Srv.parsePrefix (ms.map some) = ss := by
  induction ss generalizing ms with
  | nil => simp [Ref.encSimples] at h; subst h; rfl
  | cons s rest ih =>
    obtain ⟨a, ms', ha, hb, rfl⟩ := encSimples_cons h
    simp only [WFSimples, List.all_cons, Bool.and_eq_true] at hw
    simp only [List.map_cons, Srv.parsePrefix, parseSimple_encSimple s a ha hw.1]
    congr 1
    exact ih ms' hb hw.2

/-- well-formed request: every write carries whole elements of a known type -/
def WFReq : Req → Bool
  | .simple s => WFSimple s
  | .multiple _ ss => WFSimples ss

/-- **Request round trip**: the server's object parser reads back exactly the request the reference
encoder wrote (tag services and Multiple Service Packets) -/
theorem parseCip_encReq (r : Req) (b : Bytes) (h : Ref.encReq r = some b) (hw : WFReq r = true) :
    Srv.parseCip b = some r := by
  cases r with
  | simple s =>
    simp only [Ref.encReq] at h
    obtain ⟨svc, r, rfl, hne⟩ := encSimple_head h
    simp only [Srv.parseCip, if_neg hne]
    rw [parseSimple_encSimple s _ h hw]; rfl
  | multiple p ss =>
    simp only [Ref.encReq] at h
    split at h
    · rename_i e ms he hms
      split at h
      · rename_i hlen
        simp only [Option.some.injEq] at h; subst h
        obtain ⟨segs, hp, hs⟩ := parseEpath_encEpath p e (Ref.encTable ms) he
        simp only [List.cons_append, List.nil_append, Srv.parseCip, Generated.svcMultiple, ↓reduceIte, Srv.parseMultiple, hp]
        unfold Ref.tableLen at hlen
        have hn : ms.length < 256 ^ 2 := by omega
        unfold Ref.encTable
        rw [List.append_assoc, u_le 2 ms.length _ hn]
        simp only
        have hoff : ∀ w ∈ Ref.offsetsFrom (2 + 2 * ms.length) ms, w < 65536 := by
          intro w hw'
          have := offsetsFrom_bound _ _ w hw'
          omega
        have hwl := words_le (Ref.offsetsFrom (2 + 2 * ms.length) ms) ms.flatten hoff
        rw [offsetsFrom_length] at hwl
        rw [hwl]
        simp only
        have hsl := memberSlices_table (2 + 2 * ms.length) ms []
        simp only [List.nil_append, List.length_nil, Nat.add_zero] at hsl
        rw [hsl, parsePrefix_members ss ms hms hw, hs]
      · simp at h
    · simp at h

end Cpppo.Interop
