import Cpppo.Model.Fields
/-! Round-trip lemmas for the fixed-width little-endian fields. -/
namespace Cpppo.Fields
open Cpppo

theorem le_length (k n : Nat) : (Bytes.le k n).length = k := by
  induction k generalizing n with
  | zero => rfl
  | succ k ih => simp [Bytes.le, ih]

theorem leNat_le (k n : Nat) (h : n < 256 ^ k) : Bytes.leNat (Bytes.le k n) = n := by
  induction k generalizing n with
  | zero => simp [Bytes.le, Bytes.leNat]; omega
  | succ k ih =>
    simp only [Bytes.le, Bytes.leNat]
    have : n / 256 < 256 ^ k := by
      rw [Nat.pow_succ] at h
      exact Nat.div_lt_of_lt_mul (by rw [Nat.mul_comm]; exact h)
    rw [ih _ this]
    omega

theorem le_wf (k n : Nat) : (Bytes.le k n).all (· < 256) = true := by
  induction k generalizing n with
  | zero => rfl
  | succ k ih =>
    simp only [Bytes.le, List.all_cons, ih, Bool.and_true, decide_eq_true_eq]
    omega

theorem take_append (k : Nat) (a rest : Bytes) (h : a.length = k) : take k (a ++ rest) = some (a, rest) := by
  unfold take
  have h1 : ¬ (a ++ rest).length < k := by simp [h]
  rw [if_neg h1]
  simp [← h]

theorem u_append (k : Nat) (a rest : Bytes) (h : a.length = k) : u k (a ++ rest) = some (Bytes.leNat a, rest) := by
  unfold u
  rw [take_append k a rest h]

theorem u_le (k n : Nat) (rest : Bytes) (h : n < 256 ^ k) : u k (Bytes.le k n ++ rest) = some (n, rest) := by
  rw [u_append k _ rest (le_length k n), leNat_le k n h]

theorem u_le' (k n : Nat) (h : n < 256 ^ k) : u k (Bytes.le k n) = some (n, []) := by
  have := u_le k n [] h
  simpa using this

theorem u1_cons (b : Nat) (rest : Bytes) : u 1 (b :: rest) = some (b, rest) := by
  simp [u, take, Bytes.leNat]

theorem words_le (ws : List Nat) (rest : Bytes) (h : ∀ w ∈ ws, w < 65536) :
    words ws.length ((ws.map (Bytes.le 2)).flatten ++ rest) = some (ws, rest) := by
  induction ws with
  | nil => simp [words]
  | cons w ws ih =>
    have hw : w < 256 ^ 2 := by have := h w (by simp); omega
    simp only [List.length_cons, List.map_cons, List.flatten_cons, List.append_assoc, words]
    rw [u_le 2 w _ hw]
    simp only
    rw [ih (fun x hx => h x (by simp [hx]))]

end Cpppo.Fields
