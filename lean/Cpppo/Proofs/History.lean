import Cpppo.Model.History

/-!
Specification-level definitions and lemmas for C18 (history replay).
-/
namespace Cpppo.History

/-! ### what a history holds -/

def lineTs : Line → Option Time
  | .recd t _ => some t
  | _ => none

/-- the timestamps of the records of a sequence of lines, in order -/
def tsOf (ls : List Line) : List Time := ls.filterMap lineTs

/-- the event a line stands for: a record with a non-empty register payload -/
def lineEvent : Line → Option Event
  | .recd t (.regs kv) => if kv.isEmpty then none else some (t, kv)
  | _ => none

def deliverable (ls : List Line) : List Event := ls.filterMap lineEvent

def firstTs0 (f : File) : Time :=
  match firstRecord f with
  | .ok t _ _ => t
  | _ => 0

/-- the file begins (after comments) with a parseable record whose payload is JSON -/
def FirstOk (f : File) : Prop :=
  match firstRecord f with
  | .ok _ p _ => p ≠ .bad
  | _ => False

instance (f : File) : Decidable (FirstOk f) := by
  unfold FirstOk; split <;> infer_instance

/-- all lines of a history, oldest file first -/
def chron (H : History) : List Line := H.reverse.flatten

/-- the hypothesis of the replay theorems -/
structure WF (H : History) : Prop where
  first_ok : ∀ f ∈ H, FirstOk f
  mono : (tsOf (chron H)).Pairwise (· ≤ ·)
  firsts : H.Pairwise (fun newer older => firstTs0 older < firstTs0 newer)

instance (H : History) : Decidable (WF H) :=
  if h : (∀ f ∈ H, FirstOk f) ∧ (tsOf (chron H)).Pairwise (· ≤ ·) ∧
      H.Pairwise (fun newer older => firstTs0 older < firstTs0 newer)
  then isTrue ⟨h.1, h.2.1, h.2.2⟩
  else isFalse fun w => h ⟨w.first_ok, w.mono, w.firsts⟩

/-! ### `firstRecord` -/

theorem tsOf_append (a b : List Line) : tsOf (a ++ b) = tsOf a ++ tsOf b := by
  simp [tsOf, List.filterMap_append]

theorem deliverable_append (a b : List Line) : deliverable (a ++ b) = deliverable a ++ deliverable b := by
  simp [deliverable, List.filterMap_append]

/-- a file whose first record parses is: comments, that record, the rest -/
theorem firstRecord_ok {f : File} {t : Time} {p : Payload} {rest : List Line}
    (h : firstRecord f = .ok t p rest) :
    ∃ pre, f = pre ++ .recd t p :: rest ∧ (∀ l ∈ pre, l = .comment) := by
  induction f with
  | nil => simp [firstRecord] at h
  | cons l ls ih =>
    cases l with
    | comment =>
      simp only [firstRecord] at h
      obtain ⟨pre, rfl, hp⟩ := ih h
      exact ⟨.comment :: pre, rfl, by simpa using hp⟩
    | corrupt => simp [firstRecord] at h
    | recd t' p' =>
      simp only [firstRecord, First.ok.injEq] at h
      obtain ⟨rfl, rfl, rfl⟩ := h
      exact ⟨[], rfl, by simp⟩

theorem tsOf_comments {pre : List Line} (h : ∀ l ∈ pre, l = .comment) : tsOf pre = [] := by
  induction pre with
  | nil => rfl
  | cons l ls ih =>
    have := h l (by simp)
    subst this
    simpa [tsOf, lineTs] using ih (fun l hl => h l (by simp [hl]))

theorem deliverable_comments {pre : List Line} (h : ∀ l ∈ pre, l = .comment) : deliverable pre = [] := by
  induction pre with
  | nil => rfl
  | cons l ls ih =>
    have := h l (by simp)
    subst this
    simpa [deliverable, lineEvent] using ih (fun l hl => h l (by simp [hl]))

theorem tsOf_file {f : File} {t : Time} {p : Payload} {rest : List Line}
    (h : firstRecord f = .ok t p rest) : tsOf f = t :: tsOf rest := by
  obtain ⟨pre, rfl, hp⟩ := firstRecord_ok h
  rw [tsOf_append, tsOf_comments hp]
  simp [tsOf, lineTs]

theorem deliverable_file {f : File} {t : Time} {p : Payload} {rest : List Line}
    (h : firstRecord f = .ok t p rest) : deliverable f = deliverable (.recd t p :: rest) := by
  obtain ⟨pre, rfl, hp⟩ := firstRecord_ok h
  rw [deliverable_append, deliverable_comments hp]
  rfl

theorem firstTs0_eq {f : File} {t : Time} {p : Payload} {rest : List Line}
    (h : firstRecord f = .ok t p rest) : firstTs0 f = t := by simp [firstTs0, h]

def firstP (f : File) : Payload :=
  match firstRecord f with
  | .ok _ p _ => p
  | _ => .skip

def firstRest (f : File) : List Line :=
  match firstRecord f with
  | .ok _ _ r => r
  | _ => []

/-- what `reader.open` keeps of a selected file: its first record and the lines after it -/
def openedOf (f : File) : Opened := ⟨firstTs0 f, firstP f, firstRest f⟩

theorem openedOf_eq {f : File} {t : Time} {p : Payload} {rest : List Line}
    (h : firstRecord f = .ok t p rest) : openedOf f = ⟨t, p, rest⟩ := by
  simp [openedOf, firstTs0, firstP, firstRest, h]

theorem FirstOk.ok {f : File} (h : FirstOk f) :
    ∃ p rest, firstRecord f = .ok (firstTs0 f) p rest ∧ p ≠ .bad := by
  unfold FirstOk at h
  unfold firstTs0
  split at h
  · rename_i t p rest heq
    exact ⟨p, rest, by simp [heq], h⟩
  · exact h.elim

/-! ### `scan`: which file `reader.open` selects -/

/-- after-mode: a file whose first record is not after the target ends the search -/
theorem scan_after_stop (target : Time) (strict : Bool) (pre : History) (f : File) (post : History)
    (last : Option Opened)
    (hf : ∀ t p rest, firstRecord f = .ok t p rest → afterOk strict target t = false)
    (hne : firstRecord f ≠ .bad) :
    scan target true strict (pre ++ f :: post) last = scan target true strict pre last := by
  induction pre generalizing last with
  | nil =>
    simp only [List.nil_append, scan]
    cases hfr : firstRecord f with
    | empty => rfl
    | bad => exact (hne hfr).elim
    | ok t p rest => simp [hf t p rest hfr]
  | cons g pre ih =>
    simp only [List.cons_append, scan]
    cases firstRecord g with
    | empty => rfl
    | bad => exact ih last
    | ok t p rest =>
      simp only [Bool.true_and, Bool.not_true, Bool.false_and]
      split
      · rfl
      · simp only [Bool.false_eq_true, ↓reduceIte]; exact ih _

/-- after-mode: when every file passes, the last one visited is selected -/
theorem scan_after_all (target : Time) (strict : Bool) (pre : History) (g : File) (last : Option Opened)
    {t : Time} {p : Payload} {rest : List Line}
    (hall : ∀ h ∈ pre, ∃ t p rest, firstRecord h = .ok t p rest ∧ afterOk strict target t = true)
    (hg : firstRecord g = .ok t p rest) (hok : afterOk strict target t = true) :
    scan target true strict (pre ++ [g]) last = some ⟨t, p, rest⟩ := by
  induction pre generalizing last with
  | nil => simp [scan, hg, hok]
  | cons h pre ih =>
    obtain ⟨t', p', rest', hh, hok'⟩ := hall h (by simp)
    simp only [List.cons_append, scan, hh, hok', Bool.not_true, Bool.and_false, Bool.false_eq_true,
      ↓reduceIte, Bool.false_and]
    exact ih _ (fun g' hg' => hall g' (by simp [hg']))

/-- where a replay begun at historical time `c` starts: (newer files, newest first; the start file;
the older files).  The start file is the newest one whose first record is not later than `c`, or the
oldest file when there is none. -/
def startSplit (c : Time) : History → Option (History × File × History)
  | [] => none
  | f :: older =>
    if firstTs0 f ≤ c ∨ older = [] then some ([], f, older)
    else (startSplit c older).map fun x => (f :: x.1, x.2.1, x.2.2)

theorem startSplit_spec {c : Time} {H pre post : History} {f : File}
    (h : startSplit c H = some (pre, f, post)) :
    H = pre ++ f :: post ∧ (∀ g ∈ pre, c < firstTs0 g) ∧ (firstTs0 f ≤ c ∨ post = []) := by
  induction H generalizing pre with
  | nil => simp [startSplit] at h
  | cons g older ih =>
    simp only [startSplit] at h
    split at h
    · rename_i hc
      simp only [Option.some.injEq, Prod.mk.injEq] at h
      obtain ⟨rfl, rfl, rfl⟩ := h
      exact ⟨rfl, by simp, hc⟩
    · rename_i hc
      simp only [Option.map_eq_some_iff] at h
      obtain ⟨⟨pre', f', post'⟩, hs, heq⟩ := h
      simp only [Prod.mk.injEq] at heq
      obtain ⟨rfl, rfl, rfl⟩ := heq
      obtain ⟨rfl, hpre, hf⟩ := ih hs
      refine ⟨rfl, ?_, hf⟩
      intro g' hg'
      simp only [List.mem_cons] at hg'
      rcases hg' with rfl | hg'
      · simp only [not_or] at hc; exact Nat.lt_of_not_le hc.1
      · exact hpre g' hg'

theorem startSplit_isSome {c : Time} {H : History} (h : H ≠ []) : (startSplit c H).isSome := by
  induction H with
  | nil => exact (h rfl).elim
  | cons g older ih =>
    simp only [startSplit]
    split
    · rfl
    · rename_i hc
      simp only [not_or] at hc
      simp [Option.isSome_map, ih hc.2]

/-- before-mode (the initial open): the start file is selected -/
theorem scan_before (c : Time) (H : History) (last : Option Opened) (hok : ∀ f ∈ H, FirstOk f) :
    scan c false false H last =
      match startSplit c H with
      | none => last
      | some (_, f, _) => some (openedOf f) := by
  induction H generalizing last with
  | nil => rfl
  | cons g older ih =>
    obtain ⟨p, rest, hg, _⟩ := (hok g (by simp)).ok
    simp only [scan, hg, Bool.false_and, Bool.false_eq_true, ↓reduceIte, Bool.not_false, Bool.true_and,
      beforeOk, startSplit]
    by_cases hc : firstTs0 g ≤ c
    · simp [hc, openedOf_eq hg]
    · simp only [hc, decide_false, Bool.false_eq_true, ↓reduceIte, false_or]
      rw [ih _ (fun f hf => hok f (by simp [hf]))]
      cases older with
      | nil => simp [startSplit, openedOf_eq hg]
      | cons g' older' =>
        have := startSplit_isSome (c := c) (H := g' :: older') (by simp)
        cases hs : startSplit c (g' :: older') with
        | none => simp [hs] at this
        | some x => simp

/-! ### the body of the loop, on the repaired code -/

theorem drain_none (cur : Time) (fut : List Event) (v : List (Nat × Time × Int)) (u : Option Time) :
    (drain none cur fut v u).1 = false := by
  induction fut generalizing v u with
  | nil => rfl
  | cons e fs ih =>
    simp only [drain, upcomingHit]
    split
    · simp only [Bool.false_eq_true, ↓reduceIte]; exact ih _ _
    · rfl

/-- `finish` touches only `future`, `values`, `until` (and EXHAUSTED -> COMPLETE) and no events -/
theorem finish_spec (a : LoadArgs) (cur : Time) (s : LState) (evs : List Event)
    (hst : s.st ≠ .exhausted) :
    ∃ fl s', finish a cur s evs = (fl, s', evs) ∧
      s'.st = s.st ∧ s'.gen = s.gen ∧ s'.fresh = s.fresh ∧ s'.ts = s.ts ∧ s'.strict = s.strict ∧
      (fl = .cont ∨ ∃ t, fl = .ret t) ∧ (a.limit = none → a.upcoming = none → fl = .cont) := by
  unfold finish
  cases hd : drain a.upcoming cur s.future s.values s.until_ with
  | mk b r =>
    obtain ⟨fut, v, u⟩ := r
    cases b with
    | true =>
      refine ⟨_, _, rfl, rfl, rfl, rfl, rfl, rfl, Or.inr ⟨_, rfl⟩, ?_⟩
      intro _ hu
      have := drain_none cur s.future s.values s.until_
      rw [hu] at hd; rw [hd] at this; simp at this
    | false =>
      simp only [hst, ↓reduceIte]
      split
      · rename_i h
        refine ⟨_, _, rfl, rfl, rfl, rfl, rfl, rfl, Or.inr ⟨_, rfl⟩, ?_⟩
        intro hl _
        rw [hl] at h; simp [limitHit] at h
      · exact ⟨_, _, rfl, rfl, rfl, rfl, rfl, rfl, Or.inl rfl, fun _ _ => rfl⟩

/-- the position bookkeeping of the loader inside the file whose first timestamp is `F0`:
either nothing of the file has been processed yet, or `_ts` is the last timestamp seen and the
re-open guard is still set exactly when that is still the first timestamp of the file -/
def Track (F0 : Time) (s : LState) : Prop :=
  (s.fresh = true ∧ s.strict = true ∧ tsLe s.ts F0 = true) ∨
  (s.fresh = false ∧ ∃ T, s.ts = some T ∧ F0 ≤ T ∧ (s.strict = true ↔ T = F0))

def FileState (s : LState) : Prop :=
  s.st = .initial ∨ s.st = .switching ∨ s.st = .awaiting ∨ s.st = .streaming

theorem stAfter_file {s : LState} (h : FileState s) : stAfter s.st = .streaming := by
  rcases h with h | h | h | h <;> simp [stAfter, h]

theorem seen_new (ts : Time) (s : LState) (F0 : Time)
    (hst : FileState s) (htr : Track F0 s) (hfirst : s.fresh = true → ts = F0)
    (hle : tsLe s.ts ts = true) :
    (seen .new ts s).st = .streaming ∧ (seen .new ts s).gen = s.gen ∧ (seen .new ts s).fresh = false ∧
    (seen .new ts s).ts = some ts ∧ ((seen .new ts s).strict = true ↔ ts = F0) ∧ F0 ≤ ts ∧
    (seen .new ts s).future = s.future ∧ (seen .new ts s).values = s.values ∧
    (seen .new ts s).until_ = s.until_ := by
  refine ⟨stAfter_file hst, rfl, rfl, by simp [seen, Fix.new, hle], ?_, ?_, rfl, rfl, rfl⟩
  · simp only [seen, strictAfter, Fix.new, ↓reduceIte]
    rcases htr with ⟨hf, hs, _⟩ | ⟨hf, T, hT, hFT, hiff⟩
    · simp [hf, hs, hfirst hf]
    · rw [hT] at hle
      simp only [tsLe, decide_eq_true_eq] at hle
      simp only [hf, hT, tsLt, Bool.not_false, Bool.and_true, Bool.and_eq_true, decide_eq_true_eq]
      by_cases hs : s.strict = true
      · have h1 := hiff.mp hs
        by_cases hlt : T < ts
        · simp only [hs, hlt, and_self, ↓reduceIte, Bool.false_eq_true, false_iff]
          intro h2; rw [h1, h2] at hlt; exact Nat.lt_irrefl _ hlt
        · simp only [hs, hlt, and_false, Bool.false_eq_true, ↓reduceIte, true_iff]
          rw [← h1]; exact Nat.le_antisymm (Nat.le_of_not_lt hlt) hle
      · have h1 := mt hiff.mpr hs
        simp only [hs, false_and, Bool.false_eq_true, ↓reduceIte, false_iff]
        intro h2; apply h1; rw [h2] at hle; exact Nat.le_antisymm hle hFT
  · rcases htr with ⟨hf, _, _⟩ | ⟨_, T, hT, hFT, _⟩
    · rw [hfirst hf]; exact Nat.le_refl _
    · rw [hT] at hle; simp only [tsLe, decide_eq_true_eq] at hle; exact Nat.le_trans hFT hle

/-- One record processed by the repaired code: its event (if it is one) is appended, `_ts` is its
timestamp, and the re-open guard is set exactly when that is still the file's first timestamp. -/
theorem procReal_new (a : LoadArgs) (ts : Time) (p : Payload) (cur : Time) (s : LState)
    (evs : List Event) (F0 : Time)
    (hst : FileState s) (hbad : ¬(p = .bad ∧ s.st = .initial))
    (htr : Track F0 s) (hfirst : s.fresh = true → ts = F0) (hle : tsLe s.ts ts = true) :
    ∃ fl s', procReal .new a ts p cur s evs = (fl, s', evs ++ (lineEvent (.recd ts p)).toList) ∧
      s'.st = .streaming ∧ s'.gen = s.gen ∧ s'.fresh = false ∧ s'.ts = some ts ∧
      (s'.strict = true ↔ ts = F0) ∧ F0 ≤ ts ∧
      (fl = .cont ∨ ∃ t, fl = .ret t) ∧ (a.limit = none → a.upcoming = none → fl = .cont) := by
  obtain ⟨h1, h2, h3, h4, h5, h6, _, _, _⟩ := seen_new ts s F0 hst htr hfirst hle
  unfold procReal
  simp only [hbad, ↓reduceIte]
  cases p with
  | skip => exact ⟨_, _, by simp [lineEvent], h1, h2, h3, h4, h5, h6, Or.inl rfl, fun _ _ => rfl⟩
  | bad => exact ⟨_, _, by simp [lineEvent], h1, h2, h3, h4, h5, h6, Or.inl rfl, fun _ _ => rfl⟩
  | regs kv =>
    simp only [lineEvent]
    by_cases hkv : kv.isEmpty = true
    · simp only [hkv, ↓reduceIte, Option.toList_none, List.append_nil]
      obtain ⟨fl, s', he, g1, g2, g3, g4, g5, g6, g7⟩ :=
        finish_spec a cur (seen .new ts s) evs (by rw [h1]; simp)
      exact ⟨fl, s', he, g1.trans h1, g2.trans h2, g3.trans h3, g4.trans h4, by rw [g5]; exact h5, h6, g6, g7⟩
    · simp only [hkv, Bool.false_eq_true, ↓reduceIte, deliverOk, Fix.new, hle, Option.toList_some]
      obtain ⟨fl, s', he, g1, g2, g3, g4, g5, g6, g7⟩ :=
        finish_spec a cur (enqueue ts kv (seen .new ts s)) (evs ++ [(ts, kv)]) (by simp [enqueue])
      exact ⟨fl, s', he, g1, g2.trans h2, g3.trans h3, g4, by rw [g5]; exact h5, h6, g6, g7⟩

/-! ### one record through the reader's gate -/

/-- a record beyond the clock (plus look-ahead) is announced, not delivered: AWAITING -/
theorem atRecord_wait (o : Opts) (a : LoadArgs) (ts : Time) (p : Payload) (rest : List Line)
    (cur adv : Time) (s : LState) (evs : List Event)
    (hadv : adv ≤ a.clock + o.la) (hnot : a.clock + o.la < ts) :
    atRecord o a ts p rest cur adv s evs =
      (⟨.brk, { s with st := .awaiting, gen := .file (some (ts, p)) rest a.clock (a.clock + o.la) },
        a.clock, evs⟩, a.clock, a.clock + o.la) := by
  have h1 : adv < ts := Nat.lt_of_le_of_lt hadv hnot
  simp [atRecord, h1, hnot]

/-- a record the clock (plus look-ahead) has reached goes through the body -/
theorem atRecord_due (o : Opts) (a : LoadArgs) (ts : Time) (p : Payload) (rest : List Line)
    (cur adv : Time) (s : LState) (evs : List Event) (F0 : Time) (hfix : o.fix = .new)
    (hadv : adv ≤ a.clock + o.la) (hdue : ts ≤ a.clock + o.la)
    (hst : FileState s) (hbad : ¬(p = .bad ∧ s.st = .initial))
    (htr : Track F0 s) (hfirst : s.fresh = true → ts = F0) (hle : tsLe s.ts ts = true) :
    ∃ fl s' cur' adv', atRecord o a ts p rest cur adv s evs =
        (⟨fl, s', cur', evs ++ (lineEvent (.recd ts p)).toList⟩, cur', adv') ∧
      adv' ≤ a.clock + o.la ∧
      s'.st = .streaming ∧ s'.gen = .file none rest cur' adv' ∧ s'.fresh = false ∧ s'.ts = some ts ∧
      (s'.strict = true ↔ ts = F0) ∧ F0 ≤ ts ∧
      (fl = .cont ∨ ∃ t, fl = .ret t) ∧ (a.limit = none → a.upcoming = none → fl = .cont) := by
  unfold atRecord
  by_cases h1 : adv < ts
  · simp only [h1, ↓reduceIte, Nat.not_lt.mpr hdue, hfix]
    obtain ⟨fl, s', he, g1, _, g3, g4, g5, g6, g7, g8⟩ :=
      procReal_new a ts p a.clock s evs F0 hst hbad htr hfirst hle
    rw [he]
    exact ⟨fl, _, _, _, rfl, Nat.le_refl _, g1, rfl, g3, g4, g5, g6, g7, g8⟩
  · simp only [h1, ↓reduceIte, hfix]
    obtain ⟨fl, s', he, g1, _, g3, g4, g5, g6, g7, g8⟩ :=
      procReal_new a ts p cur s evs F0 hst hbad htr hfirst hle
    rw [he]
    exact ⟨fl, _, _, _, rfl, hadv, g1, rfl, g3, g4, g5, g6, g7, g8⟩

/-! ### the lines of the current file -/

/-- at least one record of the current file (first timestamp `F0`) has been processed -/
def InFile (F0 : Time) (s : LState) : Prop :=
  s.fresh = false ∧ ∃ T, s.ts = some T ∧ F0 ≤ T ∧ (s.strict = true ↔ T = F0)

theorem InFile.track {F0 : Time} {s : LState} (h : InFile F0 s) : Track F0 s := Or.inr h

/-- how reading the lines of the current file ended -/
inductive Ended (o : Opts) (a : LoadArgs) (remaining : List Line) (out : ForOut) : Prop
  | finished : remaining = [] → out.flow = .cont → out.s.st = .streaming → Ended o a remaining out
  | waiting (ts : Time) (p : Payload) (tl : List Line) :
      remaining = .recd ts p :: tl → a.clock + o.la < ts → out.flow = .brk → out.s.st = .awaiting →
      out.s.gen = .file (some (ts, p)) tl a.clock (a.clock + o.la) → Ended o a remaining out
  | returned (t : Option Time) (cur' adv' : Time) :
      out.flow = .ret t → out.s.st = .streaming → out.s.gen = .file none remaining cur' adv' →
      adv' ≤ a.clock + o.la → ¬(a.limit = none ∧ a.upcoming = none) → Ended o a remaining out

theorem deliverable_cons (l : Line) (ls : List Line) :
    deliverable (l :: ls) = (lineEvent l).toList ++ deliverable ls := by
  cases h : lineEvent l <;> simp [deliverable, List.filterMap_cons, h]

theorem tsOf_cons_recd (t : Time) (p : Payload) (ls : List Line) : tsOf (.recd t p :: ls) = t :: tsOf ls := by
  simp [tsOf, lineTs]

theorem tsOf_cons_comment (ls : List Line) : tsOf (.comment :: ls) = tsOf ls := by
  simp [tsOf, List.filterMap_cons, lineTs]
theorem tsOf_cons_corrupt (ls : List Line) : tsOf (.corrupt :: ls) = tsOf ls := by
  simp [tsOf, List.filterMap_cons, lineTs]

/-- Reading on in the current file (`beyond` = the lines of the later files): a prefix of its lines is
consumed, all of it due, its events are delivered in order, and the loader stops at the end of the
file, at a record that is not yet due, or (only with `limit` / `upcoming`) after a record. -/
theorem runLines_spec (o : Opts) (a : LoadArgs) (hfix : o.fix = .new) (F0 : Time) (beyond : List Line)
    (ls : List Line) :
    ∀ (cur adv : Time) (s : LState) (lc : Time) (evs : List Event),
    adv ≤ a.clock + o.la → s.st = .streaming → InFile F0 s →
    (tsOf (ls ++ beyond)).Pairwise (· ≤ ·) → (∀ t ∈ tsOf (ls ++ beyond), tsLe s.ts t = true) →
    ∃ consumed remaining, ls = consumed ++ remaining ∧
      (runLines o a ls cur adv s lc evs).evs = evs ++ deliverable consumed ∧
      (∀ t ∈ tsOf consumed, t ≤ a.clock + o.la) ∧
      InFile F0 (runLines o a ls cur adv s lc evs).s ∧
      (∀ t ∈ tsOf (remaining ++ beyond), tsLe (runLines o a ls cur adv s lc evs).s.ts t = true) ∧
      Ended o a remaining (runLines o a ls cur adv s lc evs) := by
  induction ls with
  | nil =>
    intro cur adv s lc evs _ hst hin _ hle
    exact ⟨[], [], rfl, by simp [runLines, deliverable], by simp [tsOf], by simpa [runLines, InFile] using hin,
      by simpa [runLines] using hle, .finished rfl rfl (by simpa [runLines] using hst)⟩
  | cons l ls ih =>
    intro cur adv s lc evs hadv hst hin hsorted hle
    cases l with
    | comment =>
      rw [List.cons_append, tsOf_cons_comment] at hsorted hle
      obtain ⟨c, r, hsplit, h1, h2, h3, h4, h5⟩ := ih cur adv s lc evs hadv hst hin hsorted hle
      refine ⟨.comment :: c, r, by simp [hsplit], ?_, by simpa [tsOf_cons_comment] using h2, ?_, ?_, ?_⟩
      · simpa [runLines, deliverable_cons, lineEvent] using h1
      · simpa [runLines] using h3
      · simpa [runLines] using h4
      · simpa [runLines] using h5
    | corrupt =>
      rw [List.cons_append, tsOf_cons_corrupt] at hsorted hle
      obtain ⟨c, r, hsplit, h1, h2, h3, h4, h5⟩ := ih cur adv s cur evs hadv hst hin hsorted hle
      have hrun : runLines o a (.corrupt :: ls) cur adv s lc evs = runLines o a ls cur adv s cur evs := by
        simp [runLines, hfix, Fix.new, hst]
      rw [hrun]
      exact ⟨.corrupt :: c, r, by simp [hsplit], by simpa [deliverable_cons, lineEvent] using h1,
        by simpa [tsOf_cons_corrupt] using h2, h3, h4, h5⟩
    | recd ts p =>
      rw [List.cons_append, tsOf_cons_recd] at hsorted hle
      have hts : tsLe s.ts ts = true := hle ts (by simp)
      by_cases hdue : ts ≤ a.clock + o.la
      · obtain ⟨fl, s', cur', adv', he, g0, g1, g2, g3, g4, g5, g6, g7, g8⟩ :=
          atRecord_due o a ts p ls cur adv s evs F0 hfix hadv hdue (Or.inr (Or.inr (Or.inr hst)))
            (by simp [hst]) hin.track (by simp [hin.1]) hts
        have hin' : InFile F0 s' := ⟨g3, ts, g4, g6, g5⟩
        have hle' : ∀ t ∈ tsOf (ls ++ beyond), tsLe s'.ts t = true := by
          intro t ht
          rw [g4]
          simp only [tsLe, decide_eq_true_eq]
          exact (List.pairwise_cons.mp hsorted).1 t ht
        rcases g7 with rfl | ⟨t, rfl⟩
        · have hrun : runLines o a (.recd ts p :: ls) cur adv s lc evs =
              runLines o a ls cur' adv' s' cur' (evs ++ (lineEvent (.recd ts p)).toList) := by
            simp [runLines, he]
          rw [hrun]
          obtain ⟨c, r, hsplit, h1, h2, h3, h4, h5⟩ :=
            ih cur' adv' s' cur' _ g0 g1 hin' (List.pairwise_cons.mp hsorted).2 hle'
          refine ⟨.recd ts p :: c, r, by simp [hsplit], ?_, ?_, h3, h4, h5⟩
          · rw [h1, deliverable_cons, List.append_assoc]
          · intro t ht
            rw [tsOf_cons_recd] at ht
            simp only [List.mem_cons] at ht
            rcases ht with rfl | ht
            · exact hdue
            · exact h2 t ht
        · have hrun : runLines o a (.recd ts p :: ls) cur adv s lc evs =
              ⟨.ret t, s', cur', evs ++ (lineEvent (.recd ts p)).toList⟩ := by
            simp [runLines, he]
          rw [hrun]
          have hd1 : deliverable [Line.recd ts p] = (lineEvent (.recd ts p)).toList := by
            rw [deliverable_cons]; simp [deliverable]
          have ht1 : tsOf [Line.recd ts p] = [ts] := by rw [tsOf_cons_recd]; simp [tsOf]
          refine ⟨[.recd ts p], ls, rfl, by rw [hd1], ?_, hin', hle',
            .returned t cur' adv' rfl g1 g2 g0 ?_⟩
          · intro t' ht'
            rw [ht1, List.mem_singleton] at ht'
            rw [ht']; exact hdue
          · intro ⟨hl, hu⟩
            have := g8 hl hu
            simp at this
      · have hnot : a.clock + o.la < ts := Nat.lt_of_not_le hdue
        have hrun : runLines o a (.recd ts p :: ls) cur adv s lc evs =
            ⟨.brk, { s with st := .awaiting, gen := .file (some (ts, p)) ls a.clock (a.clock + o.la) },
              a.clock, evs⟩ := by
          simp [runLines, atRecord_wait o a ts p ls cur adv s evs hadv hnot]
        rw [hrun]
        refine ⟨[], .recd ts p :: ls, rfl, by simp [deliverable], by simp [tsOf], hin, ?_,
          .waiting ts p ls rfl hnot rfl rfl rfl⟩
        intro t ht
        rw [List.cons_append, tsOf_cons_recd] at ht
        exact hle t ht

/-! ### resuming the generator of the current file -/

/-- the lines the suspended generator has not yielded yet -/
def genLines : Gen → List Line
  | .file (some (ts, p)) rest _ _ => .recd ts p :: rest
  | .file none rest _ _ => rest
  | _ => []

/-- Resuming (or starting) the generator of the current file: as `runLines_spec`, from wherever the
generator was suspended. -/
theorem runGen_spec (o : Opts) (a : LoadArgs) (hfix : o.fix = .new) (F0 : Time) (beyond : List Line)
    (s : LState) (lc : Time) (evs : List Event)
    (need : Option (Time × Payload)) (rest : List Line) (cur adv : Time)
    (hgen : s.gen = .file need rest cur adv) (hadv : adv ≤ a.clock + o.la) (htr : Track F0 s)
    (hsorted : (tsOf (genLines s.gen ++ beyond)).Pairwise (· ≤ ·))
    (hle : ∀ t ∈ tsOf (genLines s.gen ++ beyond), tsLe s.ts t = true)
    (hnone : need = none → s.st = .streaming ∧ s.fresh = false)
    (hsome : ∀ ts p, need = some (ts, p) →
      FileState s ∧ (s.fresh = true → ts = F0) ∧ ¬(p = .bad ∧ s.st = .initial)) :
    ∃ consumed remaining, genLines s.gen = consumed ++ remaining ∧
      (runGen o a s lc evs).evs = evs ++ deliverable consumed ∧
      (∀ t ∈ tsOf consumed, t ≤ a.clock + o.la) ∧
      Track F0 (runGen o a s lc evs).s ∧
      ((runGen o a s lc evs).s.st = .streaming → InFile F0 (runGen o a s lc evs).s) ∧
      ((runGen o a s lc evs).s.fresh = true → ∃ p tl, remaining = .recd F0 p :: tl) ∧
      (∀ t ∈ tsOf (remaining ++ beyond), tsLe (runGen o a s lc evs).s.ts t = true) ∧
      Ended o a remaining (runGen o a s lc evs) := by
  cases need with
  | none =>
    obtain ⟨hst, hfr⟩ := hnone rfl
    have hin : InFile F0 s := by
      rcases htr with ⟨h, _⟩ | h
      · rw [hfr] at h; simp at h
      · exact h
    have hrun : runGen o a s lc evs = runLines o a rest cur adv s lc evs := by
      simp [runGen, hgen]
    rw [hrun]
    rw [hgen] at hsorted hle ⊢
    simp only [genLines] at hsorted hle ⊢
    obtain ⟨c, r, hsplit, h1, h2, h3, h4, h5⟩ :=
      runLines_spec o a hfix F0 beyond rest cur adv s lc evs hadv hst hin hsorted hle
    exact ⟨c, r, hsplit, h1, h2, h3.track, fun _ => h3, fun h => by rw [h3.1] at h; simp at h, h4, h5⟩
  | some tp =>
    obtain ⟨ts, p⟩ := tp
    obtain ⟨hfs, hfirst, hbad⟩ := hsome ts p rfl
    rw [hgen] at hsorted hle ⊢
    simp only [genLines] at hsorted hle ⊢
    rw [List.cons_append, tsOf_cons_recd] at hsorted hle
    have hts : tsLe s.ts ts = true := hle ts (by simp)
    by_cases hdue : ts ≤ a.clock + o.la
    · obtain ⟨fl, s', cur', adv', he, g0, g1, g2, g3, g4, g5, g6, g7, g8⟩ :=
        atRecord_due o a ts p rest cur adv s evs F0 hfix hadv hdue hfs hbad htr hfirst hts
      have hin' : InFile F0 s' := ⟨g3, ts, g4, g6, g5⟩
      have hle' : ∀ t ∈ tsOf (rest ++ beyond), tsLe s'.ts t = true := by
        intro t ht
        rw [g4]
        simp only [tsLe, decide_eq_true_eq]
        exact (List.pairwise_cons.mp hsorted).1 t ht
      rcases g7 with rfl | ⟨t, rfl⟩
      · have hrun : runGen o a s lc evs =
            runLines o a rest cur' adv' s' cur' (evs ++ (lineEvent (.recd ts p)).toList) := by
          simp [runGen, hgen, he]
        rw [hrun]
        obtain ⟨c, r, hsplit, h1, h2, h3, h4, h5⟩ :=
          runLines_spec o a hfix F0 beyond rest cur' adv' s' cur' _ g0 g1 hin'
            (List.pairwise_cons.mp hsorted).2 hle'
        refine ⟨.recd ts p :: c, r, by simp [hsplit], ?_, ?_, h3.track, fun _ => h3,
          fun h => by rw [h3.1] at h; simp at h, h4, h5⟩
        · rw [h1, deliverable_cons, List.append_assoc]
        · intro t ht
          rw [tsOf_cons_recd] at ht
          simp only [List.mem_cons] at ht
          rcases ht with rfl | ht
          · exact hdue
          · exact h2 t ht
      · have hrun : runGen o a s lc evs =
            ⟨.ret t, s', cur', evs ++ (lineEvent (.recd ts p)).toList⟩ := by
          simp [runGen, hgen, he]
        rw [hrun]
        have hd1 : deliverable [Line.recd ts p] = (lineEvent (.recd ts p)).toList := by
          rw [deliverable_cons]; simp [deliverable]
        have ht1 : tsOf [Line.recd ts p] = [ts] := by rw [tsOf_cons_recd]; simp [tsOf]
        refine ⟨[.recd ts p], rest, rfl, by rw [hd1], ?_, hin'.track, fun _ => hin',
          fun h => by rw [g3] at h; simp at h, hle', .returned t cur' adv' rfl g1 g2 g0 ?_⟩
        · intro t' ht'
          rw [ht1, List.mem_singleton] at ht'
          rw [ht']; exact hdue
        · intro ⟨hl, hu⟩
          have := g8 hl hu
          simp at this
    · have hnot : a.clock + o.la < ts := Nat.lt_of_not_le hdue
      have hrun : runGen o a s lc evs =
          ⟨.brk, { s with st := .awaiting, gen := .file (some (ts, p)) rest a.clock (a.clock + o.la) },
            a.clock, evs⟩ := by
        simp [runGen, hgen, atRecord_wait o a ts p rest cur adv s evs hadv hnot]
      rw [hrun]
      refine ⟨[], .recd ts p :: rest, rfl, by simp [deliverable], by simp [tsOf], ?_, ?_, ?_, ?_,
        .waiting ts p rest rfl hnot rfl rfl rfl⟩
      · exact htr
      · intro h; simp at h
      · intro h
        have : ts = F0 := hfirst h
        exact ⟨p, rest, by rw [this]⟩
      · intro t ht
        rw [List.cons_append, tsOf_cons_recd] at ht
        exact hle t ht

/-! ### across files -/

/-- Where the loader stands in the history between two `load` calls; `todo` are the lines it has
not consumed yet, oldest first; `bound` bounds the reader's cached `adv`. -/
inductive Pos (H : History) (bound : Time) (s : LState) (todo : List Line) : Prop
  | inFile (later : List File) (f : File) (post : History)
      (need : Option (Time × Payload)) (rest : List Line) (cur adv : Time) :
      H = later.reverse ++ f :: post →
      s.gen = .file need rest cur adv → adv ≤ bound → Track (firstTs0 f) s →
      todo = genLines s.gen ++ later.flatten →
      (tsOf todo).Pairwise (· ≤ ·) → (∀ t ∈ tsOf todo, tsLe s.ts t = true) →
      (need = none → s.st = .streaming ∧ s.fresh = false) →
      (∀ ts p, need = some (ts, p) → s.st = .awaiting ∧ (s.fresh = true → ts = firstTs0 f)) →
      Pos H bound s todo
  | exhausted : todo = [] → (s.st = .exhausted ∨ s.st = .complete) → s.gen = .noop → Pos H bound s todo

theorem Pos.mono {H : History} {b b' : Time} {s : LState} {todo : List Line} (h : Pos H b s todo)
    (hb : b ≤ b') : Pos H b' s todo := by
  cases h with
  | inFile later f post need rest cur adv h1 h2 h3 h4 h5 h6 h7 h8 h9 =>
    exact .inFile later f post need rest cur adv h1 h2 (Nat.le_trans h3 hb) h4 h5 h6 h7 h8 h9
  | exhausted h1 h2 h3 => exact .exhausted h1 h2 h3

/-- nothing more can be delivered now: all is consumed, or the next line is a record not yet due -/
def Blocked (adv : Time) (remaining : List Line) : Prop :=
  remaining = [] ∨ ∃ ts p tl, remaining = .recd ts p :: tl ∧ adv < ts

/-- nothing more can be delivered now, and if that is because everything is consumed the loader knows it -/
def Settled (adv : Time) (s : LState) (remaining : List Line) : Prop :=
  (remaining = [] ∧ (s.st = .exhausted ∨ s.st = .complete)) ∨
  ∃ ts p tl, remaining = .recd ts p :: tl ∧ adv < ts

theorem Settled.blocked {adv : Time} {s : LState} {r : List Line} (h : Settled adv s r) : Blocked adv r := by
  rcases h with ⟨h, _⟩ | h
  · exact Or.inl h
  · exact Or.inr h

/-- what a `load` call (or the rest of one) achieves on the lines `todo` still to be consumed -/
def Achieves (H : History) (o : Opts) (a : LoadArgs) (evs : List Event) (todo : List Line)
    (out : LoadOut) : Prop :=
  ∃ consumed remaining t s', todo = consumed ++ remaining ∧
    out = .done t s' (evs ++ deliverable consumed) ∧
    (∀ t ∈ tsOf consumed, t ≤ a.clock + o.la) ∧
    Pos H (a.clock + o.la) s' remaining ∧
    (a.limit = none → a.upcoming = none → Settled (a.clock + o.la) s' remaining)

/-- the statement about going on after a finished file `f`, with the files `later` still to come -/
def LoopSpec (H : History) (o : Opts) (a : LoadArgs) (later : List File) : Prop :=
  ∀ (f : File) (post : History) (fuel : Nat) (s : LState) (lc : Time) (evs : List Event),
    H = later.reverse ++ f :: post → later.length + 1 ≤ fuel →
    s.st = .switching → InFile (firstTs0 f) s →
    (tsOf later.flatten).Pairwise (· ≤ ·) → (∀ t ∈ tsOf later.flatten, tsLe s.ts t = true) →
    Achieves H o a evs later.flatten (loadLoop H o a fuel s lc evs)

theorem afterFor_cont {r : ForOut} (hf : r.flow = .cont) (hst : r.s.st = .streaming) :
    afterFor r = { r.s with st := .switching } := by
  simp [afterFor, hf, hst]

theorem afterFor_brk {r : ForOut} (hf : r.flow = .brk) (hst : r.s.st = .awaiting) :
    afterFor r = r.s := by
  simp [afterFor, hf, hst]

/-- The generator of file `g` is resumed (or started: its first record is pending): the rest of this
pass of the loop, and the passes that follow. -/
theorem continue_spec (H : History) (o : Opts) (a : LoadArgs) (hfix : o.fix = .new)
    (later : List File) (hloop : LoopSpec H o a later)
    (g : File) (post : History) (fuel : Nat) (s1 : LState) (lc : Time) (evs : List Event)
    (need : Option (Time × Payload)) (rest : List Line) (cur adv : Time)
    (hH : H = later.reverse ++ g :: post) (hfuel : later.length + 1 ≤ fuel)
    (hgen : s1.gen = .file need rest cur adv) (hadv : adv ≤ a.clock + o.la)
    (htr : Track (firstTs0 g) s1)
    (hnone : need = none → s1.st = .streaming ∧ s1.fresh = false)
    (hsome : ∀ ts p, need = some (ts, p) →
      FileState s1 ∧ (s1.fresh = true → ts = firstTs0 g) ∧ ¬(p = .bad ∧ s1.st = .initial))
    (hsorted : (tsOf (genLines s1.gen ++ later.flatten)).Pairwise (· ≤ ·))
    (hle : ∀ t ∈ tsOf (genLines s1.gen ++ later.flatten), tsLe s1.ts t = true) :
    Achieves H o a evs (genLines s1.gen ++ later.flatten)
      (continueWith (loadLoop H o a fuel) (runGen o a s1 lc evs)) := by
  obtain ⟨c, r, hsplit, h1, h2, h3, h4, h5, h6, h7⟩ :=
    runGen_spec o a hfix (firstTs0 g) later.flatten s1 lc evs need rest cur adv hgen hadv
      htr hsorted hle hnone hsome
  cases h7 with
  | finished hr hflow hstr =>
    subst hr
    have hin := h4 hstr
    have hcw : continueWith (loadLoop H o a fuel) (runGen o a s1 lc evs) =
        loadLoop H o a fuel { (runGen o a s1 lc evs).s with st := .switching }
          (runGen o a s1 lc evs).cur (runGen o a s1 lc evs).evs := by
      simp [continueWith, hflow, afterFor_cont hflow hstr]
    rw [hcw, h1]
    have hs2 : InFile (firstTs0 g) { (runGen o a s1 lc evs).s with st := .switching } := hin
    obtain ⟨c', r', t, s', hsplit', hout, hdue', hpos, hblk⟩ :=
      hloop g post fuel _ (runGen o a s1 lc evs).cur (evs ++ deliverable c) hH hfuel rfl hs2
        (by
          rw [tsOf_append] at hsorted
          exact (List.pairwise_append.mp hsorted).2.1)
        (by simpa using h6)
    refine ⟨c ++ c', r', t, s', ?_, ?_, ?_, hpos, hblk⟩
    · rw [hsplit, hsplit']; simp
    · rw [hout, deliverable_append, List.append_assoc]
    · intro t ht
      rw [tsOf_append, List.mem_append] at ht
      rcases ht with ht | ht
      · exact h2 t ht
      · exact hdue' t ht
  | waiting ts p' tl hr hnot hflow hstw hg' =>
    have hcw : continueWith (loadLoop H o a fuel) (runGen o a s1 lc evs) =
        .done (some (runGen o a s1 lc evs).cur) (runGen o a s1 lc evs).s (runGen o a s1 lc evs).evs := by
      simp [continueWith, hflow, afterFor_brk hflow hstw, hstw]
    rw [hcw, h1]
    refine ⟨c, r ++ later.flatten, _, _, by rw [hsplit]; simp, rfl, h2, ?_, ?_⟩
    · refine .inFile later g post (some (ts, p')) tl a.clock (a.clock + o.la) hH hg' (Nat.le_refl _) h3 ?_ ?_ h6
        (by intro h; simp at h) ?_
      · rw [hg', hr]; rfl
      · rw [hsplit, List.append_assoc, tsOf_append] at hsorted
        exact (List.pairwise_append.mp hsorted).2.1
      · intro ts' p'' h
        simp only [Option.some.injEq, Prod.mk.injEq] at h
        obtain ⟨rfl, rfl⟩ := h
        refine ⟨hstw, fun hf => ?_⟩
        obtain ⟨p3, tl3, h3'⟩ := h5 hf
        rw [hr] at h3'
        simp only [List.cons.injEq, Line.recd.injEq] at h3'
        exact h3'.1.1
    · intro _ _
      exact Or.inr ⟨ts, p', tl ++ later.flatten, by rw [hr]; rfl, hnot⟩
  | returned t cur' adv' hflow hstr hg' hadv' hlim =>
    have hcw : continueWith (loadLoop H o a fuel) (runGen o a s1 lc evs) =
        .done t (runGen o a s1 lc evs).s (runGen o a s1 lc evs).evs := by
      simp [continueWith, hflow]
    rw [hcw, h1]
    have hin := h4 hstr
    refine ⟨c, r ++ later.flatten, _, _, by rw [hsplit]; simp, rfl, h2, ?_, ?_⟩
    · refine .inFile later g post none r cur' adv' hH hg' hadv' h3 ?_ ?_ h6
        (fun _ => ⟨hstr, hin.1⟩) (by intro ts p h; simp at h)
      · rw [hg']; rfl
      · rw [hsplit, List.append_assoc, tsOf_append] at hsorted
        exact (List.pairwise_append.mp hsorted).2.1
    · intro hl hu
      exact (hlim ⟨hl, hu⟩).elim

/-- A file `g` has just been opened (its first record is pending). -/
theorem opened_spec (H : History) (o : Opts) (a : LoadArgs) (hfix : o.fix = .new)
    (later : List File) (hloop : LoopSpec H o a later)
    (g : File) (post : History) (fuel : Nat) (s1 : LState) (lc : Time) (evs : List Event)
    (p : Payload) (rest : List Line)
    (hH : H = later.reverse ++ g :: post) (hfuel : later.length + 1 ≤ fuel)
    (hgen : s1.gen = .file (some (firstTs0 g, p)) rest a.clock (a.clock + o.la))
    (hfresh : s1.fresh = true) (hstrict : s1.strict = true) (hts : tsLe s1.ts (firstTs0 g) = true)
    (hst : s1.st = .initial ∨ s1.st = .switching) (hbad : ¬(p = .bad ∧ s1.st = .initial))
    (hsorted : (tsOf ((.recd (firstTs0 g) p :: rest) ++ later.flatten)).Pairwise (· ≤ ·))
    (hle : ∀ t ∈ tsOf ((.recd (firstTs0 g) p :: rest) ++ later.flatten), tsLe s1.ts t = true) :
    Achieves H o a evs ((.recd (firstTs0 g) p :: rest) ++ later.flatten)
      (continueWith (loadLoop H o a fuel) (runGen o a s1 lc evs)) := by
  have hfs : FileState s1 := by
    rcases hst with h | h
    · exact Or.inl h
    · exact Or.inr (Or.inl h)
  have hgl : genLines s1.gen = .recd (firstTs0 g) p :: rest := by rw [hgen]; rfl
  rw [← hgl]
  refine continue_spec H o a hfix later hloop g post fuel s1 lc evs _ rest _ _ hH hfuel hgen (Nat.le_refl _)
    (Or.inl ⟨hfresh, hstrict, hts⟩) (by intro h; simp at h) ?_ (by rw [hgl]; exact hsorted)
    (by rw [hgl]; exact hle)
  intro ts p' h
  simp only [Option.some.injEq, Prod.mk.injEq] at h
  obtain ⟨rfl, rfl⟩ := h
  exact ⟨hfs, fun _ => rfl, hbad⟩

theorem Achieves.comments {H : History} {o : Opts} {a : LoadArgs} {evs : List Event}
    {todo : List Line} {out : LoadOut} (cm : List Line) (hcm : ∀ l ∈ cm, l = .comment)
    (h : Achieves H o a evs todo out) : Achieves H o a evs (cm ++ todo) out := by
  obtain ⟨c, r, t, s', h1, h2, h3, h4, h5⟩ := h
  refine ⟨cm ++ c, r, t, s', by rw [h1, List.append_assoc], ?_, ?_, h4, h5⟩
  · rw [deliverable_append, deliverable_comments hcm]; exact h2
  · rw [tsOf_append, tsOf_comments hcm]; exact h3

theorem firstTs0_mem_tsOf {g : File} (h : FirstOk g) : firstTs0 g ∈ tsOf g := by
  obtain ⟨p, rest, hg, _⟩ := h.ok
  rw [tsOf_file hg]; simp

theorem tsOf_flatten_mem {g : File} {fs : List File} (hg : g ∈ fs) {t : Time} (ht : t ∈ tsOf g) :
    t ∈ tsOf fs.flatten := by
  induction fs with
  | nil => simp at hg
  | cons h fs ih =>
    rw [List.flatten_cons, tsOf_append, List.mem_append]
    simp only [List.mem_cons] at hg
    rcases hg with rfl | hg
    · exact Or.inl ht
    · exact Or.inr (ih hg)

/-- the finished file `f` is not selected again -/
theorem afterOk_self {F0 : Time} {s : LState} (hin : InFile F0 s) :
    afterOk s.strict (s.ts.getD 0) F0 = false := by
  obtain ⟨_, T, hT, hFT, hiff⟩ := hin
  rw [hT]
  simp only [afterOk, Option.getD_some]
  by_cases hs : s.strict = true
  · have := hiff.mp hs
    simp [hs, this]
  · have := mt hiff.mpr hs
    simp only [hs, Bool.false_eq_true, ↓reduceIte, decide_eq_false_iff_not, Nat.not_le]
    exact Nat.lt_of_le_of_ne hFT (Ne.symm this)

/-- **Going on after a finished file.**  The files still to come are opened one after the other,
oldest first, each exactly once, until a record is not yet due (or the history is exhausted). -/
theorem loop_spec (H : History) (o : Opts) (a : LoadArgs) (hfix : o.fix = .new) (hwf : WF H) :
    ∀ later, LoopSpec H o a later := by
  intro later
  induction later with
  | nil =>
    intro f post fuel s lc evs hH hfuel hst hin _ _
    obtain ⟨n, rfl⟩ : ∃ n, fuel = n + 1 := ⟨fuel - 1, by simp at hfuel; omega⟩
    have hf : FirstOk f := hwf.first_ok f (by rw [hH]; simp)
    obtain ⟨p, rest, hfr, _⟩ := hf.ok
    obtain ⟨_, T, hT, _, _⟩ := id hin
    have hself := afterOk_self hin
    rw [hT] at hself
    simp only [Option.getD_some] at hself
    have hscan : scan T true s.strict H none = none := by
      rw [hH]
      simp only [List.reverse_nil, List.nil_append]
      have := scan_after_stop T s.strict [] f post none
        (by intro t p' r' h; rw [hfr] at h; simp only [First.ok.injEq] at h; rw [← h.1]; exact hself)
        (by rw [hfr]; simp)
      simpa [scan] using this
    refine ⟨[], [], some lc, exhaustedState s, rfl, ?_, by simp [tsOf], .exhausted rfl (Or.inl rfl) rfl,
      fun _ _ => Or.inl ⟨rfl, Or.inl rfl⟩⟩
    have hb : (St.switching != St.initial) = true := rfl
    simp [loadLoop, hst, hT, hb, hscan, deliverable]
  | cons g later ih =>
    intro f post fuel s lc evs hH hfuel hst hin hsorted hle
    obtain ⟨n, rfl⟩ : ∃ n, fuel = n + 1 := ⟨fuel - 1, by simp at hfuel; omega⟩
    have hH' : H = later.reverse ++ g :: f :: post := by rw [hH]; simp
    have hf : FirstOk f := hwf.first_ok f (by rw [hH]; simp)
    have hg : FirstOk g := hwf.first_ok g (by rw [hH]; simp)
    obtain ⟨pf, restf, hfr, _⟩ := hf.ok
    obtain ⟨p, rest, hgr, _⟩ := hg.ok
    obtain ⟨_, T, hT, hFT, hiff⟩ := id hin
    have hself := afterOk_self hin
    rw [hT] at hself
    simp only [Option.getD_some] at hself
    -- every later file passes the test
    have hpass : ∀ h ∈ g :: later, afterOk s.strict T (firstTs0 h) = true := by
      intro h hh
      have hmem : h ∈ (g :: later).reverse := List.mem_reverse.mpr hh
      have hok : FirstOk h := hwf.first_ok h (by rw [hH]; exact List.mem_append_left _ hmem)
      by_cases hs : s.strict = true
      · have hTF := hiff.mp hs
        have hlt : firstTs0 f < firstTs0 h := by
          have := hwf.firsts
          rw [hH, List.pairwise_append] at this
          exact this.2.2 h hmem f (by simp)
        simp only [afterOk, hs, ↓reduceIte, decide_eq_true_eq]
        rw [hTF]; exact hlt
      · have := hle (firstTs0 h) (tsOf_flatten_mem hh (firstTs0_mem_tsOf hok))
        rw [hT] at this
        simpa [afterOk, hs, tsLe] using this
    have hscan : scan T true s.strict H none = some ⟨firstTs0 g, p, rest⟩ := by
      rw [hH]
      simp only [List.reverse_cons]
      rw [scan_after_stop T s.strict (later.reverse ++ [g]) f post none
        (by intro t p' r' h; rw [hfr] at h; simp only [First.ok.injEq] at h; rw [← h.1]; exact hself)
        (by rw [hfr]; simp)]
      refine scan_after_all T s.strict later.reverse g none ?_ hgr (hpass g (by simp))
      intro h hh
      have hmem : h ∈ g :: later := List.mem_cons_of_mem _ (List.mem_reverse.mp hh)
      have hok : FirstOk h := hwf.first_ok h (by
        rw [hH]; exact List.mem_append_left _ (List.mem_reverse.mpr hmem))
      obtain ⟨p', r', hhr, _⟩ := hok.ok
      exact ⟨_, _, _, hhr, hpass h hmem⟩
    have hstep : loadLoop H o a (n + 1) s lc evs =
        continueWith (loadLoop H o a n)
          (runGen o a (openedState o a ⟨firstTs0 g, p, rest⟩ s) lc evs) := by
      have hb : (St.switching != St.initial) = true := rfl
      simp [loadLoop, hst, hT, hb, hscan]
    rw [hstep]
    obtain ⟨cm, hgsplit, hcm⟩ := firstRecord_ok hgr
    have hts_eq : ∀ X, tsOf ((.recd (firstTs0 g) p :: rest) ++ X) = tsOf (g ++ X) := by
      intro X
      rw [tsOf_append, tsOf_append, tsOf_file hgr, tsOf_cons_recd]
    have hflat : (g :: later).flatten = cm ++ ((.recd (firstTs0 g) p :: rest) ++ later.flatten) := by
      rw [List.flatten_cons]
      conv => lhs; rw [hgsplit]
      simp
    rw [hflat]
    apply Achieves.comments cm hcm
    rw [List.flatten_cons] at hsorted hle
    have hs1st : (openedState o a ⟨firstTs0 g, p, rest⟩ s).st = .switching := hst
    have hs1ts : (openedState o a ⟨firstTs0 g, p, rest⟩ s).ts = s.ts := rfl
    have hG0 : tsLe s.ts (firstTs0 g) = true :=
      hle _ (by rw [tsOf_append, List.mem_append]; exact Or.inl (firstTs0_mem_tsOf hg))
    exact opened_spec H o a hfix later ih g (f :: post) n (openedState o a ⟨firstTs0 g, p, rest⟩ s) lc evs
      p rest hH' (by rw [List.length_cons] at hfuel; omega) rfl rfl rfl (by rw [hs1ts]; exact hG0)
      (Or.inr hs1st) (by rw [hs1st]; simp)
      (by rw [hts_eq]; exact hsorted) (by rw [hts_eq, hs1ts]; exact hle)

/-! ### one `load` call -/

/-- the lines a replay begun at historical time `c` goes through: the start file and all newer ones -/
def spanLines (H : History) (c : Time) : List Line :=
  match startSplit c H with
  | none => []
  | some (pre, f, _) => f ++ pre.reverse.flatten

theorem stAfter_exhausted : stAfter .exhausted = .exhausted := by simp [stAfter]

theorem finish_exhausted (a : LoadArgs) (cur : Time) (s : LState) (evs : List Event)
    (hst : s.st = .exhausted) :
    ∃ fl s', finish a cur s evs = (fl, s', evs) ∧ (fl = .brk ∨ ∃ t, fl = .ret t) ∧
      (s'.st = .exhausted ∨ s'.st = .complete) ∧ s'.gen = s.gen := by
  unfold finish
  cases hd : drain a.upcoming cur s.future s.values s.until_ with
  | mk b r =>
    obtain ⟨fut, v, u⟩ := r
    cases b with
    | true => exact ⟨_, _, rfl, Or.inr ⟨_, rfl⟩, Or.inl hst, rfl⟩
    | false =>
      simp only [hst, ↓reduceIte]
      by_cases hf : fut.isEmpty = true
      · exact ⟨_, _, rfl, Or.inl rfl, Or.inr (by simp [hf]), by simp [hf]⟩
      · exact ⟨_, _, rfl, Or.inl rfl, Or.inl (by simp [hf, hst]), by simp [hf]⟩

/-- once the history is exhausted a `load` delivers nothing and stays EXHAUSTED or becomes COMPLETE -/
theorem load_exhausted (H : History) (o : Opts) (a : LoadArgs) (s : LState)
    (hst : s.st = .exhausted) (hgen : s.gen = .noop) :
    ∃ t s', load H o a s = .done t s' [] ∧ (s'.st = .exhausted ∨ s'.st = .complete) ∧ s'.gen = .noop := by
  have hseen : (seen o.fix a.clock s).st = .exhausted := by simp [seen, hst, stAfter_exhausted]
  obtain ⟨fl, s', hfin, hfl, hst', hg'⟩ := finish_exhausted a a.clock (seen o.fix a.clock s) [] hseen
  have hg'' : s'.gen = .noop := by rw [hg']; exact hgen
  have hrun : runGen o a s a.clock [] = ⟨fl, s', a.clock, []⟩ := by
    simp [runGen, hgen, procReal, hst, hfin]
  have hload : load H o a s = continueWith (loadLoop H o a (openBudget H)) (runGen o a s a.clock []) := by
    simp [load, hst]
  rw [hload, hrun]
  rcases hfl with rfl | ⟨t, rfl⟩
  · refine ⟨some a.clock, s', ?_, hst', hg''⟩
    rcases hst' with h | h <;> simp [continueWith, afterFor, h]
  · exact ⟨t, s', by simp [continueWith], hst', hg''⟩

theorem load_complete (H : History) (o : Opts) (a : LoadArgs) (s : LState) (hst : s.st = .complete) :
    load H o a s = .done (some a.clock) s [] := by
  simp [load, hst]

theorem openBudget_ge (pre : History) (f : File) (post : History) :
    pre.reverse.length + 1 ≤ openBudget (pre ++ f :: post) := by
  simp [openBudget]; omega

/-- **A `load` call from any position reached by a replay.** -/
theorem load_spec (H : History) (o : Opts) (a : LoadArgs) (hfix : o.fix = .new) (hwf : WF H)
    (s : LState) (bound : Time) (todo : List Line) (hpos : Pos H bound s todo)
    (hb : bound ≤ a.clock + o.la) :
    Achieves H o a [] todo (load H o a s) := by
  cases hpos with
  | exhausted htodo hst hgen =>
    subst htodo
    rcases hst with hst | hst
    · obtain ⟨t, s', hl, hst', hg'⟩ := load_exhausted H o a s hst hgen
      exact ⟨[], [], t, s', rfl, by rw [hl]; rfl, by simp [tsOf], .exhausted rfl hst' hg',
        fun _ _ => Or.inl ⟨rfl, hst'⟩⟩
    · exact ⟨[], [], _, s, rfl, by rw [load_complete H o a s hst]; rfl, by simp [tsOf],
        .exhausted rfl (Or.inr hst) hgen, fun _ _ => Or.inl ⟨rfl, Or.inr hst⟩⟩
  | inFile later f post need rest cur adv hH hgen hadv htr htodo hsorted hle hnone hsome =>
    have hst : s.st = .streaming ∨ s.st = .awaiting := by
      cases need with
      | none => exact Or.inl (hnone rfl).1
      | some tp => exact Or.inr (hsome tp.1 tp.2 rfl).1
    have hload : load H o a s = continueWith (loadLoop H o a (openBudget H)) (runGen o a s a.clock []) := by
      rcases hst with h | h <;> simp [load, h]
    rw [hload, htodo]
    rw [htodo] at hsorted hle
    refine continue_spec H o a hfix later (loop_spec H o a hfix hwf later) f post _ s a.clock [] need rest
      cur adv hH ?_ hgen (Nat.le_trans hadv hb) htr hnone ?_ hsorted hle
    · rw [hH]
      have := openBudget_ge later.reverse f post
      simpa using this
    · intro ts p h
      obtain ⟨h1, h2⟩ := hsome ts p h
      exact ⟨Or.inr (Or.inr (Or.inl h1)), h2, by rw [h1]; simp⟩

theorem tsOf_suffix_sorted {a b : List Line} (h : (tsOf (a ++ b)).Pairwise (· ≤ ·)) :
    (tsOf b).Pairwise (· ≤ ·) := by
  rw [tsOf_append] at h
  exact (List.pairwise_append.mp h).2.1

/-- **The first `load` call**: the replay starts at the start file. -/
theorem start_spec (H : History) (o : Opts) (a : LoadArgs) (hfix : o.fix = .new) (hwf : WF H) :
    Achieves H o a [] (spanLines H a.clock) (load H o a {}) := by
  have hload : load H o a {} = loadLoop H o a (openBudget H) {} a.clock [] := by simp [load]
  rw [hload]
  unfold spanLines
  have hscan := scan_before a.clock H none hwf.first_ok
  cases hs : startSplit a.clock H with
  | none =>
    rw [hs] at hscan
    have : loadLoop H o a (openBudget H) {} a.clock [] = .done (some a.clock) (exhaustedState {}) [] := by
      simp only [openBudget]
      have hb : ((({} : LState).st) != St.initial) = false := rfl
      simp [loadLoop, hb, hscan]
    rw [this]
    exact ⟨[], [], _, _, rfl, rfl, by simp [tsOf], .exhausted rfl (Or.inl rfl) rfl,
      fun _ _ => Or.inl ⟨rfl, Or.inl rfl⟩⟩
  | some x =>
    obtain ⟨pre, f, post⟩ := x
    rw [hs] at hscan
    simp only at hscan ⊢
    obtain ⟨hH, _, _⟩ := startSplit_spec hs
    have hf : FirstOk f := hwf.first_ok f (by rw [hH]; simp)
    obtain ⟨p, rest, hfr, hp⟩ := hf.ok
    rw [openedOf_eq hfr] at hscan
    have hstep : loadLoop H o a (openBudget H) {} a.clock [] =
        continueWith (loadLoop H o a (3 * H.length + 2))
          (runGen o a (openedState o a ⟨firstTs0 f, p, rest⟩ {}) a.clock []) := by
      have hb : ((({} : LState).st) != St.initial) = false := rfl
      simp [openBudget, loadLoop, hb, hscan]
    rw [hstep]
    obtain ⟨cm, hfsplit, hcm⟩ := firstRecord_ok hfr
    have hts_eq : ∀ X, tsOf ((.recd (firstTs0 f) p :: rest) ++ X) = tsOf (f ++ X) := by
      intro X
      rw [tsOf_append, tsOf_append, tsOf_file hfr, tsOf_cons_recd]
    have hflat : f ++ pre.reverse.flatten = cm ++ ((.recd (firstTs0 f) p :: rest) ++ pre.reverse.flatten) := by
      conv => lhs; rw [hfsplit]
      simp
    rw [hflat]
    apply Achieves.comments cm hcm
    have hH' : H = pre.reverse.reverse ++ f :: post := by rw [hH]; simp
    have hmono : (tsOf (f ++ pre.reverse.flatten)).Pairwise (· ≤ ·) := by
      have := hwf.mono
      unfold chron at this
      rw [hH] at this
      simp only [List.reverse_append, List.reverse_cons, List.append_assoc, List.singleton_append,
        List.flatten_append, List.flatten_cons] at this
      exact tsOf_suffix_sorted this
    refine opened_spec H o a hfix pre.reverse (loop_spec H o a hfix hwf _) f post _
      (openedState o a ⟨firstTs0 f, p, rest⟩ {}) a.clock [] p rest hH' ?_ rfl rfl rfl rfl (Or.inl rfl)
      (by intro h; exact hp h.1) (by rw [hts_eq]; exact hmono) (by intro t _; rfl)
    rw [hH]
    simp only [List.length_reverse, List.length_append, List.length_cons]
    omega

/-! ### a schedule of `load` calls -/

def outEvents : LoadOut → List Event
  | .hang => []
  | .done _ _ e => e

/-- The trace of a replay over the lines `todo`: every call consumes a prefix of what is left, all of
it due, and delivers exactly its events; a call without `limit`/`upcoming` leaves nothing that is due. -/
def TraceOK (H : History) (o : Opts) : List LoadArgs → List Line → List LoadOut → Prop
  | [], _, outs => outs = []
  | a :: as, todo, outs =>
    ∃ c r t s' rest, outs = .done t s' (deliverable c) :: rest ∧ todo = c ++ r ∧
      (∀ x ∈ tsOf c, x ≤ a.clock + o.la) ∧ Pos H (a.clock + o.la) s' r ∧
      (a.limit = none → a.upcoming = none → Settled (a.clock + o.la) s' r) ∧ TraceOK H o as r rest

/-- clocks do not go back -/
def ClockMono (sched : List LoadArgs) : Prop := sched.Pairwise (fun x y => x.clock ≤ y.clock)

instance (sched : List LoadArgs) : Decidable (ClockMono sched) := by unfold ClockMono; infer_instance

theorem run_from (H : History) (o : Opts) (hfix : o.fix = .new) (hwf : WF H) (sched : List LoadArgs) :
    ∀ (s : LState) (bound : Time) (todo : List Line), Pos H bound s todo → ClockMono sched →
    (∀ a ∈ sched, bound ≤ a.clock + o.la) → TraceOK H o sched todo (runLoads H o sched s) := by
  induction sched with
  | nil => intro _ _ _ _ _ _; rfl
  | cons a as ih =>
    intro s bound todo hpos hmono hb
    obtain ⟨c, r, t, s', h1, h2, h3, h4, h5⟩ := load_spec H o a hfix hwf s bound todo hpos (hb a (by simp))
    rw [List.nil_append] at h2
    simp only [runLoads, h2]
    refine ⟨c, r, t, s', runLoads H o as s', rfl, h1, h3, h4, h5, ?_⟩
    refine ih s' _ r h4 (List.pairwise_cons.mp hmono).2 ?_
    intro a' ha'
    exact Nat.add_le_add_right ((List.pairwise_cons.mp hmono).1 a' ha') _

/-- **The trace of a whole replay** begun with a fresh loader. -/
theorem run_trace (H : History) (o : Opts) (hfix : o.fix = .new) (hwf : WF H) (a : LoadArgs)
    (as : List LoadArgs) (hmono : ClockMono (a :: as)) :
    TraceOK H o (a :: as) (spanLines H a.clock) (runLoads H o (a :: as) {}) := by
  obtain ⟨c, r, t, s', h1, h2, h3, h4, h5⟩ := start_spec H o a hfix hwf
  rw [List.nil_append] at h2
  simp only [runLoads, h2]
  refine ⟨c, r, t, s', runLoads H o as s', rfl, h1, h3, h4, h5, ?_⟩
  refine run_from H o hfix hwf as s' _ r h4 (List.pairwise_cons.mp hmono).2 ?_
  intro a' ha'
  exact Nat.add_le_add_right ((List.pairwise_cons.mp hmono).1 a' ha') _

/-- what a replay goes through is in timestamp order -/
theorem spanLines_sorted {H : History} (hwf : WF H) (c : Time) : (tsOf (spanLines H c)).Pairwise (· ≤ ·) := by
  unfold spanLines
  cases hs : startSplit c H with
  | none => simp [tsOf]
  | some x =>
    obtain ⟨pre, f, post⟩ := x
    obtain ⟨hH, _, _⟩ := startSplit_spec hs
    have := hwf.mono
    unfold chron at this
    rw [hH] at this
    simp only [List.reverse_append, List.reverse_cons, List.append_assoc, List.singleton_append,
      List.flatten_append, List.flatten_cons] at this
    exact tsOf_suffix_sorted this

/-! ### reading a trace -/

theorem mem_deliverable_ts {e : Event} {c : List Line} (h : e ∈ deliverable c) : e.1 ∈ tsOf c := by
  induction c with
  | nil => simp [deliverable] at h
  | cons l ls ih =>
    rw [deliverable_cons, List.mem_append] at h
    cases l with
    | comment =>
      rw [tsOf_cons_comment]
      rcases h with h | h
      · simp [lineEvent] at h
      · exact ih h
    | corrupt =>
      rw [tsOf_cons_corrupt]
      rcases h with h | h
      · simp [lineEvent] at h
      · exact ih h
    | recd t p =>
      rw [tsOf_cons_recd]
      rcases h with h | h
      · cases p with
        | regs kv =>
          simp only [lineEvent] at h
          split at h
          · simp at h
          · simp only [Option.toList_some, List.mem_singleton] at h
            rw [h]; simp
        | skip => simp [lineEvent] at h
        | bad => simp [lineEvent] at h
      · exact List.mem_cons_of_mem _ (ih h)

theorem trace_length {H : History} {o : Opts} {sched : List LoadArgs} {todo : List Line}
    {outs : List LoadOut} (h : TraceOK H o sched todo outs) :
    outs.length = sched.length ∧ ∀ out ∈ outs, out ≠ .hang := by
  induction sched generalizing todo outs with
  | nil => simp only [TraceOK] at h; subst h; simp
  | cons a as ih =>
    obtain ⟨c, r, t, s', rest, rfl, _, _, _, _, hrest⟩ := h
    obtain ⟨h1, h2⟩ := ih hrest
    refine ⟨by simp [h1], ?_⟩
    intro out hout
    simp only [List.mem_cons] at hout
    rcases hout with rfl | hout
    · simp
    · exact h2 out hout

/-- everything delivered, in order of delivery, is the events of a prefix of the lines -/
theorem trace_prefix {H : History} {o : Opts} {sched : List LoadArgs} {todo : List Line}
    {outs : List LoadOut} (h : TraceOK H o sched todo outs) :
    ∃ c r, todo = c ++ r ∧ (outs.map outEvents).flatten = deliverable c := by
  induction sched generalizing todo outs with
  | nil => simp only [TraceOK] at h; subst h; exact ⟨[], todo, rfl, rfl⟩
  | cons a as ih =>
    obtain ⟨c, r, t, s', rest, rfl, rfl, _, _, _, hrest⟩ := h
    obtain ⟨c', r', rfl, h2⟩ := ih hrest
    refine ⟨c ++ c', r', by simp, ?_⟩
    simp only [List.map_cons, List.flatten_cons, outEvents, h2, deliverable_append]

/-- what the `i`-th call delivers is due at that call -/
theorem trace_never_early {H : History} {o : Opts} {sched : List LoadArgs} {todo : List Line}
    {outs : List LoadOut} (h : TraceOK H o sched todo outs) (i : Nat) (a : LoadArgs) (out : LoadOut)
    (ha : sched[i]? = some a) (hout : outs[i]? = some out) :
    ∀ e ∈ outEvents out, e.1 ≤ a.clock + o.la := by
  induction sched generalizing todo outs i with
  | nil => simp at ha
  | cons a' as ih =>
    obtain ⟨c, r, t, s', rest, rfl, rfl, hdue, _, _, hrest⟩ := h
    cases i with
    | zero =>
      simp only [List.getElem?_cons_zero, Option.some.injEq] at ha hout
      subst ha hout
      intro e he
      exact hdue _ (mem_deliverable_ts he)
    | succ i =>
      simp only [List.getElem?_cons_succ] at ha hout
      exact ih hrest i ha hout

/-- after a call without `limit`/`upcoming` nothing that is due is left -/
theorem trace_not_late {H : History} {o : Opts} {sched : List LoadArgs} {todo : List Line}
    {outs : List LoadOut} (h : TraceOK H o sched todo outs)
    (hsorted : (tsOf todo).Pairwise (· ≤ ·)) (i : Nat) (a : LoadArgs)
    (ha : sched[i]? = some a) (hl : a.limit = none) (hu : a.upcoming = none) :
    ∃ c r, todo = c ++ r ∧ ((outs.take (i + 1)).map outEvents).flatten = deliverable c ∧
      ∀ x ∈ tsOf r, a.clock + o.la < x := by
  induction sched generalizing todo outs i with
  | nil => simp at ha
  | cons a' as ih =>
    obtain ⟨c, r, t, s', rest, rfl, rfl, hdue, _, hblk, hrest⟩ := h
    cases i with
    | zero =>
      simp only [List.getElem?_cons_zero, Option.some.injEq] at ha
      subst ha
      refine ⟨c, r, rfl, by simp [outEvents], ?_⟩
      rcases (hblk hl hu).blocked with rfl | ⟨ts, p, tl, rfl, hnot⟩
      · simp [tsOf]
      · intro x hx
        rw [tsOf_cons_recd] at hx
        simp only [List.mem_cons] at hx
        rcases hx with rfl | hx
        · exact hnot
        · have hs := tsOf_suffix_sorted hsorted
          rw [tsOf_cons_recd] at hs
          exact Nat.lt_of_lt_of_le hnot ((List.pairwise_cons.mp hs).1 x hx)
    | succ i =>
      simp only [List.getElem?_cons_succ] at ha
      obtain ⟨c', r', rfl, h2, h3⟩ := ih hrest (tsOf_suffix_sorted hsorted) i ha
      refine ⟨c ++ c', r', by simp, ?_, h3⟩
      simp only [List.take_succ_cons, List.map_cons, List.flatten_cons, outEvents, h2, deliverable_append]

/-- with a clock that does not go back: after a call without `limit`/`upcoming` exactly the lines
that are due have been consumed -/
theorem trace_on_time {H : History} {o : Opts} {sched : List LoadArgs} {todo : List Line}
    {outs : List LoadOut} (h : TraceOK H o sched todo outs) (hmono : ClockMono sched)
    (hsorted : (tsOf todo).Pairwise (· ≤ ·)) (i : Nat) (a : LoadArgs)
    (ha : sched[i]? = some a) (hl : a.limit = none) (hu : a.upcoming = none) :
    ∃ c r, todo = c ++ r ∧ ((outs.take (i + 1)).map outEvents).flatten = deliverable c ∧
      (∀ x ∈ tsOf c, x ≤ a.clock + o.la) ∧ ∀ x ∈ tsOf r, a.clock + o.la < x := by
  induction sched generalizing todo outs i with
  | nil => simp at ha
  | cons a' as ih =>
    cases i with
    | zero =>
      obtain ⟨c, r, t, s', rest, rfl, rfl, hdue, _, hblk, _⟩ := h
      simp only [List.getElem?_cons_zero, Option.some.injEq] at ha
      subst ha
      refine ⟨c, r, rfl, by simp [outEvents], hdue, ?_⟩
      rcases (hblk hl hu).blocked with rfl | ⟨ts, p, tl, rfl, hnot⟩
      · simp [tsOf]
      · intro x hx
        rw [tsOf_cons_recd] at hx
        simp only [List.mem_cons] at hx
        rcases hx with rfl | hx
        · exact hnot
        · have hs := tsOf_suffix_sorted hsorted
          rw [tsOf_cons_recd] at hs
          exact Nat.lt_of_lt_of_le hnot ((List.pairwise_cons.mp hs).1 x hx)
    | succ i =>
      obtain ⟨c0, r0, t, s', rest, rfl, rfl, hdue, _, _, hrest⟩ := h
      simp only [List.getElem?_cons_succ] at ha
      obtain ⟨c', r', rfl, h2, h3, h4⟩ :=
        ih hrest (List.pairwise_cons.mp hmono).2 (tsOf_suffix_sorted hsorted) i ha
      refine ⟨c0 ++ c', r', by simp, ?_, ?_, h4⟩
      · simp only [List.take_succ_cons, List.map_cons, List.flatten_cons, outEvents, h2, deliverable_append]
      · intro x hx
        rw [tsOf_append, List.mem_append] at hx
        rcases hx with hx | hx
        · have hc : a'.clock ≤ a.clock := (List.pairwise_cons.mp hmono).1 a (List.mem_of_getElem? ha)
          exact Nat.le_trans (hdue x hx) (Nat.add_le_add_right hc _)
        · exact h3 x hx

/-- the loader state after the last call -/
def lastState : List LoadOut → LState → LState
  | [], s => s
  | .hang :: rest, s => lastState rest s
  | .done _ s' _ :: rest, _ => lastState rest s'

/-- a replay that has reached EXHAUSTED or COMPLETE has consumed everything -/
theorem trace_exhausted {H : History} {o : Opts} {sched : List LoadArgs} {todo : List Line}
    {outs : List LoadOut} (h : TraceOK H o sched todo outs) (hne : sched ≠ []) (s0 : LState)
    (hst : (lastState outs s0).st = .exhausted ∨ (lastState outs s0).st = .complete) :
    (outs.map outEvents).flatten = deliverable todo := by
  induction sched generalizing todo outs s0 with
  | nil => exact (hne rfl).elim
  | cons a as ih =>
    obtain ⟨c, r, t, s', rest, rfl, rfl, _, hpos, _, hrest⟩ := h
    simp only [lastState] at hst
    cases as with
    | nil =>
      simp only [TraceOK] at hrest
      subst hrest
      simp only [lastState] at hst
      cases hpos with
      | exhausted hr _ _ => subst hr; simp [outEvents]
      | inFile later f post need rest' cur adv _ _ _ _ _ _ _ hnone hsome =>
        exfalso
        cases need with
        | none => have := (hnone rfl).1; rw [this] at hst; simp at hst
        | some tp => have := (hsome tp.1 tp.2 rfl).1; rw [this] at hst; simp at hst
    | cons a2 as2 =>
      have := ih hrest (by simp) s' hst
      simp only [List.map_cons, List.flatten_cons, outEvents, deliverable_append]
      rw [this]

/-! ### the register map: whatever is delivered is queued, and whatever is queued is absorbed in order

These lemmas hold for every variant of the code (`o.fix` arbitrary) and every history. -/

/-- the register map once everything queued in `future` has been absorbed -/
def pending (s : LState) : List (Nat × Time × Int) := s.future.foldl absorb s.values

/-- COMPLETE is only entered with an empty queue -/
def Good (s : LState) : Prop := s.st = .complete → s.future = []

/-- from `(s, evs)` to `(s', evs')`: the new events are exactly what was added to the queue or map -/
structure Step (s : LState) (evs : List Event) (s' : LState) (evs' : List Event) : Prop where
  evs : ∃ new, evs' = evs ++ new ∧ pending s' = new.foldl absorb (pending s) ∧
    ∀ e ∈ s'.future, e ∈ s.future ∨ e ∈ new
  good : Good s → Good s'

theorem Step.refl (s : LState) (evs : List Event) : Step s evs s evs :=
  ⟨⟨[], by simp, rfl, fun _ he => Or.inl he⟩, id⟩

theorem Step.trans {s1 s2 s3 : LState} {e1 e2 e3 : List Event} (h1 : Step s1 e1 s2 e2)
    (h2 : Step s2 e2 s3 e3) : Step s1 e1 s3 e3 := by
  obtain ⟨n1, rfl, p1, f1⟩ := h1.evs
  obtain ⟨n2, rfl, p2, f2⟩ := h2.evs
  refine ⟨⟨n1 ++ n2, by simp, by rw [p2, p1, List.foldl_append], ?_⟩, fun g => h2.good (h1.good g)⟩
  intro e he
  rcases f2 e he with h | h
  · rcases f1 e h with h' | h'
    · exact Or.inl h'
    · exact Or.inr (List.mem_append_left _ h')
  · exact Or.inr (List.mem_append_right _ h)

/-- a change of the bookkeeping fields only (never to COMPLETE) -/
theorem Step.fields {s s' : LState} (evs : List Event) (hf : s'.future = s.future)
    (hv : s'.values = s.values) (hst : s'.st = s.st ∨ s'.st ≠ .complete) : Step s evs s' evs := by
  refine ⟨⟨[], by simp, by simp [pending, hf, hv], fun e he => Or.inl (hf ▸ he)⟩, ?_⟩
  intro g hc
  rw [hf]
  rcases hst with h | h
  · exact g (h ▸ hc)
  · exact (h hc).elim

theorem drain_pending (up : Option Time) (cur : Time) (fut : List Event) :
    ∀ (v : List (Nat × Time × Int)) (u : Option Time),
    (drain up cur fut v u).2.1.foldl absorb (drain up cur fut v u).2.2.1 = fut.foldl absorb v := by
  induction fut with
  | nil => intro v u; rfl
  | cons e fs ih =>
    intro v u
    simp only [drain]
    split
    · split
      · rfl
      · rw [ih]; rfl
    · rfl

theorem drain_nil_of_nil (up : Option Time) (cur : Time) (v : List (Nat × Time × Int)) (u : Option Time) :
    (drain up cur [] v u).2.1 = [] := rfl

theorem drain_subset (up : Option Time) (cur : Time) (fut : List Event) :
    ∀ (v : List (Nat × Time × Int)) (u : Option Time), ∀ e ∈ (drain up cur fut v u).2.1, e ∈ fut := by
  induction fut with
  | nil => intro v u e he; simp [drain] at he
  | cons x fs ih =>
    intro v u e he
    simp only [drain] at he
    split at he
    · split at he
      · exact he
      · exact List.mem_cons_of_mem _ (ih _ _ e he)
    · exact he

theorem finish_step (a : LoadArgs) (cur : Time) (s : LState) (evs : List Event) :
    Step s evs (finish a cur s evs).2.1 (finish a cur s evs).2.2 := by
  have hp := drain_pending a.upcoming cur s.future s.values s.until_
  have hsub := drain_subset a.upcoming cur s.future s.values s.until_
  unfold finish
  cases hd : drain a.upcoming cur s.future s.values s.until_ with
  | mk b r =>
    obtain ⟨fut, v, u⟩ := r
    rw [hd] at hp hsub
    simp only at hp hsub
    have hgood : ∀ st', (st' = s.st ∨ (st' = .complete ∧ fut = [])) →
        Good s → Good { s with st := st', future := fut, values := v, until_ := u } := by
      intro st' hst' g hc
      simp only at hc ⊢
      rcases hst' with h | ⟨_, h⟩
      · have := g (h ▸ hc)
        have h2 := drain_nil_of_nil a.upcoming cur s.values s.until_
        rw [this] at hd
        rw [hd] at h2
        exact h2
      · exact h
    have hev : ∀ st', ∃ new, evs = evs ++ new ∧
        pending { s with st := st', future := fut, values := v, until_ := u } = new.foldl absorb (pending s) ∧
        ∀ e ∈ ({ s with st := st', future := fut, values := v, until_ := u } : LState).future,
          e ∈ s.future ∨ e ∈ new :=
      fun st' => ⟨[], by simp, by simpa [pending] using hp, fun e he => Or.inl (hsub e he)⟩
    cases b with
    | true => exact ⟨hev s.st, hgood s.st (Or.inl rfl)⟩
    | false =>
      simp only
      split
      · split
        · rename_i he
          have : fut = [] := by simpa using he
          exact ⟨hev .complete, hgood .complete (Or.inr ⟨rfl, this⟩)⟩
        · exact ⟨hev s.st, hgood s.st (Or.inl rfl)⟩
      · split
        · exact ⟨hev s.st, hgood s.st (Or.inl rfl)⟩
        · exact ⟨hev s.st, hgood s.st (Or.inl rfl)⟩

theorem stAfter_complete {st : St} (h : stAfter st = .complete) : st = .complete := by
  unfold stAfter at h
  split at h
  · simp at h
  · exact h

theorem seen_step (fx : Fix) (ts : Time) (s : LState) (evs : List Event) : Step s evs (seen fx ts s) evs := by
  refine ⟨⟨[], by simp, rfl, fun _ he => Or.inl he⟩, ?_⟩
  intro g hc
  exact g (stAfter_complete hc)

theorem procReal_step (fx : Fix) (a : LoadArgs) (ts : Time) (p : Payload) (cur : Time) (s : LState)
    (evs : List Event) :
    Step s evs (procReal fx a ts p cur s evs).2.1 (procReal fx a ts p cur s evs).2.2 := by
  unfold procReal
  split
  · exact Step.refl s evs
  · cases p with
    | skip => exact seen_step fx ts s evs
    | bad => exact seen_step fx ts s evs
    | regs kv =>
      simp only
      split
      · exact (seen_step fx ts s evs).trans (finish_step a cur _ evs)
      · split
        · refine (seen_step fx ts s evs).trans (Step.trans ?_ (finish_step a cur _ _))
          refine ⟨⟨[(ts, kv)], rfl, ?_, ?_⟩, ?_⟩
          · simp [pending, enqueue, List.foldl_append]
          · intro e he
            simp only [enqueue, List.mem_append, List.mem_singleton] at he
            rcases he with he | he
            · exact Or.inl he
            · exact Or.inr (by simp [he])
          · intro _ hc; simp [enqueue] at hc
        · refine (seen_step fx ts s evs).trans (Step.trans ?_ (finish_step a cur _ _))
          exact Step.fields evs rfl rfl (Or.inr (by simp))

theorem atRecord_step (o : Opts) (a : LoadArgs) (ts : Time) (p : Payload) (rest : List Line)
    (cur adv : Time) (s : LState) (evs : List Event) :
    Step s evs (atRecord o a ts p rest cur adv s evs).1.s (atRecord o a ts p rest cur adv s evs).1.evs := by
  unfold atRecord
  by_cases h1 : adv < ts
  · by_cases h2 : a.clock + o.la < ts
    · simp only [h1, h2, ↓reduceIte]
      exact Step.fields evs rfl rfl (Or.inr (by simp))
    · simp only [h1, h2, ↓reduceIte]
      exact (procReal_step o.fix a ts p _ s evs).trans (Step.fields _ rfl rfl (Or.inl rfl))
  · simp only [h1, ↓reduceIte]
    exact (procReal_step o.fix a ts p _ s evs).trans (Step.fields _ rfl rfl (Or.inl rfl))

theorem runLines_step (o : Opts) (a : LoadArgs) (ls : List Line) :
    ∀ (cur adv : Time) (s : LState) (lc : Time) (evs : List Event),
    Step s evs (runLines o a ls cur adv s lc evs).s (runLines o a ls cur adv s lc evs).evs := by
  induction ls with
  | nil => intro cur adv s lc evs; exact Step.fields evs rfl rfl (Or.inl rfl)
  | cons l ls ih =>
    intro cur adv s lc evs
    cases l with
    | comment => exact ih cur adv s lc evs
    | corrupt =>
      simp only [runLines]
      split
      · split
        · exact Step.refl s evs
        · exact ih cur adv s cur evs
      · exact Step.refl s evs
    | recd ts p =>
      simp only [runLines]
      have h1 := atRecord_step o a ts p ls cur adv s evs
      cases hat : atRecord o a ts p ls cur adv s evs with
      | mk out ca =>
        obtain ⟨cur', adv'⟩ := ca
        rw [hat] at h1
        simp only at h1 ⊢
        split
        · exact h1.trans (ih _ _ _ _ _)
        · exact h1

theorem runGen_step (o : Opts) (a : LoadArgs) (s : LState) (lc : Time) (evs : List Event) :
    Step s evs (runGen o a s lc evs).s (runGen o a s lc evs).evs := by
  unfold runGen
  split
  · exact Step.refl s evs
  · exact procReal_step o.fix a a.clock (.regs []) a.clock s evs
  · rename_i ts p rest cur adv _
    have h1 := atRecord_step o a ts p rest cur adv s evs
    cases hat : atRecord o a ts p rest cur adv s evs with
    | mk out ca =>
      obtain ⟨cur', adv'⟩ := ca
      rw [hat] at h1
      simp only at h1 ⊢
      split
      · exact h1.trans (runLines_step o a rest _ _ _ _ _)
      · exact h1
  · exact runLines_step o a _ _ _ s lc evs

/-- a finished `load` call, as a step -/
def DoneStep (s : LState) (evs : List Event) : LoadOut → Prop
  | .hang => True
  | .done _ s' evs' => Step s evs s' evs'

theorem afterFor_step (r : ForOut) : Step r.s r.evs (afterFor r) r.evs := by
  unfold afterFor
  split
  · exact Step.fields _ rfl rfl (Or.inr (by simp))
  · split
    · exact Step.fields _ rfl rfl (Or.inr (by simp))
    · exact Step.refl _ _

theorem continueWith_step (again : LState → Time → List Event → LoadOut) (s : LState) (evs : List Event)
    (r : ForOut) (hr : Step s evs r.s r.evs)
    (hagain : ∀ s2 lc e2, Step s evs s2 e2 → DoneStep s evs (again s2 lc e2)) :
    DoneStep s evs (continueWith again r) := by
  unfold continueWith
  split
  · exact hr
  · simp only
    split
    · exact hagain _ _ _ (hr.trans (afterFor_step r))
    · exact hr.trans (afterFor_step r)

theorem loadLoop_step (H : History) (o : Opts) (a : LoadArgs) (s0 : LState) (e0 : List Event) (fuel : Nat) :
    ∀ (s : LState) (lc : Time) (evs : List Event), Step s0 e0 s evs →
    DoneStep s0 e0 (loadLoop H o a fuel s lc evs) := by
  induction fuel with
  | zero => intro s lc evs _; trivial
  | succ n ih =>
    intro s lc evs hs
    simp only [loadLoop]
    split
    · exact hs.trans (Step.fields evs rfl rfl (Or.inr (by simp [exhaustedState])))
    · rename_i op _
      have h1 : Step s0 e0 (openedState o a op s) evs := hs.trans (Step.fields evs rfl rfl (Or.inl rfl))
      exact continueWith_step _ s0 e0 _ (h1.trans (runGen_step o a _ lc evs)) (fun s2 lc2 e2 h => ih s2 lc2 e2 h)

theorem load_step (H : History) (o : Opts) (a : LoadArgs) (s : LState) : DoneStep s [] (load H o a s) := by
  unfold load
  split
  · exact Step.refl s []
  · split
    · exact loadLoop_step H o a s [] _ s a.clock [] (Step.refl s [])
    · exact continueWith_step _ s [] _ (runGen_step o a s a.clock [])
        (fun s2 lc2 e2 h => loadLoop_step H o a s [] _ s2 lc2 e2 h)

/-- **Over a whole schedule**: the register map with the queue absorbed is the map obtained by
absorbing every delivered event in order of delivery; COMPLETE is only reached with an empty queue;
whatever is queued was queued before or has been delivered. -/
theorem runLoads_pending (H : History) (o : Opts) (sched : List LoadArgs) :
    ∀ s, Good s →
    pending (lastState (runLoads H o sched s) s) =
      ((runLoads H o sched s).map outEvents).flatten.foldl absorb (pending s) ∧
    Good (lastState (runLoads H o sched s) s) ∧
    ∀ e ∈ (lastState (runLoads H o sched s) s).future,
      e ∈ s.future ∨ e ∈ ((runLoads H o sched s).map outEvents).flatten := by
  induction sched with
  | nil => intro s g; exact ⟨rfl, g, fun _ he => Or.inl he⟩
  | cons a as ih =>
    intro s g
    have h1 := load_step H o a s
    simp only [runLoads]
    cases hl : load H o a s with
    | hang => exact ⟨rfl, g, fun _ he => Or.inl he⟩
    | done t s' evs =>
      rw [hl] at h1
      simp only [DoneStep] at h1
      obtain ⟨new, hnew, hp, hf⟩ := h1.evs
      simp only [List.nil_append] at hnew
      subst hnew
      obtain ⟨i1, i2, i3⟩ := ih s' (h1.good g)
      simp only [lastState, List.map_cons, List.flatten_cons, outEvents, List.foldl_append]
      refine ⟨by rw [i1, hp], i2, ?_⟩
      intro e he
      rcases i3 e he with h | h
      · rcases hf e h with h' | h'
        · exact Or.inl h'
        · exact Or.inr (List.mem_append_left _ h')
      · exact Or.inr (List.mem_append_right _ h)

/-! ### completion -/

theorem drain_all (cur : Time) (fut : List Event) :
    ∀ (v : List (Nat × Time × Int)) (u : Option Time), (∀ e ∈ fut, e.1 ≤ cur) →
    (drain none cur fut v u).1 = false ∧ (drain none cur fut v u).2.1 = [] := by
  induction fut with
  | nil => intro v u _; exact ⟨rfl, rfl⟩
  | cons e fs ih =>
    intro v u h
    have he : e.1 ≤ cur := h e (by simp)
    simp only [drain, he, ↓reduceIte, upcomingHit, Bool.false_eq_true]
    exact ih _ _ (fun e' he' => h e' (by simp [he']))

/-- an exhausted replay becomes COMPLETE at the first call (without `upcoming`) whose clock has
reached everything still queued -/
theorem load_exhausted_complete (H : History) (o : Opts) (a : LoadArgs) (s : LState)
    (hst : s.st = .exhausted ∨ s.st = .complete) (hgen : s.gen = .noop) (hu : a.upcoming = none)
    (hfut : ∀ e ∈ s.future, e.1 ≤ a.clock) :
    ∃ t s', load H o a s = .done t s' [] ∧ s'.st = .complete := by
  rcases hst with hst | hst
  · have hseen : (seen o.fix a.clock s).st = .exhausted := by simp [seen, hst, stAfter_exhausted]
    have hd := drain_all a.clock (seen o.fix a.clock s).future (seen o.fix a.clock s).values
      (seen o.fix a.clock s).until_ hfut
    have hfin : ∃ s', finish a a.clock (seen o.fix a.clock s) [] = (.brk, s', []) ∧ s'.st = .complete := by
      unfold finish
      rw [hu]
      cases hdr : drain none a.clock (seen o.fix a.clock s).future (seen o.fix a.clock s).values
          (seen o.fix a.clock s).until_ with
      | mk b r =>
        obtain ⟨fut, v, u⟩ := r
        rw [hdr] at hd
        simp only at hd
        obtain ⟨rfl, rfl⟩ := hd
        simp only [hseen, ↓reduceIte, List.isEmpty_nil]
        exact ⟨_, rfl, rfl⟩
    obtain ⟨s', hf, hs'⟩ := hfin
    have hrun : runGen o a s a.clock [] = ⟨.brk, s', a.clock, []⟩ := by
      simp [runGen, hgen, procReal, hst, hf]
    have hload : load H o a s = continueWith (loadLoop H o a (openBudget H)) (runGen o a s a.clock []) := by
      simp [load, hst]
    rw [hload, hrun]
    exact ⟨some a.clock, s', by simp [continueWith, afterFor, hs'], hs'⟩
  · exact ⟨_, s, load_complete H o a s hst, hst⟩

theorem runLoads_append (H : History) (o : Opts) (xs ys : List LoadArgs) :
    ∀ s, (∀ out ∈ runLoads H o xs s, out ≠ .hang) →
    runLoads H o (xs ++ ys) s = runLoads H o xs s ++ runLoads H o ys (lastState (runLoads H o xs s) s) := by
  induction xs with
  | nil => intro s _; rfl
  | cons a as ih =>
    intro s hne
    simp only [List.cons_append, runLoads] at hne ⊢
    cases hl : load H o a s with
    | hang => rw [hl] at hne; simp at hne
    | done t s' evs =>
      rw [hl] at hne
      simp only [List.mem_cons, ne_eq, forall_eq_or_imp] at hne
      simp only [List.cons_append, lastState]
      rw [ih s' hne.2]

theorem lastState_append_done (outs : List LoadOut) (t : Option Time) (s' : LState) (e : List Event)
    (s0 : LState) : lastState (outs ++ [.done t s' e]) s0 = s' := by
  induction outs generalizing s0 with
  | nil => rfl
  | cons o outs ih =>
    cases o with
    | hang => exact ih s0
    | done t1 s1 e1 => exact ih s1

/-- the position after the last call of a trace -/
theorem trace_last {H : History} {o : Opts} {xs : List LoadArgs} {b : LoadArgs} {todo : List Line}
    {outs : List LoadOut} (h : TraceOK H o (xs ++ [b]) todo outs) (s0 : LState) :
    ∃ c r, todo = c ++ r ∧ (outs.map outEvents).flatten = deliverable c ∧
      Pos H (b.clock + o.la) (lastState outs s0) r ∧
      (b.limit = none → b.upcoming = none → Settled (b.clock + o.la) (lastState outs s0) r) := by
  induction xs generalizing todo outs s0 with
  | nil =>
    obtain ⟨c, r, t, s', rest, rfl, rfl, _, hpos, hset, hrest⟩ := h
    simp only [TraceOK] at hrest
    subst hrest
    exact ⟨c, r, rfl, by simp [outEvents], hpos, hset⟩
  | cons a as ih =>
    obtain ⟨c, r, t, s', rest, rfl, rfl, _, _, _, hrest⟩ := h
    obtain ⟨c', r', rfl, h2, h3, h4⟩ := ih hrest s'
    exact ⟨c ++ c', r', by simp, by simp [outEvents, h2, deliverable_append], h3, h4⟩

/-! ### what the register map holds -/

def lookupReg (r : Nat) : List (Nat × Time × Int) → Option (Time × Int)
  | [] => none
  | (r', tv) :: rest => if r = r' then some tv else lookupReg r rest

/-- the value a payload gives to register `r` (the last one, should the key be repeated) -/
def lastKV (r : Nat) : Regs → Option Int
  | [] => none
  | (k, v) :: rest => match lastKV r rest with
    | some x => some x
    | none => if r = k then some v else none

/-- the last value logged for register `r` in a sequence of events, with the time of that event -/
def lastLogged (r : Nat) : List Event → Option (Time × Int)
  | [] => none
  | (t, kv) :: rest => match lastLogged r rest with
    | some x => some x
    | none => (lastKV r kv).map fun v => (t, v)

theorem lookupReg_setReg (r r' : Nat) (tv : Time × Int) (l : List (Nat × Time × Int)) :
    lookupReg r (setReg r' tv l) = if r = r' then some tv else lookupReg r l := by
  induction l with
  | nil => simp [setReg, lookupReg]
  | cons h rest ih =>
    obtain ⟨k, x⟩ := h
    simp only [setReg]
    split
    · simp [lookupReg]
    · split
      · rename_i h2
        subst h2
        by_cases hr : r = r' <;> simp [lookupReg, hr]
      · rename_i h1 h2
        simp only [lookupReg, ih]
        by_cases hk : r = k
        · subst hk
          have : r ≠ r' := fun h => h2 h.symm
          simp [this]
        · simp [hk]

theorem lookupReg_absorb (r : Nat) (t : Time) (kv : Regs) :
    ∀ v, lookupReg r (absorb v (t, kv)) =
      match lastKV r kv with
      | some x => some (t, x)
      | none => lookupReg r v := by
  induction kv with
  | nil => intro v; rfl
  | cons h rest ih =>
    intro v
    obtain ⟨k, x⟩ := h
    have : absorb v (t, (k, x) :: rest) = absorb (setReg k (t, x) v) (t, rest) := rfl
    rw [this, ih, lastKV]
    cases lastKV r rest with
    | some y => rfl
    | none =>
      simp only [lookupReg_setReg]
      by_cases hk : r = k <;> simp [hk]

/-- absorbing events in order leaves, for each register, the last value logged for it -/
theorem lookupReg_foldl_absorb (r : Nat) (evs : List Event) :
    ∀ init, lookupReg r (evs.foldl absorb init) =
      match lastLogged r evs with
      | some x => some x
      | none => lookupReg r init := by
  induction evs with
  | nil => intro init; rfl
  | cons e es ih =>
    intro init
    obtain ⟨t, kv⟩ := e
    rw [List.foldl_cons, ih, lastLogged]
    cases lastLogged r es with
    | some y => rfl
    | none =>
      simp only [lookupReg_absorb]
      cases lastKV r kv <;> rfl

/-! ### the clock -/

/-- `advance` inverts `realtime` -/
theorem advance_realtime (hist : Int) (fd : Nat) (hfd : 0 < fd) (ts : Int) :
    advance hist fd (realtime hist fd ts) = ts := by
  unfold advance realtime
  rw [Int.mul_ediv_cancel _ (by omega : (fd : Int) ≠ 0)]
  omega

/-- the historical clock is affine over the whole wall-clock axis: `k` ticks of historical time per
`fd` wall-clock units, before `basis` (negative `w`: the start point is scheduled in the future and
the clock is still earlier than `historical`) as well as after it -- it is not clamped at the start point -/
theorem advance_affine (hist : Int) (fd : Nat) (hfd : 0 < fd) (k : Int) :
    advance hist fd (k * fd) = hist + k := by
  unfold advance
  rw [Int.mul_ediv_cancel _ (by omega : (fd : Int) ≠ 0)]

/-- the historical clock does not go back when the wall clock does not -/
theorem advance_mono (hist : Int) (fd : Nat) (w w' : Int) (h : w ≤ w') :
    advance hist fd w ≤ advance hist fd w' := by
  unfold advance
  have := Int.ediv_le_ediv (a := w) (b := w') (c := (fd : Int))
  by_cases hfd : fd = 0
  · simp [hfd]
  · have hpos : (0 : Int) < fd := by omega
    have := Int.ediv_le_ediv hpos h
    omega

/-! ### copies of a file (plain / gz / bz2 side by side) -/

/-- a history in which file `i` is present `n_i + 1` times in a row (its compressed copies sort
directly after it and hold the same lines) -/
def withCopies : List (File × Nat) → History
  | [] => []
  | (f, n) :: rest => List.replicate (n + 1) f ++ withCopies rest

theorem scan_dup (target : Time) (after strict : Bool) (f : File) (X : History) (last : Option Opened) :
    scan target after strict (f :: f :: X) last = scan target after strict (f :: X) last := by
  simp only [scan]
  cases firstRecord f with
  | empty => rfl
  | bad => rfl
  | ok ts p rest =>
    simp only
    split
    · rfl
    · split
      · rfl
      · rfl

theorem scan_replicate (target : Time) (after strict : Bool) (f : File) (n : Nat) (X : History)
    (last : Option Opened) :
    scan target after strict (List.replicate (n + 1) f ++ X) last = scan target after strict (f :: X) last := by
  induction n with
  | zero => rfl
  | succ n ih =>
    rw [List.replicate_succ, List.cons_append, List.replicate_succ, List.cons_append, scan_dup,
      ← List.cons_append, ← List.replicate_succ, ih]

theorem scan_cons_congr (target : Time) (after strict : Bool) (f : File) (X Y : History)
    (h : ∀ last, scan target after strict X last = scan target after strict Y last) (last : Option Opened) :
    scan target after strict (f :: X) last = scan target after strict (f :: Y) last := by
  simp only [scan]
  cases firstRecord f with
  | empty => rfl
  | bad => exact h last
  | ok ts p rest =>
    simp only
    split
    · rfl
    · split
      · rfl
      · exact h _

/-- copies do not change which content `reader.open` selects -/
theorem scan_copies (target : Time) (after strict : Bool) (fs : List (File × Nat)) :
    ∀ last, scan target after strict (withCopies fs) last = scan target after strict (fs.map (·.1)) last := by
  induction fs with
  | nil => intro last; rfl
  | cons fn rest ih =>
    intro last
    obtain ⟨f, n⟩ := fn
    simp only [withCopies, List.map_cons]
    rw [scan_replicate]
    exact scan_cons_congr target after strict f _ _ ih last

/-- `g` agrees with `f` wherever `f` does not hang -/
def Extends (f g : LState → Time → List Event → LoadOut) : Prop :=
  ∀ s lc evs, f s lc evs ≠ .hang → g s lc evs = f s lc evs

theorem continueWith_extends {f g : LState → Time → List Event → LoadOut} (h : Extends f g) (r : ForOut)
    (hne : continueWith f r ≠ .hang) : continueWith g r = continueWith f r := by
  unfold continueWith at hne ⊢
  split
  · rfl
  · simp only at hne ⊢
    split
    · rename_i hc
      simp only [hc, ↓reduceIte] at hne
      exact h _ _ _ hne
    · rfl

/-- the same selections and at least as many opens allowed: the same result, unless the first hangs -/
theorem loadLoop_extends (H H' : History) (o : Opts) (a : LoadArgs)
    (hscan : ∀ target after strict, scan target after strict H' none = scan target after strict H none)
    (fuel : Nat) : ∀ k, Extends (loadLoop H o a fuel) (loadLoop H' o a (fuel + k)) := by
  induction fuel with
  | zero => intro k s lc evs hne; simp [loadLoop] at hne
  | succ n ih =>
    intro k s lc evs hne
    have hk : n + 1 + k = (n + k) + 1 := by omega
    rw [hk]
    simp only [loadLoop, hscan] at hne ⊢
    split
    · rfl
    · rename_i op hop
      simp only [hop] at hne
      exact continueWith_extends (ih k) _ hne

theorem withCopies_length (fs : List (File × Nat)) : fs.length ≤ List.length (withCopies fs) := by
  induction fs with
  | nil => simp [withCopies]
  | cons fn rest ih =>
    simp only [withCopies, List.length_cons, List.length_append, List.length_replicate]
    generalize List.length (withCopies rest) = d at ih ⊢
    omega

theorem load_copies (fs : List (File × Nat)) (o : Opts) (a : LoadArgs) (s : LState)
    (hne : load (fs.map (·.1)) o a s ≠ .hang) :
    load (withCopies fs) o a s = load (fs.map (·.1)) o a s := by
  have hscan : ∀ target after strict,
      scan target after strict (withCopies fs) none = scan target after strict (fs.map (·.1)) none :=
    fun t af st => scan_copies t af st fs none
  have hlen : ∃ k, openBudget (withCopies fs) = openBudget (fs.map (·.1)) + k := by
    have := withCopies_length fs
    refine ⟨openBudget (withCopies fs) - openBudget (fs.map (·.1)), ?_⟩
    simp only [openBudget, List.length_map]
    generalize List.length (withCopies fs) = d at this ⊢
    omega
  obtain ⟨k, hk⟩ := hlen
  have hext := loadLoop_extends (fs.map (·.1)) (withCopies fs) o a hscan (openBudget (fs.map (·.1))) k
  rw [← hk] at hext
  unfold load at hne ⊢
  split
  · rfl
  · rename_i h1
    simp only [h1, ↓reduceIte] at hne
    split
    · rename_i h2
      simp only [h2, ↓reduceIte] at hne
      exact hext _ _ _ hne
    · rename_i h2
      simp only [h2, ↓reduceIte] at hne
      exact continueWith_extends hext _ hne

/-- **Copies are irrelevant**: a history with compressed copies next to (or instead of) the plain
files replays exactly as the history without them. -/
theorem runLoads_copies (fs : List (File × Nat)) (o : Opts) (sched : List LoadArgs) :
    ∀ s, (∀ out ∈ runLoads (fs.map (·.1)) o sched s, out ≠ .hang) →
    runLoads (withCopies fs) o sched s = runLoads (fs.map (·.1)) o sched s := by
  induction sched with
  | nil => intro s _; rfl
  | cons a as ih =>
    intro s hne
    simp only [runLoads] at hne ⊢
    cases hl : load (fs.map (·.1)) o a s with
    | hang => rw [hl] at hne; simp at hne
    | done t s' evs =>
      rw [load_copies fs o a s (by rw [hl]; simp), hl]
      rw [hl] at hne
      simp only [List.mem_cons, ne_eq, forall_eq_or_imp] at hne
      simp only
      rw [ih s' hne.2]

/-! ### comment lines and lines with an unparsable timestamp -/

def isRecord : Line → Bool
  | .recd _ _ => true
  | _ => false

/-- the file without its comment lines and without the lines whose timestamp cannot be parsed -/
def stripLines (ls : List Line) : List Line := ls.filter isRecord

theorem tsOf_strip (ls : List Line) : tsOf (stripLines ls) = tsOf ls := by
  induction ls with
  | nil => rfl
  | cons l ls ih =>
    cases l with
    | recd t p => simp only [stripLines, List.filter_cons, isRecord, ↓reduceIte, tsOf_cons_recd] at ih ⊢; rw [ih]
    | comment => simpa [stripLines, List.filter_cons, isRecord, tsOf_cons_comment] using ih
    | corrupt => simpa [stripLines, List.filter_cons, isRecord, tsOf_cons_corrupt] using ih

theorem deliverable_strip (ls : List Line) : deliverable (stripLines ls) = deliverable ls := by
  induction ls with
  | nil => rfl
  | cons l ls ih =>
    cases l with
    | recd t p =>
      simp only [stripLines, List.filter_cons, isRecord, ↓reduceIte] at ih ⊢
      rw [deliverable_cons, deliverable_cons, ih]
    | comment =>
      simp only [stripLines, List.filter_cons, isRecord] at ih ⊢
      rw [deliverable_cons]; simpa [lineEvent] using ih
    | corrupt =>
      simp only [stripLines, List.filter_cons, isRecord] at ih ⊢
      rw [deliverable_cons]; simpa [lineEvent] using ih

theorem stripLines_append (a b : List Line) : stripLines (a ++ b) = stripLines a ++ stripLines b := by
  simp [stripLines]

theorem stripLines_flatten (fs : List File) : stripLines fs.flatten = (fs.map stripLines).flatten := by
  induction fs with
  | nil => rfl
  | cons f fs ih => simp [stripLines_append, ih]

theorem firstRecord_strip {f : File} {t : Time} {p : Payload} {rest : List Line}
    (h : firstRecord f = .ok t p rest) : firstRecord (stripLines f) = .ok t p (stripLines rest) := by
  obtain ⟨pre, rfl, hp⟩ := firstRecord_ok h
  have : stripLines pre = [] := by
    simp only [stripLines, List.filter_eq_nil_iff]
    intro l hl
    rw [hp l hl]; simp [isRecord]
  rw [stripLines_append, this]
  simp [stripLines, List.filter_cons, isRecord, firstRecord]

theorem FirstOk.strip {f : File} (h : FirstOk f) : FirstOk (stripLines f) ∧ firstTs0 (stripLines f) = firstTs0 f := by
  obtain ⟨p, rest, hf, hp⟩ := h.ok
  have := firstRecord_strip hf
  exact ⟨by simp [FirstOk, this, hp], by simp [firstTs0, this]⟩

theorem WF.strip {H : History} (h : WF H) : WF (H.map stripLines) := by
  refine ⟨?_, ?_, ?_⟩
  · intro f hf
    obtain ⟨g, hg, rfl⟩ := List.mem_map.mp hf
    exact (h.first_ok g hg).strip.1
  · have : chron (H.map stripLines) = stripLines (chron H) := by
      simp [chron, stripLines_flatten, List.map_reverse]
    rw [this, tsOf_strip]
    exact h.mono
  · rw [List.pairwise_map]
    refine List.Pairwise.imp_of_mem ?_ h.firsts
    intro a b ha hb hab
    rw [(h.first_ok a ha).strip.2, (h.first_ok b hb).strip.2]
    exact hab

theorem startSplit_strip (c : Time) (H : History) (hok : ∀ f ∈ H, FirstOk f) :
    startSplit c (H.map stripLines) =
      (startSplit c H).map fun x => (x.1.map stripLines, stripLines x.2.1, x.2.2.map stripLines) := by
  induction H with
  | nil => rfl
  | cons f older ih =>
    have hf := (hok f (by simp)).strip.2
    simp only [List.map_cons, startSplit, hf, List.map_eq_nil_iff]
    split
    · rfl
    · rw [ih (fun g hg => hok g (by simp [hg]))]
      cases startSplit c older <;> rfl

theorem spanLines_strip (c : Time) (H : History) (hok : ∀ f ∈ H, FirstOk f) :
    spanLines (H.map stripLines) c = stripLines (spanLines H c) := by
  unfold spanLines
  rw [startSplit_strip c H hok]
  cases startSplit c H with
  | none => rfl
  | some x =>
    obtain ⟨pre, f, post⟩ := x
    simp [stripLines_append, stripLines_flatten, List.map_reverse]

end Cpppo.History
