import Cpppo.Proofs.Reply
import Cpppo.Proofs.Request
/-! The reference decoder takes a Multiple Service Packet reply apart into the members' replies. -/
namespace Cpppo.Interop
open Cpppo Cpppo.Logix Cpppo.Fields

theorem offsetsOf_go (o : Nat) (ms : List Bytes) : offsetsOf.go o ms = Ref.offsetsFrom o ms := by
  induction ms generalizing o with
  | nil => rfl
  | cons m rest ih => simp [offsetsOf.go, Ref.offsetsFrom, ih]

theorem encodeMultiple_eq (ms : List Bytes) : encodeMultiple ms = Ref.encTable ms := by
  simp [encodeMultiple, Ref.encTable, offsetsOf, offsetsOf_go]

theorem wordsBytes_length (os : List Nat) : ((os.map (Bytes.le 2)).flatten).length = 2 * os.length := by
  induction os with
  | nil => rfl
  | cons o rest ih => simp only [List.map_cons, List.flatten_cons, List.length_append, le_length, ih, List.length_cons]; omega

theorem encTable_length (ms : List Bytes) : (Ref.encTable ms).length = Ref.tableLen ms := by
  unfold Ref.encTable Ref.tableLen
  rw [List.length_append, List.length_append, wordsBytes_length, le_length, offsetsFrom_length, List.length_flatten]

theorem slices_table (ms : List Bytes) (pre : Bytes) :
    Ref.slices (pre ++ ms.flatten) (Ref.offsetsFrom pre.length ms) = some ms := by
  induction ms generalizing pre with
  | nil => rfl
  | cons m rest ih =>
    cases rest with
    | nil =>
      simp only [Ref.offsetsFrom, Ref.slices, List.flatten_cons, List.flatten_nil, List.append_nil]
      have : pre.length ≤ (pre ++ m).length := by simp
      rw [if_pos this]; simp
    | cons m' rest' =>
      have hrec := ih (pre ++ m)
      simp only [Ref.offsetsFrom, Ref.slices] at hrec ⊢
      have h1 : pre.length ≤ pre.length + m.length ∧ pre.length + m.length ≤ (pre ++ (m :: m' :: rest').flatten).length := by
        simp only [List.flatten_cons, List.length_append]; omega
      rw [if_pos h1]
      have h3 : pre.length + m.length - pre.length = m.length := by omega
      have hl : (pre ++ m).length = pre.length + m.length := by simp
      rw [hl] at hrec
      simp only [List.flatten_cons, List.append_assoc] at hrec ⊢
      rw [hrec, h3]
      simp

/-- the member table written by the server is cut back into the members -/
theorem decTable_encodeMultiple (ms : List Bytes) (h : Ref.tableLen ms < 65536) :
    Ref.decTable (encodeMultiple ms) = some ms := by
  rw [encodeMultiple_eq]
  unfold Ref.tableLen at h
  have hn : ms.length < 256 ^ 2 := by omega
  have hoff : ∀ w ∈ Ref.offsetsFrom (2 + 2 * ms.length) ms, w < 65536 := by
    intro w hw'
    have := offsetsFrom_bound _ _ w hw'
    omega
  have hwl := words_le (Ref.offsetsFrom (2 + 2 * ms.length) ms) ms.flatten hoff
  rw [offsetsFrom_length] at hwl
  unfold Ref.decTable Ref.encTable
  rw [List.append_assoc, u_le 2 ms.length _ hn]
  simp only [hwl]
  cases ms with
  | nil => rfl
  | cons m rest =>
    simp only [Ref.offsetsFrom, List.length_cons, ↓reduceIte]
    have hpre : (Bytes.le 2 (rest.length + 1) ++
        (List.map (Bytes.le 2) ((2 + 2 * (rest.length + 1)) :: Ref.offsetsFrom (2 + 2 * (rest.length + 1) + m.length) rest)).flatten).length
        = 2 + 2 * (rest.length + 1) := by
      rw [List.length_append, wordsBytes_length, le_length]
      simp only [List.length_cons, offsetsFrom_length]
    have := slices_table (m :: rest) (Bytes.le 2 (rest.length + 1) ++
        (List.map (Bytes.le 2) ((2 + 2 * (rest.length + 1)) :: Ref.offsetsFrom (2 + 2 * (rest.length + 1) + m.length) rest)).flatten)
    rw [hpre] at this
    simpa [Ref.offsetsFrom, List.append_assoc] using this

theorem decReplies_encode (rs : List Reply) (ms : List Bytes) (h : rs.mapM encodeReply = some ms)
    (hok : ∀ r ∈ rs, ReplyOk r) : Ref.decReplies ms = some rs := by
  induction rs generalizing ms with
  | nil => simp at h; subst h; rfl
  | cons r rest ih =>
    simp only [List.mapM_cons, Option.bind_eq_bind, Option.bind_eq_some_iff] at h
    obtain ⟨b, hb, bs, hbs, h⟩ := h
    simp only [Option.pure_def, Option.some.injEq] at h
    subst h
    simp only [Ref.decReplies, decReply_encodeReply r b hb (hok r (by simp)),
      ih bs hbs (fun x hx => hok x (by simp [hx]))]

/-- **Bundle reply round trip**: the reference decoder recovers every member reply of a successful
Multiple Service Packet reply -/
theorem decBundle_members (rs : List Reply) (ms : List Bytes) (h : rs.mapM encodeReply = some ms)
    (hok : ∀ r ∈ rs, ReplyOk r) (hlen : Ref.tableLen ms < 65536) :
    Ref.decBundle { svc := svcMulti, status := 0, raw := encodeMultiple ms } = some rs := by
  have hs : svcMulti = 0x8A := by decide
  simp only [Ref.decBundle, hs, true_and, ↓reduceIte, decTable_encodeMultiple ms hlen, Option.bind_some,
    decReplies_encode rs ms h hok]

end Cpppo.Interop
