import Cpppo.Model.PyText
/-
Model of `device.parse_path_component`, `device.parse_path_elements`, `device.parse_path` and
`client.format_path` (property C12).

An EPATH segment is a Python dict.  Two shapes occur: `{'symbolic': <str>}` (`Seg.sym`) and a dict
with integer values (`Seg.dict`, insertion-ordered association list: `{'class': 2}`,
`{'connection': 100}`, `{'port': 1, 'link': 0}` ...).  Segments written in JSON form are parsed by
`json.loads`; the model covers the fragment "flat object, string keys without escapes / ',' / ':',
integer values" and answers `Err.unmodelled` for any other text that starts with '{' (the harness
raises the same outcome at the `json.loads` call, so evaluation order is shared).
-/
namespace Cpppo.Client
open Cpppo.Py

inductive Err | reject | unmodelled
deriving DecidableEq, Repr

inductive Seg
  | sym (name : Str)
  | dict (kvs : List (Str × Int))
deriving DecidableEq, Repr

def kClass : Str := ['c', 'l', 'a', 's', 's']
def kInstance : Str := ['i', 'n', 's', 't', 'a', 'n', 'c', 'e']
def kAttribute : Str := ['a', 't', 't', 'r', 'i', 'b', 'u', 't', 'e']
def kElement : Str := ['e', 'l', 'e', 'm', 'e', 'n', 't']
def kSymbolic : Str := ['s', 'y', 'm', 'b', 'o', 'l', 'i', 'c']

def hasKey (k : Str) (kvs : List (Str × Int)) : Bool := kvs.any fun p => p.1 == k

def getKey (k : Str) : List (Str × Int) → Int
  | [] => 0
  | (k', v) :: r => if k' == k then v else getKey k r

/-- `d[k] = v` on an insertion-ordered dict -/
def setKey (k : Str) (v : Int) : List (Str × Int) → List (Str × Int)
  | [] => [(k, v)]
  | (k', v') :: r => if k' == k then (k', v) :: r else (k', v') :: setKey k v r

/-! ### the JSON fragment -/

def isJsonWs (c : Char) : Bool := c == ' ' || c == '\t' || c == '\n' || c == '\r'

def jrstrip : Str → Str
  | [] => []
  | c :: cs =>
    match jrstrip cs with
    | [] => if isJsonWs c then [] else [c]
    | r => c :: r

def jstrip (s : Str) : Str := jrstrip (s.dropWhile isJsonWs)

def isDigit (c : Char) : Bool := '0' ≤ c && c ≤ '9'

/-- `-?(0|[1-9][0-9]*)` -/
def jsonInt (s : Str) : Option Int :=
  let (neg, r) := match s with
    | '-' :: r => (true, r)
    | r => (false, r)
  match r with
  | [] => none
  | ['0'] => some 0
  | '0' :: _ => none
  | _ => if r.all isDigit then (pyDigits 10 r).map (applySign neg) else none

def keyCharOk (c : Char) : Bool :=
  c != '"' && c != '\\' && c != ',' && c != ':' && c.toNat ≥ 32

/-- `"key"` with no escapes -/
def jsonKey (s : Str) : Option Str :=
  match s with
  | '"' :: r =>
    match r.getLast? with
    | some '"' => let body := r.dropLast; if body.all keyCharOk then some body else none
    | _ => none
  | _ => none

def jsonItems : List Str → List (Str × Int) → Option (List (Str × Int))
  | [], acc => some acc
  | it :: rest, acc =>
    match splitFirst ':' it with
    | none => none
    | some (k, v) =>
      match jsonKey (jstrip k), jsonInt (jstrip v) with
      | some k', some v' => jsonItems rest (setKey k' v' acc)
      | _, _ => none

/-- `json.loads` on the modelled fragment; `none` = outside the fragment -/
def parseJsonFrag (s : Str) : Option (List (Str × Int)) :=
  match jrstrip s with
  | '{' :: r =>
    match r.getLast? with
    | some '}' =>
      let inner := r.dropLast
      if inner.all isJsonWs then some [] else jsonItems (splitAll ',' inner) []
    | _ => none
  | _ => none

/-! ### parse_path_component / parse_path_elements -/

def defaultKey : Nat → Str
  | 0 => kClass
  | 1 => kInstance
  | 2 => kAttribute
  | _ => kElement

/-- one term of `path[1:].split('/')` -/
def numericSeg (i : Nat) (s : Str) : Except Err Seg :=
  if startsWith s '{' then
    match parseJsonFrag s with
    | some kvs => Except.ok (Seg.dict kvs)
    | none => Except.error Err.unmodelled
  else if i < 4 then
    match parseInt s with
    | some v => Except.ok (Seg.dict [(defaultKey i, v)])
    | none => Except.error Err.reject
  else Except.error Err.reject

/-- the loop over `path[1:].split('/')` -/
def numericSegs : Nat → List Str → Except Err (List Seg)
  | _, [] => Except.ok []
  | i, s :: rest =>
    match numericSeg i s with
    | Except.error e => Except.error e
    | Except.ok seg =>
      match numericSegs (i + 1) rest with
      | Except.error e => Except.error e
      | Except.ok more => Except.ok (seg :: more)

def elemSeg (e : Int) : Seg := Seg.dict [(kElement, e)]

/-- `if not segments or 'element' not in segments[-1]: segments.append({})`;
`segments[-1]['element'] = elm` -/
def setElement : List Seg → Int → List Seg
  | [], e => [elemSeg e]
  | [Seg.dict kvs], e =>
    if hasKey kElement kvs then [Seg.dict (setKey kElement e kvs)] else [Seg.dict kvs, elemSeg e]
  | [s], e => [s, elemSeg e]
  | s :: s' :: t, e => s :: setElement (s' :: t) e

/-- the `[<begin>-<end>]` / `[<index>]` text between the brackets -/
def parseBracket (es : Str) (cnt : Option Int) : Except Err (Int × Option Int) :=
  if es.contains '-' then
    match splitAll '-' es with
    | [a, b] =>
      match pyInt10 b, pyInt10 a with
      | some lst, some elm =>
        let c := lst + 1 - elm
        if c > 0 then pure (elm, some c) else throw Err.reject
      | _, _ => throw Err.reject
    | _ => throw Err.reject
  else
    match pyInt10 es with
    | some elm => pure (elm, cnt)
    | none => throw Err.reject

/-- `if '*' in path: path,cnt = path.split( '*', 1 ); cnt = parse_int( cnt )` -/
def stageStar (path : Str) (cnt : Option Int) : Except Err (Str × Option Int) :=
  match splitFirst '*' path with
  | some (p, c) =>
    match parseInt c with
    | some v => pure (p, some v)
    | none => throw Err.reject
  | none => pure (path, cnt)

/-- `if '[' in path: ...` -/
def stageBracket (path : Str) (elm cnt : Option Int) : Except Err (Str × Option Int × Option Int) :=
  match splitFirst '[' path with
  | some (p, e) =>
    match splitAll ']' e with
    | [es, rem] =>
      if rem ≠ [] then throw Err.reject
      else
        match parseBracket es cnt with
        | Except.ok (el, c) => pure (p, some el, c)
        | Except.error err => throw err
    | _ => throw Err.reject
  | none => pure (path, elm, cnt)

/-- numeric `@...` or a symbolic tag -/
def stageSegs (path : Str) : Except Err (List Seg) :=
  match path with
  | '@' :: rest => numericSegs 0 (splitAll '/' rest)
  | _ => pure [Seg.sym path]

def finishComponent (segs : List Seg) (elm cnt : Option Int) : List Seg × Option Int × Option Int :=
  match elm with
  | some e => (setElement segs e, elm, cnt)
  | none => (segs, elm, cnt)

def parseComponent (path : Str) (elm cnt : Option Int) :
    Except Err (List Seg × Option Int × Option Int) :=
  match stageStar path cnt with
  | Except.error e => Except.error e
  | Except.ok (p1, cnt1) =>
    match stageBracket p1 elm cnt1 with
    | Except.error e => Except.error e
    | Except.ok (p2, elm2, cnt2) =>
      match stageSegs p2 with
      | Except.error e => Except.error e
      | Except.ok segs => Except.ok (finishComponent segs elm2 cnt2)

def parseElementsGo (elm cnt : Option Int) :
    List Str → Except Err (List Seg × Option Int × Option Int)
  | [] => Except.error Err.reject
  | [last] => parseComponent last elm cnt
  | c :: rest =>
    match parseComponent c none none with
    | Except.error e => Except.error e
    | Except.ok (s, _, k) =>
      if k ≠ none ∧ k ≠ some 1 then Except.error Err.reject
      else
        match parseElementsGo elm cnt rest with
        | Except.error e => Except.error e
        | Except.ok (s2, e, c2) => Except.ok (s ++ s2, e, c2)

/-- `device.parse_path_elements( path, elm, cnt )` for a `str` path -/
def parsePathElements (path : Str) (elm cnt : Option Int := none) :
    Except Err (List Seg × Option Int × Option Int) :=
  parseElementsGo elm cnt (splitAll '.' path)

/-- `device.parse_path` -/
def parsePath (path : Str) (elm : Option Int := none) : Except Err (List Seg) :=
  (parsePathElements path elm none).map (·.1)

/-! ### format_path -/

def joinWith (sep : Char) : List Str → Str
  | [] => []
  | [a] => a
  | a :: b :: r => a ++ sep :: joinWith sep (b :: r)

/-- `json.dumps( seg, separators=(',',':') )` for a dict of integers (keys need no escaping) -/
def jsonDumps (kvs : List (Str × Int)) : Str :=
  '{' :: joinWith ',' (kvs.map fun p => '"' :: p.1 ++ '"' :: ':' :: decimalInt p.2) ++ ['}']

structure FmtState where
  symbolic : Str := []
  numeric : List Str := []
  element : Option Int := none

def fmtStep (st : FmtState) (seg : Seg) : Option FmtState :=
  let st' : Option FmtState :=
    match seg with
    | Seg.sym name =>
      some { st with symbolic := st.symbolic ++ (if st.symbolic ≠ [] then ['.'] else []) ++ name }
    | Seg.dict kvs =>
      if hasKey kSymbolic kvs then none                       -- str + int: TypeError
      else if hasKey kClass kvs ∧ st.numeric.length = 0 then
        some { st with numeric := st.numeric ++ [hex04 (getKey kClass kvs)] }
      else if hasKey kInstance kvs ∧ st.numeric.length = 1 then
        some { st with numeric := st.numeric ++ [decimalInt (getKey kInstance kvs)] }
      else if hasKey kAttribute kvs ∧ st.numeric.length = 2 then
        some { st with numeric := st.numeric ++ [decimalInt (getKey kAttribute kvs)] }
      else if hasKey kElement kvs then
        some { st with element := some (getKey kElement kvs) }
      else some { st with numeric := st.numeric ++ [jsonDumps kvs] }
  match st' with
  | some s => if s.symbolic.isEmpty != s.numeric.isEmpty then some s else none
  | none => none

def fmtLoop : FmtState → List Seg → Option FmtState
  | st, [] => some st
  | st, seg :: rest =>
    match fmtStep st seg with
    | some st' => fmtLoop st' rest
    | none => none

/-- `client.format_path( segments, count )`; `none` = an exception -/
def formatPath (segs : List Seg) (count : Option Int := none) : Option Str :=
  match fmtLoop {} segs with
  | none => none
  | some st =>
    let path := if st.symbolic ≠ [] then st.symbolic else '@' :: joinWith '/' st.numeric
    match st.element with
    | none => some path
    | some e =>
      match count with
      | some c => some (path ++ '[' :: decimalInt e ++ '-' :: decimalInt (e + c - 1) ++ [']'])
      | none => some (path ++ '[' :: decimalInt e ++ [']'])

end Cpppo.Client
