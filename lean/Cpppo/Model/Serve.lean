import Cpppo.Model.Logix
/-
Model of the request pipeline in front of the tag-serving core, from raw bytes on a connection to the
reply bytes and the new device state:

  server/enip/main.py    enip_srv_tcp: frame after frame (24-byte header + `length` payload bytes) off one stream;
                         a reply for each processed frame; the session ends on a failure
  server/enip/logix.py   process: CIP command parser, UCMM.request
  server/enip/ucmm.py    SendRRData / SendUnitData with a null-address CPF item and an unconnected-data item,
                         optional Unconnected Send (0x52) wrapper addressed to the Connection Manager
  server/enip/device.py  Connection_Manager.request: service + EPATH select the target Object, whose parser then
                         parses the request: Read/Write Tag [Fragmented], Get/Set Attribute Single,
                         Get Attributes All, Multiple Service Packet
  server/enip/parser.py  EPATH, typed_data, CPF layouts

`decodeFrame` accepts the *well-formed* requests of that grammar (every length/count/offset field consistent
with the bytes present, nothing left over) addressed to an object that holds tags; everything else is
`Outcome.other`: in the code such input is answered by some other service, answered with an error, or ends the
session -- which of these is not modelled (`fate`), only that it does not touch a tag.
All functions are structurally recursive (fuel = input length where a loop is needed), hence total.
-/
namespace Cpppo.Serve
open Cpppo.Logix

/-! ### byte readers -/

def u8 : Bytes → Option (Nat × Bytes)
  | b :: r => some (b, r)
  | [] => none

def u16 : Bytes → Option (Nat × Bytes)
  | a :: b :: r => some (a + 256 * b, r)
  | _ => none

def u32 : Bytes → Option (Nat × Bytes)
  | a :: b :: c :: d :: r => some (a + 256 * b + 65536 * c + 16777216 * d, r)
  | _ => none

/-- exactly `n` bytes and the rest; `none` when fewer are present -/
def takeN (n : Nat) (bs : Bytes) : Option (Bytes × Bytes) :=
  if bs.length < n then none else some (bs.take n, bs.drop n)

/-! ### the encapsulation header (`enip_header` + `octets(repeat='.length')`) -/

structure Header where
  cmd : Nat
  len : Nat
  session : Nat
  status : Nat
  ctx : Bytes
  options : Nat
deriving Repr, DecidableEq

def headerSize : Nat := Generated.enipHeaderSize

def parseHeader (bs : Bytes) : Option (Header × Bytes) :=
  match u16 bs with
  | none => none
  | some (cmd, r1) =>
    match u16 r1 with
    | none => none
    | some (len, r2) =>
      match u32 r2 with
      | none => none
      | some (session, r3) =>
        match u32 r3 with
        | none => none
        | some (status, r4) =>
          match takeN 8 r4 with
          | none => none
          | some (ctx, r5) =>
            match u32 r5 with
            | none => none
            | some (options, r6) => some (⟨cmd, len, session, status, ctx, options⟩, r6)

/-- one complete frame off the front of the stream: header, payload, remaining stream;
`none` = the stream does not (yet) hold a complete frame -/
def splitFrame (bs : Bytes) : Option (Header × Bytes × Bytes) :=
  match parseHeader bs with
  | none => none
  | some (h, r) =>
    match takeN h.len r with
    | none => none
    | some (pl, rest) => some (h, pl, rest)

def encodeHeader (h : Header) : Bytes :=
  Bytes.le 2 h.cmd ++ Bytes.le 2 h.len ++ Bytes.le 4 h.session ++ Bytes.le 4 h.status ++ h.ctx ++ Bytes.le 4 h.options

/-! ### EPATH -/

def strOf (bs : Bytes) : String := String.ofList (bs.map Char.ofNat)

/-- the number of bytes the first path segment occupies, from its type byte (and length byte) -/
def segSize (bs : Bytes) : Option Nat :=
  match bs with
  | [] => none
  | t :: r =>
    -- 8-bit logical segments: type, value
    if t = Generated.seg_class ∨ t = Generated.seg_instance ∨ t = Generated.seg_attribute
        ∨ t = Generated.seg_element ∨ t = Generated.seg_connection then some 2
    -- 16-bit: type, pad, value
    else if t = Generated.seg_class + 1 ∨ t = Generated.seg_instance + 1 ∨ t = Generated.seg_attribute + 1
        ∨ t = Generated.seg_element + 1 ∨ t = Generated.seg_connection + 1 then some 4
    -- 32-bit element: type, pad, value
    else if t = Generated.seg_element + 2 then some 6
    -- ANSI extended symbolic: type, length, bytes, pad to even
    else if t = Generated.seg_symbolic then
      match r with
      | [] => none
      | n :: _ => if n = 0 then none else some (2 + n + n % 2)
    -- port segments: 0x01-0x0e port+link, 0x0f extended port, 0x11-0x1f with a link address string
    else if 1 ≤ t ∧ t ≤ 14 then some 2
    else if t = 15 then some 4
    else if 17 ≤ t ∧ t ≤ 31 then
      match r with
      | [] => none
      | n :: _ => if n = 0 then none else some (2 + (if t = 31 then 2 else 0) + n + n % 2)
    else none

/-- the segment held by exactly the bytes of one segment -/
def segOf (sb : Bytes) : Seg :=
  let t := sb.getD 0 0
  let v8 := sb.getD 1 0
  let v16 := sb.getD 2 0 + 256 * sb.getD 3 0
  let v32 := v16 + 65536 * sb.getD 4 0 + 16777216 * sb.getD 5 0
  if t = Generated.seg_class then .cls v8
  else if t = Generated.seg_instance then .ins v8
  else if t = Generated.seg_attribute then .attr v8
  else if t = Generated.seg_element then .elem v8
  else if t = Generated.seg_class + 1 then .cls v16
  else if t = Generated.seg_instance + 1 then .ins v16
  else if t = Generated.seg_attribute + 1 then .attr v16
  else if t = Generated.seg_element + 1 then .elem v16
  else if t = Generated.seg_element + 2 then .elem v32
  else if t = Generated.seg_symbolic then .symbolic (strOf ((sb.drop 2).take v8))
  else .other

/-- one path segment and the bytes after it -/
def decodeSeg (bs : Bytes) : Option (Seg × Bytes) :=
  match segSize bs with
  | none => none
  | some n => if bs.length < n then none else some (segOf (bs.take n), bs.drop n)

/-- segments until the bytes are exhausted (every segment takes at least 2 bytes: fuel = length suffices) -/
def decodeSegs : Nat → Bytes → Option (List Seg)
  | _, [] => some []
  | 0, _ :: _ => none
  | fuel + 1, b :: bs =>
    match decodeSeg (b :: bs) with
    | none => none
    | some (s, r) => (decodeSegs fuel r).map (s :: ·)

/-- `EPATH`: size in words, [pad], exactly `2*size` bytes of segments -/
def decodeEpath (padded : Bool) (bs : Bytes) : Option (Path × Bytes) :=
  match bs with
  | [] => none
  | size :: r0 =>
    match (if padded then (u8 r0).map (·.2) else some r0) with
    | none => none
    | some r1 =>
      match takeN (2 * size) r1 with
      | none => none
      | some (sb, rest) => (decodeSegs sb.length sb).map fun p => (p, rest)

/-! ### the service requests (`Object.parser` with the Logix and Message Router services registered) -/

/-- typed data of a write: at least one element, whole elements of a supported type only -/
def wellTyped (ty : Nat) (data : Bytes) : Bool :=
  !data.isEmpty &&
  match CipType.ofCode ty with
  | some t => (decodeVals t data).isSome
  | none => false

/-- a request other than the Multiple Service Packet; all bytes must be used -/
def decodeSimple (bs : Bytes) : Option Simple :=
  match bs with
  | [] => none
  | svc :: r0 =>
    match decodeEpath false r0 with
    | none => none
    | some (p, r) =>
      if svc = Generated.svcReadTag then
        match u16 r with
        | some (n, []) => some (.readTag p n)
        | _ => none
      else if svc = Generated.svcReadFrag then
        match u16 r with
        | some (n, r1) =>
          match u32 r1 with
          | some (off, []) => some (.readFrag p n off)
          | _ => none
        | none => none
      else if svc = Generated.svcWriteTag then
        match u16 r with
        | some (ty, r1) =>
          match u16 r1 with
          | some (n, data) => if wellTyped ty data then some (.writeTag p ty n data) else none
          | none => none
        | none => none
      else if svc = Generated.svcWriteFrag then
        match u16 r with
        | some (ty, r1) =>
          match u16 r1 with
          | some (n, r2) =>
            match u32 r2 with
            | some (off, data) => if wellTyped ty data then some (.writeFrag p ty n off data) else none
            | none => none
          | none => none
        | none => none
      else if svc = Generated.svcGetAttrSingle then
        if r.isEmpty then some (.getAttrSingle p) else none
      else if svc = Generated.svcSetAttrSingle then
        if r.isEmpty then none else some (.setAttrSingle p r)
      else if svc = Generated.svcGetAttrAll then
        if r.isEmpty then some (.getAttrAll p) else none
      else none

/-- `n` little-endian 16-bit numbers -/
def readU16s : Nat → Bytes → Option (List Nat × Bytes)
  | 0, bs => some ([], bs)
  | n + 1, bs =>
    match u16 bs with
    | none => none
    | some (v, r) => (readU16s n r).map fun (vs, r') => (v :: vs, r')

/-- strictly increasing -/
def increasing : List Nat → Bool
  | a :: b :: rest => a < b && increasing (b :: rest)
  | _ => true

/-- the member byte strings of a bundle: from each offset to the next (the last one to the end) -/
def slices (body : Bytes) : List Nat → List Bytes
  | [] => []
  | [o] => [body.drop o]
  | o :: o' :: rest => (body.drop o).take (o' - o) :: slices body (o' :: rest)

/-- Multiple Service Packet body (after the path): number ≥ 1, offsets relative to the number field, the
first right behind the offset table, strictly increasing, inside the body: the members' byte strings -/
def memberSlices (body : Bytes) : Option (List Bytes) :=
  match u16 body with
  | none => none
  | some (num, r) =>
    if num = 0 then none else
    match readU16s num r with
    | none => none
    | some (offs, _) =>
      if offs.head? = some (2 + 2 * num) ∧ increasing offs = true ∧ offs.getLast?.any (· < body.length) then
        some (slices body offs)
      else none

/-- every member a complete request (a bundle is not a member of a bundle in this grammar) -/
def decodeMembers (body : Bytes) : Option (List Simple) :=
  match memberSlices body with
  | none => none
  | some ms => ms.mapM decodeSimple

def decodeReq (bs : Bytes) : Option Req :=
  match bs with
  | [] => none
  | svc :: r0 =>
    if svc = Generated.svcMultiple then
      match decodeEpath false r0 with
      | none => none
      | some (p, body) => (decodeMembers body).map (.multiple p ·)
    else (decodeSimple bs).map .simple

/-- **The work of the Multiple Service Packet parser** (`device.py` `__multiple` / `state_multiple_service`): the
parser of a request takes every byte of it (its `requests` state absorbs all that is left), then every member's
bytes are parsed again by the target Object's parser -- and a member that is itself a Multiple Service Packet
repeats the same.  `scanCost fuel bs` = symbols consumed by all these parsers together, `fuel` levels deep. -/
def scanCost : Nat → Bytes → Nat
  | 0, _ => 0
  | fuel + 1, bs =>
    bs.length +
    match bs with
    | [] => 0
    | svc :: r0 =>
      if svc = Generated.svcMultiple then
        match decodeEpath false r0 with
        | none => 0
        | some (_, body) =>
          match memberSlices body with
          | none => 0
          | some ms => (ms.map (scanCost fuel)).sum
      else 0

def simplePath : Simple → Path
  | .readTag p _ | .readFrag p _ _ | .writeTag p _ _ _ | .writeFrag p _ _ _ _
  | .getAttrSingle p | .setAttrSingle p _ | .getAttrAll p => p

def reqPath : Req → Path
  | .simple s => simplePath s
  | .multiple p _ => p

/-! ### Connection Manager / UCMM -/

/-- the path designates an Object of the device that holds tags (`required = false`: or nothing at all) -/
def targetOk (d : Dev) (p : Path) (required : Bool) : Bool :=
  match resolve d.symbols .no p with
  | some (c, i, _) => (d.obj? c i).isSome
  | none => !required

def membersOk (d : Dev) : Req → Bool
  | .simple _ => true
  | .multiple _ ms => ms.all fun m => targetOk d (simplePath m) false

/-- `Connection_Manager.request`: the request's own path must designate an existing Object (here: one that
holds tags), whose parser then parses the whole request; the members of a bundle are routed one by one
(`Logix.request`: to the Object their path designates when it exists -- here: one that holds tags) -/
def decodeTarget (d : Dev) (req : Bytes) : Option Req :=
  match decodeReq req with
  | none => none
  | some r => if targetOk d (reqPath r) true && membersOk d r then some r else none

/-- the unconnected-data item: an Unconnected Send wrapper addressed to the Connection Manager (path, priority,
ticks, length, request, pad if odd, route path: everything consistent, nothing left), or the bare request -/
def decodeBody (d : Dev) (body : Bytes) : Option Req :=
  match body with
  | [] => none
  | b0 :: r0 =>
    if b0 = Generated.unconnectedSendService then
      match decodeEpath false r0 with
      | none => none
      | some (cm, r1) =>
        match r1 with
        | _prio :: _ticks :: r2 =>
          match u16 r2 with
          | none => none
          | some (n, r3) =>
            if n = 0 ∨ r3.length < n + n % 2 then none else
            match decodeEpath true (r3.drop (n + n % 2)) with
            | some (_route, []) =>
              if resolve d.symbols .no cm = some (Generated.cmClass, 1, none) then decodeTarget d (r3.take n)
              else none
            | _ => none
        | _ => none
    else if b0 = Generated.unconnectedSendService + 128 then none
    else decodeTarget d body

structure Decoded where
  iface : Nat
  timeout : Nat
  req : Req
deriving Repr, DecidableEq

/-- SendRRData / SendUnitData payload: interface, timeout, CPF with exactly the null address item and one
unconnected-data item that extends to the end of the payload -/
def decodePayload (d : Dev) (pl : Bytes) : Option Decoded :=
  match u32 pl with
  | none => none
  | some (iface, r1) =>
    match u16 r1 with
    | none => none
    | some (timeout, r2) =>
      match readU16s 5 r2 with
      | some ([count, t0, l0, t1, l1], body) =>
        if count = 2 ∧ t0 = 0 ∧ l0 = 0 ∧ t1 = Generated.cpfUnconnected ∧ l1 = body.length then
          (decodeBody d body).map fun r => ⟨iface, timeout, r⟩
        else none
      | _ => none

def decodeFrame (d : Dev) (h : Header) (pl : Bytes) : Option Decoded :=
  if Generated.sendDataCommands.contains h.cmd ∧ h.status = 0 then decodePayload d pl else none

/-! ### replies -/

/-- the reply frame: the request's header fields echoed; CIP reply wrapped as it came (without the Unconnected
Send wrapper); `none` (the reply could not be produced) ⇒ status 0x08 and no payload -/
def encodeReplyFrame (h : Header) (dec : Decoded) (cip : Option Bytes) : Bytes :=
  match cip with
  | some bs =>
    let pl := Bytes.le 4 dec.iface ++ Bytes.le 2 dec.timeout ++ Bytes.le 2 2 ++ Bytes.le 2 0 ++ Bytes.le 2 0
      ++ Bytes.le 2 Generated.cpfUnconnected ++ Bytes.le 2 bs.length ++ bs
    encodeHeader { h with len := pl.length, status := 0 } ++ pl
  | none => encodeHeader { h with len := 0, status := 8 }

inductive Outcome
  | reply (frame : Bytes) (cont : Bool)   -- a decoded request: the reply sent; `cont` = the session goes on
  | other                                 -- not a well-formed tag request: no tag is touched
deriving Repr, DecidableEq

/-- one complete frame -/
def serveFrame (d : Dev) (h : Header) (pl : Bytes) : Dev × Outcome :=
  match decodeFrame d h pl with
  | none => (d, .other)
  | some dec =>
    let (d', cip) := exec d dec.req
    (d', .reply (encodeReplyFrame h dec cip) cip.isSome)

/-- `logix.process` with a size limit configured (`enip.main --size N`): a request whose encapsulated payload is
longer than `N` bytes is refused *after* the CIP parser accepted it: encapsulation status 0x65, no payload, the
session ends -- and it is not executed. -/
def refusalFrame (h : Header) : Bytes := encodeHeader { h with len := 0, status := 0x65 }

def serveFrameSized (limit : Option Nat) (d : Dev) (h : Header) (pl : Bytes) : Dev × Outcome :=
  match limit with
  | none => serveFrame d h pl
  | some n =>
    if n < pl.length then
      match decodeFrame d h pl with
      | none => (d, .other)
      | some _ => (d, .reply (refusalFrame h) false)
    else serveFrame d h pl

/-- A connection: frames are taken off the stream one after the other until the stream holds no complete
frame or the session ends.  `fate k` says whether the session goes on after the `k`-th frame when that frame
is not a well-formed tag request (not modelled: another service, an error reply, or the connection is closed).
`fuel`: the number of frames at most (`stream.length` is always enough: a frame takes at least 24 bytes). -/
def serveStream (fate : Nat → Bool) : Nat → Nat → Dev → Bytes → Dev × List Outcome
  | 0, _, d, _ => (d, [])
  | fuel + 1, k, d, bs =>
    match splitFrame bs with
    | none => (d, [])
    | some (h, pl, rest) =>
      let (d1, o) := serveFrame d h pl
      let cont := match o with
        | .reply _ c => c
        | .other => fate k
      if cont then
        let (d2, os) := serveStream fate fuel (k + 1) d1 rest
        (d2, o :: os)
      else (d1, [o])

def serve (fate : Nat → Bool) (d : Dev) (bs : Bytes) : Dev × List Outcome :=
  serveStream fate bs.length 0 d bs

/-! ### datagrams (`enip_srv_udp`)

Every datagram gets a fresh input source: the frame parser sees exactly the bytes of that one datagram.  The first
complete frame of the datagram is processed (bytes behind it are dropped with the source); a datagram that does not
hold a complete frame fails (`assert not addr`, logged) and is dropped.  There is no session: the loop goes on
with the next datagram whatever happened, and a reply -- if any -- goes to the sender of the datagram. -/

inductive DgOutcome
  | dropped                    -- no complete frame in the datagram: nothing is processed
  | frame (o : Outcome)        -- the datagram's first frame, processed like any frame
deriving Repr, DecidableEq

def serveDatagram (d : Dev) (dg : Bytes) : Dev × DgOutcome :=
  match splitFrame dg with
  | none => (d, .dropped)
  | some (h, pl, _) =>
    let (d', o) := serveFrame d h pl
    (d', .frame o)

/-- the datagram loop: one outcome per datagram, in order of arrival (from whichever peers) -/
def serveDatagrams (d : Dev) : List Bytes → Dev × List DgOutcome
  | [] => (d, [])
  | dg :: rest =>
    let (d1, o) := serveDatagram d dg
    let (d2, os) := serveDatagrams d1 rest
    (d2, o :: os)

/-! ### the no-progress detection of automata.py (`state.run`, `dfa_base.delegate`)

A machine level keeps the *crumbs* `(state, next symbol, symbols sent)` it has seen; coming to a crumb a second
time ends the loop (a terminal state then accepts, otherwise `NonTerminal`/`AssertionError`).  The model: states
are numbers `< nstates`; `step s pos sym` is whatever one pass of the loop does at state `s` with `pos` symbols
sent and `sym` the next symbol (`none` at the end of the input): `none` = no transition (the loop ends), or a new
state and a new position (symbols may be consumed or pushed back, but positions stay inside the input). -/

structure Machine where
  nstates : Nat
  step : Nat → Nat → Option Nat → Option (Nat × Nat)

def Machine.next (m : Machine) (input : List Nat) (c : Nat × Nat) : Option (Nat × Nat) :=
  match m.step c.1 c.2 input[c.2]? with
  | none => none
  | some (s', p') => if s' < m.nstates ∧ p' ≤ input.length then some (s', p') else none

/-- how the loop ended -/
inductive Stop
  | noTransition | stasis | fuel
deriving Repr, DecidableEq

structure Run where
  passes : Nat                 -- passes of the loop (states run)
  stop : Stop
  last : Nat × Nat             -- the crumb (state, position) of the last state that ran
deriving Repr, DecidableEq

def runCrumbs (m : Machine) (input : List Nat) : Nat → List (Nat × Nat) → Nat × Nat → Run
  | 0, _, c => ⟨0, .fuel, c⟩
  | fuel + 1, seen, c =>
    match m.next input c with
    | none => ⟨1, .noTransition, c⟩
    | some c' =>
      if seen.contains c' then ⟨1, .stasis, c⟩
      else
        let r := runCrumbs m input fuel (c' :: seen) c'
        { r with passes := r.passes + 1 }

/-- the same loop without the check (what a parser loop that stops making progress would do) -/
def runBlind (m : Machine) (input : List Nat) : Nat → Nat × Nat → Run
  | 0, c => ⟨0, .fuel, c⟩
  | fuel + 1, c =>
    match m.next input c with
    | none => ⟨1, .noTransition, c⟩
    | some c' =>
      let r := runBlind m input fuel c'
      { r with passes := r.passes + 1 }

end Cpppo.Serve
