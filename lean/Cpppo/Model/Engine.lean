import Cpppo.Model.Source
/-
Model of the parsing engine of `automata.py` (property C10): `state.run` (583-736),
`state.transition` (738-818), `state.__getitem__` (506-533), `dfa_base.delegate`/`terminal`/`loop`
(1196-1337), `state_input`/`state_drop.process`, `state_struct.terminate`.

A *machine* is a flat table of states.  Features covered (everything the library's parsers use to
decide control flow; `server/enip/parser.py` overrides only `terminate`, i.e. data post-processing):

  kinds     `null`   cpppo.state            consumes nothing, accepts anything (also at end of input)
            `input`  cpppo.state_input      needs a symbol, consumes it
            `drop`   cpppo.state_drop       needs a symbol, consumes it
            `dfa`    cpppo.dfa / octets / octets_struct / regex ... : a `null` state that runs the
                     sub-machine starting at `init`, `repeat` times, optionally storing the
                     little-endian value of what it consumed into a data field (`state_struct`)
  flags     `term` (`terminal=`), `greedy` (`greedy=`), `limit` (`limit=`, on any state)
  edges     by symbol, `any` (`True`), `eps` (`None`); lookup order symbol, any, eps  (`__getitem__`)
  targets   a list `decide, ..., decide[, state | None]`; a `decide` has a predicate and a state
  specs     `limit`/`repeat`: absent | constant | data field (`'..length'`, callables) |
            `tape` (the value the data artifact supplied at this evaluation, taken in order from an
            environment tape: used to run the library's own graphs, whose predicates are opaque)
  preds     always | field = c | field ≠ c | field even | field odd | tape
  events    every `yield` of `(machine, None)` reaches the driver of the top-level generator, which
            chains the next pending input block (`World.pend`) if there is one (server/enip/main.py
            does exactly this with `recv`); `(machine, state)` events need no action
  crumbs    `(state, peek, sent)` no-progress detection at all three places (accept loop, own
            transition loop, parent `delegate`), including the parent closing the generator
            (`GeneratorExit`), which skips the final `assert source.sent <= ending`
  dfa state `current`, `cycle`, `final` persist between runs of the same dfa (a `repeat` of 0 leaves
            `current` where the previous run ended: `terminal` then reads that stale state)

Not covered: `recognizers` (callable edge keys), `encoder`, alphabets other than "any symbol",
non-int limits (`assert isinstance`), a non-iterable chained to stop the machine (`TypeError`).
No imports outside the project.
-/
namespace Cpppo.Engine
open Cpppo.Source

/-! ### machine descriptions -/

inductive Spec where
  | none
  | const (n : Nat)
  | field (k : Nat)
  | tape
deriving Repr, DecidableEq, Inhabited

inductive Pred where
  | always
  | eq (k v : Nat)
  | ne (k v : Nat)
  | even (k : Nat)
  | odd (k : Nat)
  | tape
deriving Repr, DecidableEq, Inhabited

/-- one element of an edge's target list -/
inductive Target where
  | plain (t : Option Nat)            -- a state, or `None`
  | guard (p : Pred) (t : Option Nat) -- a `decide` (its `.state` may be `None`)
deriving Repr, DecidableEq, Inhabited

inductive Label where
  | sym (c : Nat)
  | any
  | eps
deriving Repr, DecidableEq, Inhabited

inductive Kind where
  | null
  | input
  | drop
  | dfa (init : Nat) (rep : Spec) (store : Option Nat)
deriving Repr, DecidableEq, Inhabited

structure State where
  kind   : Kind := .null
  term   : Bool := false
  greedy : Bool := true
  limit  : Spec := .none
  edges  : List (Label × List Target) := []
deriving Repr, DecidableEq, Inhabited

abbrev Machine := List State

def Machine.st (M : Machine) (i : Nat) : State := M.getD i {}

/-! ### the world a run acts on -/

/-- the mutable attributes of a `dfa_base` instance -/
structure DfaSt where
  cur   : Nat
  cycle : Nat := 0
  final : Nat := 1
deriving Repr, DecidableEq

structure World where
  src   : ASrc := {}
  pend  : List (List Sym) := []        -- blocks the driver chains, one per non-transition event
  data  : List (Nat × Nat) := []       -- parsed fields
  dfas  : List (Nat × DfaSt) := []     -- dfa attributes, by state index (absent = as constructed)
  tape  : List Nat := []               -- environment values for `Spec.tape` / `Pred.tape`
deriving Repr, DecidableEq

def lookupD {β} (l : List (Nat × β)) (k : Nat) (d : β) : β :=
  match l with
  | [] => d
  | (k', v) :: r => if k' = k then v else lookupD r k d

def World.field (w : World) (k : Nat) : Nat := lookupD w.data k 0

def World.setField (w : World) (k v : Nat) : World := { w with data := (k, v) :: w.data }

/-- attributes of dfa `i` (`__init__`: `current = initial`, `cycle = 0`, `final = 1`) -/
def World.dfa (M : Machine) (w : World) (i : Nat) : DfaSt :=
  match (M.st i).kind with
  | .dfa init _ _ => lookupD w.dfas i { cur := init }
  | _ => lookupD w.dfas i { cur := 0 }

def World.setDfa (w : World) (i : Nat) (d : DfaSt) : World := { w with dfas := (i, d) :: w.dfas }

def World.peek (w : World) : Option Sym := w.src.peek
def World.sent (w : World) : Int := w.src.sent

/-- `next(source)` in `state_input.process` / `state_drop.process` -/
def World.advance (w : World) : World := { w with src := w.src.next.2 }

/-- the driver of the outermost generator: on a `(machine, None)` event it chains the next block -/
def World.hook (w : World) (tgt : Option Nat) : World :=
  match tgt with
  | some _ => w
  | none =>
    match w.pend with
    | [] => w
    | b :: r => { w with src := w.src.chainBlock b, pend := r }

/-- everything still to be delivered: the source's symbols, then the blocks not yet chained -/
def World.total (w : World) : List Sym := w.src.rest ++ w.pend.flatten

/-- take the next environment value (0 when the tape is exhausted) -/
def World.pop (w : World) : Nat × World :=
  match w.tape with
  | [] => (0, w)
  | v :: r => (v, { w with tape := r })

/-! ### `terminal` -/

/-- `state.terminal` / `dfa_base.terminal`:
`self._terminal and self.current.terminal and not self.loop()`; the fuel bounds the nesting depth -/
def terminal (M : Machine) (w : World) : Nat → Nat → Bool
  | 0, _ => false
  | f + 1, i =>
    match (M.st i).kind with
    | .dfa _ _ _ =>
      let d := w.dfa M i
      (M.st i).term && terminal M w f d.cur && !(d.cycle < d.final)
    | _ => (M.st i).term

def Machine.depth (M : Machine) : Nat := M.length + 1

def isTerminal (M : Machine) (w : World) (i : Nat) : Bool := terminal M w M.depth i

/-! ### edges -/

def findLabel (es : List (Label × List Target)) (l : Label) : Option (List Target) :=
  match es with
  | [] => none
  | (l', ts) :: r => if l' = l then some ts else findLabel r l

/-- `state.__getitem__`: the exact symbol, then `True`, then `None`; without input only `None` -/
def lookup (s : State) (inp : Option Sym) : Option (List Target) :=
  match inp with
  | some c =>
    match findLabel s.edges (.sym c) with
    | some ts => some ts
    | none =>
      match findLabel s.edges .any with
      | some ts => some ts
      | none => findLabel s.edges .eps
  | none => findLabel s.edges .eps

def evalPred (w : World) : Pred → Bool × World
  | .always => (true, w)
  | .eq k v => (w.field k == v, w)
  | .ne k v => (w.field k != v, w)
  | .even k => (w.field k % 2 == 0, w)
  | .odd k => (w.field k % 2 == 1, w)
  | .tape => let (v, w') := w.pop; (v != 0, w')

/-- the `for potential in choice:` loop of `state.transition` -/
def evalChoice (w : World) : List Target → Option Nat × World
  | [] => (none, w)
  | .plain t :: _ => (t, w)
  | .guard p t :: r =>
    let (b, w') := evalPred w p
    if b then
      match t with
      | some x => (some x, w')
      | none => evalChoice w' r
    else evalChoice w' r

def resolve (w : World) : Spec → Option Nat × World
  | .none => (none, w)
  | .const n => (some n, w)
  | .field k => (some (w.field k), w)
  | .tape => let (v, w') := w.pop; (some v, w')

/-- `if ending is None or source.sent + limit < ending: ending = source.sent + limit` -/
def shrink (e : Option Int) (sent : Int) (lim : Option Nat) : Option Int :=
  match lim with
  | none => e
  | some l =>
    match e with
    | none => some (sent + l)
    | some x => if sent + l < x then some (sent + l) else some x

/-! ### events and crumbs -/

/-- `(state, source.peek(), source.sent)` -/
abbrev Crumb := Option Nat × Option Sym × Int

def World.crumb (w : World) (tgt : Option Nat) : Crumb := (tgt, w.peek, w.sent)

/-- A `yield machine,target` from a state's `run`.  `ps` is the `seen` set of the `delegate` that
runs this state (`none` for the outermost machine): the event is tested against it (`stasis`), the
event travels on to the driver (`hook`), and on stasis the delegate closes this generator. -/
def emit (ps : Option (List Crumb)) (w : World) (tgt : Option Nat) :
    Option (List Crumb) × World × Bool :=
  match ps with
  | none => (none, w.hook tgt, false)
  | some l =>
    if w.crumb tgt ∈ l then (some l, w.hook tgt, true)
    else (some (w.crumb tgt :: l), w.hook tgt, false)

inductive Err where
  | nonterminal     -- cpppo.NonTerminal
  | assertion       -- AssertionError (no progress before an acceptable symbol; limit exceeded)
  | fuel            -- the model ran out of fuel (never compared: the driver gives plenty)
deriving Repr, DecidableEq

abbrev Res (α : Type) := Except (Err × World) α

/-- what the run of one state hands back to the `delegate` that ran it -/
structure RunOut where
  w      : World
  ps     : Option (List Crumb)
  closed : Bool          -- the delegate saw stasis and closed the generator
  target : Option Nat    -- the transition delivered (`transit`), if any
deriving Repr

/-! ### `state.run`, part 1: wait for an acceptable symbol -/

def accepts (s : State) (w : World) : Bool :=
  match s.kind with
  | .input => w.peek.isSome
  | .drop => w.peek.isSome
  | _ => true

/-- `while not self.accepts(...)`: crumb, `assert crumb not in seen`, `yield machine,None` -/
def acceptLoop (s : State) : Nat → List Crumb → Option (List Crumb) → World →
    Res (Option (List Crumb) × World × Bool)
  | 0, _, _, w => .error (.fuel, w)
  | f + 1, seen, ps, w =>
    if accepts s w then .ok (ps, w, false)
    else if w.crumb none ∈ seen then .error (.assertion, w)
    else
      match emit ps w none with
      | (ps', w', true) => .ok (ps', w', true)
      | (ps', w', false) => acceptLoop s f (w.crumb none :: seen) ps' w'

/-! ### `state.run`, part 3: the state's own transition (`state.transition` inside the crumb loop
of `run`) -/

structure TransOut where
  ps     : Option (List Crumb)
  w      : World
  closed : Bool
  target : Option Nat

def transLoop (M : Machine) (i : Nat) (limited : Bool) : Nat → List Crumb → Option (List Crumb) →
    World → Res TransOut
  | 0, _, _, w => .error (.fuel, w)
  | f + 1, seen, ps, w =>
    let s := M.st i
    if isTerminal M w i && !s.greedy then .ok ⟨ps, w, false, none⟩
    else
      let inp := if limited then none else w.peek
      match lookup s inp with
      | none =>
        if limited then .ok ⟨ps, w, false, none⟩
        else if inp.isNone && !s.edges.isEmpty then
          -- `yield machine,None`, through the crumb test of `run`
          if w.crumb none ∈ seen then .ok ⟨ps, w, false, none⟩
          else
            match emit ps w none with
            | (ps', w', true) => .ok ⟨ps', w', true, none⟩
            | (ps', w', false) => transLoop M i limited f (w.crumb none :: seen) ps' w'
        else .ok ⟨ps, w, false, none⟩
      | some ch =>
        let (tgt, w1) := evalChoice w ch
        if w1.crumb tgt ∈ seen then .ok ⟨ps, w1, false, none⟩
        else
          match emit ps w1 tgt with
          | (ps', w', true) => .ok ⟨ps', w', true, none⟩
          | (ps', w', false) => .ok ⟨ps', w', false, tgt⟩

/-! ### `dfa_base.delegate` (open recursion: `child` runs one state of the sub-machine) -/

abbrev Child := Nat → Option (List Crumb) → Option Int → World → Res RunOut

/-- `while not done:` run the current state; follow its transition; stop on stasis or when it
does not transit.  Returns the state the sub-machine stopped in and the stasis flag.
`cycle`/`final` are the dfa's attributes (only `current` changes here). -/
def innerLoop (child : Child) (i : Nat) (e : Option Int) (cycle final : Nat) : Nat → Nat →
    List Crumb → World → Res (Nat × World × Bool)
  | 0, _, _, w => .error (.fuel, w)
  | f + 1, cur, seen, w =>
    match child cur (some seen) e w with
    | .error x => .error x
    | .ok r =>
      if r.closed then .ok (cur, r.w, true)
      else
        match r.target with
        | some t =>
          innerLoop child i e cycle final f t (r.ps.getD [])
            (r.w.setDfa i { cur := t, cycle := cycle, final := final })
        | none => .ok (cur, r.w, false)

/-- `while self.loop() and not stasis:`; returns the number of sub-machine runs started and whether
stasis ended the loop.  (A dfa is never a state of its own sub-machine - Python would block on its
lock - so `cycle`/`final` are carried as loop variables and written to the world for `terminal`.) -/
def cycleLoop (M : Machine) (child : Child) (i init : Nat) (e : Option Int) (final : Nat) :
    Nat → Nat → World → Res (World × Nat × Bool)
  | 0, _, w => .error (.fuel, w)
  | f + 1, cycle, w =>
    if cycle < final then
      let w0 := w.setDfa i { cur := init, cycle := cycle + 1, final := final }
      match innerLoop child i e (cycle + 1) final f init [w0.crumb (some init)] w0 with
      | .error x => .error x
      | .ok (cur, w1, stasis) =>
        if !isTerminal M w1 cur then .error (.nonterminal, w1)
        else if stasis then .ok (w1, 1, true)
        else
          match cycleLoop M child i init e final f (cycle + 1) w1 with
          | .error x => .error x
          | .ok (w2, k, st) => .ok (w2, k + 1, st)
    else .ok (w, 0, false)

/-- little-endian value of a byte string (`struct.unpack('<…')`) -/
def leNat : List Nat → Nat
  | [] => 0
  | b :: r => b + 256 * leNat r

/-- `dfa_base.delegate`, then `terminate` (normal completion only).  Also reports the number of
sub-machine runs and the stasis flag (not used by `run`; the subject of `repeat_exact`). -/
def delegate (M : Machine) (child : Child) (i : Nat) (e : Option Int) (f : Nat) (w : World) :
    Res (World × Nat × Bool) :=
  match (M.st i).kind with
  | .dfa init rep store =>
    let (n, w0) := resolve w rep
    let d := w0.dfa M i
    let w1 := w0.setDfa i { d with cycle := 0, final := n.getD 1 }
    let before := w1.total
    let sent0 := w1.sent
    match cycleLoop M child i init e (n.getD 1) f 0 w1 with
    | .error x => .error x
    | .ok (w2, k, st) =>
      match store with
      | none => .ok (w2, k, st)
      | some fld =>
        .ok (w2.setField fld (leNat ((before.take (w2.sent - sent0).toNat).take (n.getD 1))), k, st)
  | _ => .ok (w, 0, false)

/-! ### `state.run` -/

def process (s : State) (w : World) : World :=
  match s.kind with
  | .input => w.advance
  | .drop => w.advance
  | _ => w

def runState (M : Machine) : Nat → Child
  | 0, _, _, _, w => .error (.fuel, w)
  | f + 1, i, ps, e, w =>
    let s := M.st i
    match acceptLoop s f [] ps w with
    | .error x => .error x
    | .ok (ps1, w1, true) => .ok { w := w1, ps := ps1, closed := true, target := none }
    | .ok (ps1, w1, false) =>
      let w2 := process s w1
      let (lim, w3) := resolve w2 s.limit
      let e' := shrink e w3.sent lim
      match delegate M (runState M f) i e' f w3 with
      | .error x => .error x
      | .ok (w4, _, _) =>
        let limited := match e' with
          | some x => decide (x ≤ w4.sent)
          | none => false
        match transLoop M i limited f [] ps1 w4 with
        | .error x => .error x
        | .ok t =>
          if t.closed then .ok { w := t.w, ps := t.ps, closed := true, target := none }
          else
            match e' with
            | some x =>
              if x < t.w.sent then .error (.assertion, t.w)
              else .ok { w := t.w, ps := t.ps, closed := false, target := t.target }
            | none => .ok { w := t.w, ps := t.ps, closed := false, target := t.target }

/-! ### the outermost run: `with machine: for m,s in machine.run( source=…, data=… ): …` -/


def dfaStates (M : Machine) (w : World) : Nat → List (Nat × DfaSt)
  | 0 => []
  | n + 1 =>
    match (M.st n).kind with
    | .dfa _ _ _ => dfaStates M w n ++ [(n, w.dfa M n)]
    | _ => dfaStates M w n

def runTop (M : Machine) (fuel : Nat) (top : Nat) (w : World) : Except (Err × World) (World × Bool) :=
  match runState M fuel top none none w with
  | .error x => .error x
  | .ok r => .ok (r.w, isTerminal M r.w top)

end Cpppo.Engine
