/-
Model of `automata.py`: `state.from_regex` (translation of a greenery fsm into a graph of cpppo
states) and of the run of a `regex` / `regex_bytes` dfa over that graph (property C11).

What is mirrored (automata.py:884-1029, 506-533, 738-818, 1215-1337):

* the greenery fsm is a complete table `map : state ↦ (symbol | None=anything-else) ↦ state`, with
  `initial` and `finals`;
* a state is *dead* when all its edges loop back onto itself and it is neither final nor initial
  (a purely local test); dead states get no node (`pre not in states`);
* every edge into a dead state becomes an explicit transition to `None` (a non-transition), except
  that it is skipped as *redundant* when the state's wildcard edge already is a non-transition;
* the `None` (anything-else) edge becomes the wildcard `True` edge; it is processed first;
* with an encoder (`regex_bytes`: UTF-8) a symbol that encodes to several bytes becomes a chain of
  extra non-terminal states `<q>_0, <q>_1, …`; this is allowed only in a state with one edge, or two
  of which one is anything-else (otherwise the construction is refused by an assertion).  The
  wildcard edge is *not* copied onto the chain states: the code tests `True in states[pre]`, i.e.
  the raw dict key `True`, while the wildcard is stored under the encoded key `-1` (finding, kept);
* two defects of the encoder expansion are repaired by the `fix:` commit; `Variant.fixed` is the
  repaired code (what the theorems are about), `Variant.old` the code before (kept for the witnesses):
  - `deadFirst`: a multi-byte symbol whose edge leads into a dead state is refused on its *first* byte
    (one explicit non-transition); before, a chain was built that consumed the leading byte(s) and
    then failed;
  - `freshKeys`: every extra state gets an unused key in `states`; before, the key was
    `len(states)` advanced past the keys of the fsm only, so after a skipped (dead-state) key the next
    extra state was stored under the key of the previous one, and the link
    `states[lst][enc] = states[add]` then looped the new state onto itself, leaving the previous one
    without edges (every symbol of three or more bytes was unusable in such a machine);
* the machine starts in a non-consuming copy of the initial state which is *not* terminal
  (`state( states[machine.initial] )`: `terminal` defaults to `False`), so the empty prefix is never
  accepted;
* lookup order of `state.__getitem__`: exact symbol, (no recognizers in these machines), wildcard;
  a found target `None` and a missing edge both end the run (the sub-states are always greedy: the
  `greedy` flag of the `regex` dfa only governs the dfa's own outgoing edge);
* a symbol is consumed on entering the target state (`state_input.process`), never before an edge for
  it was found; `source.sent` and the stored `.input` are exactly the consumed symbols;
* at the end of a chunk the current state waits (yields non-transitions) and resumes with the next
  chunk; an *empty* chunk is a second no-progress event and ends the run (stasis);
* the dfa raises `NonTerminal` iff the state it stopped in is not terminal.

Imports only `Cpppo.Model.Rx` (for `Sym`): this file is linked into the `cpppo_model` driver.
-/
import Cpppo.Model.Rx
namespace Cpppo.Regex

export Cpppo.Rx (Sym)

/-! ### UTF-8 (the `regex_bytes` encoder `type_str_encoder`) -/

/-- the UTF-8 bytes of a code point (Python's `str.encode('utf-8')`; surrogates are not excluded) -/
def utf8 (c : Nat) : List Nat :=
  if c < 0x80 then [c]
  else if c < 0x800 then [0xC0 + c / 64, 0x80 + c % 64]
  else if c < 0x10000 then [0xE0 + c / 4096, 0x80 + c / 64 % 64, 0x80 + c % 64]
  else [0xF0 + c / 262144 % 8, 0x80 + c / 4096 % 64, 0x80 + c / 64 % 64, 0x80 + c % 64]

/-- `bytes = true`: `regex_bytes` (encoder = UTF-8); `false`: `regex` (no encoder) -/
def encode (bytes : Bool) (c : Sym) : List Sym := if bytes then utf8 c else [c]

/-! ### the greenery fsm -/

abbrev Tab := List (Option Sym × Nat)

structure Fsm where
  init   : Nat
  finals : List Nat
  map    : List (Nat × Tab)
deriving Repr

namespace Fsm

def tab (F : Fsm) (q : Nat) : Tab := (F.map.lookup q).getD []
def inMap (F : Fsm) (q : Nat) : Bool := (F.map.lookup q).isSome
def final (F : Fsm) (q : Nat) : Bool := F.finals.contains q

/-- `loopback = all( dst == pre for dst in tab.values() )` -/
def loopback (F : Fsm) (q : Nat) : Bool := (F.tab q).all fun e => e.2 == q

/-- cpppo's local dead-state test -/
def dead (F : Fsm) (q : Nat) : Bool := F.loopback q && !F.final q && !(q == F.init)

/-- `q in states`: a node was created for `q` -/
def kept (F : Fsm) (q : Nat) : Bool := F.inMap q && !F.dead q

/-- the fsm's own transition function: the symbol's entry, else the anything-else entry -/
def step (F : Fsm) (q : Nat) (c : Sym) : Nat :=
  match (F.tab q).lookup (some c) with
  | some d => d
  | none => ((F.tab q).lookup none).getD q

def run (F : Fsm) (q : Nat) (w : List Sym) : Nat := w.foldl F.step q

/-- greenery's `accepts` -/
def accepts (F : Fsm) (w : List Sym) : Bool := F.final (F.run F.init w)

end Fsm

/-! ### the cpppo state graph -/

inductive StId where
  | orig  (q : Nat)              -- the node named `str(q)`
  | chain (q : Nat) (i : Nat)    -- the extra node named `str(q)_i`
deriving Repr, DecidableEq

/-- A `state_input` node.  `any`: the wildcard edge (absent / explicit non-transition / target);
`exact`: the edges keyed by a symbol, in insertion order (first match wins); target `none` is an
explicit non-transition. -/
structure Node where
  terminal : Bool
  any      : Option (Option StId)
  exact    : List (Sym × Option StId)
deriving Repr

/-- `dst = states.get( nxt )` -/
def target (F : Fsm) (nxt : Nat) : Option StId := if F.kept nxt then some (.orig nxt) else none

/-- the wildcard edge of `q` (the anything-else entry is processed first) -/
def anyEdge (F : Fsm) (q : Nat) : Option (Option StId) := ((F.tab q).lookup none).map (target F)

/-- which code is modelled -/
structure Variant where
  deadFirst : Bool
  freshKeys : Bool
deriving Repr, DecidableEq

def Variant.fixed : Variant := ⟨true, true⟩
def Variant.old : Variant := ⟨false, false⟩

/-- The extra nodes `<q>_i, <q>_(i+1), …` for the bytes `b :: rest` that follow the byte leading into
`<q>_i`; the last one leads to `dst` (never skipped as redundant: an extra node has no wildcard edge).
`coll j` says that the old code stored `<q>_j` under the key of `<q>_(j-1)`: then `<q>_j` gets the edge
meant for `<q>_(j-1)` (onto itself) and `<q>_(j-1)` gets none.  `self` = this node carries such a loop
for the byte `sb`. -/
def chainNodes (q : Nat) (coll : Nat → Bool) : Nat → Option Sym → List Sym → Option StId → List (StId × Node)
  | _, _, [], _ => []
  | i, self, [b], dst =>
    [(.chain q i, { terminal := false, any := none,
                    exact := (match self with | some sb => [(sb, some (.chain q i))] | none => []) ++ [(b, dst)] })]
  | i, self, b :: rest, dst =>
    let loop := match self with | some sb => [(sb, some (StId.chain q i))] | none => []
    if coll (i + 1) then
      (.chain q i, { terminal := false, any := none, exact := loop })
        :: chainNodes q coll (i + 1) (some b) rest dst
    else
      (.chain q i, { terminal := false, any := none, exact := loop ++ [(b, some (.chain q (i + 1)))] })
        :: chainNodes q coll (i + 1) none rest dst

/-- the encoded symbols of an edge; the repaired code keeps only the first when the edge is dead -/
def edgeBytes (F : Fsm) (bytes : Bool) (v : Variant) (c : Sym) (nxt : Nat) : List Sym :=
  if v.deadFirst && !F.kept nxt then (encode bytes c).take 1 else encode bytes c

/-! #### the keys of the extra states in the old code -/

/-- `add = len(states); while add in machine.map: add += 1` -/
def firstFree (F : Fsm) : Nat → Nat → Nat
  | 0, n => n
  | fuel + 1, n => if F.inMap n then firstFree F fuel (n + 1) else n

/-- one extra state: (number of keys in `states`, last extra key) ↦ (collides?, new state) -/
def addKey (F : Fsm) (st : Nat × Option Nat) : Bool × (Nat × Option Nat) :=
  let a := firstFree F (F.map.length + 1) st.1
  if st.2 = some a then (true, st) else (false, (st.1 + 1, some a))

/-- the extra states `<q>_0 … <q>_(k-2)` of one symbol: records `(q, j)` for every collision -/
def addKeys (F : Fsm) (q : Nat) : Nat → Nat → (Nat × Option Nat) → List (Nat × Nat) × (Nat × Option Nat)
  | 0, _, st => ([], st)
  | n + 1, j, st =>
    let (c, st') := addKey F st
    let (l, st'') := addKeys F q n (j + 1) st'
    (if c then (q, j) :: l else l, st'')

def tabKeys (F : Fsm) (bytes : Bool) (v : Variant) (q : Nat) : Tab → (Nat × Option Nat) →
    List (Nat × Nat) × (Nat × Option Nat)
  | [], st => ([], st)
  | (none, _) :: t, st => tabKeys F bytes v q t st
  | (some c, nxt) :: t, st =>
    let (l, st') := addKeys F q ((edgeBytes F bytes v c nxt).length - 1) 0 st
    let (l', st'') := tabKeys F bytes v q t st'
    (l ++ l', st'')

def mapKeys (F : Fsm) (bytes : Bool) (v : Variant) : List (Nat × Tab) → (Nat × Option Nat) → List (Nat × Nat)
  | [], _ => []
  | (q, t) :: rest, st =>
    if F.kept q then
      let (l, st') := tabKeys F bytes v q t st
      l ++ mapKeys F bytes v rest st'
    else mapKeys F bytes v rest st

/-- the extra states that the old code stored under the key of their predecessor -/
def collisions (F : Fsm) (bytes : Bool) (v : Variant) : List (Nat × Nat) :=
  if v.freshKeys then [] else
  mapKeys F bytes v F.map ((F.map.filter fun e => F.kept e.1).length, none)

/-- the edges put on node `q` for the fsm entry `c ↦ nxt` -/
def symExact (F : Fsm) (bytes : Bool) (v : Variant) (q : Nat) (c : Sym) (nxt : Nat) : List (Sym × Option StId) :=
  match edgeBytes F bytes v c nxt with
  | [] => []
  | [b] => if target F nxt = none ∧ anyEdge F q = some none then [] else [(b, target F nxt)]
  | b :: _ => [(b, some (.chain q 0))]

/-- the extra nodes created for the fsm entry `c ↦ nxt` -/
def symChain (F : Fsm) (bytes : Bool) (v : Variant) (coll : List (Nat × Nat)) (q : Nat) (c : Sym) (nxt : Nat) :
    List (StId × Node) :=
  match edgeBytes F bytes v c nxt with
  | _ :: b2 :: rest => chainNodes q (fun j => coll.contains (q, j)) 0 none (b2 :: rest) (target F nxt)
  | _ => []

def exactOf (F : Fsm) (bytes : Bool) (v : Variant) (q : Nat) : Tab → List (Sym × Option StId)
  | [] => []
  | (none, _) :: t => exactOf F bytes v q t
  | (some c, nxt) :: t => symExact F bytes v q c nxt ++ exactOf F bytes v q t

def chainsOf (F : Fsm) (bytes : Bool) (v : Variant) (coll : List (Nat × Nat)) (q : Nat) : Tab → List (StId × Node)
  | [] => []
  | (none, _) :: t => chainsOf F bytes v coll q t
  | (some c, nxt) :: t => symChain F bytes v coll q c nxt ++ chainsOf F bytes v coll q t

def origNode (F : Fsm) (bytes : Bool) (v : Variant) (q : Nat) : Node :=
  { terminal := F.final q, any := anyEdge F q, exact := exactOf F bytes v q (F.tab q) }

def lookupId (s : StId) : List (StId × Node) → Option Node
  | [] => none
  | (k, n) :: t => if k = s then some n else lookupId s t

/-- the node behind an identifier in the graph built from `F` (`coll` = `collisions F bytes v`) -/
def nodeOfC (F : Fsm) (bytes : Bool) (v : Variant) (coll : List (Nat × Nat)) : StId → Option Node
  | .orig q => if F.kept q then some (origNode F bytes v q) else none
  | .chain q i => if F.kept q then lookupId (.chain q i) (chainsOf F bytes v coll q (F.tab q)) else none

def nodeOf (F : Fsm) (bytes : Bool) (v : Variant) : StId → Option Node :=
  nodeOfC F bytes v (collisions F bytes v)

/-- the assertions of the encoder expansion: a symbol of several bytes only in a state with one edge, or
two of which one is anything-else (evaluated before the repaired code shortens a dead edge) -/
def tabRefused (bytes : Bool) (t : Tab) : Bool :=
  t.any fun e => match e.1 with
    | some c => decide ((encode bytes c).length > 1) &&
                !(t.length == 1 || (t.length == 2 && t.any fun e => e.1.isNone))
    | none => false

def refused (F : Fsm) (bytes : Bool) : Bool :=
  F.map.any fun e => F.kept e.1 && tabRefused bytes e.2

/-! ### running the graph -/

/-- `state.__getitem__` followed by the evaluation of the target: `none` = no transition -/
def stepNode (n : Node) (c : Sym) : Option StId :=
  match n.exact.lookup c with
  | some t => t
  | none => match n.any with
    | some t => t
    | none => none

/-- Run from node `n` over the symbols available now: (consumed, node stopped in, stopped on a symbol?).
`stopped = false` means the input ran out while the node could still proceed. -/
def walk (M : StId → Option Node) : Node → List Sym → List Sym × Node × Bool
  | n, [] => ([], n, false)
  | n, c :: w =>
    match stepNode n c with
    | none => ([], n, true)
    | some s =>
      match M s with
      | none => ([], n, true)          -- dangling identifier: impossible in a built graph
      | some n' =>
        let (p, e, st) := walk M n' w
        (c :: p, e, st)

/-- the input arrives in chunks; an empty chunk is a no-progress event and ends the run -/
def walkChunks (M : StId → Option Node) : Node → List (List Sym) → List Sym × Node
  | n, [] => ([], n)
  | n, ch :: rest =>
    if ch.isEmpty then ([], n) else
    match walk M n ch with
    | (p, e, true) => (p, e)
    | (p, e, false) => let (p', e') := walkChunks M e rest; (p ++ p', e')

inductive Outcome where
  | refused                 -- construction fails (AssertionError)
  | ok                      -- the dfa ends in a terminal sub-state
  | nonTerminal             -- `NonTerminal` is raised
deriving Repr, DecidableEq

structure Result where
  outcome  : Outcome
  consumed : List Sym       -- `source.sent` symbols, also the stored `.input`
deriving Repr, DecidableEq

/-- the non-consuming, non-terminal copy of the initial node -/
def initCopy (F : Fsm) (bytes : Bool) (v : Variant) : Node :=
  { terminal := false, any := (origNode F bytes v F.init).any, exact := (origNode F bytes v F.init).exact }

def initNode (F : Fsm) (bytes : Bool) (v : Variant) : Option Node :=
  if F.kept F.init then some (initCopy F bytes v) else none

def rxRunChunks (F : Fsm) (bytes : Bool) (v : Variant) (chunks : List (List Sym)) : Result :=
  if refused F bytes then ⟨.refused, []⟩ else
  match initNode F bytes v with
  | none => ⟨.refused, []⟩               -- `states[machine.initial]` would raise KeyError
  | some n0 =>
    let coll := collisions F bytes v
    let (p, e) := walkChunks (nodeOfC F bytes v coll) n0 chunks
    ⟨if e.terminal then .ok else .nonTerminal, p⟩

/-- the whole input in one chunk -/
def rxRun (F : Fsm) (bytes : Bool) (v : Variant) (w : List Sym) : Result :=
  if refused F bytes then ⟨.refused, []⟩ else
  match initNode F bytes v with
  | none => ⟨.refused, []⟩
  | some n0 =>
    let coll := collisions F bytes v
    let (p, e, _) := walk (nodeOfC F bytes v coll) n0 w
    ⟨if e.terminal then .ok else .nonTerminal, p⟩

/-! ### decidable hypotheses of the theorems (evaluated by the driver for every tested fsm) -/

def keysNodup : Tab → Bool
  | [] => true
  | e :: t => !(t.any fun e' => e'.1 == e.1) && keysNodup t

/-- well-formedness of the table: every state has an anything-else entry and distinct keys, every
destination and the initial state are states of the table (greenery's fsm is complete) -/
def Fsm.wf (F : Fsm) : Bool :=
  F.inMap F.init &&
  F.map.all fun e => (e.2.any fun x => x.1.isNone) && keysNodup e.2 && e.2.all fun x => F.inMap x.2

/-- one round of backward reachability from the final states -/
def liveStep (F : Fsm) (L : List Nat) : List Nat :=
  (F.map.map (·.1)).filter fun q => L.contains q || (F.tab q).any fun e => L.contains e.2

def liveIter (F : Fsm) : Nat → List Nat
  | 0 => (F.map.map (·.1)).filter F.final
  | k + 1 => liveStep F (liveIter F k)

/-- states from which a final state is reachable (after `|map|` rounds) -/
def liveSet (F : Fsm) : List Nat := liveIter F F.map.length

/-- certificate that the local dead test is exact: every state that is kept can reach a final state -/
def Fsm.certLive (F : Fsm) : Bool :=
  F.map.all fun e => F.dead e.1 || (liveSet F).contains e.1

end Cpppo.Regex

/-! ### exact comparison of an fsm with an expression: a bisimulation certificate

`explore` (unverified search) collects pairs (fsm state, simplified iterated derivative); `isBisim`
(verified: `Cpppo.Proofs.Bisim.isBisim_sound`) checks that a list of pairs is closed under every symbol
that matters and agrees on acceptance.  When it holds the fsm accepts exactly the expression's language. -/
namespace Cpppo.Regex
open Cpppo.Rx (Rx)

/-- the symbols named by the fsm -/
def fsmSyms (F : Fsm) : List Sym := F.map.flatMap fun e => e.2.filterMap (·.1)

def maxOf (l : List Nat) : Nat := l.foldl max 0

/-- the symbols that matter for a set of pairs: those named by the fsm or by an expression, plus one
that is named nowhere -/
def sigOf (F : Fsm) (R : List (Nat × Rx)) : List Sym :=
  let named := fsmSyms F ++ R.flatMap fun p => p.2.syms
  (maxOf named + 1) :: named

def isBisim (F : Fsm) (r : Rx) (R : List (Nat × Rx)) : Bool :=
  R.contains (F.init, r) &&
  R.all fun p =>
    (F.final p.1 == p.2.nullable) &&
    (sigOf F R).all fun c => R.contains (F.step p.1 c, Rx.nderiv c p.2)

/-- worklist search for the closure of `(init, r)` under the symbols of `sig` (fuel-bounded) -/
def exploreGo (F : Fsm) (sig : List Sym) : Nat → List (Nat × Rx) → List (Nat × Rx) → List (Nat × Rx)
  | 0, _, seen => seen
  | _ + 1, [], seen => seen
  | fuel + 1, p :: todo, seen =>
    if seen.contains p then exploreGo F sig fuel todo seen
    else
      let seen' := seen ++ [p]
      -- (a derivative that has grown beyond 2000 nodes is not pursued: no certificate then)
      let succ := (sig.map fun c => (F.step p.1 c, Rx.nderiv c p.2)).filter fun x => x.2.size ≤ 2000
      let fresh := succ.foldl (fun acc x => if seen'.contains x || todo.contains x || acc.contains x then acc
                                            else acc ++ [x]) []
      exploreGo F sig fuel (todo ++ fresh) seen'

def explore (F : Fsm) (r : Rx) (fuel : Nat) : List (Nat × Rx) :=
  let named := fsmSyms F ++ r.syms
  exploreGo F ((maxOf named + 1) :: named) fuel [(F.init, r)] []

end Cpppo.Regex
