/-
Python text primitives used by `server/enip/client.py` / `device.py` (property C12), modelled over
`List Char` for the ASCII alphabet:

  `str.strip`, `str.split(c, 1)`, `str.split(c)`, `str.startswith`, `str.upper`/`lower`,
  `int(x)` / `int(x, base=10)`, `int(x, base=0)` (the prefixed forms), `device.parse_int`,
  `"%d" % n`, `"0x%04X" % n`.

`int()` grammar (CPython `PyLong_FromString`): optional surrounding whitespace, optional sign
immediately followed by the digits, digits with single underscores *between* digits; with base 0 a
`0x`/`0o`/`0b` prefix which may be followed by one underscore.  Only ASCII input is modelled (the
correspondence generators stay inside ASCII).
No imports: linked into the `cpppo_model` driver.
-/
namespace Cpppo.Py

abbrev Str := List Char

/-- `str.isspace` on the ASCII range (what `strip()` and `int()` discard). -/
def isSpace (c : Char) : Bool :=
  c == ' ' || c == '\t' || c == '\n' || c == '\r' || c == '\x0b' || c == '\x0c'
  || c == '\x1c' || c == '\x1d' || c == '\x1e' || c == '\x1f'

def lstrip (s : Str) : Str := s.dropWhile isSpace

def rstrip : Str → Str
  | [] => []
  | c :: cs =>
    match rstrip cs with
    | [] => if isSpace c then [] else [c]
    | r => c :: r

def strip (s : Str) : Str := rstrip (lstrip s)

/-- `s.split(d, 1)` when `d in s`: the text before and after the first `d`. -/
def splitFirst (d : Char) : Str → Option (Str × Str)
  | [] => none
  | c :: cs =>
    if c == d then some ([], cs)
    else match splitFirst d cs with
      | some (a, b) => some (c :: a, b)
      | none => none

/-- `s.split(d)`: never empty. -/
def splitAll (d : Char) : Str → List Str
  | [] => [[]]
  | c :: cs =>
    if c == d then [] :: splitAll d cs
    else match splitAll d cs with
      | [] => [[c]]
      | h :: t => (c :: h) :: t

def startsWith (s : Str) (c : Char) : Bool :=
  match s with
  | [] => false
  | x :: _ => x == c

def upperChar (c : Char) : Char :=
  if 'a' ≤ c ∧ c ≤ 'z' then Char.ofNat (c.toNat - 32) else c

def lowerChar (c : Char) : Char :=
  if 'A' ≤ c ∧ c ≤ 'Z' then Char.ofNat (c.toNat + 32) else c

def upper (s : Str) : Str := s.map upperChar
def lower (s : Str) : Str := s.map lowerChar

/-! ### `int()` -/

def digitVal (c : Char) : Option Nat :=
  if '0' ≤ c ∧ c ≤ '9' then some (c.toNat - 48)
  else if 'a' ≤ c ∧ c ≤ 'z' then some (c.toNat - 87)
  else if 'A' ≤ c ∧ c ≤ 'Z' then some (c.toNat - 55)
  else none

/-- digits with single underscores between them; `last` = the previous character was a digit -/
def digitsGo (base : Nat) : Str → Nat → Bool → Option Nat
  | [], acc, last => if last then some acc else none
  | c :: cs, acc, last =>
    if c == '_' then (if last then digitsGo base cs acc false else none)
    else match digitVal c with
      | some v => if v < base then digitsGo base cs (acc * base + v) true else none
      | none => none

def pyDigits (base : Nat) (s : Str) : Option Nat := digitsGo base s 0 false

/-- sign immediately in front of the digits -/
def splitSign : Str → Bool × Str
  | '-' :: r => (true, r)
  | '+' :: r => (false, r)
  | r => (false, r)

def applySign (neg : Bool) (n : Nat) : Int := if neg then - (n : Int) else (n : Int)

/-- `int(x)` = `int(x, base=10)` for a `str` -/
def pyInt10 (s : Str) : Option Int :=
  let (neg, r) := splitSign (strip s)
  (pyDigits 10 r).map (applySign neg)

/-- after a base prefix one underscore is allowed -/
def afterPrefix (base : Nat) (r : Str) : Option Nat :=
  match r with
  | '_' :: r' => pyDigits base r'
  | _ => pyDigits base r

/-- the prefixed forms of `int(x, base=0)`; its decimal forms are all accepted by base 10 already -/
def pyIntPrefixed (s : Str) : Option Int :=
  let (neg, r) := splitSign (strip s)
  match r with
  | '0' :: p :: rest =>
    if p == 'x' || p == 'X' then (afterPrefix 16 rest).map (applySign neg)
    else if p == 'o' || p == 'O' then (afterPrefix 8 rest).map (applySign neg)
    else if p == 'b' || p == 'B' then (afterPrefix 2 rest).map (applySign neg)
    else none
  | _ => none

/-- `device.parse_int`: base 10 first (so that "012" is twelve), then the deduced base -/
def parseInt (s : Str) : Option Int :=
  match pyInt10 s with
  | some v => some v
  | none => pyIntPrefixed s

/-! ### rendering -/

def digitChar (upper : Bool) (d : Nat) : Char :=
  if d < 10 then Char.ofNat (48 + d) else Char.ofNat ((if upper then 55 else 87) + d)

/-- most significant digit first; `fuel` bounds the recursion (`n + 1` always suffices) -/
def toDigitsAux (b : Nat) : Nat → Nat → List Nat → List Nat
  | 0, _, acc => acc
  | fuel + 1, n, acc =>
    if n < b then n :: acc else toDigitsAux b fuel (n / b) (n % b :: acc)

def toDigits (b n : Nat) : List Nat := toDigitsAux b (n + 1) n []

/-- `"%d" % n` for `n ≥ 0` -/
def decimal (n : Nat) : Str := (toDigits 10 n).map (digitChar true)

/-- `"%d" % v` -/
def decimalInt (v : Int) : Str :=
  if v < 0 then '-' :: decimal v.natAbs else decimal v.natAbs

/-- `"%X" % n` -/
def hexUpper (n : Nat) : Str := (toDigits 16 n).map (digitChar true)

def zeroPad (w : Nat) (s : Str) : Str := List.replicate (w - s.length) '0' ++ s

/-- `"0x%04X" % v`: the sign counts towards the width and precedes the padding -/
def hex04 (v : Int) : Str :=
  if v < 0 then '0' :: 'x' :: '-' :: zeroPad 3 (hexUpper v.natAbs)
  else '0' :: 'x' :: zeroPad 4 (hexUpper v.natAbs)

end Cpppo.Py
