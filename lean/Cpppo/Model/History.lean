/-
Model of `history/files.py` (`logger` line kinds, `parse_record`, `reader.open`, `loader.load`) and of
`misc.natural` (property C18).

Time is counted in *ticks* (`Nat`).  The library compares timestamps with a tolerance of one
millisecond (`timestamp._epsilon`); a tick stands for any span of at least 2 ms, so that on instants
that are whole ticks the tolerant comparison coincides with the exact one (the harness maps a tick to
2, 100 or 1000 ms).

What is mirrored, statement by statement:
  * `parse_record`: blank/comment lines are skipped; a line whose timestamp/serial cannot be parsed
    raises (`Line.corrupt`); the payload text is returned unparsed.
  * `reader.open`: files are visited in `natural` order of their name suffix (newest first); the first
    record of each is parsed: no record -> `break`; unparsable -> `continue`; `after` and first
    timestamp not after the target -> `break`; otherwise the file becomes the candidate; `before`
    and first timestamp not later than the target -> `break`.  No candidate -> `HistoryExhausted`.
    The generator then yields records gated by the cached `adv = cur + lookahead`, which is only
    recomputed when a record is beyond it ("pseudo" record, payload `None`, while still beyond).
  * `loader.load`: the `while state <= STREAMING or first` loop, the (re)open in INITIAL/SWITCHING,
    the body of the `for` over the generator in its exact order (iframe check, `_strict` release,
    state change, notes/garbage skipped by `continue`, event + `future` queue, draining `future`
    into `values`/`until` against the *yielded* `cur`, `upcoming`, EXHAUSTED/COMPLETE, `limit`),
    the no-op generator once the history is exhausted.

`Fix` selects between the code as it was (`Fix.old`, kept for the witnesses) and the repaired code:
  a  the `_strict` re-open guard is released only by a record that is not the first one of the
     newly opened file (old: `state not in (INITIAL, SWITCHING)`, which a not-yet-due first record
     had already turned into AWAITING);
  c  a line with an unparsable timestamp is reported as a `(None, None)` record and reading goes on
     (old: the exception leaves `reader.open` and the loader ends FAILED);
  d  `_ts` follows every record received in order, whatever its payload (old: only delivered
     events, so that a trailing unusable record released `_strict` without advancing the target and
     the same file was opened for ever).
No imports: this file is linked into the `cpppo_model` driver.
-/
namespace Cpppo.History

abbrev Time := Nat
abbrev Regs := List (Nat × Int)          -- a register payload {register: value}, keys distinct

/-- The payload text of a record, by what `loader.load` does with it. -/
inductive Payload
  | regs (kv : Regs)   -- JSON that is a dict of int-able items (event when non-empty); `regs []` also
                       -- stands for the other falsy non-string values (`{}`, `0`, `[]`, `false`)
  | skip               -- `null`, a string (note), or a truthy value that is no register dict
  | bad                -- not JSON (truncated line)
deriving DecidableEq, Repr

inductive Line
  | recd (ts : Time) (p : Payload)
  | comment                              -- `# ...` or blank
  | corrupt                              -- timestamp / serial / field structure unparsable
deriving DecidableEq, Repr

abbrev File := List Line
/-- the files of a history in the order `reader.open` visits them (newest first) -/
abbrev History := List File
abbrev Event := Time × Regs

structure Fix where
  a : Bool := true
  c : Bool := true
  d : Bool := true
deriving DecidableEq, Repr

def Fix.new : Fix := {}
def Fix.old : Fix := { a := false, c := false, d := false }

/-! ### `reader.open`: which file -/

inductive First
  | empty                                            -- `StopIteration`: no record in the file
  | bad                                              -- first line unparsable
  | ok (ts : Time) (p : Payload) (rest : List Line)
deriving DecidableEq, Repr

def firstRecord : List Line → First
  | [] => .empty
  | .comment :: t => firstRecord t
  | .corrupt :: _ => .bad
  | .recd ts p :: t => .ok ts p t

structure Opened where
  ts : Time
  p : Payload
  rest : List Line
deriving DecidableEq, Repr

/-- `ts > target if strict else ts >= target` -/
def afterOk (strict : Bool) (target ts : Time) : Bool := if strict then target < ts else target ≤ ts
/-- `ts < target if strict else ts <= target` -/
def beforeOk (strict : Bool) (target ts : Time) : Bool := if strict then ts < target else ts ≤ target

/-- the `for f in sorted(...)` loop of `reader.open`; `last` is the top of `opened` -/
def scan (target : Time) (after strict : Bool) : History → Option Opened → Option Opened
  | [], last => last
  | f :: fs, last =>
    match firstRecord f with
    | .empty => last
    | .bad => scan target after strict fs last
    | .ok ts p rest =>
      if after && !afterOk strict target ts then last
      else if !after && beforeOk strict target ts then some ⟨ts, p, rest⟩
      else scan target after strict fs (some ⟨ts, p, rest⟩)

/-! ### loader state -/

inductive St
  | initial | switching | streaming | exhausted | awaiting | complete | failed
deriving DecidableEq, Repr

/-- the suspended `reader.open` generator -/
inductive Gen
  | none
  | file (need : Option (Time × Payload)) (rest : List Line) (cur adv : Time)
  | noop
deriving DecidableEq, Repr

structure LState where
  st : St := .initial
  gen : Gen := .none
  ts : Option Time := none                 -- `_ts`
  strict : Bool := false                   -- `_strict`
  fresh : Bool := false                    -- `_opened` (repair a)
  future : List Event := []
  until_ : Option Time := none
  values : List (Nat × Time × Int) := []   -- register ↦ (time of the record, value), sorted by register
deriving DecidableEq, Repr

structure Opts where
  la : Time := 0                           -- lookahead
  fix : Fix := {}
deriving DecidableEq, Repr

structure LoadArgs where
  clock : Time                             -- `self.advance()` during this call
  limit : Option Nat := none
  upcoming : Option Time := none
deriving DecidableEq, Repr

def setReg (r : Nat) (tv : Time × Int) : List (Nat × Time × Int) → List (Nat × Time × Int)
  | [] => [(r, tv)]
  | (r', tv') :: rest =>
    if r < r' then (r, tv) :: (r', tv') :: rest
    else if r = r' then (r, tv) :: rest
    else (r', tv') :: setReg r tv rest

/-- `self.values.update( regs )` -/
def absorb (vals : List (Nat × Time × Int)) (e : Event) : List (Nat × Time × Int) :=
  e.2.foldl (fun v kv => setReg kv.1 (e.1, kv.2) v) vals

/-- `upcoming is not None and future[0][0] >= upcoming` -/
def upcomingHit (upcoming : Option Time) (t : Time) : Bool :=
  match upcoming with | some up => up ≤ t | none => false

/-- `limit is not None and len( events ) >= limit` -/
def limitHit (limit : Option Nat) (n : Nat) : Bool :=
  match limit with | some l => l ≤ n | none => false

/-- `while len(future) and future[0][0] <= cur:` with the `upcoming` return; `true` = returned -/
def drain (upcoming : Option Time) (cur : Time) :
    List Event → List (Nat × Time × Int) → Option Time → Bool × List Event × List (Nat × Time × Int) × Option Time
  | [], v, u => (false, [], v, u)
  | e :: fs, v, u =>
    if e.1 ≤ cur then
      if upcomingHit upcoming e.1 then (true, e :: fs, v, u)
      else drain upcoming cur fs (absorb v e) (some e.1)
    else (false, e :: fs, v, u)

inductive Flow
  | cont                     -- next record
  | brk                      -- `break` out of the `for`
  | ret (t : Option Time)    -- `return t, events`
  | fail                     -- exception -> FAILED
deriving DecidableEq, Repr

def tsLe (o : Option Time) (ts : Time) : Bool := match o with | none => true | some t => t ≤ ts
def tsLt (o : Option Time) (ts : Time) : Bool := match o with | none => true | some t => t < ts

/-- `_strict` after a record: released when the record is later than `_ts` and (repair a) it is not
the first record of the file / (old) the state is neither INITIAL nor SWITCHING -/
def strictAfter (fx : Fix) (s : LState) (ts : Time) : Bool :=
  let rel := if fx.a then !s.fresh else (s.st != .initial && s.st != .switching)
  if s.strict && rel && tsLt s.ts ts then false else s.strict

/-- `if self.state in (INITIAL, SWITCHING, AWAITING): self.state = STREAMING` -/
def stAfter (st : St) : St :=
  if st = .initial ∨ st = .switching ∨ st = .awaiting then .streaming else st

/-- the bookkeeping every record with a timestamp and a payload goes through, before its payload is
looked at: `_strict`, `_opened`, (repair d) `_ts`, `state` -/
def seen (fx : Fix) (ts : Time) (s : LState) : LState :=
  { s with strict := strictAfter fx s ts, fresh := false,
           ts := if fx.d && tsLe s.ts ts then some ts else s.ts, st := stAfter s.st }

/-- the tail of the body: drain `future` into `values` (or return at `upcoming`), EXHAUSTED ->
COMPLETE and `break`, return at `limit` -/
def finish (a : LoadArgs) (cur : Time) (s : LState) (evs : List Event) : Flow × LState × List Event :=
  match drain a.upcoming cur s.future s.values s.until_ with
  | (true, fut, v, u) => (.ret a.upcoming, { s with future := fut, values := v, until_ := u }, evs)
  | (false, fut, v, u) =>
    let s3 : LState := { s with future := fut, values := v, until_ := u }
    if s3.st = .exhausted then
      (.brk, if fut.isEmpty then { s3 with st := .complete } else s3, evs)
    else if limitHit a.limit evs.length then (.ret s3.until_, s3, evs)
    else (.cont, s3, evs)

/-- `self._ts = ts; events.append(...); self.future.append( (ts,regs) ); self.state = STREAMING` -/
def enqueue (ts : Time) (kv : Regs) (s : LState) : LState :=
  { s with ts := some ts, future := s.future ++ [(ts, kv)], st := .streaming }

/-- `self._ts is None or ts >= self._ts` as the event is about to be delivered: (repair d) taken
before `_ts` was moved to this record / (old) `_ts` still is the last delivered timestamp -/
def deliverOk (fx : Fix) (s s1 : LState) (ts : Time) : Bool :=
  if fx.d then tsLe s.ts ts else tsLe s1.ts ts

/-- the body of the `for` loop for a record with a timestamp and a payload (`js is not None`) -/
def procReal (fx : Fix) (a : LoadArgs) (ts : Time) (p : Payload) (cur : Time) (s : LState)
    (evs : List Event) : Flow × LState × List Event :=
  if p = .bad ∧ s.st = .initial then (.fail, s, evs) else      -- IframeError
  let s1 := seen fx ts s
  match p with
  | .skip => (.cont, s1, evs)                                  -- a note or an error message: `continue`
  | .bad => (.cont, s1, evs)
  | .regs kv =>
    if kv.isEmpty then finish a cur s1 evs
    else if deliverOk fx s s1 ts then
      finish a cur (enqueue ts kv s1) (evs ++ [(ts, kv)])
    else finish a cur { s1 with st := .streaming } evs         -- out of order: ignored

/-- result of running the `for` loop: how it ended, the loader, the loop variable `cur`, the events -/
structure ForOut where
  flow : Flow                -- `cont` = generator stopped (file finished), else as `Flow`
  s : LState
  cur : Time
  evs : List Event
deriving DecidableEq, Repr

/-- one record at the top of the generator's `while True` (gating against `adv`), then the body -/
def atRecord (o : Opts) (a : LoadArgs) (ts : Time) (p : Payload) (rest : List Line) (cur adv : Time)
    (s : LState) (evs : List Event) : ForOut × Time × Time :=
  let cur' := if adv < ts then a.clock else cur
  let adv' := if adv < ts then a.clock + o.la else adv
  if adv' < ts then
    (⟨.brk, { s with st := .awaiting, gen := .file (some (ts, p)) rest cur' adv' }, cur', evs⟩, cur', adv')
  else
    let (fl, s', evs') := procReal o.fix a ts p cur' s evs
    (⟨fl, { s' with gen := .file none rest cur' adv' }, cur', evs'⟩, cur', adv')

/-- the generator from the point where it has to read the next line -/
def runLines (o : Opts) (a : LoadArgs) : List Line → Time → Time → LState → Time → List Event → ForOut
  | [], cur, adv, s, lc, evs => ⟨.cont, { s with gen := .file none [] cur adv }, lc, evs⟩
  | .comment :: t, cur, adv, s, lc, evs => runLines o a t cur adv s lc evs
  | .corrupt :: t, cur, adv, s, lc, evs =>
    if o.fix.c then
      -- `(None, None)`: `assert state not in (INITIAL, SWITCHING); continue`
      if s.st = .initial ∨ s.st = .switching then ⟨.fail, s, cur, evs⟩
      else runLines o a t cur adv s cur evs
    else ⟨.fail, s, lc, evs⟩
  | .recd ts p :: t, cur, adv, s, _, evs =>
    match atRecord o a ts p t cur adv s evs with
    | (out, cur', adv') =>
      match out.flow with
      | .cont => runLines o a t cur' adv' out.s out.cur out.evs
      | _ => out

/-- resume the generator -/
def runGen (o : Opts) (a : LoadArgs) (s : LState) (lc : Time) (evs : List Event) : ForOut :=
  match s.gen with
  | .none => ⟨.fail, s, lc, evs⟩
  | .noop =>
    -- `yield (None,0,cur),(cur,'null')`: never a `continue`
    let (fl, s', evs') := procReal o.fix a a.clock (.regs []) a.clock s evs
    ⟨fl, s', a.clock, evs'⟩
  | .file (some (ts, p)) rest cur adv =>
    match atRecord o a ts p rest cur adv s evs with
    | (out, cur', adv') =>
      match out.flow with
      | .cont => runLines o a rest cur' adv' out.s out.cur out.evs
      | _ => out
  | .file none rest cur adv => runLines o a rest cur adv s lc evs

inductive LoadOut
  | hang                                                   -- the `while` loop never ends
  | done (ret : Option Time) (s : LState) (evs : List Event)
deriving DecidableEq, Repr

/-- what follows the `for` loop, and the `except` clauses -/
def afterFor (r : ForOut) : LState :=
  match r.flow with
  | .fail => { r.s with st := .failed }
  | _ => if r.s.st = .streaming then { r.s with st := .switching } else r.s

/-- after the `for` loop ended: return, or go round the `while` loop again (`again`) when the state
is INITIAL/SWITCHING, or leave it -/
def continueWith (again : LState → Time → List Event → LoadOut) (r : ForOut) : LoadOut :=
  match r.flow with
  | .ret t => .done t r.s r.evs
  | _ =>
    let s2 := afterFor r
    if s2.st = .initial ∨ s2.st = .switching then again s2 r.cur r.evs
    else .done (some r.cur) s2 r.evs

/-- the loader when `reader.open` raised `HistoryExhausted`: EXHAUSTED, the no-op generator -/
def exhaustedState (s : LState) : LState :=
  { s with strict := true, fresh := true, st := .exhausted, gen := .noop }

/-- the loader with the generator of a newly selected file, its first record pending -/
def openedState (o : Opts) (a : LoadArgs) (op : Opened) (s : LState) : LState :=
  { s with strict := true, fresh := true,
           gen := .file (some (op.ts, op.p)) op.rest a.clock (a.clock + o.la) }

/-- iterations of the `while` loop that begin by opening a file; `fuel` bounds the number of opens -/
def loadLoop (H : History) (o : Opts) (a : LoadArgs) : Nat → LState → Time → List Event → LoadOut
  | 0, _, _, _ => .hang
  | fuel + 1, s, lc, evs =>
    let target := s.ts.getD a.clock
    match scan target (s.st != .initial) s.strict H none with
    | none =>
      -- HistoryExhausted: EXHAUSTED, the loop ends
      .done (some lc) (exhaustedState s) evs
    | some op => continueWith (loadLoop H o a fuel) (runGen o a (openedState o a op s) lc evs)

/-- the bound on opens per call used by the harness watchdog as well -/
def openBudget (H : History) : Nat := 3 * H.length + 3

/-- `loader.load( limit, upcoming )` at historical time `a.clock` -/
def load (H : History) (o : Opts) (a : LoadArgs) (s : LState) : LoadOut :=
  if s.st = .complete ∨ s.st = .failed then .done (some a.clock) s []
  else if s.st = .initial ∨ s.st = .switching then loadLoop H o a (openBudget H) s a.clock []
  else continueWith (loadLoop H o a (openBudget H)) (runGen o a s a.clock [])

/-- a schedule of `load` calls; stops at a hang -/
def runLoads (H : History) (o : Opts) : List LoadArgs → LState → List LoadOut
  | [], _ => []
  | a :: rest, s =>
    match load H o a s with
    | .hang => [.hang]
    | .done t s' evs => .done t s' evs :: runLoads H o rest s'

/-! ### `misc.natural` on file-name suffixes (strings as lists of code points) -/

def isDigit (c : Nat) : Bool := 48 ≤ c && c ≤ 57
def lower (c : Nat) : Nat := if 65 ≤ c ∧ c ≤ 90 then c + 32 else c

/-- decimal digits of `n`, most significant first, by `fuel` divisions -/
def digitsFuel : Nat → Nat → List Nat → List Nat
  | 0, _, acc => acc
  | fuel + 1, n, acc => if n < 10 then (48 + n) :: acc else digitsFuel fuel (n / 10) ((48 + n % 10) :: acc)

def digits (n : Nat) : List Nat := digitsFuel (n + 1) n []

/-- `"%9s" % n` -/
def pad9 (n : Nat) : List Nat :=
  let d := digits n
  List.replicate (9 - d.length) 32 ++ d

inductive Item
  | num (n : Nat)
  | chr (c : Nat)
deriving DecidableEq, Repr

/-- the loop of `natural`: runs of digits become numbers, other characters are lower-cased -/
def naturalItems : List Nat → List Item → List Item     -- accumulator reversed
  | [], acc => acc.reverse
  | c :: cs, acc =>
    if isDigit c then
      match acc with
      | .num n :: acc' => naturalItems cs (.num (n * 10 + (c - 48)) :: acc')
      | _ => naturalItems cs (.num (c - 48) :: acc)
    else naturalItems cs (.chr (lower c) :: acc)

def naturalKey (s : List Nat) : List (List Nat) :=
  (naturalItems s []).map fun
    | .num n => pad9 n
    | .chr c => [c]

/-- lexicographic `<` on lists, the order of Python strings and tuples -/
def lexLt {α : Type} (lt : α → α → Bool) : List α → List α → Bool
  | [], [] => false
  | [], _ :: _ => true
  | _ :: _, [] => false
  | x :: xs, y :: ys => lt x y || (!lt y x && lexLt lt xs ys)

def strLt : List Nat → List Nat → Bool := lexLt (fun a b => decide (a < b))
def keyLt : List (List Nat) → List (List Nat) → Bool := lexLt strLt
def naturalLt (a b : List Nat) : Bool := keyLt (naturalKey a) (naturalKey b)

/-- `sorted( ..., key=natural )`: insertion sort, stable (an element stays in front of later equal ones) -/
def insertBy {α : Type} (lt : α → α → Bool) (x : α) : List α → List α
  | [] => [x]
  | y :: ys => if lt y x then y :: insertBy lt x ys else x :: y :: ys

def sortByLt {α : Type} (lt : α → α → Bool) : List α → List α
  | [] => []
  | x :: xs => insertBy lt x (sortByLt lt xs)

/-- the directory as `reader.open` sees it: (suffix, content) pairs in listing order -/
def scanOrder (dir : List (List Nat × File)) : History :=
  (sortByLt (fun x y => naturalLt x.1 y.1) dir).map (·.2)

/-! ### the reader's clock

Wall-clock instants are counted from `basis` in units of `1/fn` tick, where `factor = fn/fd`. -/

/-- `advance`: `historical + (now - basis) * factor` -/
def advance (hist : Int) (fd : Nat) (w : Int) : Int := hist + w / fd

/-- `realtime`: `(when - historical) / factor + basis` (relative to `basis`) -/
def realtime (hist : Int) (fd : Nat) (ts : Int) : Int := (ts - hist) * fd

end Cpppo.History
