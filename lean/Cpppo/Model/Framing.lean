import Cpppo.Model.Bytes
/-
Model of EtherNet/IP message framing (property C02).

Code mirrored:
  server/enip/parser.py   enip_header  = chain  empty -> UINT command -> UINT length -> UDINT session_handle
                                          -> UDINT status -> octets[8] sender_context -> UDINT options   (True edges)
                          enip_machine = enip_header  -[None]->  octets( repeat='.length', terminal )
  server/enip/main.py     enip_srv_tcp = `source.forget()`, run the machine over the connection's chained
                          source (one symbol at a time, `source.memory` = the symbols of the frame in progress),
                          hand the frame to the request processor only when the machine ended terminal,
                          stop on a falsy/non-zero-status result, clean EOF between frames -> processor called
                          with empty data, EOF inside a frame -> exception, processor not called.
  server/enip/client.py   client.__next__ = the same machine (`self.frame`) kept across calls.

Three layers:
  * `frames`   (specification) : cut `24 + <declared length>` bytes off the front of the whole stream while possible
  * `feed`     (buffering framer) : pending bytes ++ chunk, re-split
  * `mstep`/`mrun` (the code's shape) : one symbol at a time, the state is the list of symbols consumed by the
    frame in progress (`source.memory`); a frame is emitted by the very symbol that completes it
  * `serve…`   : a connection = framer + an abstract per-frame request processor `step` and an abstract
    clean-close hook `close` (the session step itself is C06's concern).
Everything is structural (fuel = stream length) so that it reduces in the kernel.
-/
namespace Cpppo.Framing
open Cpppo Cpppo.Bytes

/-- An encapsulated message as `enip_machine` delivers it (`.enip.command … .enip.input`). -/
structure RawFrame where
  command : Nat
  length  : Nat          -- the declared length (`.length`)
  session : Nat
  status  : Nat
  context : Bytes        -- `.sender_context.input`, 8 octets
  options : Nat
  payload : Bytes        -- `.input` (absent in the code when `.length` is 0)
deriving DecidableEq, Repr, Inhabited

/-- The header as the chain of `enip_header` states: (context name, octets). -/
def headerLayout : List (String × Nat) :=
  [("command", 2), ("length", 2), ("session_handle", 4), ("status", 4), ("sender_context", 8), ("options", 4)]

/-- bytes of the fixed header -/
def headerSize : Nat := 24
/-- offset and width of the little-endian length field -/
def lengthOffset : Nat := 2
def lengthWidth : Nat := 2

/-- offset of a named field in a layout -/
def offsetOf (name : String) : List (String × Nat) → Option Nat
  | [] => none
  | (n, k) :: rest => if n = name then some 0 else (offsetOf name rest).map (· + k)

def layoutSize (l : List (String × Nat)) : Nat := (l.map (·.2)).sum

/-- `n` bytes at offset `off` -/
def field (bs : Bytes) (off n : Nat) : Bytes := (bs.drop off).take n

/-- the declared payload length of a (partial) frame that has at least 4 bytes -/
def lengthField (bs : Bytes) : Nat := leNat (field bs lengthOffset lengthWidth)

/-- parse one complete frame (header fields little-endian, then `.length` payload octets) -/
def parseFrame (bs : Bytes) : RawFrame :=
  { command := leNat (field bs 0 2)
    length  := lengthField bs
    session := leNat (field bs 4 4)
    status  := leNat (field bs 8 4)
    context := field bs 12 8
    options := leNat (field bs 20 4)
    payload := field bs headerSize (lengthField bs) }

def encodeHeader (f : RawFrame) : Bytes :=
  le 2 f.command ++ le 2 f.length ++ le 4 f.session ++ le 4 f.status ++ f.context ++ le 4 f.options

/-- wire form (`enip_encode`, with the declared length written as given) -/
def encodeRaw (f : RawFrame) : Bytes := encodeHeader f ++ f.payload

/-- number of stream bytes a frame occupies -/
def RawFrame.size (f : RawFrame) : Nat := headerSize + f.length

/-- a frame that `encodeRaw` represents faithfully -/
def RawFrame.WF (f : RawFrame) : Prop :=
  f.command < 65536 ∧ f.length < 65536 ∧ f.session < 4294967296 ∧ f.status < 4294967296 ∧
  f.context.length = 8 ∧ f.options < 4294967296 ∧ f.payload.length = f.length

instance (f : RawFrame) : Decidable f.WF := by unfold RawFrame.WF; infer_instance

def encodeAll (fs : List RawFrame) : Bytes := (fs.map encodeRaw).flatten

/-! ### specification: split the whole stream -/

/-- one complete frame at the front of `bs`, and what follows it -/
def split1 (bs : Bytes) : Option (RawFrame × Bytes) :=
  if headerSize ≤ bs.length ∧ headerSize + lengthField bs ≤ bs.length then
    some (parseFrame (bs.take (headerSize + lengthField bs)), bs.drop (headerSize + lengthField bs))
  else none

def framesFuel : Nat → Bytes → List RawFrame × Bytes
  | 0, bs => ([], bs)
  | fuel + 1, bs =>
    match split1 bs with
    | none => ([], bs)
    | some (f, rest) => let r := framesFuel fuel rest; (f :: r.1, r.2)

/-- the complete frames of a stream, and the unfinished remainder -/
def frames (bs : Bytes) : List RawFrame × Bytes := framesFuel bs.length bs

/-! ### buffering framer -/

structure Framer where
  pending : Bytes := []
deriving DecidableEq, Repr

def feed (fr : Framer) (chunk : Bytes) : Framer × List RawFrame :=
  let r := frames (fr.pending ++ chunk)
  ({ pending := r.2 }, r.1)

/-- feed chunk after chunk, collecting the frames in order -/
def feedAll : Framer → List Bytes → Framer × List RawFrame
  | fr, [] => (fr, [])
  | fr, c :: cs =>
    let r := feed fr c
    let r' := feedAll r.1 cs
    (r'.1, r.2 ++ r'.2)

/-! ### the machine: one symbol at a time -/

/-- the symbols consumed so far complete a frame -/
def complete (acc : Bytes) : Bool :=
  decide (headerSize ≤ acc.length) && (acc.length == headerSize + lengthField acc)

/-- consume one symbol; `acc` = symbols of the frame in progress (`source.memory`) -/
def mstep (acc : Bytes) (b : Nat) : Bytes × Option RawFrame :=
  let acc' := acc ++ [b]
  if complete acc' then ([], some (parseFrame acc')) else (acc', none)

/-- consume a block of symbols -/
def mrun : Bytes → Bytes → List RawFrame × Bytes
  | acc, [] => ([], acc)
  | acc, b :: bs =>
    match mstep acc b with
    | (acc', none) => mrun acc' bs
    | (acc', some f) => let r := mrun acc' bs; (f :: r.1, r.2)

/-- block after block (each `recv`), the machine state carried over -/
def mrunAll : Bytes → List Bytes → List RawFrame × Bytes
  | acc, [] => ([], acc)
  | acc, c :: cs =>
    let r := mrun acc c
    let r' := mrunAll r.2 cs
    (r.1 ++ r'.1, r'.2)

/-- cumulative `source.sent` after each delivered frame -/
def sentAfter : Nat → List RawFrame → List Nat
  | _, [] => []
  | n, f :: fs => (n + f.size) :: sentAfter (n + f.size) fs

/-! ### a connection: framer + abstract request processor -/

/-- how a connection ended -/
inductive Ending where
  | clean                      -- EOF between frames: processor called with empty data (`close`)
  | aborted (pending : Nat)    -- EOF inside a frame: exception, processor not called
  | stopped                    -- the processor ended the session (Unregister / non-zero status)
deriving DecidableEq, Repr

section
variable {S R : Type}

/-- hand complete frames to the processor in order until it says stop;
`step s f = (s', reply?, continue)` -/
def serveFrames (step : S → RawFrame → S × Option R × Bool) : S → List RawFrame → S × List R × Bool
  | s, [] => (s, [], true)
  | s, f :: fs =>
    let o := step s f
    if o.2.2 then
      let t := serveFrames step o.1 fs
      (t.1, o.2.1.toList ++ t.2.1, t.2.2)
    else (o.1, o.2.1.toList, false)

/-- what end-of-stream does, given what has been served -/
def finish (close : S → S) (t : S × List R × Bool) (pending : Bytes) : S × List R × Ending :=
  if t.2.2 then
    if pending.isEmpty then (close t.1, t.2.1, Ending.clean) else (t.1, t.2.1, Ending.aborted pending.length)
  else (t.1, t.2.1, Ending.stopped)

/-- specification of a connection: the whole stream, then end-of-stream -/
def serveStream (step : S → RawFrame → S × Option R × Bool) (close : S → S) (s : S) (bs : Bytes) :
    S × List R × Ending :=
  let r := frames bs
  finish close (serveFrames step s r.1) r.2

/-- per-connection state of `enip_srv_tcp` -/
structure Conn (S R : Type) where
  st : S
  acc : Bytes          -- symbols of the frame in progress
  replies : List R     -- sent so far
  alive : Bool         -- `not stats.eof`

/-- one `recv` block: run the machine over it, processing each frame as it completes;
after the processor has ended the session nothing more is read -/
def Conn.recv (step : S → RawFrame → S × Option R × Bool) (c : Conn S R) (chunk : Bytes) : Conn S R :=
  if c.alive then
    let r := mrun c.acc chunk
    let t := serveFrames step c.st r.1
    { st := t.1, acc := r.2, replies := c.replies ++ t.2.1, alive := t.2.2 }
  else c

/-- the connection each time it comes back for more input (after each received block) -/
def Conn.trace (step : S → RawFrame → S × Option R × Bool) : Conn S R → List Bytes → List (Conn S R)
  | _, [] => []
  | c, x :: xs => Conn.recv step c x :: Conn.trace step (Conn.recv step c x) xs

/-- a fresh connection -/
def Conn.init (s : S) : Conn S R := { st := s, acc := [], replies := [], alive := true }

/-- the connection as the code runs it: blocks as received, then end-of-stream -/
def serveChunks (step : S → RawFrame → S × Option R × Bool) (close : S → S) (s : S) (cs : List Bytes) :
    S × List R × Ending :=
  let c := cs.foldl (Conn.recv step) (Conn.init s)
  finish close (c.st, c.replies, c.alive) c.acc

end

/-! ### which frames of a stream are complete after `k` bytes -/

/-- number of leading frames whose final byte lies within the first `k` bytes -/
def nComplete : List RawFrame → Nat → Nat
  | [], _ => 0
  | f :: fs, k => if f.size ≤ k then nComplete fs (k - f.size) + 1 else 0

/-- stream offset just after frame `i` -/
def endOffset : List RawFrame → Nat → Nat
  | [], _ => 0
  | f :: _, 0 => f.size
  | f :: fs, i + 1 => f.size + endOffset fs i

end Cpppo.Framing
