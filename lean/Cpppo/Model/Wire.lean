/-
Line-protocol helpers shared by all driver modules (no imports).
Tokens are separated by single spaces; byte strings are lower-case hex ("-" = empty);
lists use ',' ; pairs use ':' ; "-" stands for `none` where an optional is expected.
-/
namespace Cpppo.Wire

def hexDigit (n : Nat) : Char :=
  if n < 10 then Char.ofNat (48 + n) else Char.ofNat (87 + n)

def hexOfByte (b : Nat) : String :=
  String.ofList [hexDigit (b / 16 % 16), hexDigit (b % 16)]

def hexOfBytes (bs : List Nat) : String :=
  if bs.isEmpty then "-" else String.join (bs.map hexOfByte)

def hexVal (c : Char) : Option Nat :=
  if '0' ≤ c ∧ c ≤ '9' then some (c.toNat - 48)
  else if 'a' ≤ c ∧ c ≤ 'f' then some (c.toNat - 87)
  else if 'A' ≤ c ∧ c ≤ 'F' then some (c.toNat - 55)
  else none

def bytesOfHexChars : List Char → Option (List Nat)
  | [] => some []
  | [_] => none
  | a :: b :: rest => do
    let x ← hexVal a
    let y ← hexVal b
    let r ← bytesOfHexChars rest
    pure ((x * 16 + y) :: r)

def bytesOfHex (s : String) : Option (List Nat) :=
  if s = "-" then some [] else bytesOfHexChars s.toList

def optNat (s : String) : Option (Option Nat) :=
  if s = "-" then some none else s.toNat?.map some

def splitNonEmpty (s : String) (sep : Char) : List String :=
  if s = "-" ∨ s = "" then [] else s.split (· == sep) |>.toList.map (·.toString)

def natPair (s : String) : Option (Nat × Nat) :=
  match s.split (· == ':') |>.toList.map (·.toString) with
  | [a, b] => do pure (← a.toNat?, ← b.toNat?)
  | _ => none

def showPairs (l : List (Nat × Nat)) : String :=
  if l.isEmpty then "-" else ",".intercalate (l.map fun (a, b) => s!"{a}:{b}")

def words (line : String) : List String :=
  let line := String.ofList (line.toList.filter fun c => c != '\n' && c != '\r')
  (line.split (· == ' ') |>.toList.map (·.toString)).filter (· ≠ "")

end Cpppo.Wire
