import Cpppo.Model.Bytes
/-
Fixed-width little-endian field readers shared by the wire-level models (no imports outside the project).
`Bytes.le k n` is the writer; `Fields.u k` reads one `k`-byte unsigned field off the front of a buffer.
-/
namespace Cpppo.Fields

/-- split off the first `k` bytes; `none` = buffer too short -/
def take (k : Nat) (bs : Bytes) : Option (Bytes × Bytes) :=
  if bs.length < k then none else some (bs.take k, bs.drop k)

/-- one `k`-byte little-endian unsigned field -/
def u (k : Nat) (bs : Bytes) : Option (Nat × Bytes) :=
  match take k bs with
  | none => none
  | some (a, r) => some (Bytes.leNat a, r)

/-- exactly `n` 16-bit words -/
def words : Nat → Bytes → Option (List Nat × Bytes)
  | 0, bs => some ([], bs)
  | n + 1, bs =>
    match u 2 bs with
    | none => none
    | some (w, r) =>
      match words n r with
      | none => none
      | some (ws, r') => some (w :: ws, r')

/-- ISO-8859-1 text <-> bytes -/
def strBytes (s : String) : Bytes := s.toList.map Char.toNat
def strOfBytes (bs : Bytes) : String := String.ofList (bs.map Char.ofNat)

end Cpppo.Fields
