import Cpppo.Model.Logix
/-
Model of the simulator's request handling under concurrency:
  server/network.py        server_main / thread_start: one thread per accepted connection
  server/enip/main.py      enip_srv_tcp: per thread: frame in -> enip_process -> at most one reply frame out
  automata.py              dfa_base.lock / __enter__ / __exit__ (a shared parser is used by one thread at a time),
                           dfa_post (bundle members are parsed one by one, the lock released in between)
  server/enip/device.py    Connection_Manager.request / state_multiple_service closure: `with target.parser`,
                           Message_Router.request: the members of a bundle executed one after the other
  server/enip/logix.py     Logix.request: ONE list-slice read or ONE list-slice assignment on the tag's storage

A *thread* (one per session) works through the frames its client sends.  For every frame it
  recv      takes the frame (its members = the requests it carries: one, or the members of a bundle)
  acquire   for every member in turn: locks the shared parser `p` that parses it (blocks while held) …
  feed      … pushes the member's symbols one by one through the parser's shared scratch state …
  release   … takes the result out of the shared scratch and unlocks;
  plan      when every member is parsed,
  access    executes the members one by one: each is ONE atomic operation on the shared memory
            (`exec : σ → List τ → σ × α` = what the parsed symbols do to the memory, and the reply),
  send      and sends one reply frame with the members' replies in order.
Nothing but the parser scratch (under its lock) and the memory (one atomic operation) is shared.

A *schedule* is the list of thread ids in the order the OS/GIL lets them take a step; every list is a
schedule (a blocked or finished thread that is scheduled does nothing).  The model is generic in the
memory `σ`, the symbols `τ`, the replies `α` and the atomic operation `exec`; instances:
  `execOp`   — arrays `List (List Val)` with slice read / slice write  (the property's own vocabulary)
  `execLgx`  — the Logix device model `Cpppo.Logix.execSimple` + `encodeReply`  (what the driver replays)
`hist` is a ghost log of the access steps (no step reads it); it is the linearization witness.
`useLock := false` and `splitOps` are the two broken variants used for the sensitivity witnesses.
-/
namespace Cpppo.Concurrent

abbrev Sid := Nat
abbrev Pid := Nat

/-- a request as a session issues it: the shared parser that will parse it, and its symbols -/
abbrev Member (τ : Type) := Pid × List τ
/-- a frame = the requests it carries (one, or the members of a Multiple Service Packet) -/
abbrev Frame (τ : Type) := List (Member τ)

inductive PC (τ α : Type)
  | idle
  | toParse (done : List (List τ)) (more : List (Member τ))
  | parsing (p : Pid) (rest : List τ) (done : List (List τ)) (more : List (Member τ))
  | exec (todo : List (List τ)) (results : List α)

structure Thread (τ α : Type) where
  frames : List (Frame τ)        -- not yet received
  pc     : PC τ α
  sent   : List (List α)         -- reply frames sent so far

structure State (σ τ α : Type) where
  mem     : σ
  lock    : Pid → Option Sid
  scratch : Pid → List τ
  thr     : Sid → Thread τ α
  hist    : List (Sid × List τ)  -- ghost: the access steps in the order they happened

def upd {β : Type} (f : Nat → β) (k : Nat) (v : β) : Nat → β := fun j => if j = k then v else f j

variable {σ τ α : Type}

/-- one step of thread `s` (nothing happens when it is finished or blocked) -/
def stepWith (useLock : Bool) (exec : σ → List τ → σ × α) (st : State σ τ α) (s : Sid) : State σ τ α :=
  let t := st.thr s
  match t.pc with
  | .idle =>
    match t.frames with
    | [] => st
    | f :: fs => { st with thr := upd st.thr s { t with frames := fs, pc := .toParse [] f } }
  | .toParse done [] => { st with thr := upd st.thr s { t with pc := .exec done [] } }
  | .toParse done ((p, w) :: more) =>
    if useLock && (st.lock p).isSome then st
    else { st with lock := upd st.lock p (some s), scratch := upd st.scratch p [],
                   thr := upd st.thr s { t with pc := .parsing p w done more } }
  | .parsing p (b :: rest) done more =>
    { st with scratch := upd st.scratch p (st.scratch p ++ [b]),
              thr := upd st.thr s { t with pc := .parsing p rest done more } }
  | .parsing p [] done more =>
    { st with lock := upd st.lock p none,
              thr := upd st.thr s { t with pc := .toParse (done ++ [st.scratch p]) more } }
  | .exec (w :: todo) rs =>
    { st with mem := (exec st.mem w).1, hist := st.hist ++ [(s, w)],
              thr := upd st.thr s { t with pc := .exec todo (rs ++ [(exec st.mem w).2]) } }
  | .exec [] rs => { st with thr := upd st.thr s { t with pc := .idle, sent := t.sent ++ [rs] } }

def step (exec : σ → List τ → σ × α) := stepWith true exec

def runSchedWith (useLock : Bool) (exec : σ → List τ → σ × α) (st : State σ τ α) (sched : List Sid) :
    State σ τ α := sched.foldl (stepWith useLock exec) st

/-- run a schedule (any list of thread ids) -/
def runSched (exec : σ → List τ → σ × α) (st : State σ τ α) (sched : List Sid) : State σ τ α :=
  sched.foldl (step exec) st

/-- every thread idle with its whole program ahead, all locks free -/
def init (m : σ) (prog : Sid → List (Frame τ)) : State σ τ α :=
  { mem := m, lock := fun _ => none, scratch := fun _ => [],
    thr := fun s => { frames := prog s, pc := .idle, sent := [] }, hist := [] }

/-- a thread that has answered everything -/
def Thread.finished (t : Thread τ α) : Bool :=
  match t.pc, t.frames with
  | .idle, [] => true
  | _, _ => false

/-! ### the sequential specification -/

/-- whole requests one after the other; the replies are logged with the session they belong to -/
def runSeq (exec : σ → List τ → σ × α) (m : σ) : List (Sid × List τ) → σ × List (Sid × α)
  | [] => (m, [])
  | (s, w) :: rest =>
    let r := runSeq exec (exec m w).1 rest
    (r.1, (s, (exec m w).2) :: r.2)

/-- the entries of a log that belong to session `s` -/
def proj {β : Type} (s : Sid) (l : List (Sid × β)) : List β :=
  l.filterMap fun e => if e.1 = s then some e.2 else none

/-- the requests of a program, in order (frame boundaries forgotten) -/
def requests (fs : List (Frame τ)) : List (List τ) := (fs.flatMap id).map (·.2)

/-! ### what the next step of a thread is (the driver checks an observed trace against this) -/

inductive Kind
  | recv | plan | acquire (p : Pid) | blocked (p : Pid) | feed (p : Pid) | release (p : Pid)
  | access | send | finished
deriving DecidableEq, Repr

def nextKind (st : State σ τ α) (s : Sid) : Kind :=
  let t := st.thr s
  match t.pc with
  | .idle => match t.frames with
    | [] => .finished
    | _ :: _ => .recv
  | .toParse _ [] => .plan
  | .toParse _ ((p, _) :: _) => if (st.lock p).isSome then .blocked p else .acquire p
  | .parsing p (_ :: _) _ _ => .feed p
  | .parsing p [] _ _ => .release p
  | .exec (_ :: _) _ => .access
  | .exec [] _ => .send

/-! ### instance 1: arrays with slice read / slice write -/

inductive Op
  | read (k beg n : Nat)
  | write (k beg : Nat) (vals : List Val)
deriving DecidableEq, Repr

inductive Res
  | refused
  | data (vs : List Val)
  | done
deriving DecidableEq, Repr

abbrev Mem := List (List Val)

/-- ONE slice operation on array `k` (refused when the range is empty or not inside the array:
`Attribute._validate_key`) -/
def access (m : Mem) : Op → Mem × Res
  | .read k beg n =>
    match m[k]? with
    | none => (m, .refused)
    | some arr =>
      if 0 < n ∧ beg + n ≤ arr.length then (m, .data ((arr.drop beg).take n)) else (m, .refused)
  | .write k beg vals =>
    match m[k]? with
    | none => (m, .refused)
    | some arr =>
      if 0 < vals.length ∧ beg + vals.length ≤ arr.length
      then (m.set k (Logix.spliceAt arr beg vals), .done) else (m, .refused)

def execOp (m : Mem) : List Op → Mem × Res
  | [op] => access m op
  | _ => (m, .refused)

/-- the broken variant: a write performed element by element (each element its own access) -/
def splitOp : Op → List Op
  | .write k beg vals => (List.range vals.length).map fun j => .write k (beg + j) ((vals.drop j).take 1)
  | op => [op]

/-! ### instance 2: the Logix device model -/

def execLgx (d : Logix.Dev) : List Logix.Simple → Logix.Dev × Option Bytes
  | [s] => ((Logix.execSimple d s).1, Logix.encodeReply (Logix.execSimple d s).2)
  | _ => (d, none)

end Cpppo.Concurrent
