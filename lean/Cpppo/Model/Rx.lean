/-
Regular expressions in the syntax supported by `cpppo.regex` (property C11), with a
derivative-based (Brzozowski) matcher and the *specification run* the property describes:

  literals, classes `[abc]`, negated classes `[^abc]`, `.`, alternation, grouping (= the tree),
  `*`, `+`, `?`, bounded repetition `{m,n}` (the last three are definable: `plus`, `opt`, `rep`).

Symbols are natural numbers (code points for `regex`, byte values for `regex_bytes`).  The alphabet
is unbounded: `.` and negated classes match symbols that occur nowhere in the expression.

`specRun r w` is what the property statement asks of a machine for `r` on input `w`:
consume the longest prefix of `w` that can still be extended to a sentence, accept iff that prefix
is a sentence of length at least one.  (`Cpppo.Proofs.Rx` proves the matcher and `specRun` against
the denotational semantics and against Mathlib's `RegularExpression.matches'`.)

No imports: this file is linked into the `cpppo_model` driver.
-/
namespace Cpppo.Rx

abbrev Sym := Nat

inductive Rx where
  | none                                   -- the empty language (arises only in derivatives)
  | eps                                    -- the empty string
  | lit  (c : Sym)
  | cls  (neg : Bool) (cs : List Sym)      -- `[abc]` / `[^abc]`
  | dot
  | alt  (r s : Rx)
  | cat  (r s : Rx)
  | star (r : Rx)
deriving Repr, DecidableEq, Inhabited

namespace Rx

/-- `r+` -/
def plus (r : Rx) : Rx := cat r (star r)
/-- `r?` -/
def opt (r : Rx) : Rx := alt r eps
/-- `r{k}` -/
def pow (r : Rx) : Nat → Rx
  | 0 => eps
  | k + 1 => cat r (pow r k)
/-- `(r?){k}` -/
def optPow (r : Rx) : Nat → Rx
  | 0 => eps
  | k + 1 => cat (opt r) (optPow r k)
/-- `r{m,n}` (for `n < m` the language is empty, as in greenery) -/
def rep (r : Rx) (m n : Nat) : Rx :=
  if n < m then none else cat (pow r m) (optPow r (n - m))

/-- does a class match a symbol -/
def clsMatch (neg : Bool) (cs : List Sym) (c : Sym) : Bool := if neg then !cs.contains c else cs.contains c

/-- the empty string is a sentence -/
def nullable : Rx → Bool
  | none => false
  | eps => true
  | lit _ => false
  | cls _ _ => false
  | dot => false
  | alt r s => nullable r || nullable s
  | cat r s => nullable r && nullable s
  | star _ => true

/-- Brzozowski derivative: the sentences of `r` that start with `c`, with that `c` removed -/
def deriv (c : Sym) : Rx → Rx
  | none => none
  | eps => none
  | lit a => if a = c then eps else none
  | cls neg cs => if clsMatch neg cs c then eps else none
  | dot => eps
  | alt r s => alt (deriv c r) (deriv c s)
  | cat r s => if nullable r then alt (cat (deriv c r) s) (deriv c s) else cat (deriv c r) s
  | star r => cat (deriv c r) (star r)

def derivs (r : Rx) (w : List Sym) : Rx := w.foldl (fun r c => deriv c r) r

/-- the derivative matcher: `w` is a sentence of `r` -/
def rmatch (r : Rx) (w : List Sym) : Bool := nullable (derivs r w)

/-- the language is not empty (the alphabet is unbounded, so a negated class always matches something) -/
def inhabited : Rx → Bool
  | none => false
  | eps => true
  | lit _ => true
  | cls neg cs => neg || !cs.isEmpty
  | dot => true
  | alt r s => inhabited r || inhabited s
  | cat r s => inhabited r && inhabited s
  | star _ => true

/-- `p` can be extended to a sentence of `r` -/
def viable (r : Rx) (p : List Sym) : Bool := inhabited (derivs r p)

/-- the longest prefix of `w` that can still be extended to a sentence, and what is left of the
expression after it -/
def specGo (r : Rx) : List Sym → List Sym × Rx
  | [] => ([], r)
  | c :: w =>
    if inhabited (deriv c r) then
      let (p, e) := specGo (deriv c r) w
      (c :: p, e)
    else ([], r)

structure Spec where
  consumed : List Sym
  accepted : Bool
deriving Repr, DecidableEq

/-- The run the property statement describes: consume the longest extendable prefix; accept iff it is a
sentence of length at least one. -/
def specRun (r : Rx) (w : List Sym) : Spec :=
  let (p, e) := specGo r w
  { consumed := p, accepted := !p.isEmpty && nullable e }

/-- the symbols named in an expression -/
def syms : Rx → List Sym
  | none => []
  | eps => []
  | lit c => [c]
  | cls _ cs => cs
  | dot => []
  | alt r s => syms r ++ syms s
  | cat r s => syms r ++ syms s
  | star r => syms r

end Rx
end Cpppo.Rx

/-! ### a language-preserving simplifier (keeps the set of iterated derivatives small) -/
namespace Cpppo.Rx
namespace Rx

/-- `a` is one of the alternatives on the right spine of `r` -/
def inSpine (a : Rx) : Rx → Bool
  | alt x y => x == a || inSpine a y
  | z => z == a

/-- alternation: drop `∅`, re-associate to the right, drop an alternative that is already present -/
def mkAlt : Rx → Rx → Rx
  | none, s => s
  | alt a b, s => let t := mkAlt b s; if inSpine a t then t else alt a t
  | r, s => if s == none then r else if inSpine r s then s else alt r s

/-- concatenation: `∅` annihilates, `ε` is neutral, re-associate to the right -/
def mkCat : Rx → Rx → Rx
  | cat a b, s => if s == none then none else cat a (mkCat b s)
  | r, s =>
    if r == none || s == none then none
    else if r == eps then s
    else if s == eps then r
    else cat r s

def mkStar (r : Rx) : Rx :=
  if r == none || r == eps then eps else star r

def simp : Rx → Rx
  | alt r s => mkAlt (simp r) (simp s)
  | cat r s => mkCat (simp r) (simp s)
  | star r => mkStar (simp r)
  | r => r

/-- simplified derivative -/
def nderiv (c : Sym) (r : Rx) : Rx := simp (deriv c r)

def size : Rx → Nat
  | alt r s => size r + size s + 1
  | cat r s => size r + size s + 1
  | star r => size r + 1
  | _ => 1

end Rx
end Cpppo.Rx
