import Cpppo.Model.Merge
/-
Model of the polling side of `remote/plc_modbus.py` (third mechanism of property C19): one turn of
`poller_modbus._poller`'s loop and the `poller` API around it.

  _poller:  rngs = set( merge( ((a,1) for a in self._data), reach=self.reach ))
            for every range: value = self._read( address, count ); on success  online = True,
            self._store( address, value, create=False ); on any exception the range is "failing"
            polling/failing = the ranges that succeeded/failed; no success at all => offline; counter += 1
  _read:    the address selects the Modbus function (coils, discrete inputs, holding, input registers)
            and the zero-based offset (`banks`, regenerated from the live method); an address outside
            every bank raises; the reply is cut to `count` values
  _store:   (create=False) only addresses already known are assigned
  read/poll/write: `_data.setdefault( address, None )`; the last stored value (None while offline);
            `write` is refused while offline, and otherwise goes to the device at once.

The device is a parameter: a value for every cell and a predicate saying which cells answer with a
Modbus exception (any request touching one fails as a whole).  No imports beyond the merge model.
-/
namespace Cpppo.Poll
open Cpppo.Merge

/-- (first address, last address, kind, address of offset 0) -/
abbrev Bank := Nat × Nat × Nat × Nat

/-- `_read`'s address translation: (kind, zero-based offset) -/
def translate : List Bank → Nat → Option (Nat × Nat)
  | [], _ => none
  | (lo, hi, k, base) :: bs, a => if lo ≤ a ∧ a ≤ hi then some (k, a - base) else translate bs a

structure Dev where
  val : Nat → Nat → Nat          -- kind, offset
  bad : Nat → Nat → Bool

/-- the cells a request of `c` values starting at offset `off` touches -/
def cells (off c : Nat) : List Nat := (List.range c).map (off + ·)

/-- `_read( address, count )`: `none` = an exception (invalid address, or the device refuses) -/
def readRange (banks : List Bank) (dev : Dev) (r : Range) : Option (List Nat) :=
  match translate banks r.1 with
  | none => none
  | some (k, off) =>
    if (cells off r.2).any (dev.bad k) then none else some ((cells off r.2).map (dev.val k))

abbrev Data := List (Nat × Option Nat)       -- `_data`: address -> last value (None until polled)

/-- `_store( address, values, create=False )` while online -/
def store (data : Data) (a : Nat) (vals : List Nat) : Data :=
  data.map fun kv => if a ≤ kv.1 ∧ kv.1 < a + vals.length then (kv.1, vals[kv.1 - a]?) else kv

structure PState where
  data : Data := []
  online : Bool := true
  polling : List Range := []
  failing : List Range := []
  counter : Nat := 0
deriving Repr

/-- the body of the `for address, count in rngs` loop -/
def stepRange (banks : List Bank) (dev : Dev) (acc : Data × List Range × List Range) (r : Range) :
    Data × List Range × List Range :=
  match readRange banks dev r with
  | some vals => (store acc.1 r.1 vals, acc.2.1 ++ [r], acc.2.2)
  | none => (acc.1, acc.2.1, acc.2.2 ++ [r])

def keys (data : Data) : List Range := data.map fun kv => (kv.1, 1)

/-- one complete turn of the polling loop (a poller without data is dormant) -/
def pollCycle (banks : List Bank) (cfg : Cfg) (reach : Nat) (dev : Dev) (st : PState) : PState :=
  match merge cfg (keys st.data) reach none with
  | none => st
  | some rngs =>
    let res := rngs.foldl (stepRange banks dev) (st.data, [], [])
    { data := res.1, online := !res.2.1.isEmpty, polling := res.2.1, failing := res.2.2,
      counter := st.counter + 1 }

/-- the requests a cycle puts on the wire: (kind, offset, count) -/
def requests (banks : List Bank) (cfg : Cfg) (reach : Nat) (st : PState) : List (Nat × Nat × Nat) :=
  match merge cfg (keys st.data) reach none with
  | none => []
  | some rngs => rngs.filterMap fun r => (translate banks r.1).map fun ko => (ko.1, ko.2, r.2)

def lookup (data : Data) (a : Nat) : Option (Option Nat) :=
  match data with
  | [] => none
  | (k, v) :: rest => if k = a then some v else lookup rest a

/-- `_poll( address )`: `_data.setdefault( address, None )` -/
def poll (st : PState) (a : Nat) : PState :=
  match lookup st.data a with
  | some _ => st
  | none => { st with data := st.data ++ [(a, none)] }

/-- `read( address )`: establishes polling, answers the last value (None while offline) -/
def read (st : PState) (a : Nat) : PState × Option Nat :=
  let st' := poll st a
  (st', if st'.online then (lookup st'.data a).getD none else none)

/-! ### a concrete device and the write path (for the driver and the correspondence) -/

/-- a device whose cells hold a fixed pattern unless set, and whose listed cells refuse to answer -/
structure DevSt where
  set : List ((Nat × Nat) × Nat) := []        -- latest first
  badCells : List (Nat × Nat) := []
deriving Repr

def dflt (k off : Nat) : Nat := if k ≤ 1 then (off / 3 + k) % 2 else (off * 31 + k * 1000) % 65536

def cellVal : List ((Nat × Nat) × Nat) → Nat → Nat → Nat
  | [], k, o => dflt k o
  | ((k', o'), v) :: rest, k, o => if k' = k ∧ o' = o then v else cellVal rest k o

def DevSt.dev (d : DevSt) : Dev :=
  -- (a Modbus device has 65536 cells of each kind: anything beyond is an illegal data address)
  { val := cellVal d.set, bad := fun k o => decide (65536 ≤ o) || d.badCells.any fun c => c.1 == k && c.2 == o }

def DevSt.put (d : DevSt) (k off : Nat) (vals : List Nat) : DevSt :=
  { d with set := ((List.range vals.length).zip vals).reverse.map (fun iv => ((k, off + iv.1), iv.2)) ++ d.set }

inductive WriteOut | ok | offline | invalid | refused
deriving Repr, DecidableEq

/-- `write( address, value(s) )`: refused while offline; only coils and holding registers are writable
(`wbanks`); coils take `bool( value )`; a device exception on any touched cell refuses the whole write -/
def write (wbanks : List Bank) (st : PState) (d : DevSt) (a : Nat) (vals : List Nat) : DevSt × WriteOut :=
  if !st.online then (d, .offline) else
  match translate wbanks a with
  | none => (d, .invalid)
  | some (k, off) =>
    if (cells off vals.length).any (d.dev.bad k) then (d, .refused)
    else (d.put k off (if k = 0 then vals.map fun v => if v = 0 then 0 else 1 else vals), .ok)

end Cpppo.Poll
