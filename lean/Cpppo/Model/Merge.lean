/-
Model of `remote/plc_modbus.py`: `shatter` and `merge` (property C19).

Mirrors the code's control flow:
  shatter: default limit by register bank when `limit` is falsy; `while count: taken = min(count, limit)`
  merge:   sort, sweep with running (base, length); a range merges when it is in the same
           10000-block and starts before `base + length + (reach or 1)`; an empty running range is
           dropped; every emitted range goes through `shatter`.
`mergeOld` is the code before the `fix:` commit (length assigned, not max'ed); kept for the witness.
No imports: this file is linked into the `cpppo_model` driver.
-/
namespace Cpppo.Merge

abbrev Range := Nat × Nat          -- (address, count)

/-- `shatter`'s deduced limit: coils/discretes 1968, other registers 123. -/
def defaultLimit (coil reg : Nat) (a : Nat) : Nat :=
  if (1 ≤ a ∧ a ≤ 9999) ∨ (10001 ≤ a ∧ a ≤ 19999) ∨ (100001 ≤ a ∧ a ≤ 165536) then coil else reg

/-- `limit` as Python sees it: `None` and `0` are falsy. -/
def effLimit (coil reg : Nat) (a : Nat) (lim : Option Nat) : Nat :=
  match lim with
  | some l => if l = 0 then defaultLimit coil reg a else l
  | none   => defaultLimit coil reg a

/-- The `while count:` loop, with the (positive) limit already chosen.  Structural on a fuel
argument (the count itself suffices, since every turn takes at least one register). -/
def shatterFuel : Nat → Nat → Nat → Nat → List Range
  | 0, _, _, _ => []
  | fuel + 1, a, c, lim =>
    if c = 0 ∨ lim = 0 then []
    else
      let t := min c lim
      (a, t) :: shatterFuel fuel (a + t) (c - t) lim

def shatterGo (a c lim : Nat) : List Range := shatterFuel c a c lim

structure Cfg where
  coil  : Nat := 1968
  reg   : Nat := 123
  block : Nat := 10000
deriving Repr

def shatter (cfg : Cfg) (a c : Nat) (lim : Option Nat) : List Range :=
  shatterGo a c (effLimit cfg.coil cfg.reg a lim)

def effReach (reach : Nat) : Nat := if reach = 0 then 1 else reach

/-- Lexicographic order on ranges, as Python's tuple comparison. -/
def rangeLe (x y : Range) : Bool := x.1 < y.1 || (x.1 == y.1 && x.2 ≤ y.2)

/-- The sweep of `merge` over the sorted remainder, producing un-shattered blocks.
`fixed = true` is the repaired code (`length = max(length, address+count-base)`). -/
def sweep (fixed : Bool) (block reach : Nat) (base len : Nat) : List Range → List Range
  | [] => [(base, len)]
  | (a, c) :: rest =>
    if len ≠ 0 then
      if a / block = base / block ∧ a < base + len + effReach reach then
        sweep fixed block reach base (if fixed then max len (a + c - base) else a + c - base) rest
      else
        (base, len) :: sweep fixed block reach a c rest
    else
      sweep fixed block reach a c rest

/-- `sorted(ranges)`: insertion sort (the sorted list is unique for this total order). -/
def insertRange (x : Range) : List Range → List Range
  | [] => [x]
  | y :: ys => if rangeLe x y then x :: y :: ys else y :: insertRange x ys

def sortRanges : List Range → List Range
  | [] => []
  | x :: xs => insertRange x (sortRanges xs)

def blocksOf (fixed : Bool) (cfg : Cfg) (rs : List Range) (reach : Nat) : Option (List Range) :=
  match sortRanges rs with
  | [] => none                               -- Python: StopIteration inside a generator
  | (b, l) :: rest => some (sweep fixed cfg.block reach b l rest)

def mergeWith (fixed : Bool) (cfg : Cfg) (rs : List Range) (reach : Nat) (lim : Option Nat) :
    Option (List Range) :=
  (blocksOf fixed cfg rs reach).map fun bs => bs.flatMap fun r => shatter cfg r.1 r.2 lim

def merge    := mergeWith true
def mergeOld := mergeWith false

end Cpppo.Merge
