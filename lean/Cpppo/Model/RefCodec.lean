import Cpppo.Model.Fields
import Cpppo.Model.Logix
/-
Reference EtherNet/IP / CIP codec for the *client* side, written from the protocol's layout tables
(EtherNet/IP encapsulation header and Common Packet Format: CIP Vol 2 ch. 2; EPATH segments: Vol 1
App. C; Unconnected Send / Forward Open / Forward Close: Vol 1 3-5.5; Logix tag services: Logix 5000
Data Access manual 1756-PM020).  It shares no code with the library: service codes, segment type
bytes and item type ids are literals here, while the server model (`Cpppo.Srv`) takes them from the
tables extracted from the live library.

  encoders : client -> server   (`encMsg`)
  decoders : server -> client   (`decFrame`, `decReplyMsg`, `decReply`, `decBundle`)

`none` from an encoder = the message is not representable (a field out of range); `none` from a
decoder = the bytes are not a well-formed reply.
-/
namespace Cpppo.Ref
open Cpppo Cpppo.Logix Cpppo.Fields

/-! ## EPATH -/

/-- logical segment: 8-bit form `[t, n]`, 16-bit form `[t+1, 0, lo, hi]`, 32-bit form (elements only) -/
def encNum (t n : Nat) (wide : Bool) : Option Bytes :=
  if n < 256 then some [t, n]
  else if n < 65536 then some ([t + 1, 0] ++ Bytes.le 2 n)
  else if wide = true ∧ n < 4294967296 then some ([t + 2, 0] ++ Bytes.le 4 n)
  else none

def encSeg : Seg → Option Bytes
  | .symbolic s =>
    let b := strBytes s
    if 0 < b.length ∧ b.length < 256 ∧ b.all (· < 256) = true then
      some ([0x91, b.length] ++ b ++ (if b.length % 2 = 1 then [0] else []))
    else none
  | .cls n => encNum 0x20 n false
  | .ins n => encNum 0x24 n false
  | .attr n => encNum 0x30 n false
  | .elem n => encNum 0x28 n true
  | .other => none

def encSegs : Path → Option Bytes
  | [] => some []
  | s :: rest =>
    match encSeg s, encSegs rest with
    | some a, some b => some (a ++ b)
    | _, _ => none

/-- path size in 16-bit words, then the segments -/
def encEpath (p : Path) : Option Bytes :=
  match encSegs p with
  | none => none
  | some b => if b.length < 512 then some ((b.length / 2) :: b) else none

/-! ## Logix tag services and the Multiple Service Packet (requests) -/

def encSimple : Simple → Option Bytes
  | .readTag p n =>
    match encEpath p with
    | some e => if n < 65536 then some ([0x4C] ++ e ++ Bytes.le 2 n) else none
    | none => none
  | .readFrag p n off =>
    match encEpath p with
    | some e => if n < 65536 ∧ off < 4294967296 then some ([0x52] ++ e ++ Bytes.le 2 n ++ Bytes.le 4 off) else none
    | none => none
  | .writeTag p ty n data =>
    match encEpath p with
    | some e =>
      if ty < 65536 ∧ n < 65536 ∧ data.wf = true then some ([0x4D] ++ e ++ Bytes.le 2 ty ++ Bytes.le 2 n ++ data)
      else none
    | none => none
  | .writeFrag p ty n off data =>
    match encEpath p with
    | some e =>
      if ty < 65536 ∧ n < 65536 ∧ off < 4294967296 ∧ data.wf = true then
        some ([0x53] ++ e ++ Bytes.le 2 ty ++ Bytes.le 2 n ++ Bytes.le 4 off ++ data)
      else none
    | none => none
  | _ => none

def encSimples : List Simple → Option (List Bytes)
  | [] => some []
  | s :: rest =>
    match encSimple s, encSimples rest with
    | some a, some b => some (a :: b)
    | _, _ => none

/-- offsets of the members, from the start of the count field: first `2 + 2N`, each next advanced by
the previous member's length -/
def offsetsFrom (o : Nat) : List Bytes → List Nat
  | [] => []
  | m :: rest => o :: offsetsFrom (o + m.length) rest

def tableLen (ms : List Bytes) : Nat := 2 + 2 * ms.length + (ms.map List.length).sum

/-- count, offset table, members -/
def encTable (ms : List Bytes) : Bytes :=
  Bytes.le 2 ms.length ++ ((offsetsFrom (2 + 2 * ms.length) ms).map (Bytes.le 2)).flatten ++ ms.flatten

def encReq : Req → Option Bytes
  | .simple s => encSimple s
  | .multiple p reqs =>
    match encEpath p, encSimples reqs with
    | some e, some ms => if tableLen ms < 65536 then some ([0x0A] ++ e ++ encTable ms) else none
    | _, _ => none

def reqService : Req → Nat
  | .simple (.readTag ..) => 0x4C
  | .simple (.readFrag ..) => 0x52
  | .simple (.writeTag ..) => 0x4D
  | .simple (.writeFrag ..) => 0x53
  | .simple _ => 0
  | .multiple .. => 0x0A

/-! ## encapsulation, Common Packet Format, transports -/

/-- the 24-byte encapsulation header minus the length (which is the payload's) -/
structure Hdr where
  command : Nat
  session : Nat
  status : Nat := 0
  context : Bytes            -- 8 bytes, echoed by the server
  options : Nat := 0
deriving Repr, DecidableEq

def Hdr.ok (h : Hdr) : Bool :=
  decide (h.command < 65536) && decide (h.session < 4294967296) && decide (h.status < 4294967296)
    && decide (h.context.length = 8) && h.context.wf && decide (h.options < 4294967296)

def encFrame (h : Hdr) (payload : Bytes) : Bytes :=
  Bytes.le 2 h.command ++ Bytes.le 2 payload.length ++ Bytes.le 4 h.session ++ Bytes.le 4 h.status
    ++ h.context ++ Bytes.le 4 h.options ++ payload

/-- one CPF item: type id, length, data -/
def encItem (ty : Nat) (data : Bytes) : Bytes := Bytes.le 2 ty ++ Bytes.le 2 data.length ++ data

/-- SendRRData / SendUnitData command data: interface handle, timeout, two items -/
def encSendData (iface timeout : Nat) (a b : Bytes) : Bytes :=
  Bytes.le 4 iface ++ Bytes.le 2 timeout ++ Bytes.le 2 2 ++ a ++ b

/-- port segments of a route path: `[port, link]`, ports 1..14, numeric links -/
def encPorts : List (Nat × Nat) → Option Bytes
  | [] => some []
  | (p, l) :: rest =>
    match encPorts rest with
    | some b => if 1 ≤ p ∧ p ≤ 14 ∧ l < 256 then some ([p, l] ++ b) else none
    | none => none

/-- Unconnected Send (service 0x52 to the Connection Manager, class 6 instance 1) around a request -/
def encUnconnectedSend (prio ticks : Nat) (req : Bytes) (route : List (Nat × Nat)) : Option Bytes :=
  match encPorts route with
  | none => none
  | some rp =>
    if prio < 256 ∧ ticks < 256 ∧ req.length < 65536 ∧ route.length < 256 then
      some ([0x52, 0x02, 0x20, 0x06, 0x24, 0x01, prio, ticks] ++ Bytes.le 2 req.length ++ req
            ++ (if req.length % 2 = 1 then [0] else []) ++ [route.length, 0] ++ rp)
    else none

inductive Transport
  | direct                                              -- SendRRData, null address item, bare request
  | wrapped (prio ticks : Nat) (route : List (Nat × Nat))  -- SendRRData, request inside an Unconnected Send
  | connected (connId seq : Nat)                        -- SendUnitData, connected address + data items
deriving Repr, DecidableEq

/-- Forward Open parameters (small: 16-bit network connection parameters, large: 32-bit) -/
structure FwdOpen where
  large : Bool
  prio : Nat
  ticks : Nat
  otId : Nat
  toId : Nat
  serial : Nat
  vendor : Nat
  oserial : Nat
  mult : Nat
  otRpi : Nat
  otNcp : Nat
  toRpi : Nat
  toNcp : Nat
  tct : Nat                       -- transport class / trigger
  ports : List (Nat × Nat)        -- connection path: port segments …
  target : Path                   -- … then the logical address of the target object
deriving Repr, DecidableEq

structure FwdClose where
  prio : Nat
  ticks : Nat
  serial : Nat
  vendor : Nat
  oserial : Nat
  ports : List (Nat × Nat)
  target : Path
deriving Repr, DecidableEq

/-- connection path bytes (ports then logical segments); `none` when not encodable -/
def encConnPath (ports : List (Nat × Nat)) (target : Path) : Option Bytes :=
  match encPorts ports, encSegs target with
  | some a, some b => if (a ++ b).length < 512 then some (a ++ b) else none
  | _, _ => none

def encFwdOpen (fo : FwdOpen) : Option Bytes :=
  match encConnPath fo.ports fo.target with
  | none => none
  | some cp =>
    let w := if fo.large then 4 else 2
    if fo.prio < 256 ∧ fo.ticks < 256 ∧ fo.otId < 4294967296 ∧ fo.toId < 4294967296 ∧ fo.serial < 65536
        ∧ fo.vendor < 65536 ∧ fo.oserial < 4294967296 ∧ fo.mult < 256 ∧ fo.otRpi < 4294967296
        ∧ fo.toRpi < 4294967296 ∧ fo.otNcp < 256 ^ w ∧ fo.toNcp < 256 ^ w ∧ fo.tct < 256 then
      some ([if fo.large then 0x5B else 0x54, 0x02, 0x20, 0x06, 0x24, 0x01, fo.prio, fo.ticks]
        ++ Bytes.le 4 fo.otId ++ Bytes.le 4 fo.toId ++ Bytes.le 2 fo.serial ++ Bytes.le 2 fo.vendor
        ++ Bytes.le 4 fo.oserial ++ [fo.mult, 0, 0, 0]
        ++ Bytes.le 4 fo.otRpi ++ Bytes.le w fo.otNcp ++ Bytes.le 4 fo.toRpi ++ Bytes.le w fo.toNcp
        ++ [fo.tct, cp.length / 2] ++ cp)
    else none

def encFwdClose (fc : FwdClose) : Option Bytes :=
  match encConnPath fc.ports fc.target with
  | none => none
  | some cp =>
    if fc.prio < 256 ∧ fc.ticks < 256 ∧ fc.serial < 65536 ∧ fc.vendor < 65536 ∧ fc.oserial < 4294967296 then
      some ([0x4E, 0x02, 0x20, 0x06, 0x24, 0x01, fc.prio, fc.ticks]
        ++ Bytes.le 2 fc.serial ++ Bytes.le 2 fc.vendor ++ Bytes.le 4 fc.oserial
        ++ [cp.length / 2, 0] ++ cp)
    else none

/-- what a client sends -/
inductive Msg
  | register (ver opts : Nat)
  | unregister
  | request (t : Transport) (timeout : Nat) (r : Req)
  | fwdOpen (timeout : Nat) (fo : FwdOpen)
  | fwdClose (timeout : Nat) (fc : FwdClose)
deriving Repr, DecidableEq

/-- session handle and sender context of the client -/
structure Ctx where
  session : Nat
  context : Bytes
deriving Repr, DecidableEq

def Ctx.hdr (c : Ctx) (command : Nat) : Hdr := { command := command, session := c.session, context := c.context }

/-- an unconnected CIP message in a SendRRData frame: null address item + unconnected data item -/
def encRR (c : Ctx) (timeout : Nat) (cip : Bytes) : Option Bytes :=
  if timeout < 65536 ∧ cip.length < 65000 then
    some (encFrame (c.hdr 0x6F) (encSendData 0 timeout (encItem 0x00 []) (encItem 0xB2 cip)))
  else none

def encMsg (c : Ctx) : Msg → Option Bytes
  | .register ver opts =>
    if ver < 65536 ∧ opts < 65536 then some (encFrame (c.hdr 0x65) (Bytes.le 2 ver ++ Bytes.le 2 opts)) else none
  | .unregister => some (encFrame (c.hdr 0x66) [])
  | .request .direct timeout r =>
    -- a bare 0x52 is indistinguishable from an Unconnected Send: Read Tag Fragmented must be wrapped
    match encReq r with
    | some b => if reqService r = 0x52 then none else encRR c timeout b
    | none => none
  | .request (.wrapped prio ticks route) timeout r =>
    match encReq r with
    | some b =>
      match encUnconnectedSend prio ticks b route with
      | some w => encRR c timeout w
      | none => none
    | none => none
  | .request (.connected connId seq) timeout r =>
    match encReq r with
    | some b =>
      if timeout < 65536 ∧ b.length < 65000 ∧ connId < 4294967296 ∧ seq < 65536 then
        some (encFrame (c.hdr 0x70)
          (encSendData 0 timeout (encItem 0xA1 (Bytes.le 4 connId)) (encItem 0xB1 (Bytes.le 2 seq ++ b))))
      else none
    | none => none
  | .fwdOpen timeout fo =>
    match encFwdOpen fo with
    | some b => encRR c timeout b
    | none => none
  | .fwdClose timeout fc =>
    match encFwdClose fc with
    | some b => encRR c timeout b
    | none => none

/-! ## decoders (server -> client) -/

/-- one complete frame: header and payload of exactly the announced length -/
def decFrame (bs : Bytes) : Option (Hdr × Bytes) :=
  match u 2 bs with
  | none => none
  | some (cmd, r) =>
  match u 2 r with
  | none => none
  | some (len, r) =>
  match u 4 r with
  | none => none
  | some (ses, r) =>
  match u 4 r with
  | none => none
  | some (st, r) =>
  match take 8 r with
  | none => none
  | some (ctx, r) =>
  match u 4 r with
  | none => none
  | some (opt, r) =>
    if r.length = len then
      some ({ command := cmd, session := ses, status := st, context := ctx, options := opt }, r)
    else none

/-- general status, extended status words, rest -/
def decStatus (bs : Bytes) : Option (Nat × List Nat × Bytes) :=
  match bs with
  | st :: n :: r =>
    match words n r with
    | none => none
    | some (ext, r') => if st = 0 ∧ n ≠ 0 then none else some (st, ext, r')
  | _ => none

/-- a Logix service reply: reply service, reserved 0, status; reads with status 0 / 6 carry the CIP
type code and the elements -/
def decReply (bs : Bytes) : Option Reply :=
  match bs with
  | svc :: rsvd :: r =>
    if rsvd ≠ 0 ∨ svc < 128 then none else
    match decStatus r with
    | none => none
    | some (st, ext, body) =>
      if (svc = 0xCC ∨ svc = 0xD2) ∧ (st = 0 ∨ st = 6) then
        match u 2 body with
        | none => none
        | some (code, data) =>
          match CipType.ofCode code with
          | none => none
          | some t =>
            match decodeVals t data with
            | none => none
            | some vs => some { svc := svc, status := st, ext := ext, ty := some t, vals := vs }
      else some { svc := svc, status := st, ext := ext, raw := body }
  | _ => none

/-- cut `body` at the offsets (monotone, inside the body); the last member runs to the end -/
def slices (body : Bytes) : List Nat → Option (List Bytes)
  | [] => some []
  | [o] => if o ≤ body.length then some [body.drop o] else none
  | o :: o' :: rest =>
    if o ≤ o' ∧ o' ≤ body.length then
      match slices body (o' :: rest) with
      | some l => some ((body.drop o).take (o' - o) :: l)
      | none => none
    else none

/-- the member table of a Multiple Service Packet (request or reply) -/
def decTable (body : Bytes) : Option (List Bytes) :=
  match u 2 body with
  | none => none
  | some (n, r) =>
    match words n r with
    | none => none
    | some (offs, _) =>
      match offs with
      | [] => some []
      | o :: _ => if o = 2 + 2 * n then slices body offs else none

def decReplies : List Bytes → Option (List Reply)
  | [] => some []
  | m :: rest =>
    match decReply m, decReplies rest with
    | some a, some b => some (a :: b)
    | _, _ => none

/-- the replies carried by a successful Multiple Service Packet reply -/
def decBundle (r : Reply) : Option (List Reply) :=
  if r.svc = 0x8A ∧ r.status = 0 then (decTable r.raw).bind decReplies else none

structure FoReply where
  svc : Nat
  status : Nat
  ext : List Nat := []
  otId : Nat := 0
  toId : Nat := 0
  serial : Nat
  vendor : Nat
  oserial : Nat
  otApi : Nat := 0
  toApi : Nat := 0
  app : Bytes := []
deriving Repr, DecidableEq

structure FcReply where
  status : Nat
  ext : List Nat := []
  serial : Nat
  vendor : Nat
  oserial : Nat
  app : Bytes := []
deriving Repr, DecidableEq

inductive CipReply
  | tag (r : Reply)
  | fwdOpen (r : FoReply)
  | fwdClose (r : FcReply)
deriving Repr, DecidableEq

def decFoReply (svc : Nat) (bs : Bytes) : Option FoReply := do
  let (st, ext, r) ← decStatus bs
  if st = 0 then
    let (otId, r) ← u 4 r
    let (toId, r) ← u 4 r
    let (serial, r) ← u 2 r
    let (vendor, r) ← u 2 r
    let (oserial, r) ← u 4 r
    let (otApi, r) ← u 4 r
    let (toApi, r) ← u 4 r
    match r with
    | n :: 0 :: app =>
      if app.length = 2 * n then
        some { svc := svc, status := st, ext := ext, otId := otId, toId := toId, serial := serial,
               vendor := vendor, oserial := oserial, otApi := otApi, toApi := toApi, app := app }
      else none
    | _ => none
  else
    let (serial, r) ← u 2 r
    let (vendor, r) ← u 2 r
    let (oserial, r) ← u 4 r
    if r = [] ∨ r.length = 2 then
      some { svc := svc, status := st, ext := ext, serial := serial, vendor := vendor, oserial := oserial }
    else none

def decFcReply (bs : Bytes) : Option FcReply := do
  let (st, ext, r) ← decStatus bs
  let (serial, r) ← u 2 r
  let (vendor, r) ← u 2 r
  let (oserial, r) ← u 4 r
  match r with
  | n :: 0 :: app =>
    if app.length = 2 * n then
      some { status := st, ext := ext, serial := serial, vendor := vendor, oserial := oserial, app := app }
    else none
  | _ => none

def decCip (bs : Bytes) : Option CipReply :=
  match bs with
  | svc :: rsvd :: r =>
    if svc = 0xD4 ∨ svc = 0xDB then (if rsvd = 0 then (decFoReply svc r).map .fwdOpen else none)
    else if svc = 0xCE then (if rsvd = 0 then (decFcReply r).map .fwdClose else none)
    else (decReply bs).map .tag
  | _ => none

/-- what a client receives -/
inductive RMsg
  | registered (ver opts : Nat)
  | failed                                              -- encapsulation status ≠ 0, no payload
  | cip (conn : Option (Nat × Nat)) (iface timeout : Nat) (r : CipReply)
deriving Repr, DecidableEq

/-- type id, data, rest -/
def decItem (bs : Bytes) : Option (Nat × Bytes × Bytes) :=
  match u 2 bs with
  | none => none
  | some (ty, r) =>
    match u 2 r with
    | none => none
    | some (len, r) =>
      match take len r with
      | none => none
      | some (d, r') => some (ty, d, r')

def decSendData (payload : Bytes) : Option RMsg := do
  let (iface, r) ← u 4 payload
  let (timeout, r) ← u 2 r
  let (count, r) ← u 2 r
  if count ≠ 2 then none else
  let (t0, d0, r) ← decItem r
  let (t1, d1, r) ← decItem r
  if r ≠ [] then none else
  if t0 = 0x00 ∧ d0 = [] ∧ t1 = 0xB2 then (decCip d1).map (RMsg.cip none iface timeout)
  else if t0 = 0xA1 ∧ d0.length = 4 ∧ t1 = 0xB1 then
    match u 2 d1 with
    | none => none
    | some (seq, cip) => (decCip cip).map (RMsg.cip (some (Bytes.leNat d0, seq)) iface timeout)
  else none

def decReplyMsg (bs : Bytes) : Option (Hdr × RMsg) :=
  match decFrame bs with
  | none => none
  | some (h, payload) =>
    if h.status ≠ 0 then (if payload = [] then some (h, .failed) else none)
    else if h.command = 0x65 then
      match u 2 payload with
      | none => none
      | some (ver, r) =>
        match u 2 r with
        | none => none
        | some (opts, r) => if r = [] then some (h, .registered ver opts) else none
    else if h.command = 0x6F ∨ h.command = 0x70 then (decSendData payload).map fun m => (h, m)
    else none

end Cpppo.Ref
