/-
Model of `server/tnetstrings.py` (`dump`, `parse`, `parse_payload`, `parse_list`, `parse_dict`) and of
the streaming parser `server/tnet.py` (`tnet_machine` driven by `tnet_from`) -- property C20.

Bytes are `List Nat` (every element < 256 on the wire; payload bytes are never inspected by the
framing, so no bound is needed by the model).  Text is a list of code points, dictionary keys are
lists of code points (the code insists on ASCII keys), a float is an opaque token: the `str(float)`
text (Lean cannot reproduce Python's shortest-repr algorithm; `float(str(x)) == x` is trusted and
sampled by the correspondence).

Mirrored quirks of the code:
  * `int(b)` of Python is used for the length prefix and for `#` payloads: surrounding ASCII
    whitespace, one sign, single underscores between digits are all accepted (`pyInt`);
  * a negative length can never satisfy `len(payload) == length`; `-0` is 0;
  * `!` yields `payload == b'true'` (anything else is False); `?` wants one byte, `== b't'`;
  * dictionary keys must parse as `,` byte strings and be ASCII; a repeated key keeps its first
    position and takes the last value (Python `dict`);
  * `$` payloads are decoded as strict UTF-8 (no overlong forms, no surrogates, <= U+10FFFF);
  * `dump` refuses text with surrogate code points and non-ASCII dictionary keys
    (UnicodeEncodeError) -- `encodable`.
  * the stream machine accepts `[0-9]+` only as SIZE, then `:`, then SIZE bytes, then a type byte
    out of `#}],$!~^`, of which only `,` `$` `#` `~` are converted (the others fail an assertion).

  * `dump(data, encoding=E)` / `parse(data, encoding=E)`: the text codec `E` is handed down to every
    nested list and dictionary *value*; dictionary keys are always ASCII `,` strings and `parse_dict`
    parses a key with the default codec (`Enc`: utf-8, latin-1, ascii, utf-16 are modelled).
  * `tnet_from(..., ignore=S)`: symbols in `S` are skipped between messages (`step` in state `start`).
    The model mirrors the REPAIRED code (fixes/C20-ignore-between-blocks.patch): a separator is
    skipped wherever it arrives.  `feedChunksOld` is the code before the fix: separators were only
    skipped when already buffered at the moment the previous message completed, and never the
    symbol 0; kept for the witness.

No imports: this file is linked into the `cpppo_model` driver.
-/
namespace Cpppo.Tnet

abbrev Bytes := List Nat

mutual
inductive TVal where
  | int (i : Int)
  | float (tok : Bytes)
  | bool (b : Bool)
  | null
  | bytes (bs : Bytes)
  | text (cps : List Nat)
  | list (vs : TList)
  | dict (kvs : TDict)
inductive TList where
  | nil
  | cons (v : TVal) (vs : TList)
inductive TDict where
  | nil
  | cons (k : List Nat) (v : TVal) (kvs : TDict)
end

deriving instance DecidableEq for TVal, TList, TDict

/-! ### decimal numbers -/

/-- little-endian decimal digits (values 0..9); `fuel ≥ n` always suffices -/
def digitsLE : Nat → Nat → List Nat
  | 0, n => [n % 10]
  | fuel + 1, n => if n < 10 then [n] else (n % 10) :: digitsLE fuel (n / 10)

/-- `'%d' % n` / `str(n)` for a natural number, as ASCII bytes -/
def natDec (n : Nat) : Bytes := ((digitsLE n n).reverse).map (48 + ·)

/-- `str(i)` for a Python int -/
def intDec : Int → Bytes
  | Int.ofNat n => natDec n
  | Int.negSucc n => 45 :: natDec (n + 1)

def isDigit (b : Nat) : Bool := decide (48 ≤ b) && decide (b ≤ 57)
/-- `Py_ISSPACE`: space, \t \n \v \f \r -/
def isSpace (b : Nat) : Bool := b == 32 || (decide (9 ≤ b) && decide (b ≤ 13))

/-- the digit part of Python's `int(bytes)`: digits with single underscores between them, then
optional trailing whitespace up to the end.  `us` = the previous symbol was an underscore. -/
def pyDigits : Nat → Bool → Bytes → Option Nat
  | acc, us, [] => if us then none else some acc
  | acc, us, b :: rest =>
    if isDigit b then pyDigits (acc * 10 + (b - 48)) false rest
    else if b == 95 && !us then pyDigits acc true rest
    else if isSpace b && !us then (if rest.all isSpace then some acc else none)
    else none

def pyNat : Bytes → Option Nat
  | [] => none
  | b :: rest => if isDigit b then pyDigits (b - 48) false rest else none

def dropSpace : Bytes → Bytes
  | [] => []
  | b :: rest => if isSpace b then dropSpace rest else b :: rest

/-- Python `int(b)` for a bytes object `b` (base 10) -/
def pyInt (bs : Bytes) : Option Int :=
  match dropSpace bs with
  | 43 :: r => (pyNat r).map Int.ofNat
  | 45 :: r => (pyNat r).map fun n => - Int.ofNat n
  | r => (pyNat r).map Int.ofNat

/-! ### UTF-8 -/

/-- `str.encode('utf-8')` of one code point (meaningful for scalar values only) -/
def utf8EncCp (c : Nat) : Bytes :=
  if c < 128 then [c]
  else if c < 2048 then [192 + c / 64, 128 + c % 64]
  else if c < 65536 then [224 + c / 4096, 128 + c / 64 % 64, 128 + c % 64]
  else [240 + c / 262144, 128 + c / 4096 % 64, 128 + c / 64 % 64, 128 + c % 64]

def utf8Enc : List Nat → Bytes
  | [] => []
  | c :: cs => utf8EncCp c ++ utf8Enc cs

def isCont (b : Nat) : Bool := decide (128 ≤ b) && decide (b < 192)

/-- a Unicode scalar value: what a Python `str` element must be for `.encode('utf-8')` to succeed -/
def isScalar (c : Nat) : Bool := decide (c < 55296) || (decide (57344 ≤ c) && decide (c < 1114112))

/-- strict UTF-8 decoding (`bytes.decode('utf-8')`): `none` = UnicodeDecodeError -/
def utf8Dec : Bytes → Option (List Nat)
  | [] => some []
  | b0 :: rest =>
    if b0 < 128 then (utf8Dec rest).map (b0 :: ·)
    else if b0 < 194 then none
    else if b0 < 224 then
      match rest with
      | b1 :: rest =>
        if isCont b1 then (utf8Dec rest).map (((b0 - 192) * 64 + (b1 - 128)) :: ·) else none
      | _ => none
    else if b0 < 240 then
      match rest with
      | b1 :: b2 :: rest =>
        let cp := (b0 - 224) * 4096 + (b1 - 128) * 64 + (b2 - 128)
        if isCont b1 && isCont b2 && decide (2048 ≤ cp) && isScalar cp
        then (utf8Dec rest).map (cp :: ·) else none
      | _ => none
    else if b0 < 245 then
      match rest with
      | b1 :: b2 :: b3 :: rest =>
        let cp := (b0 - 240) * 262144 + (b1 - 128) * 4096 + (b2 - 128) * 64 + (b3 - 128)
        if isCont b1 && isCont b2 && isCont b3 && decide (65536 ≤ cp) && decide (cp < 1114112)
        then (utf8Dec rest).map (cp :: ·) else none
      | _ => none
    else none

/-! ### text codecs (`encoding=`) -/

/-- `'utf-16'` code units of one code point (meaningful for scalar values) -/
def utf16Units (c : Nat) : List Nat :=
  if c < 65536 then [c] else [55296 + (c - 65536) / 1024, 56320 + (c - 65536) % 1024]

def utf16EncLE : List Nat → Bytes
  | [] => []
  | c :: cs => ((utf16Units c).flatMap fun u => [u % 256, u / 256]) ++ utf16EncLE cs

/-- bytes to 16-bit units; `le` = little endian; `none` = truncated data -/
def unitsOf (le : Bool) : Bytes → Option (List Nat)
  | [] => some []
  | [_] => none
  | a :: b :: rest => (unitsOf le rest).map ((if le then a + 256 * b else 256 * a + b) :: ·)

/-- 16-bit units to code points; `none` = illegal surrogate -/
def decUnits : List Nat → Option (List Nat)
  | [] => some []
  | u :: rest =>
    if u < 55296 || 57344 ≤ u then (decUnits rest).map (u :: ·)
    else if u < 56320 then
      match rest with
      | w :: rest' =>
        if 56320 ≤ w && w < 57344 then
          (decUnits rest').map ((65536 + (u - 55296) * 1024 + (w - 56320)) :: ·)
        else none
      | [] => none
    else none

/-- UTF-16 decoding of BOM-less data; `none` = UnicodeDecodeError -/
def utf16Dec (le : Bool) (bs : Bytes) : Option (List Nat) := (unitsOf le bs).bind decUnits

/-- the codecs modelled for the `encoding=` option -/
inductive Enc where
  | utf8 | latin1 | ascii | utf16
deriving DecidableEq

/-- `str.encode(E)` succeeds -/
def encOk : Enc → List Nat → Bool
  | .utf8, cps => cps.all isScalar
  | .latin1, cps => cps.all (· < 256)
  | .ascii, cps => cps.all (· < 128)
  | .utf16, cps => cps.all isScalar

/-- `str.encode(E)` -/
def encText : Enc → List Nat → Bytes
  | .utf8, cps => utf8Enc cps
  | .latin1, cps => cps
  | .ascii, cps => cps
  | .utf16, cps => 255 :: 254 :: utf16EncLE cps          -- BOM, then little endian (native order)

/-- `bytes.decode(E)`; `none` = UnicodeDecodeError -/
def decText : Enc → Bytes → Option (List Nat)
  | .utf8, bs => utf8Dec bs
  | .latin1, bs => some bs
  | .ascii, bs => if bs.all (· < 128) then some bs else none
  | .utf16, bs =>
    match bs with
    | 255 :: 254 :: rest => utf16Dec true rest
    | 254 :: 255 :: rest => utf16Dec false rest
    | _ => utf16Dec true bs                              -- no BOM: native order

/-! ### float tokens -/

/-- one or more digits, returning the remainder -/
def skipDigits : Bytes → Bytes
  | [] => []
  | b :: rest => if isDigit b then skipDigits rest else b :: rest

def startsDigit : Bytes → Bool
  | b :: _ => isDigit b
  | [] => false

/-- after the mantissa's integer digits: `[.digits][e[+-]digits]` to the end -/
def floatTail (bs : Bytes) : Bool :=
  let afterFrac :=
    match bs with
    | 46 :: r => if startsDigit r then some (skipDigits r) else none
    | r => some r
  match afterFrac with
  | none => false
  | some [] => true
  | some (101 :: r) =>
    let r := match r with
      | 43 :: r' => r'
      | 45 :: r' => r'
      | r' => r'
    startsDigit r && (skipDigits r).isEmpty
  | some _ => false

/-- the shape of `str(x)` for a Python float: `-?(inf|nan|digits[.digits][e[+-]digits])`.
This is the model's (decidable) notion of a float token. -/
def floatTokOk (tok : Bytes) : Bool :=
  let body := match tok with
    | 45 :: r => r
    | r => r
  body == [105, 110, 102] || body == [110, 97, 110] ||
    (startsDigit body && floatTail (skipDigits body))

/-! ### dump -/

/-- `siz + b':' + out + typ` -/
def frame (payload : Bytes) (typ : Nat) : Bytes :=
  natDec payload.length ++ 58 :: (payload ++ [typ])

def boolTok (b : Bool) : Bytes := if b then [116, 114, 117, 101] else [102, 97, 108, 115, 101]

mutual
def dump (e : Enc) : TVal → Bytes
  | .int i => frame (intDec i) 35
  | .float tok => frame tok 94
  | .bool b => frame (boolTok b) 33
  | .null => [48, 58, 126]
  | .bytes bs => frame bs 44
  | .text cps => frame (encText e cps) 36
  | .list vs => frame (dumpList e vs) 93
  | .dict kvs => frame (dumpDict e kvs) 125
def dumpList (e : Enc) : TList → Bytes
  | .nil => []
  | .cons v vs => dump e v ++ dumpList e vs
def dumpDict (e : Enc) : TDict → Bytes
  | .nil => []
  | .cons k v kvs => frame k 44 ++ (dump e v ++ dumpDict e kvs)
end

/- what `dump` does not raise on: text must be encodable by the codec, dictionary keys ASCII -/
mutual
def encodable (e : Enc) : TVal → Bool
  | .text cps => encOk e cps
  | .list vs => encodableList e vs
  | .dict kvs => encodableDict e kvs
  | _ => true
def encodableList (e : Enc) : TList → Bool
  | .nil => true
  | .cons v vs => encodable e v && encodableList e vs
def encodableDict (e : Enc) : TDict → Bool
  | .nil => true
  | .cons k v kvs => k.all (· < 128) && encodable e v && encodableDict e kvs
end

/-- `dump` as the code behaves: `none` = exception (UnicodeEncodeError) -/
def dump? (e : Enc) (v : TVal) : Option Bytes := if encodable e v then some (dump e v) else none

/-! ### the values the property quantifies over -/

def TDict.hasKey (k : List Nat) : TDict → Bool
  | .nil => false
  | .cons k' _ kvs => k' == k || TDict.hasKey k kvs

/- Well-formed values (decidable): a float is a `str(float)`-shaped token, text consists of Unicode
scalar values / encodable by the codec, dictionary keys are ASCII and distinct (a Python `dict` cannot hold a key twice). -/
mutual
def wf (e : Enc) : TVal → Bool
  | .float tok => floatTokOk tok
  | .text cps => encOk e cps
  | .list vs => wfList e vs
  | .dict kvs => wfDict e kvs
  | _ => true
def wfList (e : Enc) : TList → Bool
  | .nil => true
  | .cons v vs => wf e v && wfList e vs
def wfDict (e : Enc) : TDict → Bool
  | .nil => true
  | .cons k v kvs => k.all (· < 128) && !(TDict.hasKey k kvs) && wf e v && wfDict e kvs
end

/-! ### parse -/

/-- `data.split(b':', 1)`: `none` when there is no colon (unpacking raises ValueError) -/
def splitColon : Bytes → Option (Bytes × Bytes)
  | [] => none
  | b :: rest =>
    if b == 58 then some ([], rest)
    else match splitColon rest with
      | some (p, r) => some (b :: p, r)
      | none => none

/-- `parse_payload`: (payload, payload_type, remain) -/
def parsePayload (data : Bytes) : Option (Bytes × Nat × Bytes) :=
  if data.isEmpty then none else
  match splitColon data with
  | none => none
  | some (len, extra) =>
    match pyInt len with
    | some (Int.ofNat n) =>
      let payload := extra.take n
      match extra.drop n with
      | [] => none
      | t :: remain => if payload.length = n then some (payload, t, remain) else none
    | _ => none

/-- Python dict assignment seen from the front: `k` first, then the rest of the keys; a later
occurrence of `k` supplies the value. -/
def TDict.lookup (k : List Nat) : TDict → Option TVal
  | .nil => none
  | .cons k' v kvs => match TDict.lookup k kvs with
    | some w => some w
    | none => if k' = k then some v else none

def TDict.erase (k : List Nat) : TDict → TDict
  | .nil => .nil
  | .cons k' v kvs => if k' = k then TDict.erase k kvs else .cons k' v (TDict.erase k kvs)

def TDict.put (k : List Nat) (v : TVal) (later : TDict) : TDict :=
  .cons k ((later.lookup k).getD v) (later.erase k)

mutual
/-- `parse(data, encoding=e)` with recursion fuel; `none` = an exception (AssertionError / ValueError) -/
def parseF (e : Enc) : Nat → Bytes → Option (TVal × Bytes)
  | 0, _ => none
  | fuel + 1, data =>
    match parsePayload data with
    | none => none
    | some (payload, t, remain) =>
      if t = 35 then (pyInt payload).map fun i => (.int i, remain)
      else if t = 125 then (parseDictF e fuel payload).map fun d => (.dict d, remain)
      else if t = 93 then (parseListF e fuel payload).map fun l => (.list l, remain)
      else if t = 33 then some (.bool (payload == [116, 114, 117, 101]), remain)
      else if t = 63 then (if payload.length = 1 then some (.bool (payload == [116]), remain) else none)
      else if t = 94 then (if floatTokOk payload then some (.float payload, remain) else none)
      else if t = 126 then (if payload.length = 0 then some (.null, remain) else none)
      else if t = 44 then some (.bytes payload, remain)
      else if t = 36 then (decText e payload).map fun cps => (.text cps, remain)
      else none
/-- `parse_list` -/
def parseListF (e : Enc) : Nat → Bytes → Option TList
  | 0, _ => none
  | fuel + 1, data =>
    if data.isEmpty then some .nil else
    match parseF e fuel data with
    | none => none
    | some (v, extra) => (parseListF e fuel extra).map fun vs => .cons v vs
/-- `parse_dict`: the key is parsed by `parse(extra)`, i.e. with the default utf-8 (only a `,`
payload, never decoded, is accepted as a key); the value is parsed with the caller's codec -/
def parseDictF (e : Enc) : Nat → Bytes → Option TDict
  | 0, _ => none
  | fuel + 1, data =>
    if data.isEmpty then some .nil else
    match parseF .utf8 fuel data with
    | some (.bytes key, extra) =>
      if extra.isEmpty then none                 -- "Unbalanced dictionary store."
      else match parseF e fuel extra with
        | none => none
        | some (v, extra') =>
          if key.all (· < 128) then (parseDictF e fuel extra').map fun d => TDict.put key v d
          else none                              -- key.decode('ascii')
    | _ => none                                  -- key is not bytes / parse failed
end

/-- `tnetstrings.parse(data, encoding=e)`.  Every level of nesting and every list/dict element costs
at least one byte of input, so `data.length + 1` fuel never runs out. -/
def parse (e : Enc) (data : Bytes) : Option (TVal × Bytes) := parseF e (data.length + 1) data

/-! ### the streaming parser (`tnet_machine` under `tnet_from`) -/

inductive St where
  | start                                 -- SIZE, no digit yet
  | size (n : Nat)                        -- SIZE, digits so far read as a number
  | data (need : Nat) (acc : Bytes)       -- DATA: `need` more bytes, then the TYPE byte
  | failed                                -- an exception left `tnet_from`
deriving DecidableEq

structure Run where
  st   : St := .start
  out  : List (TVal × Nat) := []          -- messages yielded, each with `source.sent` at that moment
  sent : Nat := 0                         -- symbols consumed so far
deriving DecidableEq

/-- TYPE conversion in `tnet_parser.process` -/
def convert (t : Nat) (src : Bytes) : Option TVal :=
  if t = 44 then some (.bytes src)
  else if t = 36 then (utf8Dec src).map .text
  else if t = 35 then (pyInt src).map .int
  else if t = 126 then (if src.length = 0 then some .null else none)
  else none

def isType (t : Nat) : Bool :=
  t == 35 || t == 125 || t == 93 || t == 44 || t == 36 || t == 33 || t == 126 || t == 94

/-- one input symbol; `ign` = the `ignore=` symbols, skipped between messages -/
def step (ign : Bytes) (r : Run) (b : Nat) : Run :=
  match r.st with
  | .failed => r
  | .start => if ign.contains b then { r with sent := r.sent + 1 }
              else if isDigit b then { r with st := .size (b - 48), sent := r.sent + 1 }
              else { r with st := .failed }
  | .size n =>
    if isDigit b then { r with st := .size (n * 10 + (b - 48)), sent := r.sent + 1 }
    else if b == 58 then { r with st := .data n [], sent := r.sent + 1 }
    else { r with st := .failed }
  | .data (need + 1) acc => { r with st := .data need (acc ++ [b]), sent := r.sent + 1 }
  | .data 0 acc =>
    if isType b then
      match convert b acc with
      | some v => { st := .start, out := r.out ++ [(v, r.sent + 1)], sent := r.sent + 1 }
      | none => { r with st := .failed, sent := r.sent + 1 }
    else { r with st := .failed }

/-- a block of input (one `recv`) -/
def feed (ign : Bytes) (r : Run) (bs : Bytes) : Run := bs.foldl (step ign) r

/-- a sequence of blocks, as `tnet_from` chains them into its source -/
def feedChunks (ign : Bytes) (r : Run) (chunks : List Bytes) : Run := chunks.foldl (feed ign) r

/-! #### the code before fixes/C20-ignore-between-blocks.patch

`while ignore and source.peek() and source.peek() in ignore: next(source)` ran once per message,
before the machine was started: it saw only symbols already buffered (the rest of the block that
completed the previous message), and `source.peek()` being falsy stopped it at the symbol 0.  Once
the machine had been started on an empty buffer, a separator arriving in the next block reached
SIZE and raised NonTerminal.  `skipping` = the skip loop is still looking at buffered input. -/

structure RunOld where
  run : Run := {}
  skipping : Bool := false      -- `tnet_from` starts with an empty source: the first skip loop sees nothing
deriving DecidableEq

def stepOld (ign : Bytes) (r : RunOld) (b : Nat) : RunOld :=
  match r.run.st with
  | .start =>
    if r.skipping && ign.contains b && b != 0 then { r with run := { r.run with sent := r.run.sent + 1 } }
    else
      let run' := step [] r.run b
      { run := run', skipping := false }
  | _ =>
    let run' := step [] r.run b
    -- a message has just been delivered: the loop top runs its skip loop over what is buffered
    { run := run', skipping := decide (run'.st = .start) }

/-- one block; when it is exhausted the skip loop (if it was still running) ends and the machine is
started on an empty buffer -/
def feedOld (ign : Bytes) (r : RunOld) (bs : Bytes) : RunOld :=
  { bs.foldl (stepOld ign) r with skipping := false }

def feedChunksOld (ign : Bytes) (r : RunOld) (chunks : List Bytes) : RunOld := chunks.foldl (feedOld ign) r

end Cpppo.Tnet
