/-
Model of `server/tnetstrings.py` (`dump`, `parse`, `parse_payload`, `parse_list`, `parse_dict`) and of
the streaming parser `server/tnet.py` (`tnet_machine` driven by `tnet_from`) -- property C20.

Bytes are `List Nat` (every element < 256 on the wire; payload bytes are never inspected by the
framing, so no bound is needed by the model).  Text is a list of code points, dictionary keys are
lists of code points (the code insists on ASCII keys), a float is an opaque token: the `str(float)`
text (Lean cannot reproduce Python's shortest-repr algorithm; `float(str(x)) == x` is trusted and
sampled by the correspondence).

Mirrored quirks of the code:
  * `int(b)` of Python is used for the length prefix and for `#` payloads: surrounding ASCII
    whitespace, one sign, single underscores between digits are all accepted (`pyInt`);
  * a negative length can never satisfy `len(payload) == length`; `-0` is 0;
  * `!` yields `payload == b'true'` (anything else is False); `?` wants one byte, `== b't'`;
  * dictionary keys must parse as `,` byte strings and be ASCII; a repeated key keeps its first
    position and takes the last value (Python `dict`);
  * `$` payloads are decoded as strict UTF-8 (no overlong forms, no surrogates, <= U+10FFFF);
  * `dump` refuses text with surrogate code points and non-ASCII dictionary keys
    (UnicodeEncodeError) -- `encodable`.
  * the stream machine accepts `[0-9]+` only as SIZE, then `:`, then SIZE bytes, then a type byte
    out of `#}],$!~^`, of which only `,` `$` `#` `~` are converted (the others fail an assertion).

No imports: this file is linked into the `cpppo_model` driver.
-/
namespace Cpppo.Tnet

abbrev Bytes := List Nat

mutual
inductive TVal where
  | int (i : Int)
  | float (tok : Bytes)
  | bool (b : Bool)
  | null
  | bytes (bs : Bytes)
  | text (cps : List Nat)
  | list (vs : TList)
  | dict (kvs : TDict)
inductive TList where
  | nil
  | cons (v : TVal) (vs : TList)
inductive TDict where
  | nil
  | cons (k : List Nat) (v : TVal) (kvs : TDict)
end

deriving instance DecidableEq for TVal, TList, TDict

/-! ### decimal numbers -/

/-- little-endian decimal digits (values 0..9); `fuel ≥ n` always suffices -/
def digitsLE : Nat → Nat → List Nat
  | 0, n => [n % 10]
  | fuel + 1, n => if n < 10 then [n] else (n % 10) :: digitsLE fuel (n / 10)

/-- `'%d' % n` / `str(n)` for a natural number, as ASCII bytes -/
def natDec (n : Nat) : Bytes := ((digitsLE n n).reverse).map (48 + ·)

/-- `str(i)` for a Python int -/
def intDec : Int → Bytes
  | Int.ofNat n => natDec n
  | Int.negSucc n => 45 :: natDec (n + 1)

def isDigit (b : Nat) : Bool := decide (48 ≤ b) && decide (b ≤ 57)
/-- `Py_ISSPACE`: space, \t \n \v \f \r -/
def isSpace (b : Nat) : Bool := b == 32 || (decide (9 ≤ b) && decide (b ≤ 13))

/-- the digit part of Python's `int(bytes)`: digits with single underscores between them, then
optional trailing whitespace up to the end.  `us` = the previous symbol was an underscore. -/
def pyDigits : Nat → Bool → Bytes → Option Nat
  | acc, us, [] => if us then none else some acc
  | acc, us, b :: rest =>
    if isDigit b then pyDigits (acc * 10 + (b - 48)) false rest
    else if b == 95 && !us then pyDigits acc true rest
    else if isSpace b && !us then (if rest.all isSpace then some acc else none)
    else none

def pyNat : Bytes → Option Nat
  | [] => none
  | b :: rest => if isDigit b then pyDigits (b - 48) false rest else none

def dropSpace : Bytes → Bytes
  | [] => []
  | b :: rest => if isSpace b then dropSpace rest else b :: rest

/-- Python `int(b)` for a bytes object `b` (base 10) -/
def pyInt (bs : Bytes) : Option Int :=
  match dropSpace bs with
  | 43 :: r => (pyNat r).map Int.ofNat
  | 45 :: r => (pyNat r).map fun n => - Int.ofNat n
  | r => (pyNat r).map Int.ofNat

/-! ### UTF-8 -/

/-- `str.encode('utf-8')` of one code point (meaningful for scalar values only) -/
def utf8EncCp (c : Nat) : Bytes :=
  if c < 128 then [c]
  else if c < 2048 then [192 + c / 64, 128 + c % 64]
  else if c < 65536 then [224 + c / 4096, 128 + c / 64 % 64, 128 + c % 64]
  else [240 + c / 262144, 128 + c / 4096 % 64, 128 + c / 64 % 64, 128 + c % 64]

def utf8Enc : List Nat → Bytes
  | [] => []
  | c :: cs => utf8EncCp c ++ utf8Enc cs

def isCont (b : Nat) : Bool := decide (128 ≤ b) && decide (b < 192)

/-- a Unicode scalar value: what a Python `str` element must be for `.encode('utf-8')` to succeed -/
def isScalar (c : Nat) : Bool := decide (c < 55296) || (decide (57344 ≤ c) && decide (c < 1114112))

/-- strict UTF-8 decoding (`bytes.decode('utf-8')`): `none` = UnicodeDecodeError -/
def utf8Dec : Bytes → Option (List Nat)
  | [] => some []
  | b0 :: rest =>
    if b0 < 128 then (utf8Dec rest).map (b0 :: ·)
    else if b0 < 194 then none
    else if b0 < 224 then
      match rest with
      | b1 :: rest =>
        if isCont b1 then (utf8Dec rest).map (((b0 - 192) * 64 + (b1 - 128)) :: ·) else none
      | _ => none
    else if b0 < 240 then
      match rest with
      | b1 :: b2 :: rest =>
        let cp := (b0 - 224) * 4096 + (b1 - 128) * 64 + (b2 - 128)
        if isCont b1 && isCont b2 && decide (2048 ≤ cp) && isScalar cp
        then (utf8Dec rest).map (cp :: ·) else none
      | _ => none
    else if b0 < 245 then
      match rest with
      | b1 :: b2 :: b3 :: rest =>
        let cp := (b0 - 240) * 262144 + (b1 - 128) * 4096 + (b2 - 128) * 64 + (b3 - 128)
        if isCont b1 && isCont b2 && isCont b3 && decide (65536 ≤ cp) && decide (cp < 1114112)
        then (utf8Dec rest).map (cp :: ·) else none
      | _ => none
    else none

/-! ### float tokens -/

/-- one or more digits, returning the remainder -/
def skipDigits : Bytes → Bytes
  | [] => []
  | b :: rest => if isDigit b then skipDigits rest else b :: rest

def startsDigit : Bytes → Bool
  | b :: _ => isDigit b
  | [] => false

/-- after the mantissa's integer digits: `[.digits][e[+-]digits]` to the end -/
def floatTail (bs : Bytes) : Bool :=
  let afterFrac :=
    match bs with
    | 46 :: r => if startsDigit r then some (skipDigits r) else none
    | r => some r
  match afterFrac with
  | none => false
  | some [] => true
  | some (101 :: r) =>
    let r := match r with
      | 43 :: r' => r'
      | 45 :: r' => r'
      | r' => r'
    startsDigit r && (skipDigits r).isEmpty
  | some _ => false

/-- the shape of `str(x)` for a Python float: `-?(inf|nan|digits[.digits][e[+-]digits])`.
This is the model's (decidable) notion of a float token. -/
def floatTokOk (tok : Bytes) : Bool :=
  let body := match tok with
    | 45 :: r => r
    | r => r
  body == [105, 110, 102] || body == [110, 97, 110] ||
    (startsDigit body && floatTail (skipDigits body))

/-! ### dump -/

/-- `siz + b':' + out + typ` -/
def frame (payload : Bytes) (typ : Nat) : Bytes :=
  natDec payload.length ++ 58 :: (payload ++ [typ])

def boolTok (b : Bool) : Bytes := if b then [116, 114, 117, 101] else [102, 97, 108, 115, 101]

mutual
def dump : TVal → Bytes
  | .int i => frame (intDec i) 35
  | .float tok => frame tok 94
  | .bool b => frame (boolTok b) 33
  | .null => [48, 58, 126]
  | .bytes bs => frame bs 44
  | .text cps => frame (utf8Enc cps) 36
  | .list vs => frame (dumpList vs) 93
  | .dict kvs => frame (dumpDict kvs) 125
def dumpList : TList → Bytes
  | .nil => []
  | .cons v vs => dump v ++ dumpList vs
def dumpDict : TDict → Bytes
  | .nil => []
  | .cons k v kvs => frame k 44 ++ (dump v ++ dumpDict kvs)
end

/- what `dump` does not raise on: text must consist of scalar values, dictionary keys of ASCII -/
mutual
def encodable : TVal → Bool
  | .text cps => cps.all isScalar
  | .list vs => encodableList vs
  | .dict kvs => encodableDict kvs
  | _ => true
def encodableList : TList → Bool
  | .nil => true
  | .cons v vs => encodable v && encodableList vs
def encodableDict : TDict → Bool
  | .nil => true
  | .cons k v kvs => k.all (· < 128) && encodable v && encodableDict kvs
end

/-- `dump` as the code behaves: `none` = exception (UnicodeEncodeError) -/
def dump? (v : TVal) : Option Bytes := if encodable v then some (dump v) else none

/-! ### the values the property quantifies over -/

def TDict.hasKey (k : List Nat) : TDict → Bool
  | .nil => false
  | .cons k' _ kvs => k' == k || TDict.hasKey k kvs

/- Well-formed values (decidable): a float is a `str(float)`-shaped token, text consists of Unicode
scalar values, dictionary keys are ASCII and distinct (a Python `dict` cannot hold a key twice). -/
mutual
def wf : TVal → Bool
  | .float tok => floatTokOk tok
  | .text cps => cps.all isScalar
  | .list vs => wfList vs
  | .dict kvs => wfDict kvs
  | _ => true
def wfList : TList → Bool
  | .nil => true
  | .cons v vs => wf v && wfList vs
def wfDict : TDict → Bool
  | .nil => true
  | .cons k v kvs => k.all (· < 128) && !(TDict.hasKey k kvs) && wf v && wfDict kvs
end

/-! ### parse -/

/-- `data.split(b':', 1)`: `none` when there is no colon (unpacking raises ValueError) -/
def splitColon : Bytes → Option (Bytes × Bytes)
  | [] => none
  | b :: rest =>
    if b == 58 then some ([], rest)
    else match splitColon rest with
      | some (p, r) => some (b :: p, r)
      | none => none

/-- `parse_payload`: (payload, payload_type, remain) -/
def parsePayload (data : Bytes) : Option (Bytes × Nat × Bytes) :=
  if data.isEmpty then none else
  match splitColon data with
  | none => none
  | some (len, extra) =>
    match pyInt len with
    | some (Int.ofNat n) =>
      let payload := extra.take n
      match extra.drop n with
      | [] => none
      | t :: remain => if payload.length = n then some (payload, t, remain) else none
    | _ => none

/-- Python dict assignment seen from the front: `k` first, then the rest of the keys; a later
occurrence of `k` supplies the value. -/
def TDict.lookup (k : List Nat) : TDict → Option TVal
  | .nil => none
  | .cons k' v kvs => match TDict.lookup k kvs with
    | some w => some w
    | none => if k' = k then some v else none

def TDict.erase (k : List Nat) : TDict → TDict
  | .nil => .nil
  | .cons k' v kvs => if k' = k then TDict.erase k kvs else .cons k' v (TDict.erase k kvs)

def TDict.put (k : List Nat) (v : TVal) (later : TDict) : TDict :=
  .cons k ((later.lookup k).getD v) (later.erase k)

mutual
/-- `parse(data)` with recursion fuel; `none` = an exception (AssertionError / ValueError) -/
def parseF : Nat → Bytes → Option (TVal × Bytes)
  | 0, _ => none
  | fuel + 1, data =>
    match parsePayload data with
    | none => none
    | some (payload, t, remain) =>
      if t = 35 then (pyInt payload).map fun i => (.int i, remain)
      else if t = 125 then (parseDictF fuel payload).map fun d => (.dict d, remain)
      else if t = 93 then (parseListF fuel payload).map fun l => (.list l, remain)
      else if t = 33 then some (.bool (payload == [116, 114, 117, 101]), remain)
      else if t = 63 then (if payload.length = 1 then some (.bool (payload == [116]), remain) else none)
      else if t = 94 then (if floatTokOk payload then some (.float payload, remain) else none)
      else if t = 126 then (if payload.length = 0 then some (.null, remain) else none)
      else if t = 44 then some (.bytes payload, remain)
      else if t = 36 then (utf8Dec payload).map fun cps => (.text cps, remain)
      else none
/-- `parse_list` -/
def parseListF : Nat → Bytes → Option TList
  | 0, _ => none
  | fuel + 1, data =>
    if data.isEmpty then some .nil else
    match parseF fuel data with
    | none => none
    | some (v, extra) => (parseListF fuel extra).map fun vs => .cons v vs
/-- `parse_dict` -/
def parseDictF : Nat → Bytes → Option TDict
  | 0, _ => none
  | fuel + 1, data =>
    if data.isEmpty then some .nil else
    match parseF fuel data with
    | some (.bytes key, extra) =>
      if extra.isEmpty then none                 -- "Unbalanced dictionary store."
      else match parseF fuel extra with
        | none => none
        | some (v, extra') =>
          if key.all (· < 128) then (parseDictF fuel extra').map fun d => TDict.put key v d
          else none                              -- key.decode('ascii')
    | _ => none                                  -- key is not bytes / parse failed
end

/-- `tnetstrings.parse(data)`.  Every level of nesting and every list/dict element costs at least
one byte of input, so `data.length + 1` fuel never runs out (`parse_fuel_enough`). -/
def parse (data : Bytes) : Option (TVal × Bytes) := parseF (data.length + 1) data

/-! ### the streaming parser (`tnet_machine` under `tnet_from`) -/

inductive St where
  | start                                 -- SIZE, no digit yet
  | size (n : Nat)                        -- SIZE, digits so far read as a number
  | data (need : Nat) (acc : Bytes)       -- DATA: `need` more bytes, then the TYPE byte
  | failed                                -- an exception left `tnet_from`
deriving DecidableEq

structure Run where
  st   : St := .start
  out  : List (TVal × Nat) := []          -- messages yielded, each with `source.sent` at that moment
  sent : Nat := 0                         -- symbols consumed so far
deriving DecidableEq

/-- TYPE conversion in `tnet_parser.process` -/
def convert (t : Nat) (src : Bytes) : Option TVal :=
  if t = 44 then some (.bytes src)
  else if t = 36 then (utf8Dec src).map .text
  else if t = 35 then (pyInt src).map .int
  else if t = 126 then (if src.length = 0 then some .null else none)
  else none

def isType (t : Nat) : Bool :=
  t == 35 || t == 125 || t == 93 || t == 44 || t == 36 || t == 33 || t == 126 || t == 94

/-- one input symbol -/
def step (r : Run) (b : Nat) : Run :=
  match r.st with
  | .failed => r
  | .start => if isDigit b then { r with st := .size (b - 48), sent := r.sent + 1 }
              else { r with st := .failed }
  | .size n =>
    if isDigit b then { r with st := .size (n * 10 + (b - 48)), sent := r.sent + 1 }
    else if b == 58 then { r with st := .data n [], sent := r.sent + 1 }
    else { r with st := .failed }
  | .data (need + 1) acc => { r with st := .data need (acc ++ [b]), sent := r.sent + 1 }
  | .data 0 acc =>
    if isType b then
      match convert b acc with
      | some v => { st := .start, out := r.out ++ [(v, r.sent + 1)], sent := r.sent + 1 }
      | none => { r with st := .failed, sent := r.sent + 1 }
    else { r with st := .failed }

/-- a block of input (one `recv`) -/
def feed (r : Run) (bs : Bytes) : Run := bs.foldl step r

/-- a sequence of blocks, as `tnet_from` chains them into its source -/
def feedChunks (r : Run) (chunks : List Bytes) : Run := chunks.foldl feed r

end Cpppo.Tnet
