/-
Model of the receiving half of `server/enip/client.py` and of the gateway handling of
`server/enip/get_attribute.py` `proxy` (property C13).

What is mirrored, function by function:

  `takeFrame`     the `enip_machine` framing as seen by `client.__next__`: nothing is produced until the
                  24-byte header (command, length, session, status, 8-byte sender context, options; all
                  little-endian) *and* `length` payload bytes are there.
  `await`         `await_response` over `client.__next__`: parse what is buffered; else take the next
                  network event: more data (chained onto the source), EOF (`StopIteration` when between
                  frames, an exception out of the framing engine when inside one), or nothing within the
                  timeout (`None`; a partially parsed frame stays in the engine).
  `collectNext`   one `next()` of the `connector.collect` generator: pending replies of the current frame
                  first, else `await` + `enip_replies` (encapsulation status, Multiple Service Packet
                  flattening); returns (`done`) on timeout or EOF.
  `harvestNext`   one turn of `connector.harvest`'s lazy `zip(issued, collect)`: an issued request is
                  taken first, then a collected reply; `assert rpy_ctx == req_ctx and rpy.service ==
                  req.service | 0x80`.
  `pipeline`      `connector.pipeline`: the issue/harvest interleaving by `depth` (`fill`, while the issuer
                  still produces; `drain`, after it is exhausted) and the final
                  `assert complete == requests`.
  `synchronous`   `connector.synchronous` with the completeness assertion of the `fix:` commit;
                  `synchronousOld` is the code before it (ends silently when `collect` returns).
  `connect`       `connector.__init__`: Register, `await_response`, the `with self:` exit check and the
                  four assertions.
  `identify`      `proxy.list_identity_details` as used by `open_gateway` (proxy without `identity_default`)
  `openGateway`   `proxy.open_gateway`: connector, then List Identity; any exception discards the new gateway
  `proxyUse`      `with proxy: list( proxy.read( ... ))`: `open_gateway` (lazily creates the connector),
                  the operation on the gateway, `__exit__` => `close_gateway` on any exception.

The reply parser (`enip_replies` over the parsed CIP payload) is a parameter `P : Frame → Resp` of the
receiving functions: the theorems hold for every `P`; the driver instantiates it with `parseFrame`, a
parser of the one payload shape the simulator and the harness produce (SendRRData, null address item,
unconnected data item 0x00b2, one reply or a Multiple Service Packet reply).

No imports: this file is linked into the `cpppo_model` driver.
-/
namespace Cpppo.ClientRx

abbrev Bytes := List Nat

/-! ### little-endian fields -/

def le16 (n : Nat) : Bytes := [n % 256, n / 256 % 256]
def le32 (n : Nat) : Bytes := [n % 256, n / 256 % 256, n / 65536 % 256, n / 16777216 % 256]

def leNat : Bytes → Nat
  | [] => 0
  | b :: bs => b + 256 * leNat bs

/-! ### EtherNet/IP encapsulation frames -/

structure Frame where
  cmd     : Nat
  session : Nat
  status  : Nat
  ctx     : Bytes          -- the 8-byte sender context, as on the wire
  options : Nat
  payload : Bytes
deriving Repr, DecidableEq

/-- what the peer puts on the wire for a frame -/
def encodeFrame (f : Frame) : Bytes :=
  le16 f.cmd ++ (le16 f.payload.length ++ (le32 f.session ++ (le32 f.status ++ (f.ctx ++
    (le32 f.options ++ f.payload)))))

/-- field ranges under which `encodeFrame` is faithful (what `struct.pack` accepts) -/
def Frame.WF (f : Frame) : Prop :=
  f.cmd < 65536 ∧ f.payload.length < 65536 ∧ f.session < 4294967296 ∧ f.status < 4294967296 ∧
  f.ctx.length = 8 ∧ f.options < 4294967296

instance (f : Frame) : Decidable f.WF := by unfold Frame.WF; infer_instance

/-- the first `n` bytes and the rest; nothing unless all `n` are there -/
def splitN (n : Nat) (bs : Bytes) : Option (Bytes × Bytes) :=
  if bs.length < n then none else some (bs.take n, bs.drop n)

/-- One complete frame off the front of the received bytes, or `none`: the framing machine yields no
frame before the header and the announced payload are complete. -/
def takeFrame (buf : Bytes) : Option (Frame × Bytes) :=
  match splitN 2 buf with
  | none => none
  | some (c, r1) =>
  match splitN 2 r1 with
  | none => none
  | some (l, r2) =>
  match splitN 4 r2 with
  | none => none
  | some (s, r3) =>
  match splitN 4 r3 with
  | none => none
  | some (st, r4) =>
  match splitN 8 r4 with
  | none => none
  | some (x, r5) =>
  match splitN 4 r5 with
  | none => none
  | some (o, r6) =>
  match splitN (leNat l) r6 with
  | none => none
  | some (pl, rest) =>
    some ({ cmd := leNat c, session := leNat s, status := leNat st, ctx := x, options := leNat o,
            payload := pl }, rest)

/-! ### network events and `await_response` -/

/-- what the socket delivers next: a block of data, end of stream, or nothing within the timeout -/
inductive Ev where
  | data (bs : Bytes)
  | eof
  | quiet
  | reset            -- the peer aborted the connection (TCP RST): reads as EOF (`network.recv`), sends raise
deriving Repr, DecidableEq

/-- result of one `await_response` -/
inductive Await where
  | frame (f : Frame)     -- a complete frame
  | stop                  -- `{}`: EOF between frames (`StopIteration` from `client.__next__`)
  | timeout               -- `None`: nothing (more) within the timeout
  | rxerror               -- EOF inside a frame: the framing engine raises; the engine is discarded
deriving Repr, DecidableEq

/-- `await_response` on a client whose unparsed input is `buf`.  EOF is sticky (a closed socket stays
readable and keeps returning `b''`); an exhausted event list is silence. -/
def await (buf : Bytes) : List Ev → Await × Bytes × List Ev
  | [] =>
    match takeFrame buf with
    | some (f, rest) => (.frame f, rest, [])
    | none => (.timeout, buf, [])
  | ev :: evs =>
    match takeFrame buf with
    | some (f, rest) => (.frame f, rest, ev :: evs)
    | none =>
      match ev with
      | .data bs => await (buf ++ bs) evs
      | .eof => if buf.isEmpty then (.stop, buf, .eof :: evs) else (.rxerror, buf, .eof :: evs)
      | .quiet => (.timeout, buf, evs)
      | .reset => if buf.isEmpty then (.stop, buf, .reset :: evs) else (.rxerror, buf, .reset :: evs)

/-! ### replies -/

/-- one CIP reply as `collect` sees it: service code, general status, and the raw reply bytes -/
structure Reply where
  svc    : Nat
  status : Nat
  raw    : Bytes
deriving Repr, DecidableEq

/-- reply services whose successful replies carry data (Read Tag, Read Tag Fragmented, Get Attribute
Single, Get Attributes All) -/
def dataReplyServices : List Nat := [0xcc, 0xd2, 0x8e, 0x81]

/-- `collect`'s value is not `None`: data for the reading services on status 0 / 6, `True` on status 0 -/
def Reply.hasValue (r : Reply) : Bool :=
  (dataReplyServices.contains r.svc && (r.status == 0 || r.status == 6)) || r.status == 0

inductive Err where
  | rxerror        -- exception out of `client.__next__` (EOF inside a frame)
  | enipStatus     -- `ENIPStatusError`: non-zero encapsulation status
  | msvcStatus     -- `MSVCStatusError`: Multiple Service Packet reply with non-zero status
  | unrecognized   -- `assert replies, "Response Unrecognized"`
  | unmodelled     -- a payload outside the shape `parseFrame` covers (never generated by the harness)
  | mismatch       -- `harvest`: context or service of the reply differs from the request's
  | senderror      -- `socket.error` out of `client.send` while issuing (the peer aborted the connection)
  | incomplete     -- `pipeline`/`synchronous`: "Communication ceased before harvesting all ... responses"
  | partialHeld    -- `client.__exit__`: "Partial response parsed; client session is no longer valid"
deriving Repr, DecidableEq

/-- `enip_replies` of a received frame: the (NUL-stripped) sender context and the replies, or the error -/
inductive Resp where
  | replies (ctx : Bytes) (rs : List Reply)
  | error (e : Err)
deriving Repr, DecidableEq

/-- (context, reply) as yielded by `collect` -/
abbrev Col := Bytes × Reply

/-- state of a connector between calls: unparsed input, the events still to come, and the replies of the
current frame not yet yielded by `collect` -/
structure CSt where
  buf  : Bytes
  evs  : List Ev
  pend : List Col
deriving Repr, DecidableEq

inductive CNext where
  | item (c : Col) (st : CSt)
  | done (held : Bool) (st : CSt)     -- generator returned; `held`: a partial frame stays in the engine
  | raise (e : Err) (st : CSt)
deriving Repr

/-- one `next()` of `connector.collect` -/
def collectNext (P : Frame → Resp) (st : CSt) : CNext :=
  match st.pend with
  | c :: cs => .item c { st with pend := cs }
  | [] =>
    match await st.buf st.evs with
    | (.frame f, buf, evs) =>
      match P f with
      | .replies _ [] => .raise .unrecognized { buf := buf, evs := evs, pend := [] }
      | .replies ctx (r :: rs) => .item (ctx, r) { buf := buf, evs := evs, pend := rs.map fun x => (ctx, x) }
      | .error e => .raise e { buf := buf, evs := evs, pend := [] }
    | (.stop, buf, evs) => .done false { buf := buf, evs := evs, pend := [] }
    | (.timeout, buf, evs) => .done (!buf.isEmpty) { buf := buf, evs := evs, pend := [] }
    | (.rxerror, buf, evs) => .raise .rxerror { buf := buf, evs := evs, pend := [] }

/-! ### issued requests, `harvest` -/

/-- what `issue` yields for an operation, as far as `harvest` uses it: packet index, sender context
(`str(index)`), request service code -/
structure Iss where
  idx : Nat
  ctx : Bytes
  svc : Nat
deriving Repr, DecidableEq

/-- the reply service code of a request service code (`req.service | 0x80`) -/
def rpySvc (s : Nat) : Nat := if s / 128 % 2 = 1 then s else s + 128

/-- a harvested record: the request and the reply paired with it -/
structure Res where
  iss : Iss
  ctx : Bytes
  rpy : Reply
deriving Repr, DecidableEq

/-- the assertion of `harvest` -/
def Matches (i : Iss) (c : Col) : Prop := c.1 = i.ctx ∧ c.2.svc = rpySvc i.svc

instance (i : Iss) (c : Col) : Decidable (Matches i c) := by unfold Matches; infer_instance

inductive HNext where
  | yield (r : Res) (st : CSt)
  | stop (held : Bool) (st : CSt)
  | raise (e : Err) (st : CSt)
deriving Repr

/-- one turn of `harvest` for the issued request `i` (already taken from `issued` by the lazy zip) -/
def harvestNext (P : Frame → Resp) (i : Iss) (st : CSt) : HNext :=
  match collectNext P st with
  | .item c st' => if Matches i c then .yield { iss := i, ctx := c.1, rpy := c.2 } st' else .raise .mismatch st'
  | .done held st' => .stop held st'
  | .raise e st' => .raise e st'

/-- how a `harvest` generator ended -/
inductive HEnd where
  | exhausted               -- `issued` ran out: every request was paired
  | stopped (held : Bool)   -- `collect` returned (timeout / EOF) with a request outstanding
  | raised (e : Err)
deriving Repr, DecidableEq

/-- `harvest` run to its end over the issued requests (the body of `synchronous`) -/
def harvestAll (P : Frame → Resp) : List Iss → CSt → List Res × HEnd × CSt
  | [], st => ([], .exhausted, st)
  | i :: is, st =>
    match harvestNext P i st with
    | .yield r st' =>
      let (rs, e, st'') := harvestAll P is st'
      (r :: rs, e, st'')
    | .stop held st' => ([], .stopped held, st')
    | .raise e st' => ([], .raised e, st')

/-- how the consumer of the result stream sees its end -/
inductive End where
  | ok
  | error (e : Err)
deriving Repr, DecidableEq

/-! ### `pipeline` -/

/-- `assert complete == requests` -/
def finish (complete requests : Nat) : End :=
  if complete == requests then .ok else .error .incomplete

/-- the loop of `pipeline` once the issuer is exhausted (`issuer = None`): one harvest per turn while
requests are in flight; `StopIteration` from the harvester breaks the loop -/
def drain (P : Frame → Resp) : List Iss → CSt → Nat → Nat → List Res × End × CSt
  | [], st, c, q => ([], finish c q, st)
  | i :: is, st, c, q =>
    match harvestNext P i st with
    | .yield r st' =>
      let (rs, e, st'') := drain P is st' (c + 1) q
      (r :: rs, e, st'')
    | .stop _ st' => ([], finish c q, st')
    | .raise e st' => ([], .error e, st')

/-- the loop of `pipeline` while the issuer still produces: issue one, and harvest one when more than
`depth` packets are outstanding (`curr - last > depth`; `last` starts at `index - 1`, hence `Int`) -/
def fill (P : Frame → Resp) (depth : Nat) :
    List Iss → List Iss → CSt → Int → Nat → Nat → List Res × End × CSt
  | [], inflight, st, _, c, q => drain P inflight st c q
  | i :: rest, inflight, st, last, c, q =>
    if (i.idx : Int) - last > (depth : Int) then
      match inflight ++ [i] with
      | [] => ([], finish c (q + 1), st)                       -- not reachable
      | h :: tl =>
        match harvestNext P h st with
        | .yield r st' =>
          let (rs, e, st'') := fill P depth rest tl st' (h.idx : Int) (c + 1) (q + 1)
          (r :: rs, e, st'')
        | .stop _ st' => ([], finish c (q + 1), st')
        | .raise e st' => ([], .error e, st')
    else fill P depth rest (inflight ++ [i]) st last c (q + 1)

/-- `connector.pipeline( operations, index, depth )` on the issued requests -/
def pipeline (P : Frame → Resp) (depth : Nat) (index : Nat) (issued : List Iss) (st : CSt) :
    List Res × End × CSt :=
  fill P depth issued [] st ((index : Int) - 1) 0 0

/-! ### `synchronous` -/

/-- `connector.synchronous` after the `fix:` commit: as `harvest`, and a request issued but not
harvested is an error -/
def synchronous (P : Frame → Resp) (issued : List Iss) (st : CSt) : List Res × End × CSt :=
  match harvestAll P issued st with
  | (rs, .exhausted, st') => (rs, .ok, st')
  | (rs, .stopped _, st') => (rs, .error .incomplete, st')
  | (rs, .raised e, st') => (rs, .error e, st')

/-- `connector.synchronous` before the `fix:` commit: when `collect` returns, `zip` ends and so does the
generator, without an exception.  (A partially parsed frame is then caught by `client.__exit__`.) -/
def synchronousOld (P : Frame → Resp) (issued : List Iss) (st : CSt) : List Res × End × CSt :=
  match harvestAll P issued st with
  | (rs, .exhausted, st') => (rs, .ok, st')
  | (rs, .stopped held, st') => (rs, if held then .error .partialHeld else .ok, st')
  | (rs, .raised e, st') => (rs, .error e, st')

/-! ### `connector.__init__` -/

inductive ConnErr where
  | noresponse     -- "Failed to receive any response"        (nothing within the timeout)
  | noenip         -- "Failed to receive EtherNet/IP response" (EOF before any byte)
  | partialHeld    -- "Partial response parsed ..."            (timeout inside the Register reply)
  | rxerror        -- EOF inside the Register reply
  | status         -- "EtherNet/IP response indicates failure"
  | notregister    -- "Failed to receive Register response"
deriving Repr, DecidableEq

def cmdRegister : Nat := 0x65

/-- Register and await its reply on a fresh connection that will deliver `evs` -/
def connect (evs : List Ev) : Except ConnErr CSt :=
  match await [] evs with
  | (.frame f, buf, evs') =>
    if f.status ≠ 0 then .error .status
    else if f.cmd ≠ cmdRegister then .error .notregister
    else .ok { buf := buf, evs := evs', pend := [] }
  | (.stop, _, _) => .error .noenip
  | (.timeout, buf, _) => if buf.isEmpty then .error .noresponse else .error .partialHeld
  | (.rxerror, _, _) => .error .rxerror

/-! ### the proxy's gateway -/

/-- how the List Identity exchange of `open_gateway` fails -/
inductive IdErr where
  | noidentity     -- "No response to List Identity within timeout" (nothing, or only part of a frame, or EOF)
  | rxerror        -- EOF inside the List Identity reply
  | badidentity    -- a successful reply that carries no identity (`rsp.enip.CIP.list_identity...` raises)
deriving Repr, DecidableEq

def cmdListIdentity : Nat := 0x63

/-- `proxy.list_identity_details` + the use `open_gateway` makes of the reply, on a freshly registered
connector: List Identity is sent, `await_response`, `assert rsp`; a reply with non-zero status is
accepted without an identity. -/
def identify (st : CSt) : Except IdErr CSt :=
  match await st.buf st.evs with
  | (.frame f, buf, evs) =>
    if f.status = 0 ∧ f.cmd ≠ cmdListIdentity then .error .badidentity
    else .ok { buf := buf, evs := evs, pend := [] }
  | (.stop, _, _) => .error .noidentity
  | (.timeout, _, _) => .error .noidentity
  | (.rxerror, _, _) => .error .rxerror

/-- how `proxy.open_gateway` fails: creating the connector (Register), or identifying the device -/
inductive OpenErr where
  | connect (e : ConnErr)
  | identify (e : IdErr)
deriving Repr, DecidableEq

/-- `proxy.open_gateway` on a connection that will deliver `evs`: create the connector; unless the proxy
was given an `identity_default` (`ident = false`), exchange List Identity.  On any exception the new
gateway is closed and discarded (`close_gateway` before the re-raise): no state is returned. -/
def openGateway (ident : Bool) (evs : List Ev) : Except OpenErr CSt :=
  match connect evs with
  | .error e => .error (.connect e)
  | .ok st =>
    if ident then
      match identify st with
      | .error e => .error (.identify e)
      | .ok st' => .ok st'
    else .ok st

/-- `proxy`: the gateway (connection number and connector state) if one is open, and how many
connections have been opened so far -/
structure Proxy where
  gateway : Option (Nat × CSt)
  opened  : Nat
deriving Repr

inductive UseOut where
  | openfail (conn : Nat) (e : OpenErr)             -- `open_gateway` raised (out of `proxy.__enter__`)
  | ran (conn : Nat) (rs : List Res) (e : End)      -- the operation ran on connection `conn`
  | identified (conn : Nat) (e : Option IdErr)      -- `list_identity()` ran on connection `conn`
  | refused                                         -- no connection could be made
deriving Repr

/-- the peer aborted the idle connection (nothing buffered, RST next): the first send of the next use raises
`socket.error` before anything is in flight -/
def sendFails (st : CSt) : Bool := st.buf.isEmpty && st.pend.isEmpty && (st.evs.head? == some .reset)

/-- `with proxy: list( proxy.read( ... ))` where the `n`-th connection opened delivers `conns[n]`.
`__enter__` opens the gateway if there is none (an exception there leaves none); an exception inside the
`with` closes and discards it (`__exit__`). -/
def proxyUse (P : Frame → Resp) (ident : Bool) (depth : Nat) (conns : List (List Ev)) (p : Proxy)
    (issued : List Iss) : Proxy × UseOut :=
  match p.gateway with
  | some (n, st) =>
    if !issued.isEmpty && sendFails st then ({ p with gateway := none }, .ran n [] (.error .senderror)) else
    match pipeline P depth 0 issued st with
    | (rs, .ok, st') => ({ p with gateway := some (n, st') }, .ran n rs .ok)
    | (rs, .error e, _) => ({ p with gateway := none }, .ran n rs (.error e))
  | none =>
    match conns[p.opened]? with
    | none => (p, .refused)
    | some evs =>
      match openGateway ident evs with
      | .error e => ({ gateway := none, opened := p.opened + 1 }, .openfail p.opened e)
      | .ok st =>
        match pipeline P depth 0 issued st with
        | (rs, .ok, st') => ({ gateway := some (p.opened, st'), opened := p.opened + 1 }, .ran p.opened rs .ok)
        | (rs, .error e, _) => ({ gateway := none, opened := p.opened + 1 }, .ran p.opened rs (.error e))

/-- `proxy.list_identity()`: `@maintain_gateway` runs it inside `with proxy:` — the gateway is opened if there is
none, the List Identity exchange runs on it, and any exception discards the gateway -/
def proxyIdentify (ident : Bool) (conns : List (List Ev)) (p : Proxy) : Proxy × UseOut :=
  match p.gateway with
  | some (n, st) =>
    match identify st with
    | .ok st' => ({ p with gateway := some (n, st') }, .identified n none)
    | .error e => ({ p with gateway := none }, .identified n (some e))
  | none =>
    match conns[p.opened]? with
    | none => (p, .refused)
    | some evs =>
      match openGateway ident evs with
      | .error e => ({ gateway := none, opened := p.opened + 1 }, .openfail p.opened e)
      | .ok st =>
        match identify st with
        | .ok st' => ({ gateway := some (p.opened, st'), opened := p.opened + 1 }, .identified p.opened none)
        | .error e => ({ gateway := none, opened := p.opened + 1 }, .identified p.opened (some e))

/-- one use of the proxy: a read/write of some operations, or `list_identity()` -/
inductive Use where
  | read (issued : List Iss)
  | identity
deriving Repr

def proxyStep (P : Frame → Resp) (ident : Bool) (depth : Nat) (conns : List (List Ev)) (p : Proxy) :
    Use → Proxy × UseOut
  | .read issued => proxyUse P ident depth conns p issued
  | .identity => proxyIdentify ident conns p

def proxyRun (P : Frame → Resp) (ident : Bool) (depth : Nat) (conns : List (List Ev)) :
    Proxy → List Use → List UseOut
  | _, [] => []
  | p, u :: us =>
    let (p', o) := proxyStep P ident depth conns p u
    o :: proxyRun P ident depth conns p' us

/-! ### the concrete reply parser used by the driver -/

def stripNul (bs : Bytes) : Bytes := (bs.reverse.dropWhile (· == 0)).reverse

/-- a reply inside an unconnected data item: service, reserved, status, extended status size -/
def replyOf (cip : Bytes) : Option Reply :=
  match cip with
  | svc :: _ :: status :: _ :: _ => some { svc := svc, status := status, raw := cip }
  | _ => none

/-- slices `[o_i, o_{i+1})` of `body` for the offset table of a Multiple Service Packet reply -/
def slices (body : Bytes) : List Nat → List Bytes
  | [] => []
  | [o] => [body.drop o]
  | o :: o' :: os => (body.drop o).take (o' - o) :: slices body (o' :: os)

def offsets : Nat → Bytes → Option (List Nat)
  | 0, _ => some []
  | n + 1, a :: b :: rest => (offsets n rest).map fun os => (a + 256 * b) :: os
  | _ + 1, _ => none

def serviceMultipleRpy : Nat := 0x8a

/-- the replies in the CIP bytes of an unconnected data item -/
def cipReplies (cip : Bytes) : Option (Except Err (List Reply)) :=
  match cip with
  | svc :: _ :: status :: _ :: body =>
    if svc = serviceMultipleRpy then
      if status ≠ 0 then some (.error .msvcStatus) else
      match body with
      | c0 :: c1 :: tbl =>
        match offsets (c0 + 256 * c1) tbl with
        | none => none
        | some os => ((slices body os).mapM replyOf).map .ok
      | _ => none
    else (replyOf cip).map fun r => .ok [r]
  | _ => none

/-- SendRRData payload: interface handle, timeout, item count 2, null address item, unconnected data
item; returns the data item's bytes -/
def sendRRData (pl : Bytes) : Option Bytes :=
  match pl with
  | _ :: _ :: _ :: _ :: _ :: _ :: 2 :: 0 :: 0 :: 0 :: 0 :: 0 :: 0xb2 :: 0 :: n0 :: n1 :: cip =>
    if cip.length = n0 + 256 * n1 then some cip else none
  | _ => none

def cmdSendRRData : Nat := 0x6f

/-- `enip_replies` for the frames the harness produces -/
def parseFrame (f : Frame) : Resp :=
  if f.status ≠ 0 then .error .enipStatus
  else if f.cmd ≠ cmdSendRRData then
    (if f.cmd = cmdRegister ∨ f.payload.isEmpty then .error .unrecognized else .error .unmodelled)
  else if f.payload.isEmpty then .error .unrecognized
  else
    match sendRRData f.payload with
    | none => .error .unmodelled
    | some cip =>
      match cipReplies cip with
      | none => .error .unmodelled
      | some (.error e) => .error e
      | some (.ok rs) => .replies (stripNul f.ctx) rs

end Cpppo.ClientRx
