/-!
# The Connection Manager's table of Forward Open connections (`server/enip/device.py`)

`Connection_Manager.forwards` is ONE dict shared by every session thread of the simulator, keyed by
`(peer host, peer port, O->T connection ID)`.  Mirrors, operation for operation:

* `forward_open`  (device.py:2076): key present -> the compatibility test raises (`ufo.getattr` does not
  exist on a dotdict: *every* re-open of an existing key is answered status 8, table untouched);
  absent -> `self.forwards[unique] = fo,None` (appended: Python dicts keep insertion order);
* `forward_close` (device.py:2146): delete every entry of **this peer (host AND port)** whose
  `connection_serial` equals the request's; always status 0;
* the empty request of a finished session (`UCMM.request` -> `CM.request( {}, addr )`): delete every
  entry of this peer;
* a Connected request (`CM.request( con_data, addr=(host,port,connection ID) )`): `addr in self.forwards`
  decides whether the target Object is the connection's (`connection_path`) or has to be parsed from the
  request itself.

Import-free: linked into the compiled driver.
-/
namespace Cpppo.Forwards

/-- the peer of a session: `(host, port)` as `enip_srv` passes it to `logix.process` -/
structure Peer where
  host : Nat
  port : Nat
  deriving DecidableEq, Repr

structure Key where
  peer : Peer
  cid : Nat            -- O->T connection ID (chosen by the originator for a "Null"-type connection)
  deriving DecidableEq, Repr

/-- the Object a connection leads to (the last segments of `connection_path`) -/
inductive Target where
  | pccc             -- @0xA6/1: takes DF1 requests, reachable only through a connection
  | router           -- @2/1: the (Logix) Message Router
  deriving DecidableEq, Repr

structure Entry where
  serial : Nat         -- `connection_serial`
  target : Target
  deriving DecidableEq, Repr

/-- insertion-ordered, like the dict -/
abbrev Table := List (Key × Entry)

def lookup (t : Table) (k : Key) : Option Entry :=
  match t with
  | [] => none
  | (k', e) :: r => if k' = k then some e else lookup r k

/-- what a Connected request carries -/
inductive Payload where
  | df1              -- a DF1 command (no CIP service / EPATH of its own)
  | cip              -- a CIP request with its own EPATH (Get Attributes All @1/1)
  deriving DecidableEq, Repr

inductive Op where
  | fopen (p : Peer) (cid serial : Nat) (tgt : Target)
  | fclose (p : Peer) (serial : Nat)
  | fin (p : Peer)                                   -- the session's connection ended
  | send (p : Peer) (cid : Nat) (pl : Payload)
  deriving DecidableEq, Repr

def Op.peer : Op → Peer
  | .fopen p .. => p
  | .fclose p _ => p
  | .fin p => p
  | .send p .. => p

inductive Out where
  | opened | refused | closed | ended
  | viaPccc          -- delivered to the PCCC Object through the connection: a DF1 reply
  | viaRouter        -- answered by the Message Router (through the connection, or by the request's own path)
  | failed           -- the request could not be parsed by the Object it was routed to (session ends)
  deriving DecidableEq, Repr

/-- `device.py:2238-2300`: the connection's target if `addr in self.forwards`, else the request's own path
(a DF1 command has none, and whatever the router makes of its bytes is not a request it recognizes) -/
def respond : Option Entry → Payload → Out
  | some ⟨_, .pccc⟩, .df1 => .viaPccc
  | some ⟨_, .pccc⟩, .cip => .failed
  | some ⟨_, .router⟩, .df1 => .failed
  | some ⟨_, .router⟩, .cip => .viaRouter
  | none, .df1 => .failed
  | none, .cip => .viaRouter

def step (t : Table) : Op → Table × Out
  | .fopen p cid serial tgt =>
    match lookup t ⟨p, cid⟩ with
    | some _ => (t, .refused)
    | none => (t ++ [(⟨p, cid⟩, ⟨serial, tgt⟩)], .opened)
  | .fclose p serial => (t.filter (fun kv => !(decide (kv.1.peer = p) && decide (kv.2.serial = serial))), .closed)
  | .fin p => (t.filter (fun kv => !decide (kv.1.peer = p)), .ended)
  | .send p cid pl => (t, respond (lookup t ⟨p, cid⟩) pl)

/-- run an operation sequence: final table and the outputs, in order -/
def run (t : Table) : List Op → Table × List Out
  | [] => (t, [])
  | op :: ops =>
    let (t', o) := step t op
    let (t'', os) := run t' ops
    (t'', o :: os)

/-- what one session sees: the outputs of its own operations, in order -/
def outsOf (p : Peer) (t : Table) : List Op → List Out
  | [] => []
  | op :: ops =>
    let (t', o) := step t op
    if op.peer = p then o :: outsOf p t' ops else outsOf p t' ops

/-- the part of the table that belongs to one peer -/
def restrict (p : Peer) (t : Table) : Table := t.filter (fun kv => decide (kv.1.peer = p))

/-! ### over the wire: `enip_srv_tcp` drops a session whose request raised, and the dropped session's end purges
its connections (`logix.process( addr, data={} )` from the `finally` of the connection thread) -/
def stepWire (t : Table) (op : Op) : Table × Out :=
  let r := step t op
  if r.2 = .failed then ((step r.1 (.fin op.peer)).1, .failed) else r

def runWire (t : Table) : List Op → Table × List Out
  | [] => (t, [])
  | op :: ops =>
    let r := stepWire t op
    let rs := runWire r.1 ops
    (rs.1, r.2 :: rs.2)

def outsOfWire (p : Peer) (t : Table) : List Op → List Out
  | [] => []
  | op :: ops =>
    let r := stepWire t op
    if op.peer = p then r.2 :: outsOfWire p r.1 ops else outsOfWire p r.1 ops

/-- the replies of a list of requests (each a list of operations) executed one after the other -/
def seqReplies (t : Table) : List (List Op) → List (List Out)
  | [] => []
  | w :: ws => (run t w).2 :: seqReplies (run t w).1 ws

/-! ### the seeded defect, for the sensitivity witness: purge by host only -/
def stepHostOnly (t : Table) : Op → Table × Out
  | .fclose p serial => (t.filter (fun kv => !(decide (kv.1.peer.host = p.host) && decide (kv.2.serial = serial))), .closed)
  | .fin p => (t.filter (fun kv => !decide (kv.1.peer.host = p.host)), .ended)
  | op => step t op

def outsOfHostOnly (p : Peer) (t : Table) : List Op → List Out
  | [] => []
  | op :: ops =>
    let (t', o) := stepHostOnly t op
    if op.peer = p then o :: outsOfHostOnly p t' ops else outsOfHostOnly p t' ops

end Cpppo.Forwards
