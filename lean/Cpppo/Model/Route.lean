/-
Model of the route-path handling of the EtherNet/IP simulator (property C15).

Mirrors, function by function:
  server/enip/device.py   port_link, parse_route_path (both stages, trailer handling)        -> `portLink`, `parseRoute`
  server/enip/main.py     main(): --route-path, --simple  => UCMM subclass                     -> `mainConfig`
  server/enip/client.py   client.unconnected_send: route_path/send_path defaults and the
                          decision to use the 0x52 Unconnected Send wrapper                   -> `clientCarried`
  server/enip/ucmm.py     UCMM.request: the route_path acceptance assertion, the local
                          dispatch and the failure status                                     -> `accept`, `serveWith`
  server/enip/main.py     enip_srv_tcp: a non-zero encapsulation status ends the session      -> `sessionWith`

Text is a list of code points (`Nat`); the Python library pieces the code leans on are modelled
next to their use: `str.strip`, `str.split`, `int(str)`, `ipaddress.ip_address` (IPv4 only: texts
with ':' are outside the model), `json.loads` (no backslash escapes; floats are recognised but
carry no value).  No imports: this file is linked into the `cpppo_model` driver.
-/
namespace Cpppo.Route

abbrev Text := List Nat

/-! ## Python text primitives -/

/-- `str.isspace` on code points below 256 (what `str.strip()` and `int()` discard) -/
def isSpace (c : Nat) : Bool :=
  c == 32 || (9 ≤ c && c ≤ 13) || (28 ≤ c && c ≤ 31) || c == 0x85 || c == 0xA0

def isDigit (c : Nat) : Bool := 48 ≤ c && c ≤ 57

/-- what `int()` skips around the digits: C `isspace` for ASCII (the separators 0x1c-0x1f are *not*
skipped, unlike `str.strip()`), plus the non-ASCII spaces, which are first mapped to ' ' -/
def isIntSpace (c : Nat) : Bool :=
  c == 32 || (9 ≤ c && c ≤ 13) || c == 0x85 || c == 0xA0

def lstripBy (p : Nat → Bool) : Text → Text
  | [] => []
  | c :: cs => if p c then lstripBy p cs else c :: cs

def stripBy (p : Nat → Bool) (t : Text) : Text :=
  (lstripBy p (lstripBy p t).reverse).reverse

/-- `str.strip()` -/
def strip (t : Text) : Text := stripBy isSpace t

/-- `str.split(sep)`: always at least one part -/
def splitOn (sep : Nat) : Text → List Text
  | [] => [[]]
  | c :: cs =>
    if c == sep then [] :: splitOn sep cs
    else match splitOn sep cs with
      | p :: ps => (c :: p) :: ps
      | [] => [[c]]

/-- `sep.join(parts)` -/
def joinWith (sep : Nat) : List Text → Text
  | [] => []
  | [p] => p
  | p :: q :: ps => p ++ sep :: joinWith sep (q :: ps)

/-- `str.split(sep, 1)` when the separator occurs: the text before and after its first occurrence -/
def splitFirst (sep : Nat) : Text → Option (Text × Text)
  | [] => none
  | c :: cs =>
    if c == sep then some ([], cs)
    else match splitFirst sep cs with
      | some (a, b) => some (c :: a, b)
      | none => none

/-- state of the `int()` digit scanner: underscores are allowed only between digits -/
inductive DS | start | digit | under
deriving DecidableEq, Repr

def digitsVal : Text → Nat → DS → Option Nat
  | [], acc, .digit => some acc
  | [], _, _ => none
  | c :: cs, acc, st =>
    if isDigit c then digitsVal cs (acc * 10 + (c - 48)) .digit
    else if c == 95 && st == .digit then digitsVal cs acc .under
    else none

/-- Python `int(s)` for a `str` (base 10): surrounding whitespace, one sign, digits with single
interior underscores -/
def pyInt (t : Text) : Option Int :=
  match stripBy isIntSpace t with
  | 43 :: r => (digitsVal r 0 .start).map Int.ofNat
  | 45 :: r => (digitsVal r 0 .start).map fun n => - Int.ofNat n
  | r => (digitsVal r 0 .start).map Int.ofNat

def decVal (t : Text) : Nat := t.foldl (fun acc c => acc * 10 + (c - 48)) 0

/-- `ipaddress.IPv4Address._parse_octet` (Python >= 3.9.5: no leading zeros) -/
def octetOk (o : Text) : Bool :=
  !o.isEmpty && o.all isDigit && o.length ≤ 3 && (o == [48] || o.head? != some 48) && decVal o ≤ 255

/-- `ipaddress.ip_address(s)` accepts `s` as IPv4 (its `str()` is then `s` itself) -/
def ipv4Ok (t : Text) : Bool :=
  let parts := splitOn 46 t
  parts.length == 4 && parts.all octetOk

/-! ## JSON values and `json.loads` -/

inductive JV where
  | null
  | bool (b : Bool)
  | int (n : Int)
  | float                         -- recognised, value not modelled (out of scope inside containers)
  | str (s : Text)
  | list (xs : List JV)
  | dict (kvs : List (Text × JV))

def isWs (c : Nat) : Bool := c == 32 || c == 9 || c == 10 || c == 13

def skipWs : Text → Text
  | [] => []
  | c :: cs => if isWs c then skipWs cs else c :: cs

/-- the leading run of digits and the rest -/
def takeDigits : Text → Text × Text
  | [] => ([], [])
  | c :: cs => if isDigit c then let (d, r) := takeDigits cs; (c :: d, r) else ([], c :: cs)

/-- optional fraction `.\d+` -/
def pFrac (s : Text) : Bool × Text :=
  match s with
  | 46 :: r => match takeDigits r with
    | ([], _) => (false, s)
    | (_, r') => (true, r')
  | _ => (false, s)

/-- optional exponent `[eE][-+]?\d+` -/
def pExp (s : Text) : Bool × Text :=
  match s with
  | c :: r =>
    if c == 101 || c == 69 then
      let r1 := match r with
        | 43 :: r' => r'
        | 45 :: r' => r'
        | _ => r
      match takeDigits r1 with
      | ([], _) => (false, s)
      | (_, r') => (true, r')
    else (false, s)
  | [] => (false, s)

/-- after the integer part `ipart` (sign applied by the caller) -/
def pNumTail (neg : Bool) (ipart : Text) (r : Text) : JV × Text :=
  let (f, r1) := pFrac r
  let (e, r2) := pExp r1
  if f || e then (.float, r2)
  else (.int (if neg then - Int.ofNat (decVal ipart) else Int.ofNat (decVal ipart)), r2)

/-- `(0|[1-9]\d*)(\.\d+)?([eE][-+]?\d+)?` after the optional sign -/
def pUnsigned (neg : Bool) (r : Text) : Option (JV × Text) :=
  match r with
  | [] => none
  | c :: r1 =>
    if c == 48 then some (pNumTail neg [48] r1)
    else if 49 ≤ c && c ≤ 57 then
      let (ds, r2) := takeDigits r
      some (pNumTail neg ds r2)
    else none

/-- `-?(0|[1-9]\d*)(\.\d+)?([eE][-+]?\d+)?` -/
def pNumber (s : Text) : Option (JV × Text) :=
  match s with
  | [] => none
  | c :: r => if c == 45 then pUnsigned true r else pUnsigned false s

/-- the body of a string up to the closing quote (strict: no control characters; backslash escapes
are outside the model and make the parse fail) -/
def pString : Text → Option (Text × Text)
  | [] => none
  | c :: cs =>
    if c == 34 then some ([], cs)
    else if c < 32 || c == 92 then none
    else match pString cs with
      | some (s, r) => some (c :: s, r)
      | none => none

def startsWith (p : Text) (s : Text) : Option Text :=
  match p, s with
  | [], s => some s
  | _ :: _, [] => none
  | a :: p', b :: s' => if a == b then startsWith p' s' else none

/-- literals `null true false NaN Infinity -Infinity` -/
def pLiteral (s : Text) : Option (JV × Text) :=
  match startsWith [110, 117, 108, 108] s with
  | some r => some (.null, r)
  | none =>
  match startsWith [116, 114, 117, 101] s with
  | some r => some (.bool true, r)
  | none =>
  match startsWith [102, 97, 108, 115, 101] s with
  | some r => some (.bool false, r)
  | none =>
  match startsWith [78, 97, 78] s with
  | some r => some (.float, r)
  | none =>
  match startsWith [73, 110, 102, 105, 110, 105, 116, 121] s with
  | some r => some (.float, r)
  | none =>
  match startsWith [45, 73, 110, 102, 105, 110, 105, 116, 121] s with
  | some r => some (.float, r)
  | none => none

/-- a literal or a number (whatever does not start a string, an array or an object) -/
def pScalar (s : Text) : Option (JV × Text) :=
  match pLiteral s with
  | some x => some x
  | none => pNumber s

mutual
  /-- one JSON value after optional whitespace (fuel: one unit per nesting step or element) -/
  def pValue : Nat → Text → Option (JV × Text)
    | 0, _ => none
    | f + 1, s =>
      match skipWs s with
      | [] => none
      | c :: r =>
        if c == 34 then
          match pString r with
          | some (str, r') => some (.str str, r')
          | none => none
        else if c == 91 then
          match skipWs r with
          | [] => none
          | d :: r' => if d == 93 then some (.list [], r') else pElems f r
        else if c == 123 then
          match skipWs r with
          | [] => none
          | d :: r' => if d == 125 then some (.dict [], r') else pMembers f r
        else pScalar (c :: r)
  /-- `value (, value)* ]` -/
  def pElems : Nat → Text → Option (JV × Text)
    | 0, _ => none
    | f + 1, s =>
      match pValue f s with
      | none => none
      | some (v, r) =>
        match skipWs r with
        | [] => none
        | d :: r' =>
          if d == 44 then
            match pElems f r' with
            | some (.list vs, r'') => some (.list (v :: vs), r'')
            | _ => none
          else if d == 93 then some (.list [v], r')
          else none
  /-- `"key" : value (, "key" : value)* }` -/
  def pMembers : Nat → Text → Option (JV × Text)
    | 0, _ => none
    | f + 1, s =>
      match skipWs s with
      | [] => none
      | q :: r =>
        if q == 34 then
          match pString r with
          | none => none
          | some (k, r1) =>
            match skipWs r1 with
            | [] => none
            | col :: r2 =>
              if col == 58 then
                match pValue f r2 with
                | none => none
                | some (v, r3) =>
                  match skipWs r3 with
                  | [] => none
                  | d :: r4 =>
                    if d == 44 then
                      match pMembers f r4 with
                      | some (.dict kvs, r5) => some (.dict ((k, v) :: kvs), r5)
                      | _ => none
                    else if d == 125 then some (.dict [(k, v)], r4)
                    else none
              else none
        else none
end

/-- `json.loads(text)`: `none` = `JSONDecodeError` -/
def jsonLoads (t : Text) : Option JV :=
  match pValue (2 * t.length + 2) t with
  | some (v, r) => if (skipWs r).isEmpty then some v else none
  | none => none

/-! ## Route segments, `port_link` -/

inductive Link where
  | num (n : Int)
  | addr (s : Text)
deriving DecidableEq, Repr

/-- one element of a route path: a port/link pair, or (in a request only) some other EPATH segment -/
inductive Seg where
  | pl (port : Int) (link : Link)
  | other (kind : Nat) (val : Nat)
deriving DecidableEq, Repr

abbrev RoutePath := List Seg

/-- Python truthiness -/
def truthy : JV → Bool
  | .null => false
  | .bool b => b
  | .int n => n != 0
  | .float => true
  | .str s => !s.isEmpty
  | .list xs => !xs.isEmpty
  | .dict kvs => !kvs.isEmpty

/-- `int(x)`; `none` = an exception -/
def toInt : JV → Option Int
  | .int n => some n
  | .bool b => some (if b then 1 else 0)
  | .str s => pyInt s
  | _ => none

/-- `int(link)` or else `str(misc.ip(link))` -/
def toLink (v : JV) : Option Link :=
  match toInt v with
  | some n => some (.num n)
  | none => match v with
    | .str s => if ipv4Ok s then some (.addr s) else none
    | _ => none

/-- the validation half of `port_link`, given the two components -/
def plPair (p l : JV) : Option Seg :=
  match toInt p with
  | none => none
  | some port =>
    if port > 0 then
      match toLink l with
      | some link => some (.pl port link)
      | none => none
    else none

/-- a JSON object keeps the last value of a repeated key -/
def lookupLast (k : Text) : List (Text × JV) → Option JV
  | [] => none
  | (k', v) :: rest => match lookupLast k rest with
    | some v' => some v'
    | none => if k' == k then some v else none

def kPort : Text := [112, 111, 114, 116]
def kLink : Text := [108, 105, 110, 107]

/-- `port_link(pl)`: a "p/l" string, a two-element sequence or a dict with port and link -/
def portLink : JV → Option Seg
  | .str s => match splitFirst 47 s with
    | some (a, b) => plPair (.str (strip a)) (.str (strip b))
    | none => none
  | .dict kvs => match lookupLast kPort kvs, lookupLast kLink kvs with
    | some p, some l => plPair p l
    | _, _ => none
  | .list [p, l] => plPair p l
  | _ => none

/-! ## `parse_route_path` -/

def linkJV : Link → JV
  | .num n => .int n
  | .addr s => .str s

/-- the dict `port_link` returns -/
def segJV : Seg → JV
  | .pl p l => .dict [(kPort, .int p), (kLink, linkJV l)]
  | .other _ _ => .null

/-- second stage: leading elements that `port_link` accepts, then the trailer (a `None` element ends
the segments and is dropped; any other falsy element ends them and stays) -/
def stage2 : List JV → List Seg × List JV
  | [] => ([], [])
  | v :: rest =>
    if !truthy v then
      ([], (match v with | .null => [] | _ => [v]) ++ rest)
    else match portLink v with
      | none => ([], v :: rest)
      | some s => let (ss, tr) := stage2 rest; (s :: ss, tr)

/-- first stage for a "p/l/p/l…" text: pairs of '/'-separated components while `port_link` accepts
them; what is left over is re-joined -/
def pairs : List Text → List Seg × List Text
  | a :: b :: rest => match plPair (.str a) (.str b) with
    | some s => let (ss, tr) := pairs rest; (s :: ss, tr)
    | none => ([], a :: b :: rest)
  | rest => ([], rest)

inductive Outcome where
  | reject
  | ok (segs : List Seg) (trailer : List JV)

def finish (xs : List JV) : Outcome :=
  if xs.isEmpty then .ok [] [] else
    let (ss, tr) := stage2 xs
    .ok ss tr

/-- the `except` branch: the text is not JSON (or was a JSON string, to which `route_path` has been
rebound by then) -/
def slash (s : Text) : Outcome :=
  match s with
  | [] => .reject                                     -- `'' in '[{"'`
  | c :: _ =>
    if c == 91 || c == 123 || c == 34 then .reject   -- JSON was intended, but was invalid
    else
      let (segs, left) := pairs (splitOn 47 s)
      let trailer := joinWith 47 left
      finish (segs.map segJV ++ (if trailer.isEmpty then [] else [.str trailer]))

/-- `parse_route_path(text, trailer_parser=<recorder>)`: segments and the elements handed to the
trailer parser -/
def parseRoute (t : Text) : Outcome :=
  match jsonLoads t with
  | some (.list xs) => finish xs
  | some (.dict kvs) => if kvs.isEmpty then .reject else finish [.dict kvs]
  | some (.str s) => slash s
  | some _ => .reject                                 -- a JSON scalar is not subscriptable
  | none => slash t

/-- `parse_route_path(text)`: without a trailer parser any trailer is refused -/
def parseRoutePath (t : Text) : Option RoutePath :=
  match parseRoute t with
  | .ok ss [] => some ss
  | _ => none

/-- `parse_route_path(value)` for a value that is not a `str` (a list handed to the client API) -/
def parseRouteList (xs : List JV) : Option RoutePath :=
  match finish xs with
  | .ok ss [] => some ss
  | _ => none

/-! ## Renderers (what a user writes to spell a route path) -/

def natDigits : Nat → Nat → Text
  | 0, _ => []
  | f + 1, n => if n < 10 then [48 + n] else natDigits f (n / 10) ++ [48 + n % 10]

def renderNat (n : Nat) : Text := natDigits (n + 1) n

def renderInt : Int → Text
  | .ofNat n => renderNat n
  | .negSucc n => 45 :: renderNat (n + 1)

def renderLink : Link → Text
  | .num n => renderInt n
  | .addr s => s

def segParts : Seg → List Text
  | .pl p l => [renderInt p, renderLink l]
  | .other _ _ => []

/-- "p/l/p/l…" -/
def renderSlash (segs : List Seg) : Text := joinWith 47 (segs.flatMap segParts)

/-- `"<link>"` or `<link>` as a JSON value -/
def renderLinkJson : Link → Text
  | .num n => renderInt n
  | .addr s => 34 :: s ++ [34]

/-- `{"port":p,"link":l}` -/
def renderSegDict : Seg → Text
  | .pl p l => [123, 34] ++ kPort ++ [34, 58] ++ renderInt p ++ [44, 34] ++ kLink ++ [34, 58] ++ renderLinkJson l ++ [125]
  | .other _ _ => []

/-- `"p/l"` as a JSON string -/
def renderSegStr : Seg → Text
  | .pl p l => 34 :: renderInt p ++ 47 :: renderLink l ++ [34]
  | .other _ _ => []

/-- `[e1,e2,…]` -/
def renderJsonList (elems : List Text) : Text := 91 :: joinWith 44 elems ++ [93]

/-! ## Configured personality: `main()` and the acceptance test of `UCMM.request` -/

/-- `UCMM.route_path`: `None`, something falsy that is not a list (`False`, `0`), or a list -/
inductive Config where
  | any
  | falsy
  | path (p : RoutePath)
deriving DecidableEq, Repr

def Config.truthy : Config → Bool
  | .path (_ :: _) => true
  | _ => false

/-- `main()`: `--route-path TEXT` and `--simple`; `none` = start-up fails with an exception -/
def mainConfig (routeArg : Option Text) (simple : Bool) : Option Config :=
  match routeArg, simple with
  | none, false => some .any
  | none, true => some .falsy
  | some t, _ =>
    if t.isEmpty then some .falsy
    else match parseRoutePath t with
      | none => none
      | some p => if p.isEmpty || p.length == 1 then some (.path p) else none

/-- `UCMM.__init__` on a plain `UCMM` (no `--route-path`, no subclass attribute): the instance's route path
comes from *its own* look at the configuration (`[UCMM] Route Path`); `none` = `parse_route_path` raises.
What an earlier UCMM instance of the same process was configured with plays no role. -/
def fileConfig (routePathEntry : Option Text) : Option Config :=
  match routePathEntry with
  | none => some .any
  | some t => match parseRoutePath t with
    | some p => some (.path p)
    | none => none

/-- `route_path == self.route_path` -/
def eqCfg (rp : Option RoutePath) : Config → Bool
  | .path p => rp == some p
  | _ => false

/-- the three disjuncts of the assertion, in the code's order -/
def accept (cfg : Config) (rp : Option RoutePath) : Bool :=
  match cfg with
  | .any => true
  | c =>
    (match rp with | none => true | some p => p.isEmpty)          -- not route_path
    || (!c.truthy && rp.isNone)                                    -- not self.route_path and route_path is None
    || eqCfg rp c                                                  -- route_path == self.route_path

/-! ## What a client request carries (`client.unconnected_send`) -/

inductive RouteArg where
  | dflt                    -- route_path=None: the class default '1/0'
  | dfltAs (t : Text)       -- route_path=None on a connector whose `route_path_default` was set to `t`
                            -- (class or instance attribute; '' / False / 0 = no route path)
  | falsy                   -- False / 0 / [] / ''
  | text (t : Text)
  | list (xs : List JV)

inductive SendArg where
  | dflt                    -- send_path=None: '@6/1'
  | empty                   -- send_path=''
  | other                   -- a path that is not the Connection Manager's: '@2/1', '@1/1', '@6/2', …

/-- the class default `route_path_default` -/
def routeDefault : Text := [49, 47, 48]

/-- `some none` = no Unconnected Send wrapper (absent route path), `some (some p)` = wrapper carrying
`p` (possibly empty), `none` = the client refuses to build the request -/
def clientCarried (r : RouteArg) (s : SendArg) : Option (Option RoutePath) :=
  let parsed : Option RoutePath :=
    match r with
    | .dflt => parseRoutePath routeDefault
    | .dfltAs t => if t.isEmpty then some [] else parseRoutePath t    -- `self.route_path_default`, not the module constant
    | .falsy => some []
    | .text t => if t.isEmpty then some [] else parseRoutePath t
    | .list xs => if xs.isEmpty then some [] else parseRouteList xs
  match parsed with
  | none => none
  | some p =>
    match s with
    | .empty => if p.isEmpty then some none else none      -- "Must supply a send_path … if route_path supplied"
    | .dflt => some (some p)
    | .other => some (some p)

/-- the Unconnected Send wrapper (if any) designates an existing Connection Manager; a request without
the wrapper is handed to the default one (class 6, instance 1) -/
def SendArg.toCM : SendArg → Bool
  | .other => false
  | _ => true

/-! ## One request through `UCMM.request`, and a session through `enip_srv_tcp` -/

structure Reply (π : Type) where
  proceed : Bool
  status : Nat
  payload : Option π

/-- `exec st req = none` stands for an exception while the addressed object handles the request -/
def serveWith {σ ρ π : Type} (exec : σ → ρ → Option (σ × π)) (cfg : Config) (st : σ)
    (rp : Option RoutePath) (req : ρ) : σ × Reply π :=
  if accept cfg rp then
    match exec st req with
    | some (st', p) => (st', ⟨true, 0, some p⟩)
    | none => (st, ⟨true, 8, none⟩)
  else (st, ⟨true, 8, none⟩)

/-- frames of one TCP session, in order: a reply with non-zero status is sent and ends the session -/
def sessionWith {σ ρ π : Type} (exec : σ → ρ → Option (σ × π)) (cfg : Config) :
    σ → List (Option RoutePath × ρ) → σ × List (Reply π)
  | st, [] => (st, [])
  | st, (rp, req) :: rest =>
    let (st', r) := serveWith exec cfg st rp req
    if r.status == 0 then
      let (st'', rs) := sessionWith exec cfg st' rest
      (st'', r :: rs)
    else (st', [r])

/-! ### the routing table (`[UCMM] Route`, `UCMM.route`): looked at *before* the route-path test -/

/-- `"{port}/{link}".format( **segment )`: the key under which a hop is looked up (a number and an
address spelling the same digits give the same key) -/
def routeKey : Seg → Option Text
  | .pl p l => some (renderInt p ++ 47 :: renderLink l)
  | .other _ _ => none

/-- `find_route()`: the table key of the request's first hop when the table has it (`portlink and
target`); `none` = a local request (no table, no route path, not a port segment, or not in the table) -/
def findRoute (routes : List Text) (rp : Option RoutePath) : Option Text :=
  match rp with
  | some (s :: _) =>
    match routeKey s with
    | some k => if routes.contains k then some k else none
    | none => none
  | _ => none

/-- One request through `UCMM.request` of a device that also has a routing table.  A first hop found
in the table is forwarded to the remote device (`forward`, abstract: remote forwarding is outside
the property); everything else is a local request and goes through the route-path test. -/
def serveRouted {σ ρ π : Type} (exec : σ → ρ → Option (σ × π))
    (forward : σ → Text → Option RoutePath → ρ → σ × Reply π) (routes : List Text) (cfg : Config) (st : σ)
    (rp : Option RoutePath) (req : ρ) : σ × Reply π :=
  match findRoute routes rp with
  | some k => forward st k rp req
  | none => serveWith exec cfg st rp req

def sessionRouted {σ ρ π : Type} (exec : σ → ρ → Option (σ × π))
    (forward : σ → Text → Option RoutePath → ρ → σ × Reply π) (routes : List Text) (cfg : Config) :
    σ → List (Option RoutePath × ρ) → σ × List (Reply π)
  | st, [] => (st, [])
  | st, (rp, req) :: rest =>
    let (st', r) := serveRouted exec forward routes cfg st rp req
    if r.status == 0 then
      let (st'', rs) := sessionRouted exec forward routes cfg st' rest
      (st'', r :: rs)
    else (st', [r])

/-! ## A small concrete device (tags are INT arrays) for the differential runs -/

abbrev Tags := List (List Nat)

inductive Op where
  | read (t i n : Nat) (frag : Bool := false)
  | write (t i : Nat) (vs : List Nat)
  | gas (attr : Nat)                      -- Get Attribute Single @2/1/attr
  | sas (attr : Nat) (vs : List Nat)      -- Set Attribute Single @2/1/attr (whole attribute)
  | gaa                                   -- Get Attributes All @1/1 (no tag behind it)
  | fwdOpen                               -- Forward Open (client.implicit): a connection is set up, no tag touched
  | unknown (frag : Bool := false)        -- Read Tag [Fragmented] of a tag that does not exist

inductive Req where
  | single (op : Op)
  | multiple (ops : List Op)

structure Access where
  tag : Nat
  set : Bool
  lo : Nat
  hi : Nat
deriving DecidableEq, Repr

structure OpResult where
  status : Nat
  data : List Nat
  star : Bool := false                    -- data not compared (identity object)
deriving DecidableEq, Repr

def setSlice (l : List Nat) (i : Nat) (vs : List Nat) : List Nat :=
  l.take i ++ vs ++ l.drop (i + vs.length)

def leBytes (vs : List Nat) : List Nat := vs.flatMap fun v => [v % 256, v / 256 % 256]

structure Dev where
  tags : Tags
  log : List Access
deriving DecidableEq, Repr

def execOp (d : Dev) : Op → Option (Dev × OpResult)
  | .read t i n _ =>
    match d.tags[t]? with
    | none => none
    | some l =>
      if 1 ≤ n && i + n ≤ l.length then
        some ({ d with log := d.log ++ [⟨t, false, i, i + n⟩] }, ⟨0, (l.drop i).take n, false⟩)
      else some (d, ⟨255, [], false⟩)
  | .write t i vs =>
    match d.tags[t]? with
    | none => none
    | some l =>
      if 1 ≤ vs.length && i + vs.length ≤ l.length then
        some ({ tags := d.tags.set t (setSlice l i vs), log := d.log ++ [⟨t, true, i, i + vs.length⟩] },
              ⟨0, [], false⟩)
      else some (d, ⟨255, [], false⟩)
  | .gas a =>
    if a = 0 then some (d, ⟨8, [], false⟩) else
    match d.tags[a - 1]? with
    | none => some (d, ⟨8, [], false⟩)
    | some l => some ({ d with log := d.log ++ [⟨a - 1, false, 0, l.length⟩] }, ⟨0, leBytes l, false⟩)
  | .sas a vs =>
    if a = 0 then none else
    match d.tags[a - 1]? with
    | none => none
    | some l =>
      if vs.length = l.length then
        some ({ tags := d.tags.set (a - 1) vs, log := d.log ++ [⟨a - 1, true, 0, l.length⟩] }, ⟨0, [], false⟩)
      else none
  | .gaa => some (d, ⟨0, [], true⟩)
  | .fwdOpen => some (d, ⟨0, [], true⟩)
  | .unknown _ => some (d, ⟨5, [], false⟩)   -- answered by the Message Router: path destination unknown

def execOps (d : Dev) : List Op → Option (Dev × List OpResult)
  | [] => some (d, [])
  | op :: ops =>
    match execOp d op with
    | none => none
    | some (d', r) =>
      match execOps d' ops with
      | none => none
      | some (d'', rs) => some (d'', r :: rs)

def execReq (d : Dev) : Req → Option (Dev × List OpResult)
  | .single op => execOps d [op]
  | .multiple ops => execOps d ops

/-- A request as the server's parser sees it: `bare` = no Unconnected Send wrapper.  A bare Read Tag
Fragmented starts with service code 0x52, which the parser takes for an Unconnected Send: the garbled
wrapper does not address a Connection Manager (its "send path" is the tag's own path, or does not
resolve at all), so `UCMM.request` raises before anything is executed (no tag access), whatever the
personality.  `exec … = none` thus also stands for the UCMM's own refusal of the target. -/
def execFrame (d : Dev) : Bool × Bool × Req → Option (Dev × List OpResult)
  | (_, false, _) => none        -- `assert isinstance( CM, Connection_Manager )`: not executed
  | (true, true, .single (.read _ _ _ true)) => none
  | (true, true, .single (.unknown true)) => none
  | (_, true, req) => execReq d req

/-- in the differential runs every table entry leads to a closed TCP port: the forwarding attempt
fails with the status set beforehand (0x65) and nothing happens locally -/
def forwardDead (d : Dev) (_ : Text) (_ : Option RoutePath) (_ : Bool × Bool × Req) :
    Dev × Reply (List OpResult) :=
  (d, ⟨true, 0x65, none⟩)

/-- `toCM = false`: the wrapper's send path designates something else than a Connection Manager;
`UCMM.request` then raises after the route-path test and before anything is executed -/
def serve (cfg : Config) (routes : List Text) (d : Dev) (rp : Option RoutePath) (toCM : Bool) (req : Req) :=
  serveRouted execFrame forwardDead routes cfg d rp (rp.isNone, toCM, req)

def session (cfg : Config) (routes : List Text) (d : Dev) (frames : List (Option RoutePath × Bool × Req)) :=
  sessionRouted execFrame forwardDead routes cfg d (frames.map fun (rp, toCM, req) => (rp, (rp.isNone, toCM, req)))

end Cpppo.Route
