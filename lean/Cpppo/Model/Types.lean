import Cpppo.Model.Bytes
import Cpppo.Generated.Tables
/-
CIP element types and values (model of the `TYPE` classes of server/enip/parser.py and of what an
`Attribute` stores).  Codes, sizes and struct formats come from `Cpppo.Generated` (extracted from the
live classes on every run); `Cpppo/Tie.lean` proves the structural facts the proofs rely on.

A stored value is kept in the *canonical form of the tag's type* (`conv`): what `struct.pack` with the
tag's format would emit is a function of that form only, which is all any service can observe.
-/
namespace Cpppo

inductive CipType
  | bool | sint | int | dint | lint | usint | uint | udint | ulint | real | lreal | sstring | string
deriving DecidableEq, Repr, Inhabited

namespace CipType

def all : List CipType :=
  [bool, sint, int, dint, lint, usint, uint, udint, ulint, real, lreal, sstring, string]

def code : CipType → Nat
  | bool => Generated.tt_BOOL_code | sint => Generated.tt_SINT_code | int => Generated.tt_INT_code
  | dint => Generated.tt_DINT_code | lint => Generated.tt_LINT_code | usint => Generated.tt_USINT_code
  | uint => Generated.tt_UINT_code | udint => Generated.tt_UDINT_code | ulint => Generated.tt_ULINT_code
  | real => Generated.tt_REAL_code | lreal => Generated.tt_LREAL_code
  | sstring => Generated.tt_SSTRING_code | string => Generated.tt_STRING_code

/-- `struct_calcsize` (80 for the string types: the code's "average size used for estimations") -/
def size : CipType → Nat
  | bool => Generated.tt_BOOL_size | sint => Generated.tt_SINT_size | int => Generated.tt_INT_size
  | dint => Generated.tt_DINT_size | lint => Generated.tt_LINT_size | usint => Generated.tt_USINT_size
  | uint => Generated.tt_UINT_size | udint => Generated.tt_UDINT_size | ulint => Generated.tt_ULINT_size
  | real => Generated.tt_REAL_size | lreal => Generated.tt_LREAL_size
  | sstring => Generated.tt_SSTRING_size | string => Generated.tt_STRING_size

def ofCode (c : Nat) : Option CipType := all.find? (fun t => t.code == c)

def isInt : CipType → Bool
  | sint | int | dint | lint | usint | uint | udint | ulint => true
  | _ => false

def signed : CipType → Bool
  | sint | int | dint | lint => true
  | _ => false

def isString : CipType → Bool
  | sstring | string => true
  | _ => false

/-- fixed-size element types (everything but the strings) -/
def fixed (t : CipType) : Bool := !t.isString

end CipType

/-- A value as found in a parsed request or stored in a tag. -/
inductive Val
  | int (i : Int)
  | bool (b : Bool)
  | f32 (bits : Nat)        -- IEEE-754 binary32 bit pattern
  | f64 (bits : Nat)        -- IEEE-754 binary64 bit pattern
  | str (bytes : Bytes)     -- ISO-8859-1 bytes of a string
deriving DecidableEq, Repr, Inhabited

namespace Float'

/-- round-to-nearest-even conversion of a natural number to an IEEE-754 pattern with `p` significand
bits (incl. the hidden one) and `ebits` exponent bits; `none` = overflow (Python: OverflowError). -/
def ofNat (p ebits : Nat) (n : Nat) : Option Nat :=
  if n = 0 then some 0 else
  let e := Nat.log2 n
  let (mant, e) :=
    if e < p then (n * 2 ^ (p - 1 - e), e)
    else
      let shift := e - (p - 1)
      let q := n / 2 ^ shift
      let r := n % 2 ^ shift
      let half := 2 ^ (shift - 1)
      let q := if r > half ∨ (r = half ∧ q % 2 = 1) then q + 1 else q
      if q = 2 ^ p then (2 ^ (p - 1), e + 1) else (q, e)
  let bias := 2 ^ (ebits - 1) - 1
  let biased := e + bias
  if biased ≥ 2 ^ ebits - 1 then none
  else some (biased * 2 ^ (p - 1) + (mant - 2 ^ (p - 1)))

def ofInt (p ebits : Nat) (i : Int) : Option Nat :=
  if 0 ≤ i then ofNat p ebits i.toNat
  else (ofNat p ebits (-i).toNat).map (· + 2 ^ (p - 1 + ebits))

def f32OfInt := ofInt 24 8
def f64OfInt := ofInt 53 11

/-- `struct.unpack('<f')` goes through a C float → double conversion, which quietens a signalling NaN
(sets the top mantissa bit); every binary32 value that enters through a parser is therefore quiet. -/
def quiet32 (b : Nat) : Nat :=
  let e := (b / 2 ^ 23) % 256
  let m := b % 2 ^ 23
  if e = 255 ∧ m ≠ 0 ∧ m < 2 ^ 22 then b + 2 ^ 22 else b

/-- exact widening binary32 → binary64 (NaN payloads are shifted; the correspondence avoids NaN) -/
def f64OfF32 (b : Nat) : Nat :=
  let s := b / 2 ^ 31
  let e := (b / 2 ^ 23) % 256
  let m := b % 2 ^ 23
  let body :=
    if e = 255 then 2047 * 2 ^ 52 + m * 2 ^ 29
    else if e = 0 then
      if m = 0 then 0
      else
        let k := Nat.log2 m
        (k + 1023 - 149) * 2 ^ 52 + (m - 2 ^ k) * 2 ^ (52 - k)
    else (e + 1023 - 127) * 2 ^ 52 + m * 2 ^ 29
  s * 2 ^ 63 + body

end Float'

namespace Val

/-- integer tag types: an integer must be in the format's range, a BOOL becomes 0/1 -/
def convInt (t : CipType) (v : Val) : Option Val :=
  match v with
  | .int i => (Bytes.packInt t.signed t.size i).map fun _ => .int i
  | .bool b => some (.int (if b then 1 else 0))
  | _ => none

/-- Convert a request value to the canonical stored form of a tag of type `t`;
`none` = `struct.pack` with the tag's format would raise (not representable). -/
def conv (t : CipType) (v : Val) : Option Val :=
  match t with
  | .bool =>
    match v with
    | .bool b => some (.bool b)
    | .int i => if 0 ≤ i ∧ i < 256 then some (.bool (i != 0)) else none
    | _ => none
  | .real =>
    match v with
    | .int i => (Float'.f32OfInt i).map .f32
    | .bool b => (Float'.f32OfInt (if b then 1 else 0)).map .f32
    | .f32 b => some (.f32 b)
    | _ => none
  | .lreal =>
    match v with
    | .int i => (Float'.f64OfInt i).map .f64
    | .bool b => (Float'.f64OfInt (if b then 1 else 0)).map .f64
    | .f32 b => some (.f64 (Float'.f64OfF32 b))
    | .f64 b => some (.f64 b)
    | _ => none
  | .sstring =>
    match v with
    | .str s => if s.length < 256 then some (.str s) else none
    | _ => none
  | .string =>
    match v with
    | .str s => if s.length < 65536 then some (.str s) else none
    | _ => none
  | t => convInt t v   -- the eight integer types

/-- canonical-form predicate: `v` is a possible stored value of a tag of type `t` -/
def canon (t : CipType) (v : Val) : Bool := conv t v == some v

/-- the bytes `Attribute.produce` emits for one stored element -/
def encode (t : CipType) (v : Val) : Option Bytes :=
  match t, v with
  | .bool, .bool b => some [if b then 255 else 0]
  | .real, .f32 b => some (Bytes.le 4 b)
  | .lreal, .f64 b => some (Bytes.le 8 b)
  | .sstring, .str s => if s.length < 256 then some (s.length :: s) else none
  | .string, .str s =>
    if s.length < 65536 then some (Bytes.le 2 s.length ++ s ++ (if s.length % 2 = 1 then [0] else [])) else none
  | t, .int i => if t.isInt then Bytes.packInt t.signed t.size i else none
  | _, _ => none

/-- initial value of a fresh tag (main.py: 0, 0.0 or '') -/
def zero : CipType → Val
  | .bool => .bool false
  | .real => .f32 0
  | .lreal => .f64 0
  | .sstring | .string => .str []
  | _ => .int 0

end Val

/-- split `k`-byte groups -/
def chunks (k : Nat) : Nat → Bytes → Option (List Bytes)
  | 0, bs => if bs.isEmpty then some [] else none
  | fuel + 1, bs =>
    if bs.isEmpty then some []
    else if bs.length < k ∨ k = 0 then none
    else (chunks k fuel (bs.drop k)).map (bs.take k :: ·)

/-- decode one string element: (value, rest) -/
def decodeStr (t : CipType) (bs : Bytes) : Option (Bytes × Bytes) :=
  match t with
  | .sstring =>
    match bs with
    | [] => none
    | n :: rest => if rest.length < n then none else some (rest.take n, rest.drop n)
  | .string =>
    match bs with
    | a :: b :: rest =>
      let n := a + 256 * b
      let tot := n + n % 2
      if rest.length < tot then none else some (rest.take n, rest.drop tot)
    | _ => none
  | _ => none

def decodeStrs (t : CipType) : Nat → Bytes → Option (List Val)
  | 0, bs => if bs.isEmpty then some [] else none
  | fuel + 1, bs =>
    if bs.isEmpty then some []
    else match decodeStr t bs with
      | none => none
      | some (s, rest) => (decodeStrs t fuel rest).map (.str s :: ·)

/-- `typed_data` parser: the request's data bytes as values of the *request* type, until exhaustion;
`none` = the parser fails (incomplete element). -/
def decodeVals (t : CipType) (bs : Bytes) : Option (List Val) :=
  match t with
  | .sstring | .string => decodeStrs t bs.length bs
  | .bool => some (bs.map fun b => .bool (b != 0))
  | .real => (chunks 4 bs.length bs).map (·.map fun c => .f32 (Float'.quiet32 (Bytes.leNat c)))
  | .lreal => (chunks 8 bs.length bs).map (·.map fun c => .f64 (Bytes.leNat c))
  | t => (chunks t.size bs.length bs).map (·.map fun c => .int (Bytes.unpackInt t.signed t.size c))

end Cpppo
