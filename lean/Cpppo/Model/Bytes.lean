/-
Byte-level helpers shared by the wire models (no imports).
Bytes are `List Nat` with every element < 256 (an invariant, not a subtype).
-/
namespace Cpppo

abbrev Bytes := List Nat

namespace Bytes

/-- `k` little-endian bytes of `n` (the low `8k` bits). -/
def le : Nat → Nat → Bytes
  | 0, _ => []
  | k + 1, n => (n % 256) :: le k (n / 256)

/-- value of little-endian bytes -/
def leNat : Bytes → Nat
  | [] => 0
  | b :: bs => b + 256 * leNat bs

/-- big-endian -/
def be (k n : Nat) : Bytes := (le k n).reverse
def beNat (bs : Bytes) : Nat := leNat bs.reverse

/-- two's-complement value of an unsigned `8k`-bit number -/
def toSigned (k : Nat) (n : Nat) : Int :=
  if n < 2 ^ (8 * k - 1) then (n : Int) else (n : Int) - (2 ^ (8 * k) : Nat)

/-- unsigned representative of a signed value in range -/
def ofSigned (k : Nat) (i : Int) : Nat :=
  if 0 ≤ i then i.toNat else (i + (2 ^ (8 * k) : Nat)).toNat

/-- `struct.pack` of an integer: `none` outside the format's range (struct.error) -/
def packInt (signed : Bool) (k : Nat) (i : Int) : Option Bytes :=
  if signed then
    if -(2 ^ (8 * k - 1) : Nat) ≤ i ∧ i < (2 ^ (8 * k - 1) : Nat) then some (le k (ofSigned k i)) else none
  else
    if 0 ≤ i ∧ i < (2 ^ (8 * k) : Nat) then some (le k i.toNat) else none

def unpackInt (signed : Bool) (k : Nat) (bs : Bytes) : Int :=
  if signed then toSigned k (leNat bs) else (leNat bs : Int)

/-- all bytes in range -/
def wf (bs : Bytes) : Bool := bs.all (· < 256)

end Bytes
end Cpppo
