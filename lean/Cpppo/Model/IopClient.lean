import Cpppo.Model.Logix
/-
A generic Logix client on top of the device model: what any client library (pylogix is the one observed)
does with the tag services to implement `Read(tag, count)`, `Write(tag, values)`, `Read([tags])`,
`Write([(tag, value)])`:

  * probe the base tag with a one-element Read Tag (learn its CIP type; an error status ends the call);
  * Read Tag, then Read Tag Fragmented at the byte offset received so far while the status is 0x06;
  * Write Tag when the values fit one request, else Write Tag Fragmented chunk by chunk (byte offsets);
  * several single-element reads / writes bundled in a Multiple Service Packet.

The results are the API-level observables: general status, and for reads the CIP type and the values.
-/
namespace Cpppo.IopClient
open Cpppo Cpppo.Logix

inductive Op
  | read (p : Path) (count : Nat)
  | write (p : Path) (ty count : Nat) (chunks : List Bytes)     -- values encoded in type `ty`, one chunk per request
  | multiRead (ps : List Path)
  | multiWrite (ws : List (Path × Nat × Bytes))                  -- one value each
deriving Repr, DecidableEq

structure Res where
  status : Nat
  ty : Option CipType := none
  vals : List Val := []
deriving Repr, DecidableEq

/-- the tag's path without the element segment (what the probe reads) -/
def basePath (p : Path) : Path := p.filter fun s => match s with | .elem _ => false | _ => true

def isOk (st : Nat) : Bool := st == 0 || st == 6

/-- byte length of the elements received (the next fragment's offset) -/
def dataLen (t : CipType) (vs : List Val) : Nat :=
  (vs.map fun v => match Val.encode t v with | some b => b.length | none => 0).sum

/-- continue a read with Read Tag Fragmented while the status is 0x06 (`fuel` bounds the loop: every
fragment carries at least one element) -/
def readMore (d : Dev) (p : Path) (count : Nat) (t : CipType) : Nat → List Val → Nat → Res
  | 0, acc, st => { status := st, ty := some t, vals := acc }
  | fuel + 1, acc, st =>
    if st = 6 then
      let r := (execSimple d (.readFrag p count (dataLen t acc))).2
      match r.ty with
      | some _ => readMore d p count t fuel (acc ++ r.vals) r.status
      | none => { status := r.status, ty := some t, vals := acc }
    else { status := st, ty := some t, vals := acc }

def read (d : Dev) (p : Path) (count : Nat) : Res :=
  let probe := (execSimple d (.readTag (basePath p) 1)).2
  if !isOk probe.status then { status := probe.status } else
  let r := (execSimple d (.readTag p count)).2
  match r.ty with
  | some t =>
    if isOk r.status then
      let res := readMore d p count t count r.vals r.status
      -- values are delivered only when the transfer completed
      if res.status = 0 then res else { status := res.status }
    else { status := r.status }
  | none => { status := r.status }

/-- the chunks one after the other, at the byte offset of what was sent before; the last status counts -/
def writeChunks (d : Dev) (p : Path) (ty count : Nat) : List Bytes → Nat → Nat → Dev × Nat
  | [], _, st => (d, st)
  | c :: rest, off, _ =>
    let (d', r) := execSimple d (.writeFrag p ty count off c)
    writeChunks d' p ty count rest (off + c.length) r.status

def write (d : Dev) (p : Path) (ty count : Nat) (chunks : List Bytes) : Dev × Res :=
  let probe := (execSimple d (.readTag (basePath p) 1)).2
  if !isOk probe.status then (d, { status := probe.status }) else
  match chunks with
  | [c] => let (d', r) := execSimple d (.writeTag p ty count c); (d', { status := r.status })
  | cs => let (d', st) := writeChunks d p ty count cs 0 0; (d', { status := st })

def resOf (r : Reply) : Res :=
  if isOk r.status then { status := r.status, ty := r.ty, vals := r.vals } else { status := r.status }

def run (d : Dev) : Op → Dev × List Res
  | .read p n => (d, [read d p n])
  | .write p ty n cs => let (d', r) := write d p ty n cs; (d', [r])
  | .multiRead ps =>
    -- one Multiple Service Packet of single-element Read Tag requests
    let (d', rs) := execMembers d router (ps.map fun p => Simple.readTag p 1)
    (d', rs.map resOf)
  | .multiWrite ws =>
    let (d', rs) := execMembers d router (ws.map fun w => Simple.writeTag w.1 w.2.1 1 w.2.2)
    (d', rs.map fun r => { status := r.status })

end Cpppo.IopClient
