import Cpppo.Model.PyText
/-
Model of the bookkeeping in `client.connector` (property C12):

  `issue`        operations -> packets.  Without `multiple` every operation is sent at once in its
                 own request with its own index.  With `multiple` operations are collected while the
                 running request/reply size estimates stay below the limit and the route_path and
                 send_path equal those of the first collected operation; otherwise the collected
                 ones are sent as one Multiple Service Packet (one sender_context = one index) and
                 the operation that did not fit starts the next collection - its own estimate is NOT
                 added to the fresh running totals (a quirk of the code, mirrored).
  `collect`      replies of the responses received, flattened, each with the response's context.
  `harvest`      lazy zip of issued items and collected replies, asserting equal contexts.
  `synchronous`  harvest driven directly by the issuer.
  `pipeline`     the `while issuer or inflight` loop: issue one item, harvest one when
                 `curr - last > depth` or the issuer is exhausted, `break` when the harvester
                 stops, finally `assert complete == requests`.

The device is abstracted as a state machine `step : σ → α → σ × ρ` answering every request of every
packet in order (properties C06/C07); the replies of a packet become available when it is sent.
`issue` is a Python generator: a packet is sent when its first item is pulled (`Event.send` in front
of the packet's items).  The sender context is `str(index)` cut to 8 bytes on the wire
(`format_context`), so the context comparison fails from index 10^8 on (`ctxEq`).
-/
namespace Cpppo.Client
open Cpppo.Py

structure Packet (α : Type) where
  index : Nat
  bundled : Bool                 -- sent as a Multiple Service Packet
  members : List α
deriving Repr, DecidableEq

/-! ### issue -/

/-- `multiple` falsy: one request per operation, sent at once -/
def issueSingle {α : Type} : Nat → List α → List (Packet α)
  | _, [] => []
  | idx, op :: ops => ⟨idx, false, [op]⟩ :: issueSingle (idx + 1) ops

/-- the `(not requests or max(...) < multiple) and paths equal` test -/
def fits {α κ : Type} [DecidableEq κ] (est : α → Nat × Nat) (key : α → κ) (multiple : Nat)
    (acc : List α) (rs ps : Nat) (op : α) : Bool :=
  (acc.isEmpty || max (rs + (est op).1) (ps + (est op).2) < multiple)
  && (match acc.head? with
      | none => true
      | some f => decide (key f = key op))

/-- `multiple` truthy.  `acc` = `requests` (in order), `rs`/`ps` = `reqsiz`/`rpysiz`. -/
def issueMulti {α κ : Type} [DecidableEq κ] (est : α → Nat × Nat) (key : α → κ) (multiple rmin pmin : Nat) :
    Nat → List α → Nat → Nat → List α → List (Packet α)
  | idx, acc, _, _, [] => if acc.isEmpty then [] else [⟨idx, true, acc⟩]
  | idx, acc, rs, ps, op :: ops =>
    if fits est key multiple acc rs ps op then
      issueMulti est key multiple rmin pmin idx (acc ++ [op]) (rs + (est op).1) (ps + (est op).2) ops
    else
      ⟨idx, true, acc⟩ :: issueMulti est key multiple rmin pmin (idx + 1) [op] rmin pmin ops

/-- `connector.issue( operations, index, multiple )` -/
def issue {α κ : Type} [DecidableEq κ] (est : α → Nat × Nat) (key : α → κ) (multiple rmin pmin : Nat)
    (index : Nat) (ops : List α) : List (Packet α) :=
  if multiple = 0 then issueSingle index ops
  else issueMulti est key multiple rmin pmin index [] rmin pmin ops

/-! ### the issuer as a generator, the device, the wire -/

inductive Event (α : Type)
  | send (p : Packet α)
  | item (index : Nat) (op : α)

def packetEvents {α : Type} (p : Packet α) : List (Event α) :=
  Event.send p :: p.members.map (Event.item p.index)

def eventsOf {α : Type} (ps : List (Packet α)) : List (Event α) := ps.flatMap packetEvents

/-- the device answers the members of a packet in order -/
def runMembers {α σ ρ : Type} (step : σ → α → σ × ρ) : σ → List α → σ × List ρ
  | s, [] => (s, [])
  | s, a :: as =>
    let (s1, r) := step s a
    let (s2, rs) := runMembers step s1 as
    (s2, r :: rs)

/-- `next( issuer )`: run the generator up to its next `yield`; sending a packet makes its replies
(tagged with the packet's index, i.e. its sender context) available -/
def pull {α σ ρ : Type} (step : σ → α → σ × ρ) :
    List (Event α) → σ → List (Nat × ρ) → Option ((Nat × α) × List (Event α) × σ × List (Nat × ρ))
  | [], _, _ => none
  | Event.send p :: es, s, w =>
    let (s', rs) := runMembers step s p.members
    pull step es s' (w ++ rs.map fun r => (p.index, r))
  | Event.item i a :: es, s, w => some ((i, a), es, s, w)

/-- `rpy_ctx == req_ctx`: the request context is `str(index)`, the reply carries its first 8 bytes -/
def ctxEq (reqIndex rpyIndex : Nat) : Bool := decimal reqIndex == (decimal rpyIndex).take 8

inductive Outcome
  | ok
  | mismatch        -- harvest's "Mismatched" assertion
  | incomplete      -- pipeline's "Communication ceased before harvesting all pipeline responses"
  | fuel
deriving DecidableEq, Repr

/-! ### synchronous -/

/-- `harvest( issued=issue(...) )`: the zip pulls the issuer, then the collector -/
def syncGo {α σ ρ : Type} (step : σ → α → σ × ρ) :
    Nat → List (Event α) → σ → List (Nat × ρ) → List (Nat × ρ) → List (Nat × ρ) × Outcome
  | 0, _, _, _, out => (out, Outcome.fuel)
  | fuel + 1, es, s, w, out =>
    match pull step es s w with
    | none => (out, Outcome.ok)
    | some ((i, _), es', s', w') =>
      match w' with
      | [] => (out, Outcome.ok)                       -- collect ended (nothing to wait for)
      | (j, r) :: w'' =>
        if ctxEq i j then syncGo step fuel es' s' w'' (out ++ [(i, r)])
        else (out, Outcome.mismatch)

def synchronous {α σ ρ : Type} (step : σ → α → σ × ρ) (s0 : σ) (ps : List (Packet α)) :
    List (Nat × ρ) × Outcome :=
  syncGo step ((eventsOf ps).length + 1) (eventsOf ps) s0 [] []

/-! ### pipeline -/

structure PState (α σ ρ : Type) where
  events : List (Event α)
  live : Bool                      -- `issuer` is not None
  inflight : List (Nat × α)
  wire : List (Nat × ρ)
  srv : σ
  harv : Bool                      -- the harvester generator has not finished
  curr : Int
  last : Int
  requests : Nat
  complete : Nat
  out : List (Nat × ρ)

inductive HarvestResult (α σ ρ : Type)
  | yield (idx : Nat) (r : ρ) (st : PState α σ ρ)
  | stop (st : PState α σ ρ)
  | fail (st : PState α σ ρ)

/-- `next( harvester )` -/
def harvestNext {α σ ρ : Type} (st : PState α σ ρ) : HarvestResult α σ ρ :=
  if !st.harv then HarvestResult.stop st
  else
    match st.inflight with
    | [] => HarvestResult.stop { st with harv := false }
    | (i, _) :: rest =>
      match st.wire with
      | [] => HarvestResult.stop { st with harv := false, inflight := rest }
      | (j, r) :: w =>
        if ctxEq i j then HarvestResult.yield i r { st with inflight := rest, wire := w }
        else HarvestResult.fail { st with inflight := rest, wire := w }

def finish {α σ ρ : Type} (st : PState α σ ρ) : List (Nat × ρ) × Outcome :=
  (st.out, if st.complete = st.requests then Outcome.ok else Outcome.incomplete)

/-- `if issuer: try: iss = next( issuer ) ... except StopIteration: issuer = None` -/
def issueStep {α σ ρ : Type} (step : σ → α → σ × ρ) (st : PState α σ ρ) : PState α σ ρ :=
  if st.live then
    match pull step st.events st.srv st.wire with
    | some (it, es, s, w) =>
      { st with events := es, srv := s, wire := w, curr := (it.1 : Int),
                requests := st.requests + 1, inflight := st.inflight ++ [it] }
    | none => { st with live := false }
  else st

/-- the `while issuer or inflight:` loop -/
def pipeLoop {α σ ρ : Type} (step : σ → α → σ × ρ) (depth : Int) :
    Nat → PState α σ ρ → List (Nat × ρ) × Outcome
  | 0, st => (st.out, Outcome.fuel)
  | fuel + 1, st =>
    if !st.live && st.inflight.isEmpty then finish st
    else
      let st1 := issueStep step st
      if st1.curr - st1.last > depth || !st1.live then
        match harvestNext st1 with
        | HarvestResult.yield i r st2 =>
          pipeLoop step depth fuel
            { st2 with last := (i : Int), complete := st2.complete + 1, out := st2.out ++ [(i, r)] }
        | HarvestResult.stop st2 => finish st2
        | HarvestResult.fail st2 => (st2.out, Outcome.mismatch)
      else pipeLoop step depth fuel st1

def pipeInit {α σ ρ : Type} (index : Nat) (s0 : σ) (ps : List (Packet α)) : PState α σ ρ :=
  { events := eventsOf ps, live := true, inflight := [], wire := [], srv := s0, harv := true,
    curr := (index : Int) - 1, last := (index : Int) - 1, requests := 0, complete := 0, out := [] }

def pipeFuel {α : Type} (ps : List (Packet α)) : Nat := 2 * (eventsOf ps).length + 2

/-- `connector.pipeline( operations, index, depth )` after `issue` -/
def pipeline {α σ ρ : Type} (step : σ → α → σ × ρ) (depth : Int) (index : Nat) (s0 : σ)
    (ps : List (Packet α)) : List (Nat × ρ) × Outcome :=
  pipeLoop step depth (pipeFuel ps) (pipeInit index s0 ps)

/-- `connector.operate`: depth 0 (falsy) selects `synchronous` -/
def operate {α σ ρ : Type} (step : σ → α → σ × ρ) (depth : Nat) (index : Nat) (s0 : σ)
    (ps : List (Packet α)) : List (Nat × ρ) × Outcome :=
  if depth = 0 then synchronous step s0 ps else pipeline step (depth : Int) index s0 ps

/-! ### the concrete operation record and its size estimates -/

inductive Method | read | write | sas | gas | gaa | svc
deriving DecidableEq, Repr

/-- what `issue` looks at in an operation dict -/
structure Op where
  method : Method
  tagType : Option Nat := none         -- op.get( 'tag_type' )
  ndata : Nat := 0                     -- len( op['data'] )
  elements : Option Nat := none        -- op.get( 'elements' )
  dataSize : Option Nat := none        -- op.get( 'data_size' )
  offset : Option (Option Nat) := none -- absent / None / a byte offset
  route : Nat := 0                     -- identity of op.get( 'route_path' )
  send : Nat := 0                      -- identity of op.get( 'send_path' )
  ident : Nat := 0                     -- the rest of the operation (path, values ...)
deriving DecidableEq, Repr

structure Cfg where
  reqMin : Nat := 68
  rpyMin : Nat := 68
  readReq : Nat := 22
  readRpy : Nat := 4
  writeReq : Nat := 24
  writeRpy : Nat := 4
  sasReq : Nat := 8
  sasRpy : Nat := 4
  gaReq : Nat := 8
  gaRpy : Nat := 0
  svcReq : Nat := 1
  svcRpy : Nat := 0
  sizes : List (Nat × Nat) := []       -- tag_type -> struct_calcsize
  writeDef : Nat := 2                  -- element size assumed for a write without tag_type (INT)
  readDef : Nat := 4                   -- ... for a read reply (DINT)
  sasDef : Nat := 1                    -- ... for Set Attribute Single data (USINT)
  tSINT : Nat := 194
  tUSINT : Nat := 198
deriving Repr

def truthy : Option Nat → Option Nat
  | some 0 => none
  | x => x

def sizeOf (cfg : Cfg) (t : Nat) : Nat :=
  match cfg.sizes.find? fun p => p.1 == t with
  | some p => p.2
  | none => 0

def replyGuess (cfg : Cfg) (multiple : Nat) (op : Op) : Nat :=
  match truthy op.dataSize with
  | some d => cfg.gaRpy + d
  | none =>
    match truthy op.tagType with
    | some t => cfg.gaRpy + sizeOf cfg t * op.elements.getD 1
    | none => multiple

/-- `(reqest, rpyest)` -/
def estimate (cfg : Cfg) (multiple : Nat) (op : Op) : Nat × Nat :=
  match op.method with
  | Method.write =>
    (cfg.writeReq + (match truthy op.tagType with
       | some t => sizeOf cfg t
       | none => cfg.writeDef) * op.ndata, cfg.writeRpy)
  | Method.read =>
    (cfg.readReq,
     cfg.readRpy + (match truthy op.dataSize with
       | some d => d
       | none => (match truthy op.tagType with
         | some t => sizeOf cfg t
         | none => cfg.readDef) * op.elements.getD 1))
  | Method.sas =>
    (cfg.sasReq + (match truthy op.tagType with
       | some t => sizeOf cfg t
       | none => cfg.sasDef) * op.ndata, cfg.sasRpy)
  | Method.gas => (cfg.gaReq, replyGuess cfg multiple op)
  | Method.gaa => (cfg.gaReq, replyGuess cfg multiple op)
  | Method.svc =>
    let n := match op.tagType with
      | none => op.ndata
      | some t => if t = cfg.tSINT ∨ t = cfg.tUSINT then op.ndata else sizeOf cfg t * op.ndata
    (cfg.svcReq + n,
     match truthy op.dataSize with
     | some d => cfg.svcRpy + d
     | none => multiple)

/-- the request built for an operation: Read/Write Tag versus ... Fragmented -/
inductive ReqKind | readTag | readFrag | writeTag | writeFrag | sas | gas | gaa | svc
deriving DecidableEq, Repr

def reqKind (fragment : Bool) (op : Op) : ReqKind :=
  let frag : Bool :=
    match op.offset with
    | none => fragment
    | some none => false
    | some (some _) => true
  match op.method with
  | Method.read => if frag then ReqKind.readFrag else ReqKind.readTag
  | Method.write => if frag then ReqKind.writeFrag else ReqKind.writeTag
  | Method.sas => ReqKind.sas
  | Method.gas => ReqKind.gas
  | Method.gaa => ReqKind.gaa
  | Method.svc => ReqKind.svc

def opKey (op : Op) : Nat × Nat := (op.route, op.send)

def issueOps (cfg : Cfg) (multiple index : Nat) (ops : List Op) : List (Packet Op) :=
  issue (estimate cfg multiple) opKey multiple cfg.reqMin cfg.rpyMin index ops

/-! ### the caller's operation dicts

`issue` works on `op = op.copy()`: it pops 'method', pins 'offset' (None / 0 by `fragment`) for reads
and writes that carry none, and stores 'sender_context' - all in its own copy.  `RawOp` is the dict as
the caller holds it; `workOn` is what those statements do to the dict they are applied to;
`callerAfter true` is the code (the caller's dicts are untouched), `callerAfter false` the variant
without the copy (kept for the witness). -/

structure RawOp where
  method : Option Method := none       -- the 'method' entry, if any
  hasData : Bool := false              -- 'data' in op
  offset : Option (Option Nat) := none -- the 'offset' entry: absent / None / a byte offset
  ctx : Bool := false                  -- 'sender_context' in op
  tagType : Option Nat := none
  ndata : Nat := 0
  elements : Option Nat := none
  dataSize : Option Nat := none
  route : Nat := 0
  send : Nat := 0
  ident : Nat := 0
deriving DecidableEq, Repr

/-- `op.pop( 'method', 'write' if 'data' in op else 'read' )` -/
def RawOp.resolve (r : RawOp) : Method :=
  match r.method with
  | some m => m
  | none => if r.hasData then Method.write else Method.read

/-- the statements of `issue` that alter the dict they work on -/
def workOn (fragment : Bool) (r : RawOp) : RawOp :=
  let m := r.resolve
  { r with
    ctx := true
    method := none
    offset := if (m = Method.read ∨ m = Method.write) ∧ r.offset = none
              then some (if fragment then some 0 else none) else r.offset }

/-- the operation `issue` acts on (after its own alterations) -/
def RawOp.toOp (fragment : Bool) (r : RawOp) : Op :=
  { method := r.resolve, tagType := r.tagType, ndata := r.ndata, elements := r.elements,
    dataSize := r.dataSize, offset := (workOn fragment r).offset, route := r.route, send := r.send,
    ident := r.ident }

/-- the caller's list after `issue` ran over it -/
def callerAfter (copy : Bool) (fragment : Bool) (ops : List RawOp) : List RawOp :=
  if copy then ops else ops.map (workOn fragment)

/-- one setting of a run -/
structure Pass where
  via : Nat            -- 0 synchronous, 1 pipeline, 2 operate
  depth : Int
  multiple : Nat
  fragment : Bool

/-- the operations each pass of a sequence of runs over the SAME list object acts on -/
def passOps (copy : Bool) : List RawOp → List Pass → List (List Op)
  | _, [] => []
  | ops, p :: ps => ops.map (RawOp.toOp p.fragment) :: passOps copy (callerAfter copy p.fragment ops) ps

end Cpppo.Client
