import Cpppo.Generated.Tables
/-
Model of `dotdict.py` (`dotdict_base`, property C16): a tree of nested mappings addressed by
dotted paths.

Two layers, both mirroring the code:

* text (`List Char`): `_resolve` literally — the `'..'` rewriting loop (`splitDotDot`, `truncLast`,
  `elimDotDot`), the search for the leading non-empty term (`lead`) with the bracket-balancing
  extension (`balance`, including its `ValueError` when the remainder has no further dot), and
  `chain`, which iterates `_resolve` the way the recursive `target[rest]` calls do.  `_resolve` is a
  pure function of the key text, so the sequence of `(mine, rest)` pairs the nested calls see is
  determined by the key alone; an exception raised by the *k*-th `_resolve` is delivered when the
  *k*-th level is reached (`Path.fin`).
* tree: `__getitem__`/`__contains__`/`get`/`__setitem__`/`__delitem__`/`pop`/`setdefault`/`update`/
  `iteritems`/`__dir__`/`__copy__`/`__deepcopy__` over `Tree = leaf | node | list`, by structural
  recursion over the resolved segments.  Dict order is insertion order, as in Python.

`eval` of an indexed segment is modelled for literal indices `name[i][j]…` (`parseSeg`) and for the
documented index expressions (`Ex`, `parseFull`, `evalEx`): integer literals, references to peer values
(`name`, `ref[expr]`, `ref.attr`), unary minus, `+` and `-`, e.g. `a[a[0].b-1].b`.  Any other text
reaching `eval` yields `Err.oom` ("outside the model"), which the harness recognises on the real side
by spying on `eval` with the same grammar.

`Cfg.fixResolve = false` is `_resolve` as it is: when the key reduces to one leading dot and a single
name (`'.c'`), the loop that skips empty leading terms leaves `rest` holding the text it has just moved
into `mine`, so `_resolve('.c')` is `('c','c')`.  The library depends on that (automata stores and reads
`path + '.input'` with an empty path), so it is modelled as it is and listed as a known finding;
`fixResolve = true` is the alternative in which `rest` is cleared, kept for the full-strength theorem.
`Cfg.fixReserved = true` is the code after `fix: dotdict refuses reserved names for intermediate levels
too`; `false` the code before it, kept for the witness.  `__copy__` before its `fix:` shares objects and
needs identities: see `Cpppo.Dotdict.Heap` at the end of this file.
Imports only the generated constant tables: this file is linked into the `cpppo_model` driver.
-/
namespace Cpppo.Dotdict

abbrev Name := List Char

/-- exception classes seen at the API (`oom`: `eval` was asked for something that is not a literal index) -/
inductive Err where
  | key | attr | type | index | name | value | syntax | oom
deriving DecidableEq, Repr

/-- a stored scalar: an int or `None` -/
inductive Val where
  | int (i : Int)
  | none
deriving DecidableEq, Repr

instance : OfNat Val n := ⟨.int n⟩

inductive Tree where
  | leaf (v : Val)
  | node (kvs : List (Name × Tree))
  | list (xs : List Tree)
deriving Repr

abbrev Kvs := List (Name × Tree)

mutual
def Tree.decEq : (a b : Tree) → Decidable (a = b)
  | .leaf x, .leaf y => if h : x = y then isTrue (by rw [h]) else isFalse (by intro e; cases e; exact h rfl)
  | .node x, .node y => match decEqKvs x y with
    | isTrue h => isTrue (by rw [h])
    | isFalse h => isFalse (by intro e; cases e; exact h rfl)
  | .list x, .list y => match decEqList x y with
    | isTrue h => isTrue (by rw [h])
    | isFalse h => isFalse (by intro e; cases e; exact h rfl)
  | .leaf _, .node _ => isFalse (by intro e; cases e)
  | .leaf _, .list _ => isFalse (by intro e; cases e)
  | .node _, .leaf _ => isFalse (by intro e; cases e)
  | .node _, .list _ => isFalse (by intro e; cases e)
  | .list _, .leaf _ => isFalse (by intro e; cases e)
  | .list _, .node _ => isFalse (by intro e; cases e)
def decEqKvs : (a b : List (Name × Tree)) → Decidable (a = b)
  | [], [] => isTrue rfl
  | [], _ :: _ => isFalse (by intro e; cases e)
  | _ :: _, [] => isFalse (by intro e; cases e)
  | (k, v) :: r, (k', v') :: r' =>
    if hk : k = k' then
      match Tree.decEq v v' with
      | isTrue hv => match decEqKvs r r' with
        | isTrue hr => isTrue (by rw [hk, hv, hr])
        | isFalse hr => isFalse (by intro e; cases e; exact hr rfl)
      | isFalse hv => isFalse (by intro e; cases e; exact hv rfl)
    else isFalse (by intro e; cases e; exact hk rfl)
def decEqList : (a b : List Tree) → Decidable (a = b)
  | [], [] => isTrue rfl
  | [], _ :: _ => isFalse (by intro e; cases e)
  | _ :: _, [] => isFalse (by intro e; cases e)
  | v :: r, v' :: r' =>
    match Tree.decEq v v' with
    | isTrue hv => match decEqList r r' with
      | isTrue hr => isTrue (by rw [hv, hr])
      | isFalse hr => isFalse (by intro e; cases e; exact hr rfl)
    | isFalse hv => isFalse (by intro e; cases e; exact hv rfl)
end
instance : DecidableEq Tree := Tree.decEq


/-- a Python value handed to `__setitem__`/`update`: something stored as it is (an int, a list, a
dotdict instance) or a plain `dict`, which is converted at the leaf -/
inductive PVal where
  | tree (t : Tree)
  | pdict (items : List (Name × PVal))
deriving Repr

structure Cfg where
  reserved    : List Name
  fixResolve  : Bool := false
  fixReserved : Bool := true

/-! ### text level: `_resolve` -/

/-- `s.split('..', 1)` when `'..' in s` -/
def splitDotDot : Name → Option (Name × Name)
  | [] => none
  | [_] => none
  | c :: d :: rest =>
    if c = '.' ∧ d = '.' then some ([], rest)
    else (splitDotDot (d :: rest)).map fun (f, b) => (c :: f, b)

/-- `front[:max(0, front.rfind('.'))]` -/
def truncLast : Name → Name
  | [] => []
  | c :: rest => if '.' ∈ rest then c :: truncLast rest else []

/-- one turn of `while '..' in mine` -/
def dotdotStep (s : Name) : Option Name :=
  (splitDotDot s).map fun (front, back) =>
    let trunc := truncLast front
    trunc ++ (if trunc ≠ [] ∧ back ≠ [] then ['.'] else []) ++ back

/-- the `while '..' in mine` loop (every turn shortens the text, so its length is enough fuel) -/
def dotdotLoop : Nat → Name → Name
  | 0, s => s
  | n + 1, s =>
    match dotdotStep s with
    | none => s
    | some s' => dotdotLoop n s'

def elimDotDot (s : Name) : Name := dotdotLoop s.length s

/-- `s.split('.', 1)` when `'.' in s` -/
def splitDot : Name → Option (Name × Name)
  | [] => none
  | c :: rest => if c = '.' then some ([], rest) else (splitDot rest).map fun (a, b) => (c :: a, b)

/-- `sum(terms.get(c, 0) for c in mine)`, kept as the pair (opened, closed) -/
def opens (s : Name) : Nat := s.count '['
def closes (s : Name) : Nat := s.count ']'
def balanced (s : Name) : Bool := opens s == closes s

/-- `while sum(...): if not rest: raise KeyError; ext,rest = rest.split('.',1); mine += '.'+ext` -/
def balance : Nat → Name → Name → Except Err (Name × Name)
  | 0, m, r => .ok (m, r)
  | n + 1, m, r =>
    if balanced m then .ok (m, r)
    else if r = [] then .error .key
    else match splitDot r with
      | none => .error .value            -- `ext,rest = rest.split('.',1)`: not enough values to unpack
      | some (ext, r') => balance n (m ++ '.' :: ext) r'

/-- `while '.' in mine: mine,rest = mine.split('.',1); if mine: …; break; mine = rest`.
`stale` is the value `rest` holds when the loop is left through its condition: in the code as it is
(`fixed = false`) it still holds the text that was just moved into `mine`. -/
def lead (fixed : Bool) : Name → Option Name → Except Err (Name × Option Name)
  | [], stale => .ok ([], stale)
  | c :: s, stale =>
    if c = '.' then lead fixed s (if fixed then none else some s)
    else match splitDot (c :: s) with
      | none => .ok (c :: s, stale)
      | some (a, b) =>
        if '[' ∈ a then (balance (b.length + 1) a b).map fun (m, r) => (m, some r)
        else .ok (a, some b)

def resolve (fixed : Bool) (key : Name) : Except Err (Name × Option Name) :=
  match lead fixed (elimDotDot key) none with
  | .error e => .error e
  | .ok (m, r) => if m = [] then .error .key else .ok (m, r)

/-- `self._resolve( key ) if '.' in key else (key,None)` -/
def step (fixed : Bool) (key : Name) : Except Err (Name × Option Name) :=
  if '.' ∈ key then resolve fixed key else .ok (key, none)

/-- what the nested calls see: the segments `mine` of the successive levels, and the exception (if
any) raised by the `_resolve` that follows the last of them -/
structure Path where
  segs : List Name
  fin  : Option Err
deriving DecidableEq, Repr

def chainF (fixed : Bool) : Nat → Name → Path
  | 0, _ => ⟨[], some .key⟩
  | n + 1, key =>
    match step fixed key with
    | .error e => ⟨[], some e⟩
    | .ok (m, none) => ⟨[m], none⟩
    | .ok (m, some r) => let p := chainF fixed n r; ⟨m :: p.segs, p.fin⟩

def chain (fixed : Bool) (key : Name) : Path := chainF fixed (key.length + 1) key

/-! ### literal indices -/

def isDigit (c : Char) : Bool := 48 ≤ c.toNat && c.toNat ≤ 57
def isIdentStart (c : Char) : Bool :=
  (65 ≤ c.toNat && c.toNat ≤ 90) || (97 ≤ c.toNat && c.toNat ≤ 122) || c.toNat == 95
def isIdentChar (c : Char) : Bool := isIdentStart c || isDigit c

def isIdent : Name → Bool
  | [] => false
  | c :: s => isIdentStart c && s.all isIdentChar

def digitsVal : Name → Nat → Nat
  | [], acc => acc
  | c :: s, acc => digitsVal s (acc * 10 + (c.toNat - 48))

/-- a canonical decimal literal with an optional sign: `0`, `7`, `12`, `-1`, `-0` -/
def parseInt (s : Name) : Option Int :=
  let (neg, ds) := match s with
    | '-' :: r => (true, r)
    | r => (false, r)
  match ds with
  | [] => none
  | c :: r =>
    if (c :: r).all isDigit ∧ (c ≠ '0' ∨ r = []) then
      let n : Int := Int.ofNat (digitsVal (c :: r) 0)
      some (if neg then -n else n)
    else none

/-- an index literal as `eval` reads it: leading spaces are skipped (`iteritems` right-aligns the index
of a list of ten or more mappings: `rows[ 3].v`) -/
def parseIdx (s : Name) : Option Int := parseInt (s.dropWhile (· = ' '))

/-- `[i][j]…` up to the end of the text -/
def parseGroups : Nat → Name → Option (List Int)
  | 0, _ => none
  | _ + 1, [] => some []
  | n + 1, c :: s =>
    if c = '[' then
      let inner := s.takeWhile (· ≠ ']')
      match s.dropWhile (· ≠ ']') with
      | [] => none
      | _ :: after =>
        match parseIdx inner, parseGroups n after with
        | some i, some r => some (i :: r)
        | _, _ => none
    else none

/-- the text before the first `[` -/
def beforeBracket (m : Name) : Name := m.takeWhile (· ≠ '[')
/-- the text from the first `[` on -/
def fromBracket (m : Name) : Name := m.dropWhile (· ≠ '[')
/-- the text between the first `[` and the last character (`mine.split('[',1)[1][:-1]`) -/
def finalIdxText (m : Name) : Name := ((fromBracket m).drop 1).dropLast

/-- `name[i][j]…` with at least one index -/
def parseSeg (m : Name) : Option (Name × List Int) :=
  if isIdent (beforeBracket m) ∧ fromBracket m ≠ [] then
    (parseGroups ((fromBracket m).length + 1) (fromBracket m)).map fun is => (beforeBracket m, is)
  else none

/-! ### one level -/

def lookupK (k : Name) : Kvs → Option Tree
  | [] => none
  | (k', v) :: r => if k = k' then some v else lookupK k r

/-- `dict.__setitem__`: an existing key keeps its place, a new one goes to the end -/
def insertK (k : Name) (v : Tree) : Kvs → Kvs
  | [] => [(k, v)]
  | (k', v') :: r => if k = k' then (k', v) :: r else (k', v') :: insertK k v r

def eraseK (k : Name) : Kvs → Kvs
  | [] => []
  | (k', v') :: r => if k = k' then r else (k', v') :: eraseK k r

/-- Python list index: negative indices count from the end -/
def normIndex (n : Nat) (i : Int) : Option Nat :=
  let j := if i < 0 then i + n else i
  if 0 ≤ j ∧ j < n then some j.toNat else none

def listGet : List Tree → Nat → Option Tree
  | [], _ => none
  | x :: _, 0 => some x
  | _ :: r, n + 1 => listGet r n

def listSet : List Tree → Nat → Tree → List Tree
  | [], _, _ => []
  | _ :: r, 0, v => v :: r
  | x :: r, n + 1, v => x :: listSet r n v

def subscript (t : Tree) (i : Int) : Except Err Tree :=
  match t with
  | .list xs =>
    match normIndex xs.length i with
    | none => .error .index
    | some j => match listGet xs j with
      | some v => .ok v
      | none => .error .index
  | _ => .error .type             -- `dotdict[0]`: `'.' in 0`; `5[0]`: not subscriptable

def subscripts : Tree → List Int → Except Err Tree
  | t, [] => .ok t
  | t, i :: r => match subscript t i with
    | .error e => .error e
    | .ok v => subscripts v r

/-- replace what `t[i][j]…` denotes (the path is known to exist) -/
def putSub : Tree → List Int → Tree → Tree
  | _, [], new => new
  | .list xs, i :: r, new =>
    match normIndex xs.length i with
    | none => .list xs
    | some j => match listGet xs j with
      | none => .list xs
      | some v => .list (listSet xs j (putSub v r new))
  | t, _ :: _, _ => t

/-! ### index expressions (`name[expr]` with references to peer values) -/

/-- the expressions `eval` is modelled for: `7`, `name`, `ref[expr]`, `ref.attr`, `-atom`, `a+b`, `a-b` -/
inductive Ex where
  | int (n : Nat)
  | name (s : Name)
  | sub (e i : Ex)
  | attr (e : Ex) (a : Name)
  | neg (e : Ex)
  | add (a b : Ex)
  | minus (a b : Ex)
deriving Repr

mutual
def pExpr : Nat → Name → Option (Ex × Name)
  | 0, _ => none
  | f + 1, s =>
    match pTerm f s with
    | none => none
    | some (t, r) => pRest f t r
def pRest : Nat → Ex → Name → Option (Ex × Name)
  | 0, _, _ => none
  | f + 1, acc, '+' :: r =>
    (match pTerm f r with
     | none => none
     | some (t, r') => pRest f (.add acc t) r')
  | f + 1, acc, '-' :: r =>
    (match pTerm f r with
     | none => none
     | some (t, r') => pRest f (.minus acc t) r')
  | _ + 1, acc, s => some (acc, s)
def pTerm : Nat → Name → Option (Ex × Name)
  | 0, _ => none
  | f + 1, ' ' :: r => pTerm f r
  | f + 1, '-' :: r => (pAtom f r).map fun (e, r') => (.neg e, r')
  | f + 1, s => pAtom f s
def pAtom : Nat → Name → Option (Ex × Name)
  | 0, _ => none
  | _ + 1, [] => none
  | f + 1, c :: r =>
    if isDigit c then
      let ds := (c :: r).takeWhile isDigit
      if c ≠ '0' ∨ ds = [c] then some (.int (digitsVal ds 0), (c :: r).dropWhile isDigit) else none
    else if isIdentStart c then
      pPost f (.name ((c :: r).takeWhile isIdentChar)) ((c :: r).dropWhile isIdentChar)
    else none
def pPost : Nat → Ex → Name → Option (Ex × Name)
  | 0, _, _ => none
  | f + 1, e, '[' :: r =>
    (match pExpr f r with
     | some (i, ']' :: r') => pPost f (.sub e i) r'
     | _ => none)
  | f + 1, e, '.' :: c :: r =>
    if isIdentStart c then
      pPost f (.attr e ((c :: r).takeWhile isIdentChar)) ((c :: r).dropWhile isIdentChar)
    else none
  | _ + 1, _, ['.'] => none
  | _ + 1, e, s => some (e, s)
end

/-- names that are Python keywords, attributes that exist on `int`/`list`/`dotdict` (a method, not a
stored value) or are dunder names: the expression is outside the model -/
def exInModel : Ex → Bool
  | .int _ => true
  | .name s => !(Generated.pyKeywords.contains s)
  | .sub e i => exInModel e && exInModel i
  | .attr e a => exInModel e && !(Generated.evalAttrBlacklist.contains a) &&
      !(match a with | '_' :: '_' :: _ => true | _ => false)
  | .neg e => exInModel e
  | .add a b => exInModel a && exInModel b
  | .minus a b => exInModel a && exInModel b

/-- the whole text as a modelled expression -/
def parseFull (s : Name) : Option Ex :=
  match pExpr (6 * s.length + 10) s with
  | some (e, []) => if exInModel e then some e else none
  | _ => none

/-- `value[index]` -/
def subscriptV (v i : Tree) : Except Err Tree :=
  match v, i with
  | .list xs, .leaf (.int n) => subscript (.list xs) n
  | .node _, .node _ => .error .oom      -- `'[' in key` on a dotdict key ends in `eval( '[' )`
  | _, _ => .error .type

/-- evaluation with the dotdict as locals: a name is an entry of this level (`NameError` if absent),
`.attr` on a mapping is `__getattr__` (`AttributeError` if absent) -/
def evalEx (kvs : Kvs) : Ex → Except Err Tree
  | .int n => .ok (.leaf (.int n))
  | .name s =>
    (match lookupK s kvs with
     | none => .error .name
     | some v => .ok v)
  | .sub e i =>
    (match evalEx kvs e with
     | .error x => .error x
     | .ok ve =>
       match evalEx kvs i with
       | .error x => .error x
       | .ok vi => subscriptV ve vi)
  | .attr e a =>
    (match evalEx kvs e with
     | .error x => .error x
     | .ok (.node sub) =>
       (match lookupK a sub with
        | none => .error .attr
        | some v => .ok v)
     | .ok _ => .error .attr)
  | .neg e =>
    (match evalEx kvs e with
     | .error x => .error x
     | .ok (.leaf (.int n)) => .ok (.leaf (.int (-n)))
     | .ok _ => .error .type)
  | .add a b =>
    (match evalEx kvs a with
     | .error x => .error x
     | .ok va =>
       match evalEx kvs b with
       | .error x => .error x
       | .ok vb =>
         match va, vb with
         | .leaf (.int x), .leaf (.int y) => .ok (.leaf (.int (x + y)))
         | .list xs, .list ys => .ok (.list (xs ++ ys))
         | _, _ => .error .type)
  | .minus a b =>
    (match evalEx kvs a with
     | .error x => .error x
     | .ok va =>
       match evalEx kvs b with
       | .error x => .error x
       | .ok vb =>
         match va, vb with
         | .leaf (.int x), .leaf (.int y) => .ok (.leaf (.int (x - y)))
         | _, _ => .error .type)

/-- where a reference lives: keys and (normalised) list positions from this level -/
inductive PStep where
  | key (k : Name) | idx (j : Nat)

def placeEx (kvs : Kvs) : Ex → Option (List PStep)
  | .name s => some [.key s]
  | .sub e i =>
    (match placeEx kvs e, evalEx kvs e, evalEx kvs i with
     | some p, .ok (.list xs), .ok (.leaf (.int n)) => (normIndex xs.length n).map fun j => p ++ [.idx j]
     | _, _, _ => none)
  | .attr e a => (placeEx kvs e).map fun p => p ++ [.key a]
  | _ => none

/-- replace what a place denotes (object mutated in place) -/
def putPlace : Tree → List PStep → Tree → Tree
  | _, [], new => new
  | .node kvs, .key k :: r, new =>
    (match lookupK k kvs with
     | some v => .node (insertK k (putPlace v r new) kvs)
     | none => .node kvs)
  | .list xs, .idx j :: r, new =>
    (match listGet xs j with
     | some v => .list (listSet xs j (putPlace v r new))
     | none => .list xs)
  | t, _ :: _, _ => t

def kvsOf : Tree → Kvs
  | .node kvs => kvs
  | _ => []

/-- `eval( mine, {'__builtins__':{}}, self )`: literal `name[i][j]…`, else a modelled expression -/
def evalSeg (kvs : Kvs) (m : Name) : Except Err Tree :=
  match parseSeg m with
  | none =>
    (match parseFull m with
     | none => .error .oom
     | some ex => evalEx kvs ex)
  | some (name, is) =>
    match lookupK name kvs with
    | none => .error .name         -- the KeyError of the locals mapping becomes NameError
    | some v => subscripts v is

/-- the object a segment denotes at this level: `eval` when it has a bracket, else the raw entry -/
def segGet (kvs : Kvs) (m : Name) : Except Err Tree :=
  if '[' ∈ m then evalSeg kvs m
  else match lookupK m kvs with
    | none => .error .key
    | some v => .ok v

/-- give an existing key a new value (an absent key is not created) -/
def replaceK (k : Name) (v : Tree) (kvs : Kvs) : Kvs :=
  if (lookupK k kvs).isSome then insertK k v kvs else kvs

/-- write back the (mutated in place) object a segment denotes -/
def segPut (kvs : Kvs) (m : Name) (new : Tree) : Kvs :=
  if '[' ∈ m then
    match parseSeg m with
    | none =>
      (match parseFull m with
       | none => kvs
       | some ex =>
         match placeEx kvs ex with
         | none => kvs
         | some p => kvsOf (putPlace (.node kvs) p new))
    | some (name, is) =>
      match lookupK name kvs with
      | none => kvs
      | some v => insertK name (putSub v is new) kvs
  else replaceK m new kvs

def isReserved (cfg : Cfg) (m : Name) : Bool :=
  cfg.reserved.contains m || (match m with | '_' :: '_' :: _ => true | _ => false)

/-! ### `__getitem__` -/

def getK : Kvs → List Name → Option Err → Except Err Tree
  | _, [], some e => .error e
  | kvs, [], none => .ok (.node kvs)
  | kvs, m :: rest, fin =>
    match segGet kvs m with
    | .error e => .error e
    | .ok target =>
      if rest = [] ∧ fin = none then .ok target
      else match target with
        | .leaf _ => .error .key        -- no `__getitem__`: 'not subscriptable'
        | .list _ => .error .type       -- `list.__getitem__( rest )` with a string
        | .node sub => getK sub rest fin

/-! ### `__setitem__` -/

/-- `rest` is a non-empty string -/
def restTruthy (rest : List Name) (fin : Option Err) : Bool :=
  !((rest = [] || rest = [[]]) && fin = none)

inductive FinalIdx where
  | lit (i : Int) | syntaxErr | oom

/-- the text between the first `[` and the final `]` of the last segment, as `eval` sees it -/
def parseFinalIdx (t : Name) : FinalIdx :=
  match parseIdx t with
  | some i => .lit i
  | none =>
    -- `0][1`: what a doubly indexed final segment leaves between the outer brackets
    let inner := t.takeWhile (· ≠ ']')
    match parseIdx inner, t.dropWhile (· ≠ ']') with
    | some _, ']' :: after =>
      (match parseGroups (after.length + 1) (after ++ [']']) with
       | some (_ :: _) => .syntaxErr
       | _ => .oom)
    | _, _ => .oom

/-- `super().__getitem__( name )[i] = value` -/
def setIndexed (kvs : Kvs) (name : Name) (i : Int) (tv : Tree) : Kvs × Option Err :=
  match lookupK name kvs with
  | none => (kvs, some .key)
  | some (.list xs) =>
    (match normIndex xs.length i with
     | none => (kvs, some .index)
     | some j => (insertK name (.list (listSet xs j tv)) kvs, none))
  | some _ => (kvs, some .type)

def setK (cfg : Cfg) : Kvs → List Name → Option Err → Except Err Tree → Kvs × Option Err
  | kvs, [], some e, _ => (kvs, some e)
  | kvs, [], none, _ => (kvs, none)
  | kvs, m :: rest, fin, cv =>
    if restTruthy rest fin then
      if '[' ∈ m then
        match evalSeg kvs m with
        | .error e => (kvs, some e)
        | .ok (.node sub) =>
          let (sub', e) := setK cfg sub rest fin cv
          (segPut kvs m (.node sub'), e)
        | .ok _ => (kvs, some .key)
      else if cfg.fixReserved && isReserved cfg m then (kvs, some .key)
      else
        match lookupK m kvs with
        | none =>
          let (sub', e) := setK cfg [] rest fin cv
          (insertK m (.node sub') kvs, e)            -- `setdefault( mine, dotdict() )`
        | some (.node sub) =>
          let (sub', e) := setK cfg sub rest fin cv
          (insertK m (.node sub') kvs, e)
        | some _ => (kvs, some .key)
    else
      match cv with
      | .error e => (kvs, some e)                    -- converting the plain dict failed
      | .ok tv =>
        if '[' ∈ m ∧ m.getLast? = some ']' then
          match parseFinalIdx (finalIdxText m) with
          | .oom =>
            -- an index expression: evaluated first; only an int index is modelled
            (match parseFull (finalIdxText m) with
             | none => (kvs, some .oom)
             | some ex =>
               match evalEx kvs ex with
               | .error e => (kvs, some e)
               | .ok (.leaf (.int i)) => setIndexed kvs (beforeBracket m) i tv
               | .ok _ => (kvs, some .oom))
          | .syntaxErr => (kvs, some .syntax)
          | .lit i =>
            match lookupK (beforeBracket m) kvs with
            | none => (kvs, some .key)
            | some (.list xs) =>
              (match normIndex xs.length i with
               | none => (kvs, some .index)
               | some j => (insertK (beforeBracket m) (.list (listSet xs j tv)) kvs, none))
            | some _ => (kvs, some .type)
        else if isReserved cfg m then (kvs, some .key)
        else (insertK m tv kvs, none)

/- `self.__class__( value )` for a plain dict: a fresh dotdict, every item assigned in turn;
the first exception aborts the construction -/
mutual
def conv (cfg : Cfg) : PVal → Except Err Tree
  | .tree t => .ok t
  | .pdict items => convItems cfg items []
def convItems (cfg : Cfg) : List (Name × PVal) → Kvs → Except Err Tree
  | [], acc => .ok (.node acc)
  | (k, v) :: r, acc =>
    let p := chain cfg.fixResolve k
    match setK cfg acc p.segs p.fin (conv cfg v) with
    | (_, some e) => .error e
    | (acc', none) => convItems cfg r acc'
end

/-! ### `__delitem__` -/

/-- `self[mine]` -/
def getTop (cfg : Cfg) (kvs : Kvs) (m : Name) : Except Err Tree :=
  let p := chain cfg.fixResolve m
  getK kvs p.segs p.fin

def delK (cfg : Cfg) : Kvs → List Name → Option Err → Kvs × Option Err
  | kvs, [], some e => (kvs, some e)
  | kvs, [], none => (kvs, none)
  | kvs, m :: rest, fin =>
    match getTop cfg kvs m with
    | .error e => (kvs, some e)
    | .ok target =>
      if rest = [] ∧ fin = none then
        match target with
        | .node (_ :: _) => (kvs, some .key)        -- 'cannot del … (partial key)'
        | _ =>
          match lookupK m kvs with
          | none => (kvs, some .key)                -- `dict.__delitem__( 'l[0]' )`
          | some _ => (eraseK m kvs, none)
      else match target with
        | .node sub =>
          let (sub', e) := delK cfg sub rest fin
          (segPut kvs m (.node sub'), e)
        | _ => (kvs, some .type)                    -- `del 5['x']`, `del [..]['x']`

/-! ### `pop` -/

/-- `.ok none` is "the default was returned" -/
def popK : Kvs → List Name → Option Err → Bool → Kvs × Except Err (Option Tree)
  | kvs, [], some e, _ => (kvs, .error e)
  | kvs, [], none, _ => (kvs, .error .key)
  | kvs, m :: rest, fin, hasD =>
    if rest = [] ∧ fin = none then
      match lookupK m kvs with
      | some v => (eraseK m kvs, .ok (some v))      -- `dict.pop( mine, *default )`
      | none => if hasD then (kvs, .ok none) else (kvs, .error .key)
    else
      match lookupK m kvs with                      -- `dict.__getitem__( mine )`: no `eval` here
      | none => (kvs, .error .key)
      | some (.node sub) =>
        let (sub', r) := popK sub rest fin hasD
        (insertK m (.node sub') kvs, r)
      | some _ => (kvs, .error .key)

/-! ### iteration -/

/-- all elements are dotdicts -/
def allNodes : List Tree → Bool
  | [] => true
  | .node _ :: r => allNodes r
  | _ :: _ => false

def natDigits : Nat → Nat → Name
  | 0, _ => []
  | fuel + 1, n => if n < 10 then [Char.ofNat (48 + n)] else natDigits fuel (n / 10) ++ [Char.ofNat (48 + n % 10)]

def natStr (n : Nat) : Name := natDigits (n + 1) n

/-- `"{:w}".format( i )`: right-aligned in a field of the width of the largest index -/
def padIdx (width : Nat) (i : Nat) : Name :=
  let s := natStr i
  List.replicate (width - s.length) ' ' ++ s

mutual
/-- `iteritems()` of a level -/
def itemsK : Kvs → List (Name × Tree)
  | [] => []
  | (k, .node (x :: sub)) :: r =>
    (itemsK (x :: sub)).map (fun (sk, sv) => (k ++ '.' :: sk, sv)) ++ itemsK r
  | (k, .list (x :: xs)) :: r =>
    (if allNodes (x :: xs) then itemsL k (natStr xs.length).length 0 (x :: xs)
     else [(k, .list (x :: xs))]) ++ itemsK r
  | (k, v) :: r => (k, v) :: itemsK r
/-- the elements of a list of dotdicts, as `key[i].sub` -/
def itemsL (k : Name) (width : Nat) : Nat → List Tree → List (Name × Tree)
  | _, [] => []
  | i, .node sub :: r =>
    (itemsK sub).map (fun (sk, sv) => (k ++ '[' :: padIdx width i ++ ']' :: '.' :: sk, sv))
      ++ itemsL k width (i + 1) r
  | i, _ :: r => itemsL k width (i + 1) r
end

def items : Tree → List (Name × Tree)
  | .node kvs => itemsK kvs
  | _ => []

def keys (t : Tree) : List Name := (items t).map (·.1)

/-- lexicographic order by code point, as Python compares `str` -/
def nameLe : Name → Name → Bool
  | [], _ => true
  | _ :: _, [] => false
  | a :: r, b :: s => a.toNat < b.toNat || (a == b && nameLe r s)

def insertName (x : Name) : List Name → List Name
  | [] => [x]
  | y :: ys => if nameLe x y then x :: y :: ys else y :: insertName x ys

def sortNames : List Name → List Name
  | [] => []
  | x :: xs => insertName x (sortNames xs)

/-- the non-dunder part of `__dir__`: the sorted top-level keys -/
def dirK (kvs : Kvs) : List Name := sortNames (kvs.map (·.1))

/-! ### `__copy__` / `__deepcopy__` (repaired `__copy__`: mappings inside lists are copied too)

Both rebuild every level through the constructor, that is through `__setitem__( k, copy )` for every
raw key `k` of the level, so a raw key that `__setitem__` would refuse makes the copy fail.
The result is a value; that the copy shares nothing with the original is the statement that the
state is a *value* — tied to the code by the two-slot correspondence, and refuted for the old
`__copy__` in `Cpppo.Dotdict.Heap`. -/
/-- the constructor given `(key, value)` pairs: `__setitem__` each -/
def buildK (cfg : Cfg) : Kvs → Kvs → Except Err Tree
  | [], acc => .ok (.node acc)
  | (k, v) :: r, acc =>
    let p := chain cfg.fixResolve k
    match setK cfg acc p.segs p.fin (.ok v) with
    | (_, some e) => .error e
    | (acc', none) => buildK cfg r acc'

mutual
def copyT (cfg : Cfg) : Tree → Except Err Tree
  | .leaf v => .ok (.leaf v)
  | .node kvs =>
    match copyVals cfg kvs with                     -- `dict( generator )` copies every value first …
    | .error e => .error e
    | .ok kvs' => buildK cfg kvs' []                -- … then `update` assigns them one by one
  | .list xs => (copyList cfg xs).map .list
def copyVals (cfg : Cfg) : Kvs → Except Err Kvs
  | [] => .ok []
  | (k, v) :: r =>
    match copyT cfg v, copyVals cfg r with
    | .ok v', .ok r' => .ok ((k, v') :: r')
    | .error e, _ => .error e
    | _, .error e => .error e
def copyList (cfg : Cfg) : List Tree → Except Err (List Tree)
  | [] => .ok []
  | x :: r =>
    match copyT cfg x, copyList cfg r with
    | .ok x', .ok r' => .ok (x' :: r')
    | .error e, _ => .error e
    | _, .error e => .error e
end

/-! ### the API on a dotdict (`Tree.node`), by key text -/

def rootKvs : Tree → Kvs
  | .node kvs => kvs
  | _ => []

def getT (cfg : Cfg) (t : Tree) (key : Name) : Except Err Tree :=
  let p := chain cfg.fixResolve key
  getK (rootKvs t) p.segs p.fin

/-- `key in d`: only `KeyError` means "no" -/
def containsT (cfg : Cfg) (t : Tree) (key : Name) : Except Err Bool :=
  match getT cfg t key with
  | .ok _ => .ok true
  | .error .key => .ok false
  | .error e => .error e

def setT (cfg : Cfg) (t : Tree) (key : Name) (v : PVal) : Tree × Option Err :=
  let p := chain cfg.fixResolve key
  let (kvs, e) := setK cfg (rootKvs t) p.segs p.fin (conv cfg v)
  (.node kvs, e)

def delT (cfg : Cfg) (t : Tree) (key : Name) : Tree × Option Err :=
  let p := chain cfg.fixResolve key
  let (kvs, e) := delK cfg (rootKvs t) p.segs p.fin
  (.node kvs, e)

def popT (cfg : Cfg) (t : Tree) (key : Name) (hasD : Bool) : Tree × Except Err (Option Tree) :=
  let p := chain cfg.fixResolve key
  let (kvs, r) := popK (rootKvs t) p.segs p.fin hasD
  (.node kvs, r)

/-- `if key not in self: self[key] = default; return self[key]` -/
def setdefaultT (cfg : Cfg) (t : Tree) (key : Name) (v : PVal) : Tree × Except Err Tree :=
  match containsT cfg t key with
  | .error e => (t, .error e)
  | .ok true => (t, getT cfg t key)
  | .ok false =>
    match setT cfg t key v with
    | (t', some e) => (t', .error e)
    | (t', none) => (t', getT cfg t' key)

/-- `update( plain dict )` / `update( dotdict )`: every top-level item is assigned in turn -/
def updateT (cfg : Cfg) (t : Tree) : List (Name × PVal) → Tree × Option Err
  | [] => (t, none)
  | (k, v) :: r =>
    match setT cfg t k v with
    | (t', some e) => (t', some e)
    | (t', none) => updateT cfg t' r


/-! ### operation sequences -/

inductive Op where
  | get (k : Name) | contains (k : Name)
  | set (k : Name) (v : PVal) | del (k : Name) | pop (k : Name) (hasD : Bool)
  | setdefault (k : Name) (v : PVal) | update (items : List (Name × PVal))

/-- the dotdict after an operation (whether or not it raised) -/
def applyOp (cfg : Cfg) (t : Tree) : Op → Tree
  | .get _ => t
  | .contains _ => t
  | .set k v => (setT cfg t k v).1
  | .del k => (delT cfg t k).1
  | .pop k hasD => (popT cfg t k hasD).1
  | .setdefault k v => (setdefaultT cfg t k v).1
  | .update items => (updateT cfg t items).1

def run (cfg : Cfg) (t : Tree) (ops : List Op) : Tree := ops.foldl (applyOp cfg) t

end Cpppo.Dotdict

/-!
### Object identities: what `__copy__` did before its `fix:`

`copy.copy( d )` built a new dotdict for every level reached through a dot, but for a list it made a
shallow list copy: the dotdicts *inside* the list stayed the same objects.  To state that, values need
identities: a heap of cells addressed by position.  `copyObj false` is the old `__copy__`,
`copyObj true` the repaired one (`dup`: lists are copied element by element).
-/
namespace Cpppo.Dotdict.Heap
open Cpppo.Dotdict

inductive Obj where
  | int (v : Val)
  | dict (kvs : List (Name × Nat))
  | list (xs : List Nat)
deriving Repr, DecidableEq

abbrev Heap := List Obj

mutual
/-- build a tree in the heap; the address of its root is returned -/
def alloc : Tree → Heap → Heap × Nat
  | .leaf v, h => (h ++ [.int v], h.length)
  | .node kvs, h => let (h1, ks) := allocKvs kvs h; (h1 ++ [.dict ks], h1.length)
  | .list xs, h => let (h1, as) := allocList xs h; (h1 ++ [.list as], h1.length)
def allocKvs : Kvs → Heap → Heap × List (Name × Nat)
  | [], h => (h, [])
  | (k, v) :: r, h =>
    let (h1, a) := alloc v h
    let (h2, ks) := allocKvs r h1
    (h2, (k, a) :: ks)
def allocList : List Tree → Heap → Heap × List Nat
  | [], h => (h, [])
  | v :: r, h =>
    let (h1, a) := alloc v h
    let (h2, as) := allocList r h1
    (h2, a :: as)
end

def cell (h : Heap) (a : Nat) : Obj := (h[a]?).getD (.int 0)

/-- the tree an address denotes -/
def read : Nat → Heap → Nat → Tree
  | 0, _, _ => .leaf 0
  | f + 1, h, a =>
    match cell h a with
    | .int v => .leaf v
    | .dict kvs => .node (kvs.map fun (k, a') => (k, read f h a'))
    | .list xs => .list (xs.map (read f h))

/-- thread the heap through a list of addresses -/
def mapAcc (g : Heap → Nat → Heap × Nat) : Heap → List Nat → Heap × List Nat
  | h, [] => (h, [])
  | h, a :: r =>
    let (h1, a') := g h a
    let (h2, as) := mapAcc g h1 r
    (h2, a' :: as)

/-- `copy.copy( obj )`; `fixed = false`: the old `__copy__` -/
def copyObj (fixed : Bool) : Nat → Heap → Nat → Heap × Nat
  | 0, h, a => (h, a)
  | f + 1, h, a =>
    match cell h a with
    | .int _ => (h, a)                                   -- immutable: the same object
    | .dict kvs =>                                       -- `__copy__`: a new level, every value copied
      let (h1, as) := mapAcc (copyObj fixed f) h (kvs.map (·.2))
      (h1 ++ [.dict ((kvs.map (·.1)).zip as)], h1.length)
    | .list xs =>
      if fixed then
        let (h1, as) := mapAcc (copyObj fixed f) h xs    -- `[ dup( e ) for e in v ]`
        (h1 ++ [.list as], h1.length)
      else (h ++ [.list xs], h.length)                   -- `copy.copy( list )`: same elements

inductive Step where
  | key (k : Name) | idx (i : Nat)

/-- follow a path of keys and list positions -/
def walk (h : Heap) : Nat → List Step → Option Nat
  | a, [] => some a
  | a, .key k :: r =>
    match cell h a with
    | .dict kvs => match kvs.lookup k with
      | some a' => walk h a' r
      | none => none
    | _ => none
  | a, .idx i :: r =>
    match cell h a with
    | .list xs => match xs[i]? with
      | some a' => walk h a' r
      | none => none
    | _ => none

/-- `dict.__setitem__` on a cell: an existing key keeps its place -/
def putKey (k : Name) (a : Nat) : List (Name × Nat) → List (Name × Nat)
  | [] => [(k, a)]
  | (k', a') :: r => if k = k' then (k', a) :: r else (k', a') :: putKey k a r

/-- `root[path][k] = v` for an int `v`: the mapping at `path` is mutated in place -/
def assign (h : Heap) (root : Nat) (path : List Step) (k : Name) (v : Int) : Option Heap :=
  match walk h root path with
  | none => none
  | some a =>
    match cell h a with
    | .dict kvs =>
      let h1 := h ++ [.int (.int v)]
      some (h1.set a (.dict (putKey k h.length kvs)))
    | _ => none

end Cpppo.Dotdict.Heap
