import Cpppo.Model.Types
/-
Model of the tag-serving core of the simulator:
  server/enip/device.py   resolve / resolve_element / lookup / Attribute / Object.request / Message_Router.request
  server/enip/logix.py    Logix.request / reply_elements / produce (reply side)

`exec : Dev → Req → Dev × Reply` follows the code step by step, including the status discipline (a
failure status is stored *before* each step; any exception inside the `try` yields that status), the
routing of a request to the object its path designates, `_validate_key`, scalar vs vector storage.
The model stores every element in the canonical form of the tag's type (`Val.conv`), which is the only
thing any service can observe (all reads go through `struct.pack` with the tag's format).

Scope: objects that hold tags (the Logix Message Router (class 2, instance 1) and the on-the-fly
classes `setup_tag` derives from it).  The built-in Identity / TCPIP / Connection Manager objects,
UDT/STRUCT tags, forced attribute errors and Get Attribute List are outside this model.
-/
namespace Cpppo.Logix

structure Tag where
  ty     : CipType
  scalar : Bool                 -- Attribute(default=<scalar>) vs a list (size 1 ⇒ scalar in main.py)
  vals   : List Val             -- scalar: exactly one element
deriving Repr, DecidableEq

structure Obj where
  cls   : Nat
  ins   : Nat
  attrs : List (Nat × Tag)      -- attribute id → Attribute (ids unique)
deriving Repr, DecidableEq

structure Dev where
  objs     : List Obj                      -- (cls, ins) unique
  symbols  : List (String × (Nat × Nat × Nat))   -- lower-cased tag name → address
  maxBytes : Nat := Generated.logixMaxBytes
deriving Repr, DecidableEq

inductive Seg
  | symbolic (s : String)
  | cls (n : Nat) | ins (n : Nat) | attr (n : Nat) | elem (n : Nat)
  | other                                   -- port / connection / … : not usable for addressing
deriving Repr, DecidableEq

abbrev Path := List Seg

/-- requests other than the Multiple Service Packet, as the service parsers deliver them -/
inductive Simple
  | readTag   (path : Path) (elements : Nat)
  | readFrag  (path : Path) (elements offset : Nat)
  | writeTag  (path : Path) (ty : Nat) (elements : Nat) (data : Bytes)
  | writeFrag (path : Path) (ty : Nat) (elements offset : Nat) (data : Bytes)
  | getAttrSingle (path : Path)
  | setAttrSingle (path : Path) (data : Bytes)
  | getAttrAll (path : Path)
deriving Repr, DecidableEq

inductive Req
  | simple (s : Simple)
  | multiple (path : Path) (reqs : List Simple)
deriving Repr, DecidableEq

structure Reply where
  svc    : Nat                  -- request service | 0x80
  status : Nat
  ext    : List Nat := []       -- extended status words
  ty     : Option CipType := none   -- reads with status 0/6: the tag's own type …
  vals   : List Val := []           -- … and the elements returned
  raw    : Bytes := []          -- attribute services: the attribute bytes; bundle: the member table
deriving Repr, DecidableEq

/-! ### lookup -/

def attrGet : List (Nat × Tag) → Nat → Option Tag
  | [], _ => none
  | (k, t) :: rest, a => if k = a then some t else attrGet rest a

/-- replace the (first) attribute with id `a` -/
def attrSet : List (Nat × Tag) → Nat → Tag → List (Nat × Tag)
  | [], _, _ => []
  | (k, t0) :: rest, a, t => if k = a then (k, t) :: rest else (k, t0) :: attrSet rest a t

def objGet : List Obj → Nat → Nat → Option Obj
  | [], _, _ => none
  | o :: rest, c, i => if o.cls = c ∧ o.ins = i then some o else objGet rest c i

def objSet : List Obj → Nat → Nat → (Obj → Obj) → List Obj
  | [], _, _, _ => []
  | o :: rest, c, i, f => if o.cls = c ∧ o.ins = i then f o :: rest else o :: objSet rest c i f

def Dev.obj? (d : Dev) (c i : Nat) : Option Obj := objGet d.objs c i

def Obj.attr? (o : Obj) (a : Nat) : Option Tag := attrGet o.attrs a

def Dev.attr? (d : Dev) (c i a : Nat) : Option Tag := (d.obj? c i).bind (·.attr? a)

def Obj.setAttr (o : Obj) (a : Nat) (t : Tag) : Obj := { o with attrs := attrSet o.attrs a t }

def Dev.setAttr (d : Dev) (c i a : Nat) (t : Tag) : Dev :=
  { d with objs := objSet d.objs c i (·.setAttr a t) }

/-- `str.lower()` on ISO-8859-1 text -/
def lowerChar (c : Char) : Char :=
  let n := c.toNat
  if (65 ≤ n ∧ n ≤ 90) ∨ (192 ≤ n ∧ n ≤ 222 ∧ n ≠ 215) then Char.ofNat (n + 32) else c

def lower (s : String) : String := String.ofList (s.toList.map lowerChar)

def lookupSym (syms : List (String × (Nat × Nat × Nat))) (name : String) : Option (Nat × Nat × Nat) :=
  (syms.find? fun p => p.1 == name).map (·.2)

/-! ### device.resolve -/

inductive AttrMode
  | no                      -- attribute=False
  | required                -- attribute=True
  | dflt (a : Nat)          -- attribute=<int>: default when the path gives none
deriving Repr, DecidableEq

structure Res where
  c : Option Nat := none
  i : Option Nat := none
  a : Option Nat := none
  tag : String := ""
deriving Repr, DecidableEq

def isAttrSeg : Seg → Bool
  | .attr _ => true
  | _ => false

/-- the `for term in path['segment']` loop; `none` = an assertion failed -/
def resolveGo (syms : List (String × (Nat × Nat × Nat))) (mode : AttrMode) : Path → Res → Option Res
  | [], r => some r
  | term :: rest, r =>
    let done := r.c.isSome && r.i.isSome &&
      (r.a.isSome || mode == .no || (match mode with | .dflt _ => !isAttrSeg term | _ => false))
    if done then (match term with | .symbolic _ => none | _ => some r)   -- only non-symbolic trailers are ignored
    else match term with
      | .cls n  => if r.c.isSome then none else resolveGo syms mode rest { r with c := some n }
      | .ins n  => if r.i.isSome then none else resolveGo syms mode rest { r with i := some n }
      | .attr n => if r.a.isSome then none else resolveGo syms mode rest { r with a := some n }
      | .symbolic s =>
        let tag := if r.tag.isEmpty then s else r.tag ++ "." ++ s
        match lookupSym syms (lower tag) with
        | some (c, i, a) =>
          if r.c.isSome || r.i.isSome || r.a.isSome then none
          else resolveGo syms mode rest { c := some c, i := some i, a := some a, tag := "" }
        | none => resolveGo syms mode rest { r with tag := tag }
      | .elem _ => none
      | .other => none

/-- `resolve( path, attribute=mode )` → (class, instance, attribute?) -/
def resolve (syms : List (String × (Nat × Nat × Nat))) (mode : AttrMode) (p : Path) :
    Option (Nat × Nat × Option Nat) :=
  match resolveGo syms mode p {} with
  | none => none
  | some r =>
    if !r.tag.isEmpty then none
    else
      let a := match r.a, mode with
        | none, .dflt a => some a
        | a, _ => a
      match r.c, r.i with
      | some c, some i =>
        match mode with
        | .no => some (c, i, none)
        | _ => if a.isSome then some (c, i, a) else none
      | _, _ => none

/-- `resolve_element`: the first element segment, default 0 -/
def resolveElement : Path → Nat
  | [] => 0
  | .elem n :: _ => n
  | _ :: rest => resolveElement rest

/-- `Message_Router.route( data, fail=ROUTE_FALSE )`: the other object the path designates, if it exists -/
def routeTarget (d : Dev) (self : Nat × Nat) (p : Path) : Option (Nat × Nat) :=
  match resolve d.symbols .no p with
  | some (c, i, _) =>
    if (c, i) = self then none
    else if (d.obj? c i).isSome then some (c, i) else none
  | none => none

/-! ### Logix.reply_elements -/

structure Extent where
  beg : Nat
  «end» : Nat
  endactual : Nat
  offremains : Nat
deriving Repr, DecidableEq

/-- `isRead`: Read Tag [Fragmented]; `ndata`: number of elements carried by a write.
`none` = one of the assertions fails. -/
def replyElements (isRead : Bool) (index cnt elm siz off maxSize ndata : Nat) : Option Extent :=
  let endactual := index + elm
  let begadvance := off / siz
  let offremains := off - begadvance * siz
  let beg := index + begadvance
  let endadv := if isRead then max ((offremains + maxSize + siz - 1) / siz) 1 else ndata
  let endmax := beg + endadv
  -- write: `assert endmax <= endactual`; then the three (now four) closing assertions
  if (isRead = true ∨ endmax ≤ endactual) ∧ beg < cnt ∧ elm ≤ cnt ∧ endactual ≤ cnt
      ∧ beg < min endactual endmax then
    some ⟨beg, min endactual endmax, endactual, offremains⟩
  else none

/-- `Attribute._validate_key( slice( beg, end ))` -/
def validSlice (len beg «end» : Nat) : Bool := beg < «end» && «end» ≤ len

/-- list slice assignment `l[beg:end] = new` for a slice of exactly `new.length` elements -/
def spliceAt (l : List Val) (beg : Nat) (new : List Val) : List Val :=
  l.take beg ++ new ++ l.drop (beg + new.length)

/-! ### the write type table (a local of Logix.request; extracted by probing) -/

def allowed (tagTy : CipType) (reqCode : Nat) : Bool :=
  match Generated.allowedTable.find? (fun p => p.1 == tagTy.code) with
  | some (_, l) => l.contains reqCode
  | none => reqCode == tagTy.code

/-! ### replies -/

def errReply (svc status : Nat) (ext : List Nat := []) : Reply := { svc := svc, status := status, ext := ext }

def svcRdTag := Generated.svcReadTag + 128
def svcRdFrg := Generated.svcReadFrag + 128
def svcWrTag := Generated.svcWriteTag + 128
def svcWrFrg := Generated.svcWriteFrag + 128
def svcGaSng := Generated.svcGetAttrSingle + 128
def svcSaSng := Generated.svcSetAttrSingle + 128
def svcGaAll := Generated.svcGetAttrAll + 128
def svcMulti := Generated.svcMultiple + 128

def Tag.len (t : Tag) : Nat := if t.scalar then 1 else t.vals.length

/-- bytes of a whole attribute (`Attribute.produce()`); `none` = struct.error -/
def Tag.produce (t : Tag) : Option Bytes := (t.vals.mapM (Val.encode t.ty)).map List.flatten

/-- resolve + lookup + "processed by wrong Object" + attribute exists (failure status 0x05) -/
def resolveTag (d : Dev) (self : Nat × Nat) (p : Path) : Option (Nat × Nat × Nat × Tag) :=
  match resolve d.symbols (.dflt 1) p with
  | none => none
  | some (c, i, a) =>
    let a := a.getD 1
    if (c, i) ≠ self then none else
    match d.attr? c i a with
    | none => none
    | some tag => some (c, i, a, tag)

/-- the values a write carries, converted to the tag's type: request type admissible for the tag
(`allowed_tag_types`), data decodable in the request type, every value representable in the tag's
type (failure status 0xFF / 0x2107) -/
def convWrite (tag : Tag) (reqTy : Nat) (data : Bytes) : Option (List Val) :=
  if !allowed tag.ty reqTy then none
  else match CipType.ofCode reqTy with
    | none => none
    | some rt => (decodeVals rt data).bind fun vs => vs.mapM (Val.conv tag.ty)

/-- what the slice access of a tag service does -/
inductive Access
  | refused                                  -- 0xFF / 0x2105
  | read (status : Nat) (vals : List Val)    -- status 0 (complete) or 6 (more)
  | wrote (tag : Tag)
deriving Repr, DecidableEq

/-- `reply_elements` + `_validate_key` + the slice read / slice assignment -/
def tagAccess (tag : Tag) (maxBytes : Nat) (isRead : Bool) (index elements off : Nat)
    (wvals : List Val) : Access :=
  match replyElements isRead index tag.len elements tag.ty.size off maxBytes wvals.length with
  | none => .refused
  | some x =>
    if !validSlice tag.len x.beg x.end then .refused else
    if isRead then
      if x.offremains ≠ 0 then .refused else
      .read (if x.end = x.endactual then 0 else 6) ((tag.vals.drop x.beg).take (x.end - x.beg))
    else
      .wrote { tag with vals := if tag.scalar then wvals.take 1 else spliceAt tag.vals x.beg wvals }

/-- The tag services of `Logix.request`, executed by the object `self` that owns the tag. -/
def execTag (d : Dev) (self : Nat × Nat) (svc : Nat) (isRead isFrag : Bool) (p : Path)
    (reqTy : Nat) (elements offset : Nat) (data : Bytes) : Dev × Reply :=
  -- data.status = 0x05, ext [0]
  match resolveTag d self p with
  | none => (d, errReply svc 5 [0])
  | some (c, i, a, tag) =>
    -- writes: data.status = 0xFF, ext [0x2107]
    match (if isRead then some [] else convWrite tag reqTy data) with
    | none => (d, errReply svc 255 [0x2107])
    | some wvals =>
      -- data.status = 0xFF, ext [0x2105]
      match tagAccess tag d.maxBytes isRead (resolveElement p) elements (if isFrag then offset else 0) wvals with
      | .refused => (d, errReply svc 255 [0x2105])
      | .read st vals => (d, { svc := svc, status := st, ty := some tag.ty, vals := vals })
      | .wrote tag' => (d.setAttr c i a tag', { svc := svc, status := 0 })

/-- Get Attributes All: attributes 1, 2, … while present -/
def collectAll (o : Obj) : Nat → Nat → Bytes → Option Bytes
  | 0, _, acc => some acc
  | fuel + 1, a, acc =>
    match o.attr? a with
    | none => some acc
    | some t => match t.produce with
      | none => none
      | some bs => collectAll o fuel (a + 1) (acc ++ bs)

/-- Get/Set Attribute Single and Get Attributes All of `Object.request` (after the `fix:` commit that
makes a path designating another object fail with 0x05). -/
def execAttr (d : Dev) (self : Nat × Nat) (s : Simple) : Dev × Reply :=
  let (svc, p) := match s with
    | .getAttrSingle p => (svcGaSng, p)
    | .setAttrSingle p _ => (svcSaSng, p)
    | .getAttrAll p => (svcGaAll, p)
    | _ => (0, [])
  -- data.status = 0x05: the path must designate this object
  match resolve d.symbols .no p with
  | none => (d, errReply svc 5)
  | some (c, i, _) =>
    if (c, i) ≠ self then (d, errReply svc 5) else
    match d.obj? c i with
    | none => (d, errReply svc 5)
    | some o =>
      -- data.status = 0x08 from here on
      match s with
      | .getAttrAll _ =>
        match collectAll o o.attrs.length 1 [] with
        | some bs => if bs.isEmpty then (d, errReply svc 8) else (d, { svc := svc, status := 0, raw := bs })
        | none => (d, errReply svc 8)
      | _ =>
        match p.getLast? with
        | some (.attr a) =>
          match o.attr? a with
          | none => (d, errReply svc 8)
          | some t =>
            match s with
            | .getAttrSingle _ =>
              match t.produce with
              | some bs => (d, { svc := svc, status := 0, raw := bs })
              | none => (d, errReply svc 8)
            | .setAttrSingle _ data =>
              if !t.ty.fixed then (d, errReply svc 8)     -- no struct_format: AttributeError
              else if data.length ≠ t.ty.size * t.len then (d, errReply svc 8)
              else
                -- struct.unpack with the tag's own format, then att[:] = val
                let raw : Option (List Val) := match t.ty with
                  | .bool => (decodeVals .usint data)
                  | ty => decodeVals ty data
                match raw.bind (·.mapM (Val.conv t.ty)) with
                | none => (d, errReply svc 8)
                | some vs =>
                  if !validSlice t.len 0 t.len then (d, errReply svc 8) else
                  let vals' := if t.scalar then vs.take 1 else vs
                  (d.setAttr c i a { t with vals := vals' }, { svc := svc, status := 0 })
            | _ => (d, errReply svc 8)
        | _ => (d, errReply svc 8)

/-- `Logix.request` for one non-bundle request arriving at object `at_` -/
def execSimpleAt (d : Dev) (at_ : Nat × Nat) (s : Simple) : Dev × Reply :=
  let p := match s with
    | .readTag p _ | .readFrag p _ _ | .writeTag p _ _ _ | .writeFrag p _ _ _ _
    | .getAttrSingle p | .setAttrSingle p _ | .getAttrAll p => p
  -- route to the designated object when it exists (it then finds the request is for itself)
  let self := (routeTarget d at_ p).getD at_
  match s with
  | .readTag p n        => execTag d self svcRdTag true false p 0 n 0 []
  | .readFrag p n off   => execTag d self svcRdFrg true true p 0 n off []
  | .writeTag p ty n bs => execTag d self svcWrTag false false p ty n 0 bs
  | .writeFrag p ty n off bs => execTag d self svcWrFrg false true p ty n off bs
  | s => execAttr d self s

def router : Nat × Nat := (Generated.routerClass, 1)

def execSimple (d : Dev) (s : Simple) : Dev × Reply := execSimpleAt d router s

/-! ### reply encoding (`produce` of the reply side) -/

def encodeStatus (status : Nat) (ext : List Nat) : Bytes :=
  if status = 0 then [0, 0] else [status, ext.length] ++ (ext.map (Bytes.le 2)).flatten

/-- `none` = `produce` raises (which ends the session: it is outside the `try`) -/
def encodeReply (r : Reply) : Option Bytes :=
  let head := [r.svc, 0] ++ encodeStatus r.status r.ext
  match r.ty with
  | some t =>
    if r.status = 0 ∨ r.status = 6 then
      (r.vals.mapM (Val.encode t)).map fun bs => head ++ Bytes.le 2 t.code ++ bs.flatten ++ r.raw
    else some (head ++ r.raw)
  | none => some (head ++ r.raw)

/-- offsets of a Multiple Service Packet: first 2+2N, each next advanced by the previous length -/
def offsetsOf (ms : List Bytes) : List Nat :=
  let rec go (o : Nat) : List Bytes → List Nat
    | [] => []
    | m :: rest => o :: go (o + m.length) rest
  go (2 + 2 * ms.length) ms

def encodeMultiple (ms : List Bytes) : Bytes :=
  Bytes.le 2 ms.length ++ ((offsetsOf ms).map (Bytes.le 2)).flatten ++ ms.flatten

/-- members of a bundle one after the other, threading the device state -/
def execMembers (d : Dev) (at_ : Nat × Nat) : List Simple → Dev × List Reply
  | [] => (d, [])
  | s :: rest =>
    let (d1, r) := execSimpleAt d at_ s
    let (d2, rs) := execMembers d1 at_ rest
    (d2, r :: rs)

/-- `Message_Router.request` for a Multiple Service Packet.
The reply is `none` when a member reply cannot be produced (the exception leaves `request`). -/
def execMultiple (d : Dev) (p : Path) (reqs : List Simple) : Dev × Option Reply :=
  -- Logix.request: route( fail=ROUTE_FALSE ) first, then Message_Router.request: route( fail=ROUTE_RAISE )
  let at_ := (routeTarget d router p).getD router
  match resolve d.symbols .no p with
  | none => (d, some (errReply svcMulti 0x16))
  | some _ =>
    let (d', rs) := execMembers d at_ reqs
    match rs.mapM encodeReply with
    | none => (d', none)
    | some ms => (d', some { svc := svcMulti, status := 0, raw := encodeMultiple ms })

def exec (d : Dev) : Req → Dev × Option Bytes
  | .simple s => let (d', r) := execSimple d s; (d', encodeReply r)
  | .multiple p reqs => let (d', r) := execMultiple d p reqs; (d', r.bind encodeReply)

end Cpppo.Logix
