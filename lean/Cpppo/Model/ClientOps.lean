import Cpppo.Model.ClientPath
/-
Model of `client.parse_operations` for one textual operation (property C12), with the `CIP_TYPES`
validators (`int_validate`, `bool_validate`, `float`, `str`).

The value list goes through `csv.reader( quotechar='"', skipinitialspace=True )`; the model covers
unquoted single-line text (a '"' or a control character other than TAB gives `Err.unmodelled`, raised
by the harness at the `csv.reader` call).  `float(x)` is modelled for plain decimal literals with at
most 15 digits (anything with a letter - exponents, inf, nan - or more digits is `unmodelled`); a
value is kept exactly as sign / mantissa / decimal exponent.
-/
namespace Cpppo.Client
open Cpppo.Py

inductive Kind
  | str
  | bool
  | real
  | int (lo hi : Int)
deriving DecidableEq, Repr

structure CipType where
  name : Str
  tagType : Nat
  size : Nat
  kind : Kind
deriving DecidableEq, Repr

inductive Val
  | int (v : Int)
  | bool (b : Bool)
  | real (neg : Bool) (mant exp : Nat)     -- (-1)^neg * mant / 10^exp, normalised
  | str (s : Str)
deriving DecidableEq, Repr

structure OpD where
  write : Bool := false                    -- 'method': 'write'
  offset : Option Int := none
  path : List Seg := []
  elements : Option Int := none
  tagType : Option Nat := none
  data : Option (List Val) := none
deriving DecidableEq, Repr

def lookupType (types : List CipType) (name : Str) : Option CipType :=
  types.find? fun t => t.name == name

/-! ### value validators -/

def isAsciiLetter (c : Char) : Bool := ('a' ≤ c && c ≤ 'z') || ('A' ≤ c && c ≤ 'Z')

/-- digits with single underscores between them: the digit characters, or `none` -/
def digitPart : Str → Bool → Option Str
  | [], last => if last then some [] else none
  | c :: cs, last =>
    if c == '_' then (if last then digitPart cs false else none)
    else if isDigit c then (digitPart cs true).map (c :: ·)
    else none

def normReal : Nat → Nat → Nat → Nat × Nat
  | 0, m, e => (m, e)
  | fuel + 1, m, e =>
    if m = 0 then (0, 0)
    else if e > 0 ∧ m % 10 = 0 then normReal fuel (m / 10) (e - 1) else (m, e)

/-- `float(x)` on the modelled fragment -/
def pyFloat (tok : Str) : Except Err Val :=
  if tok.any isAsciiLetter || (tok.filter isDigit).length > 15 then throw Err.unmodelled
  else
    let (neg, r) := splitSign (strip tok)
    let parts : Option (Str × Str) :=
      match splitFirst '.' r with
      | none => (digitPart r false).map fun d => (d, [])
      | some (a, b) =>
        if a = [] then (digitPart b false).map fun d => ([], d)
        else if b = [] then (digitPart a false).map fun d => (d, [])
        else match digitPart a false, digitPart b false with
          | some x, some y => some (x, y)
          | _, _ => none
    match parts with
    | none => throw Err.reject
    | some (ip, fp) =>
      match pyDigits 10 (ip ++ fp) with
      | none => throw Err.reject
      | some m =>
        let (m', e') := normReal (fp.length + 1) m fp.length
        pure (Val.real neg m' e')

def strTrue : Str := "true".toList
def strFalse : Str := "false".toList

def castVal (k : Kind) (tok : Str) : Except Err Val :=
  match k with
  | Kind.str => pure (Val.str tok)
  | Kind.bool =>
    match pyInt10 tok with
    | some v => pure (Val.bool (v != 0))
    | none =>
      let l := lower tok
      if l == strTrue then pure (Val.bool true)
      else if l == strFalse then pure (Val.bool false)
      else throw Err.reject
  | Kind.real => pyFloat tok
  | Kind.int lo hi =>
    match pyInt10 tok with
    | some v => if lo ≤ v ∧ v ≤ hi then pure (Val.int v) else throw Err.reject
    | none => throw Err.reject

/-- unquoted `csv.reader` row with `skipinitialspace` -/
def csvRow (val : Str) : Except Err (List Str) :=
  if val.any (fun c => c == '"' || (c.toNat < 32 && c != '\t')) then throw Err.unmodelled
  else if val = [] then pure []
  else pure ((splitAll ',' val).map fun f => f.dropWhile (· == ' '))

def strREAL : Str := "REAL".toList

/-- the consistency checks between data, element count and byte offset -/
def checkCounts (fragment : Bool) (size : Nat) (op : OpD) (ndata : Nat) : Except Err OpD :=
  if op.offset = none ∧ fragment = false then
    let el := match op.elements with
      | some e => e
      | none => (ndata : Int)
    if (ndata : Int) = el then pure { op with elements := some el } else throw Err.reject
  else
    match op.elements with
    | none => throw Err.reject
    | some el =>
      if size = 0 then throw Err.reject
      else
        let byte : Int := op.offset.getD 0
        if byte % (size : Int) ≠ 0 then throw Err.reject
        else
          let beg := byte / (size : Int)
          if beg + (ndata : Int) ≤ el then pure op else throw Err.reject

/-- `list( map( cast, val_list ))`: the first failing value decides -/
def mapExcept {α β ε : Type} (f : α → Except ε β) : List α → Except ε (List β)
  | [] => Except.ok []
  | a :: as =>
    match f a with
    | Except.error e => Except.error e
    | Except.ok b =>
      match mapExcept f as with
      | Except.error e => Except.error e
      | Except.ok bs => Except.ok (b :: bs)

/-- `if '=' in tag: tag,val = [s.strip() for s in tag.split( '=', 1 )]` -/
def splitEq (text : Str) : Str × Str × Bool :=
  match splitFirst '=' text with
  | some (t, v) => (strip t, strip v, true)
  | none => (text, [], false)

/-- `if '+' in tag: tag,off = [s.strip() for s in tag.split( '+', 1 )]; if off: int( off )` -/
def splitOff (tag : Str) : Except Err (Str × Option Int) :=
  match splitFirst '+' tag with
  | some (t, o) =>
    if strip o = [] then Except.ok (strip t, none)
    else match pyInt10 (strip o) with
      | some v => Except.ok (strip t, some v)
      | none => Except.error Err.reject
  | none => Except.ok (tag, none)

/-- REAL when a '.' occurs among the values, else `CIP_TYPES[int_type.strip().upper()]` -/
def defaultType (types : List CipType) (intType val : Str) : Except Err CipType :=
  if val.contains '.' then
    match lookupType types strREAL with
    | some t => Except.ok t
    | none => Except.error Err.reject
  else
    match lookupType types (upper (strip intType)) with
    | some t => Except.ok t
    | none => Except.error Err.reject

/-- the optional `(TYPE)` in front of the values -/
def castSplit (types : List CipType) (ty0 : CipType) (val : Str) : Except Err (CipType × Str) :=
  if startsWith (strip val) '(' && val.contains ')' then
    match splitFirst ')' val with
    | some (typ, rest) =>
      match splitFirst '(' typ with
      | some (_, name) =>
        match lookupType types (upper (strip name)) with
        | some t => Except.ok (t, rest)
        | none => Except.error Err.reject
      | none => Except.error Err.reject
    | none => Except.error Err.reject
  else Except.ok (ty0, val)

def parseValues (types : List CipType) (fragment : Bool) (intType : Str) (op : OpD) (val : Str) :
    Except Err OpD :=
  match defaultType types intType val with
  | Except.error e => Except.error e
  | Except.ok ty0 =>
    match castSplit types ty0 val with
    | Except.error e => Except.error e
    | Except.ok (ty, rest) =>
      match csvRow rest with
      | Except.error e => Except.error e
      | Except.ok toks =>
        match mapExcept (castVal ty.kind) toks with
        | Except.error e => Except.error e
        | Except.ok data =>
          checkCounts fragment ty.size { op with tagType := some ty.tagType, data := some data }
            data.length

/-- `client.parse_operations( [tag], fragment=..., int_type=... )` for a `str` tag -/
def parseOperation (types : List CipType) (fragment : Bool) (intType : Str) (text : Str) :
    Except Err OpD :=
  match splitOff (splitEq text).1 with
  | Except.error e => Except.error e
  | Except.ok (tag, offset) =>
    match parsePathElements tag none none with
    | Except.error e => Except.error e
    | Except.ok (segs, _, cnt) =>
      let op : OpD := { write := (splitEq text).2.2, offset := offset, path := segs, elements := cnt }
      if (splitEq text).2.1 = [] then Except.ok op
      else parseValues types fragment intType op (splitEq text).2.1

/-- `get_attribute.attribute_operations`: the service chosen from the last path segment -/
inductive AttrMethod | getAll | getSingle | setSingle
deriving DecidableEq, Repr

def attributeMethod (op : OpD) : Except Err AttrMethod :=
  match op.path.getLast? with
  | none => throw Err.reject                                   -- IndexError
  | some seg =>
    let has (k : Str) : Bool :=
      match seg with
      | Seg.sym _ => k == kSymbolic
      | Seg.dict kvs => hasKey k kvs
    if has kInstance then
      (if op.data.isSome then throw Err.reject else pure AttrMethod.getAll)
    else if has kSymbolic || has kAttribute || has kElement then
      pure (if op.data.isSome then AttrMethod.setSingle else AttrMethod.getSingle)
    else throw Err.reject

end Cpppo.Client
