import Cpppo.Model.Fields
import Cpppo.Model.Logix
/-
Model of the simulator from one complete EtherNet/IP frame to the reply frame, for one TCP session:

  server/enip/main.py     enip_srv_tcp          frame in -> process -> at most one frame out, close on status ≠ 0
  server/enip/parser.py   enip_machine, CIP, send_data, CPF, connection_ID, connection_data, unconnected_send,
                          EPATH / route_path, enip_encode and the `produce` methods of the reply side
  server/enip/ucmm.py     UCMM.request          register / unregister / SendRRData + SendUnitData
  server/enip/device.py   Connection_Manager.request / forward_open / forward_close and the `forwards` table
  server/enip/logix.py    the request parsers of the tag services; execution is `Cpppo.Logix.exec…`

Type bytes, item ids, command and service codes come from `Cpppo.Generated` (extracted from the live
classes).  The two sources of randomness (session handle, connection ids picked by the target) are inputs
(`Rnd`): the harness reads them off the real replies.

Scope (anything else parses to `none` = outcome `drop`, which therefore also stands for "outside the
modelled grammar"): commands Register / Unregister / SendRRData / SendUnitData; CPF items null address,
connected address, connected data, unconnected data; EPATH segments class / instance / connection point /
attribute / element (8, 16, 32 bit), ANSI symbolic, port segments 1..14 with a numeric link; requests to
the Connection Manager (Forward Open, Large Forward Open, Forward Close) and to tag-holding objects (Read /
Write Tag [Fragmented], Get / Set Attribute Single, Get Attributes All, Multiple Service Packet).
Not modelled: List* commands, the built-in Identity / TCPIP objects, STRUCT typed data, remote routes.
-/
namespace Cpppo.Srv
open Cpppo Cpppo.Logix Cpppo.Fields

/-- a parsed EPATH segment -/
inductive PSeg
  | sym (bs : Bytes)
  | cls (n : Nat) | ins (n : Nat) | conn (n : Nat) | attr (n : Nat) | elem (n : Nat)
  | port (p link : Nat)
deriving Repr, DecidableEq

def PSeg.toSeg : PSeg → Seg
  | .sym bs => .symbolic (strOfBytes bs)
  | .cls n => .cls n
  | .ins n => .ins n
  | .attr n => .attr n
  | .elem n => .elem n
  | .conn _ => .other
  | .port _ _ => .other

def PSeg.isPort : PSeg → Bool
  | .port _ _ => true
  | _ => false

def toPath (l : List PSeg) : Path := l.map PSeg.toSeg

/-! ### EPATH parser -/

def skip1 : Bytes → Option Bytes
  | [] => none
  | _ :: r => some r

/-- a logical segment value after its type byte: 8-bit, or pad + 16-bit, or (elements) pad + 32-bit -/
def logical (base : Nat) (wide : Bool) (t : Nat) (r : Bytes) : Option (Nat × Bytes) :=
  if t = base then u 1 r
  else if t = base + 1 then (skip1 r).bind (u 2)
  else if wide = true ∧ t = base + 2 then (skip1 r).bind (u 4)
  else none

def inKind (base : Nat) (wide : Bool) (t : Nat) : Bool :=
  t == base || t == base + 1 || (wide && t == base + 2)

def parseSeg : Bytes → Option (PSeg × Bytes)
  | [] => none
  | t :: r =>
    if inKind Generated.iopSegElement true t then
      (logical Generated.iopSegElement true t r).map fun x => (PSeg.elem x.1, x.2)
    else if inKind Generated.iopSegClass false t then
      (logical Generated.iopSegClass false t r).map fun x => (PSeg.cls x.1, x.2)
    else if inKind Generated.iopSegInstance false t then
      (logical Generated.iopSegInstance false t r).map fun x => (PSeg.ins x.1, x.2)
    else if inKind Generated.iopSegConnection false t then
      (logical Generated.iopSegConnection false t r).map fun x => (PSeg.conn x.1, x.2)
    else if inKind Generated.iopSegAttribute false t then
      (logical Generated.iopSegAttribute false t r).map fun x => (PSeg.attr x.1, x.2)
    else if t = Generated.iopSegSymbolic then
      match r with
      | [] => none
      | n :: r' =>
        if r'.length < n + n % 2 then none else some (PSeg.sym (r'.take n), r'.drop (n + n % 2))
    else if 1 ≤ t ∧ t ≤ 14 then
      match r with
      | [] => none
      | l :: r' => some (PSeg.port t l, r')
    else none

/-- all segments of a buffer (fuel = its length) -/
def parseSegs : Nat → Bytes → Option (List PSeg)
  | _, [] => some []
  | 0, _ :: _ => none
  | fuel + 1, b :: bs =>
    match parseSeg (b :: bs) with
    | none => none
    | some (s, r) =>
      match parseSegs fuel r with
      | none => none
      | some l => some (s :: l)

/-- size (words), optional pad, then exactly that many bytes of segments -/
def parseEpath (padded : Bool) (bs : Bytes) : Option (List PSeg × Bytes) :=
  match bs with
  | [] => none
  | size :: r =>
    match (if padded then skip1 r else some r) with
    | none => none
    | some r =>
      match take (2 * size) r with
      | none => none
      | some (body, rest) =>
        match parseSegs body.length body with
        | none => none
        | some segs => some (segs, rest)

/-! ### request parsers of a tag-holding object (Logix.parser) -/

/-- `typed_data` accepts the bytes as whole elements of a known type -/
def typedOk (ty : Nat) (data : Bytes) : Bool :=
  match CipType.ofCode ty with
  | some t => (decodeVals t data).isSome
  | none => false

def parseSimple : Bytes → Option Simple
  | [] => none
  | svc :: r =>
    match parseEpath false r with
    | none => none
    | some (segs, r) =>
      let p := toPath segs
      if svc = Generated.svcReadTag then
        match u 2 r with
        | some (n, _) => some (.readTag p n)
        | none => none
      else if svc = Generated.svcReadFrag then
        match u 2 r with
        | some (n, r) =>
          match u 4 r with
          | some (off, _) => some (.readFrag p n off)
          | none => none
        | none => none
      else if svc = Generated.svcWriteTag then
        match u 2 r with
        | some (ty, r) =>
          match u 2 r with
          | some (n, data) => if typedOk ty data then some (.writeTag p ty n data) else none
          | none => none
        | none => none
      else if svc = Generated.svcWriteFrag then
        match u 2 r with
        | some (ty, r) =>
          match u 2 r with
          | some (n, r) =>
            match u 4 r with
            | some (off, data) => if typedOk ty data then some (.writeFrag p ty n off data) else none
            | none => none
          | none => none
        | none => none
      else if svc = Generated.svcGetAttrSingle then some (.getAttrSingle p)
      else if svc = Generated.svcSetAttrSingle then some (.setAttrSingle p r)
      else if svc = Generated.svcGetAttrAll then some (.getAttrAll p)
      else none

/-- `reqdata[beg:end]` for every member; `hdr = 2 + 2N` is subtracted from the offsets -/
def memberSlices (reqdata : Bytes) (hdr : Nat) : List Nat → List (Option Bytes)
  | [] => []
  | [o] => [if o < hdr then none else some (reqdata.drop (o - hdr))]
  | o :: o' :: rest =>
    (if o < hdr ∨ o' < hdr then none else some ((reqdata.drop (o - hdr)).take (o' - o)))
      :: memberSlices reqdata hdr (o' :: rest)

/-- the closure of `state_multiple_service` parses the members in order and is abandoned at the first
member that does not parse (its exception is swallowed): the bundle keeps the parsed prefix -/
def parsePrefix : List (Option Bytes) → List Simple
  | [] => []
  | none :: _ => []
  | some b :: rest =>
    match parseSimple b with
    | none => []
    | some s => s :: parsePrefix rest

def parseMultiple (r : Bytes) : Option Req :=
  match parseEpath false r with
  | none => none
  | some (segs, r) =>
    match u 2 r with
    | none => none
    | some (n, r) =>
      match words n r with
      | none => none
      | some (offs, reqdata) =>
        some (.multiple (toPath segs) (parsePrefix (memberSlices reqdata (2 + 2 * n) offs)))

def parseCip : Bytes → Option Req
  | [] => none
  | svc :: r =>
    if svc = Generated.svcMultiple then parseMultiple r
    else (parseSimple (svc :: r)).map Req.simple

/-! ### execution at the object the request was delivered to -/

/-- `Logix.request` / `Message_Router.request` for a Multiple Service Packet arriving at `at_` -/
def execMultipleAt (d : Dev) (at_ : Nat × Nat) (p : Path) (reqs : List Simple) : Dev × Option Reply :=
  let at1 := (routeTarget d at_ p).getD at_
  match resolve d.symbols .no p with
  | none => (d, some (errReply svcMulti 0x16))
  | some _ =>
    let (d', rs) := execMembers d at1 reqs
    match rs.mapM encodeReply with
    | none => (d', none)
    | some ms => (d', some { svc := svcMulti, status := 0, raw := encodeMultiple ms })

def execAt (d : Dev) (at_ : Nat × Nat) : Req → Dev × Option Bytes
  | .simple s => let (d', r) := execSimpleAt d at_ s; (d', encodeReply r)
  | .multiple p reqs => let (d', r) := execMultipleAt d at_ p reqs; (d', r.bind encodeReply)

/-! ### encapsulation and Common Packet Format -/

structure Enip where
  command : Nat
  session : Nat
  status : Nat
  context : Bytes
  options : Nat
  input : Bytes
deriving Repr, DecidableEq

/-- `enip_machine` on exactly one complete frame -/
def parseEnip (bs : Bytes) : Option Enip :=
  match u 2 bs with
  | none => none
  | some (cmd, r) =>
    match u 2 r with
    | none => none
    | some (len, r) =>
      match u 4 r with
      | none => none
      | some (ses, r) =>
        match u 4 r with
        | none => none
        | some (st, r) =>
          match take 8 r with
          | none => none
          | some (ctx, r) =>
            match u 4 r with
            | none => none
            | some (opt, r) =>
              if r.length = len then
                some { command := cmd, session := ses, status := st, context := ctx, options := opt, input := r }
              else none

/-- `enip_encode` -/
def produceEnip (e : Enip) : Bytes :=
  Bytes.le 2 e.command ++ Bytes.le 2 e.input.length ++ Bytes.le 4 e.session ++ Bytes.le 4 e.status
    ++ e.context ++ Bytes.le 4 e.options ++ e.input

inductive Unconn
  | bare (req : Bytes)
  | usend (path : List PSeg) (prio ticks : Nat) (req : Bytes) (route : List PSeg)
deriving Repr, DecidableEq

inductive Body
  | none                                  -- length 0: no sub-parser runs
  | connId (id : Nat)
  | connData (seq : Nat) (req : Bytes)
  | unconn (u : Unconn)
  | raw (bs : Bytes)                      -- unrecognized item type
deriving Repr, DecidableEq

structure Item where
  ty : Nat
  len : Nat
  body : Body
deriving Repr, DecidableEq

/-- `unconnected_send` parser: 0x52 starts an Unconnected Send, anything else is an opaque request -/
def parseUnconn (d : Bytes) : Option Unconn :=
  match d with
  | [] => none
  | b :: rest =>
    if b = Generated.iopUnconnectedSend then
      match parseEpath false rest with
      | none => none
      | some (path, r) =>
        match u 1 r with
        | none => none
        | some (prio, r) =>
          match u 1 r with
          | none => none
          | some (ticks, r) =>
            match u 2 r with
            | none => none
            | some (len, r) =>
              match take len r with
              | none => none
              | some (req, r) =>
                match (if len % 2 = 1 then skip1 r else some r) with
                | none => none
                | some r =>
                  match parseEpath true r with
                  | none => none
                  | some (route, r) => if r = [] then some (.usend path prio ticks req route) else none
    else if b = Generated.iopUnconnectedSend + 128 then none
    else some (.bare d)

def parseItem (bs : Bytes) : Option (Item × Bytes) :=
  match u 2 bs with
  | none => none
  | some (ty, r) =>
    match u 2 r with
    | none => none
    | some (len, r) =>
      match take len r with
      | none => none
      | some (d, r') =>
        if len = 0 then some ({ ty := ty, len := 0, body := .none }, r')
        else if ty = Generated.iopCpfConnectionId then
          (if len = 4 then some ({ ty := ty, len := len, body := .connId (Bytes.leNat d) }, r') else none)
        else if ty = Generated.iopCpfConnectionData then
          match u 2 d with
          | none => none
          | some (seq, req) => if req = [] then none else some ({ ty := ty, len := len, body := .connData seq req }, r')
        else if ty = Generated.iopCpfUnconnected then
          match parseUnconn d with
          | none => none
          | some un => some ({ ty := ty, len := len, body := .unconn un }, r')
        else if Generated.iopCpfParsed.contains ty then none
        else some ({ ty := ty, len := len, body := .raw d }, r')

def parseItems : Nat → Bytes → Option (List Item × Bytes)
  | 0, bs => some ([], bs)
  | n + 1, bs =>
    match parseItem bs with
    | none => none
    | some (it, r) =>
      match parseItems n r with
      | none => none
      | some (its, r') => some (it :: its, r')

structure SendData where
  iface : Nat
  timeout : Nat
  items : List Item
deriving Repr, DecidableEq

def parseSendData (bs : Bytes) : Option SendData :=
  match u 4 bs with
  | none => none
  | some (iface, r) =>
    match u 2 r with
    | none => none
    | some (timeout, r) =>
      match u 2 r with
      | none => none
      | some (count, r) =>
        match parseItems count r with
        | none => none
        | some (items, r) => if r = [] then some { iface := iface, timeout := timeout, items := items } else none

/-- `CPF.produce` of one item; `none` = a recognized item type without its parsed content (KeyError) -/
def produceItem (it : Item) : Option Bytes :=
  let wrap := fun (d : Bytes) => some (Bytes.le 2 it.ty ++ Bytes.le 2 d.length ++ d)
  match it.body with
  | .connId id => wrap (Bytes.le 4 id)
  | .connData seq rep => wrap (Bytes.le 2 seq ++ rep)
  | .unconn (.bare rep) => wrap rep
  | .unconn (.usend ..) => none
  | .raw d => wrap d
  | .none => if Generated.iopCpfParsed.contains it.ty then none else some (Bytes.le 2 it.ty ++ Bytes.le 2 0)

def produceItems : List Item → Option Bytes
  | [] => some []
  | it :: rest =>
    match produceItem it, produceItems rest with
    | some a, some b => some (a ++ b)
    | _, _ => none

def produceSendData (sd : SendData) : Option Bytes :=
  (produceItems sd.items).map fun b =>
    Bytes.le 4 sd.iface ++ Bytes.le 2 sd.timeout ++ Bytes.le 2 sd.items.length ++ b

/-! ### Connection Manager -/

/-- an entry of `Connection_Manager.forwards` of this peer, keyed by the O->T connection id -/
structure Fwd where
  connId : Nat
  serial : Nat
  otNcp : Nat
  otRpi : Nat
  toNcp : Nat
  toRpi : Nat
  tct : Nat
  cpath : List PSeg
deriving Repr, DecidableEq

structure St where
  dev : Dev
  fwds : List Fwd := []
deriving Repr, DecidableEq

/-- the values the real server draws at random -/
structure Rnd where
  session : Nat := 1
  otId : Nat := 0
  toId : Nat := 0
deriving Repr, DecidableEq

def cm : Nat × Nat := (Generated.iopCmClass, 1)

/-- `Connection_decode` tells `defaults.Connection` which layout the service uses: the Large Forward Open's
32-bit word (flags shifted left by 16, 16-bit size) or the 16-bit word (9-bit size) (repo fix dc32001) -/
def ncpShift (large : Bool) : Nat := if large then 16 else 0
def ncpSize (large : Bool) (ncp : Nat) : Nat := if large then ncp % 65536 else ncp % 512
def ncpType (large : Bool) (ncp : Nat) : Nat := (ncp / 2 ^ (13 + ncpShift large)) % 4
/-- the NCP re-encoded from its decoded fields (reserved bits are lost) -/
def ncpNorm (large : Bool) (ncp : Nat) : Nat :=
  let sh := ncpShift large
  (((ncp / 2 ^ (9 + sh)) % 2) * 2 ^ 9 + ((ncp / 2 ^ (10 + sh)) % 4) * 2 ^ 10
    + ((ncp / 2 ^ (13 + sh)) % 4) * 2 ^ 13 + ((ncp / 2 ^ (15 + sh)) % 2) * 2 ^ 15) * 2 ^ sh + ncpSize large ncp

structure FoReq where
  svc : Nat
  otId : Nat
  toId : Nat
  serial : Nat
  vendor : Nat
  oserial : Nat
  otRpi : Nat
  otNcp : Nat
  toRpi : Nat
  toNcp : Nat
  tct : Nat
  cpath : List PSeg
deriving Repr, DecidableEq

def parseFwdOpen (req : Bytes) : Option FoReq :=
  match req with
  | [] => none
  | svc :: r =>
    let w := if svc = Generated.iopSvcFwdOpenLarge then 4 else 2
    match parseEpath false r with
    | none => none
    | some (_, r) =>
    match u 1 r with
    | none => none
    | some (_, r) =>
    match u 1 r with
    | none => none
    | some (_, r) =>
    match u 4 r with
    | none => none
    | some (otId, r) =>
    match u 4 r with
    | none => none
    | some (toId, r) =>
    match u 2 r with
    | none => none
    | some (serial, r) =>
    match u 2 r with
    | none => none
    | some (vendor, r) =>
    match u 4 r with
    | none => none
    | some (oserial, r) =>
    match take 4 r with
    | none => none
    | some (_, r) =>
    match u 4 r with
    | none => none
    | some (otRpi, r) =>
    match u w r with
    | none => none
    | some (otNcp, r) =>
    match u 4 r with
    | none => none
    | some (toRpi, r) =>
    match u w r with
    | none => none
    | some (toNcp, r) =>
    match u 1 r with
    | none => none
    | some (tct, r) =>
    match parseEpath false r with
    | none => none
    | some (cpath, _) =>
      some { svc := svc, otId := otId, toId := toId, serial := serial, vendor := vendor, oserial := oserial,
             otRpi := otRpi, otNcp := otNcp, toRpi := toRpi, toNcp := toNcp, tct := tct, cpath := cpath }

/-- serial, vendor, originator serial -/
def parseFwdClose (req : Bytes) : Option (Nat × Nat × Nat) :=
  match req with
  | [] => none
  | _ :: r =>
    match parseEpath false r with
    | none => none
    | some (_, r) =>
    match u 1 r with
    | none => none
    | some (_, r) =>
    match u 1 r with
    | none => none
    | some (_, r) =>
    match u 2 r with
    | none => none
    | some (serial, r) =>
    match u 2 r with
    | none => none
    | some (vendor, r) =>
    match u 4 r with
    | none => none
    | some (oserial, r) =>
    match parseEpath true r with
    | none => none
    | some (_, _) => some (serial, vendor, oserial)

def foFailure (fo : FoReq) : Bytes :=
  [fo.svc + 128, 0, 8, 0] ++ Bytes.le 2 fo.serial ++ Bytes.le 2 fo.vendor ++ Bytes.le 4 fo.oserial

/-- `Connection_Manager.forward_open` and the reply `produce` -/
def forwardOpen (st : St) (rnd : Rnd) (fo : FoReq) : St × Bytes :=
  -- defaults.Connection( **decoding ) asserts 0 < size
  let large := fo.svc == Generated.iopSvcFwdOpenLarge
  if ncpSize large fo.otNcp = 0 ∨ ncpSize large fo.toNcp = 0 then (st, foFailure fo) else
  let otId := if ncpType large fo.otNcp = 2 then rnd.otId else fo.otId     -- point-to-point: the target picks
  let toId := if ncpType large fo.toNcp = 1 then rnd.toId else fo.toId     -- multicast: the target picks
  let entry : Fwd := { connId := otId, serial := fo.serial, otNcp := ncpNorm large fo.otNcp, otRpi := fo.otRpi,
                       toNcp := ncpNorm large fo.toNcp, toRpi := fo.toRpi, tct := fo.tct, cpath := fo.cpath }
  let ok := [fo.svc + 128, 0, 0, 0] ++ Bytes.le 4 otId ++ Bytes.le 4 toId ++ Bytes.le 2 fo.serial
    ++ Bytes.le 2 fo.vendor ++ Bytes.le 4 fo.oserial ++ Bytes.le 4 fo.otRpi ++ Bytes.le 4 fo.toRpi ++ [0, 0]
  match st.fwds.find? (fun f => f.connId == otId) with
  | some f =>
    if f.otNcp = entry.otNcp ∧ f.otRpi = entry.otRpi ∧ f.toNcp = entry.toNcp ∧ f.toRpi = entry.toRpi
        ∧ f.tct = entry.tct ∧ f.cpath = entry.cpath then (st, ok)
    else (st, foFailure fo)
  | none => ({ st with fwds := st.fwds ++ [entry] }, ok)

/-- `Connection_Manager.forward_close`: every entry of this peer with that connection serial goes -/
def forwardClose (st : St) (serial vendor oserial : Nat) : St × Bytes :=
  ({ st with fwds := st.fwds.filter (fun f => f.serial != serial) },
   [Generated.iopSvcFwdClose + 128, 0, 0, 0] ++ Bytes.le 2 serial ++ Bytes.le 2 vendor ++ Bytes.le 4 oserial ++ [0, 0])

/-- the Connection Manager's own services -/
def cmService (st : St) (rnd : Rnd) (req : Bytes) : St × Option Bytes :=
  match req with
  | [] => (st, none)
  | svc :: _ =>
    if svc = Generated.iopSvcFwdOpen ∨ svc = Generated.iopSvcFwdOpenLarge then
      match parseFwdOpen req with
      | none => (st, none)
      | some fo => let (st', rep) := forwardOpen st rnd fo; (st', some rep)
    else if svc = Generated.iopSvcFwdClose then
      match parseFwdClose req with
      | none => (st, none)
      | some (serial, vendor, oserial) => let (st', rep) := forwardClose st serial vendor oserial; (st', some rep)
    else (st, none)

/-- the object a request is delivered to.  `fixed = false` is the code before the `fix:` commit: a path
that does not resolve to an existing object is an exception (the session ends with status 0x08);
repaired: the Message Router answers. -/
def targetOf (fixed : Bool) (d : Dev) (tp : List PSeg) : Option (Nat × Nat) :=
  let fallback := if fixed ∧ (d.obj? router.1 router.2).isSome then some router else none
  match resolve d.symbols .no (toPath tp) with
  | some (c, i, _) => if (c, i) = cm ∨ (d.obj? c i).isSome then some (c, i) else fallback
  | none => fallback

/-- `Connection_Manager.request` for a request that is not yet parsed: find the target object (from the
connection's path for a known connection id, else from the request's own path), let it parse and execute -/
def cmRequest (fixed : Bool) (st : St) (rnd : Rnd) (conn : Option Nat) (req : Bytes) : St × Option Bytes :=
  let fw := conn.bind fun id => st.fwds.find? (fun f => f.connId == id)
  let (st, tp) : St × Option (List PSeg) :=
    match fw with
    | some f =>
      -- leading port segments are popped off the *stored* connection path
      let tp := f.cpath.dropWhile PSeg.isPort
      ({ st with fwds := st.fwds.map fun g => if g.connId = f.connId then { g with cpath := tp } else g }, some tp)
    | none =>
      match req with
      | [] => (st, none)
      | _ :: r => (st, (parseEpath false r).map (·.1))
  match tp with
  | none => (st, none)
  | some tp =>
    match targetOf fixed st.dev tp with
    | none => (st, none)
    | some t =>
      if t = cm then cmService st rnd req
      else
        match parseCip req with
        | none => (st, none)
        | some r => let (d', out) := execAt st.dev t r; ({ st with dev := d' }, out)

/-! ### UCMM -/

/-- `UCMM.request` for SendRRData / SendUnitData; `none` = an exception (encapsulation status 0x08) -/
def ucmmSend (fixed : Bool) (st : St) (rnd : Rnd) (sd : SendData) : St × Option SendData :=
  match sd.items with
  | [i0, i1] =>
    if 0 < i0.len then
      match i0.body, i1.body with
      | .connId id, .connData seq req =>
        match cmRequest fixed st rnd (some id) req with
        | (st', some rep) => (st', some { sd with items := [i0, { i1 with body := .connData seq rep }] })
        | (st', none) => (st', none)
      | _, _ => (st, none)
    else
      match i1.body with
      | .unconn (.bare req) =>
        match cmRequest fixed st rnd none req with
        | (st', some rep) => (st', some { sd with items := [i0, { i1 with body := .unconn (.bare rep) }] })
        | (st', none) => (st', none)
      | .unconn (.usend path _ _ req _) =>
        -- no configured route path: any route is accepted; the Unconnected Send must address the CM
        match resolve st.dev.symbols .no (toPath path) with
        | some (c, i, _) =>
          if (c, i) = cm then
            match cmRequest fixed st rnd none req with
            | (st', some rep) => (st', some { sd with items := [i0, { i1 with body := .unconn (.bare rep) }] })
            | (st', none) => (st', none)
          else (st, none)
        | none => (st, none)
      | _ => (st, none)
  | _ => (st, none)

/-- what the connection thread does with one frame -/
inductive Out
  | reply (bs : Bytes)        -- sent; the session continues
  | fail (bs : Bytes)         -- sent with a non-zero encapsulation status; the server closes the session
  | closed                    -- nothing sent, session closed (Unregister)
  | drop                      -- not parsed: the connection is dropped without a reply
deriving Repr, DecidableEq

def serveWith (fixed : Bool) (st : St) (rnd : Rnd) (frame : Bytes) : St × Out :=
  match parseEnip frame with
  | none => (st, .drop)
  | some e =>
    if e.command = Generated.iopCmdRegister then
      match u 2 e.input with
      | none => (st, .drop)
      | some (ver, r) =>
        match u 2 r with
        | none => (st, .drop)
        | some (opts, r) =>
          if r = [] then
            (st, .reply (produceEnip { e with session := rnd.session, status := 0, input := Bytes.le 2 ver ++ Bytes.le 2 opts }))
          else (st, .drop)
    else if e.command = Generated.iopCmdUnregister then (st, .closed)
    else if Generated.iopCmdSendData.contains e.command then
      match parseSendData e.input with
      | none => (st, .drop)
      | some sd =>
        match ucmmSend fixed st rnd sd with
        | (st', some sd') =>
          match produceSendData sd' with
          | some payload =>
            let bs := produceEnip { e with input := payload }
            (st', if e.status = 0 then .reply bs else .fail bs)
          | none => (st', .fail (produceEnip { e with status := (if e.status = 0 then 8 else e.status), input := [] }))
        | (st', none) => (st', .fail (produceEnip { e with status := (if e.status = 0 then 8 else e.status), input := [] }))
    else (st, .drop)

/-- the repaired server -/
def serve := serveWith true
/-- the server before the `fix:` commit (unresolvable unconnected request paths end the session) -/
def serveOld := serveWith false

/-- EOF on the socket: `Connection_Manager.request( {} )` purges the peer's forwards -/
def endSession (st : St) : St := { st with fwds := [] }

end Cpppo.Srv
