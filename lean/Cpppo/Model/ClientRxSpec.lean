import Cpppo.Model.ClientRx
/-!
Specification-level vocabulary for the client receive model (C13): the peer's reply stream as a list of
frames, the cut at byte offset `k`, and the decidable hypotheses of the cut theorems.  Import-free apart
from the model (the driver evaluates the hypotheses and the theorems' right-hand sides on real streams).
-/
namespace Cpppo.ClientRx

/-- the data blocks that arrive before the next EOF / silence -/
def joinData : List Ev → Bytes
  | .data bs :: evs => bs ++ joinData evs
  | _ => []

/-- the events from the next EOF / silence on -/
def afterData : List Ev → List Ev
  | .data _ :: evs => afterData evs
  | evs => evs

/-- the reply stream of a peer: its frames, one after the other -/
def stream (fs : List Frame) : Bytes := fs.flatMap encodeFrame

/-- how many frames lie wholly inside the first `k` bytes of the stream -/
def whole : Nat → List Frame → Nat
  | _, [] => 0
  | k, f :: fs => if (encodeFrame f).length ≤ k then whole (k - (encodeFrame f).length) fs + 1 else 0

/-- how many bytes of the frame that the cut falls into were delivered (0: the cut is between frames,
or behind the end) -/
def leftover : Nat → List Frame → Nat
  | _, [] => 0
  | k, f :: fs => if (encodeFrame f).length ≤ k then leftover (k - (encodeFrame f).length) fs else k

/-- the (context, reply) records `collect` makes of a frame -/
def colsOf (P : Frame → Resp) (f : Frame) : List Col :=
  match P f with
  | .replies ctx rs => rs.map fun r => (ctx, r)
  | .error _ => []

/-- the event that ends the delivered prefix: the connection is closed, or stays silent -/
def termEv (closed : Bool) : Ev := if closed then .eof else .quiet

/-- how `harvest` ends when the replies run out before the requests do -/
def cutEnd (closed : Bool) (left : Nat) : HEnd :=
  if left = 0 then .stopped false else if closed then .raised .rxerror else .stopped true

/-- the frame parses to at least one reply -/
def hasReplies : Resp → Bool
  | .replies _ (_ :: _) => true
  | _ => false

/-- every frame is well-formed and carries at least one reply -/
def Served (P : Frame → Resp) (fs : List Frame) : Prop :=
  ∀ f ∈ fs, f.WF ∧ hasReplies (P f) = true

instance (P : Frame → Resp) (fs : List Frame) : Decidable (Served P fs) := by
  unfold Served; infer_instance

/-- reply `n` answers request `n` (context echoed, service = request | 0x80), as far as both exist -/
def AllMatch (is : List Iss) (cs : List Col) : Prop := ∀ p ∈ is.zip cs, Matches p.1 p.2

instance (is : List Iss) (cs : List Col) : Decidable (AllMatch is cs) := by
  unfold AllMatch; infer_instance

def mkRes (p : Iss × Col) : Res := { iss := p.1, ctx := p.2.1, rpy := p.2.2 }

/-- how the consumer sees the end of `harvest` in (the repaired) `synchronous` and in `pipeline` -/
def endOfH : HEnd → End
  | .exhausted => .ok
  | .stopped _ => .error .incomplete
  | .raised e => .error e

/-- the zip of `harvest` on the list level: pair while the assertion holds; a mismatch raises; when the
replies run out before the requests the stream ends as `e` says -/
def zipSpec : List Iss → List Col → HEnd → List Res × HEnd
  | [], _, _ => ([], .exhausted)
  | _ :: _, [], e => ([], e)
  | i :: is, c :: cs, e =>
    if Matches i c then (mkRes (i, c) :: (zipSpec is cs e).1, (zipSpec is cs e).2)
    else ([], .raised .mismatch)

/-- the delivered prefix, all of it buffered, then EOF or silence -/
def cutState (fs : List Frame) (k : Nat) (closed : Bool) : CSt :=
  { pend := [], buf := (stream fs).take k, evs := [termEv closed] }

/-- how the result stream ends when the replies run out before the requests do -/
def cutErr (closed : Bool) (left : Nat) : Err :=
  if left = 0 then .incomplete else if closed then .rxerror else .incomplete

/-- a successful Register reply -/
def IsRegister (reg : Frame) : Prop := reg.WF ∧ reg.status = 0 ∧ reg.cmd = cmdRegister

instance (reg : Frame) : Decidable (IsRegister reg) := by unfold IsRegister; infer_instance


/-- `connector( ... )` then `pipeline( ... )` on a connection that will deliver `evs` -/
def exchange (P : Frame → Resp) (depth : Nat) (issued : List Iss) (evs : List Ev) :
    Except ConnErr (List Res × End) :=
  match connect evs with
  | .error e => .error e
  | .ok st => .ok ((pipeline P depth 0 issued st).1, (pipeline P depth 0 issued st).2.1)

/-- what `exchange_cut` says an exchange cut at offset `k` of `reg :: fs` gives -/
def exchangeCutSpec (P : Frame → Resp) (issued : List Iss) (reg : Frame) (fs : List Frame) (k : Nat)
    (closed : Bool) : Except ConnErr (List Res × End) :=
  if (encodeFrame reg).length ≤ k then
    .ok ((issued.zip ((fs.take (whole (k - (encodeFrame reg).length) fs)).flatMap (colsOf P))).map mkRes,
         if issued.length ≤ ((fs.take (whole (k - (encodeFrame reg).length) fs)).flatMap (colsOf P)).length
         then .ok else .error (cutErr closed (leftover (k - (encodeFrame reg).length) fs)))
  else .error (if k = 0 then (if closed then .noenip else .noresponse)
               else (if closed then .rxerror else .partialHeld))

/-- what `exchange_zip_segmented` says an exchange cut at offset `k` of `reg :: fs` gives, whether or not the
replies answer the requests -/
def exchangeZipSpec (P : Frame → Resp) (issued : List Iss) (reg : Frame) (fs : List Frame) (k : Nat)
    (closed : Bool) : Except ConnErr (List Res × End) :=
  if (encodeFrame reg).length ≤ k then
    .ok ((zipSpec issued ((fs.take (whole (k - (encodeFrame reg).length) fs)).flatMap (colsOf P))
            (cutEnd closed (leftover (k - (encodeFrame reg).length) fs))).1,
         endOfH (zipSpec issued ((fs.take (whole (k - (encodeFrame reg).length) fs)).flatMap (colsOf P))
            (cutEnd closed (leftover (k - (encodeFrame reg).length) fs))).2)
  else .error (if k = 0 then (if closed then .noenip else .noresponse)
               else (if closed then .rxerror else .partialHeld))

/-- a successful List Identity reply -/
def IsIdentity (f : Frame) : Prop := f.WF ∧ f.status = 0 ∧ f.cmd = cmdListIdentity

instance (f : Frame) : Decidable (IsIdentity f) := by unfold IsIdentity; infer_instance

/-- the replies of the gateway-opening phase: Register, and List Identity when the proxy identifies the device -/
def openFrames (ident : Bool) (reg idf : Frame) : List Frame := if ident then [reg, idf] else [reg]

/-- `with proxy:` on a proxy without a gateway, on a connection that will deliver `evs`:
`open_gateway`, then the operations -/
def proxyExchange (P : Frame → Resp) (ident : Bool) (depth : Nat) (issued : List Iss) (evs : List Ev) :
    Except OpenErr (List Res × End) :=
  match openGateway ident evs with
  | .error e => .error e
  | .ok st => .ok ((pipeline P depth 0 issued st).1, (pipeline P depth 0 issued st).2.1)

/-- all complete frames at the front of `bs` (fuel: the number of bytes suffices) -/
def splitFrames : Nat → Bytes → List Frame
  | 0, _ => []
  | fuel + 1, bs =>
    match takeFrame bs with
    | none => []
    | some (f, rest) => f :: splitFrames fuel rest

end Cpppo.ClientRx
