/-
Model of the input iterators of `automata.py` (property C10):

  `peeking`   (automata.py:142-190)  `_back` push-back stack, `_iter`, `_sent`
  `chaining`  (automata.py:193-230)  adds `_chain`, a queue of further iterables

Concrete state `Source` mirrors the attributes one for one:
  back  : the `_back` stack, top at the head            (Python: `_back[-1]`)
  cur   : what is left in `_iter`
  chain : `_chain` exactly as Python holds it: `chain(x)` does `insert(0, x)`, `__next__` takes
          `_chain[-1]` (the oldest block) and pops it
  sent  : `_sent`, an `Int` (a `push` without a preceding `next` makes it negative)

The abstract view (`ASrc`) is the sequence of symbols still to be delivered, plus `sent`; it is what
the parsing engine (`Model/Engine.lean`) runs on.  `Proofs/Source.lean` shows every concrete
operation acts on the view as the abstract one (refinement), for all operation sequences.
No imports: this file is linked into the `cpppo_model` driver.
-/
namespace Cpppo.Source

abbrev Sym := Nat

structure Source where
  back  : List Sym := []
  cur   : List Sym := []
  chain : List (List Sym) := []
  sent  : Int := 0
deriving Repr, DecidableEq

/-- `peeking.push` : `_back.append(item); _sent -= 1` -/
def Source.push (s : Source) (x : Sym) : Source :=
  { s with back := x :: s.back, sent := s.sent - 1 }

/-- `chaining.chain` : `_chain.insert(0, iterable)` -/
def Source.chainBlock (s : Source) (b : List Sym) : Source :=
  { s with chain := b :: s.chain }

/-- The `while self._chain:` loop of `chaining.__next__`, on the queue listed oldest block first:
empty blocks are skipped (and dropped), the first non-empty one becomes `_iter`. -/
def pull : List (List Sym) → Option (Sym × List Sym × List (List Sym))
  | [] => none
  | [] :: bs => pull bs
  | (x :: xs) :: bs => some (x, xs, bs)

/-- `chaining.__next__`: a pushed-back symbol first, then the current iterator, then the chained
blocks in arrival order.  `none` is `StopIteration` (the queue is then empty, `_iter` exhausted). -/
def Source.next (s : Source) : Option Sym × Source :=
  match s.back with
  | x :: b => (some x, { s with back := b, sent := s.sent + 1 })
  | [] =>
    match s.cur with
    | x :: c => (some x, { s with cur := c, sent := s.sent + 1 })
    | [] =>
      match pull s.chain.reverse with
      | some (x, xs, bs) => (some x, { s with cur := xs, chain := bs.reverse, sent := s.sent + 1 })
      | none => (none, { s with cur := [], chain := [] })

/-- `peeking.peek`: `if not self._back: self.push(next(self))` (or `None` at the end), then
`_back[-1]`. -/
def Source.peek (s : Source) : Option Sym × Source :=
  match s.back with
  | x :: _ => (some x, s)
  | [] =>
    match s.next with
    | (some x, s') => (some x, s'.push x)
    | (none, s') => (none, s')

/-! ### the abstract view -/

/-- What the consumers of a source can observe: the symbols still to come, and `sent`. -/
structure ASrc where
  rest : List Sym := []
  sent : Int := 0
deriving Repr, DecidableEq

def ASrc.peek (a : ASrc) : Option Sym := a.rest.head?

def ASrc.next (a : ASrc) : Option Sym × ASrc :=
  match a.rest with
  | [] => (none, a)
  | x :: r => (some x, { rest := r, sent := a.sent + 1 })

def ASrc.push (a : ASrc) (x : Sym) : ASrc := { rest := x :: a.rest, sent := a.sent - 1 }

def ASrc.chainBlock (a : ASrc) (b : List Sym) : ASrc := { a with rest := a.rest ++ b }

/-- the view of a concrete source -/
def Source.view (s : Source) : List Sym := s.back ++ s.cur ++ s.chain.reverse.flatten

def Source.abs (s : Source) : ASrc := { rest := s.view, sent := s.sent }

/-! ### operation sequences (used by the refinement theorem and by the correspondence driver) -/

inductive Op where
  | next
  | peek
  | push (x : Sym)
  | chain (b : List Sym)
deriving Repr, DecidableEq

/-- one concrete operation; the `Option Sym` is what Python returns (`none` for `push`/`chain`,
and for `StopIteration` / `None`) -/
def Source.step (s : Source) : Op → Option Sym × Source
  | .next => s.next
  | .peek => s.peek
  | .push x => (none, s.push x)
  | .chain b => (none, s.chainBlock b)

def ASrc.step (a : ASrc) : Op → Option Sym × ASrc
  | .next => a.next
  | .peek => (a.peek, a)
  | .push x => (none, a.push x)
  | .chain b => (none, a.chainBlock b)

/-- run a whole sequence, collecting the outputs -/
def Source.steps (s : Source) : List Op → List (Option Sym) × Source
  | [] => ([], s)
  | o :: os =>
    let (r, s') := s.step o
    let (rs, s'') := s'.steps os
    (r :: rs, s'')

def ASrc.steps (a : ASrc) : List Op → List (Option Sym) × ASrc
  | [] => ([], a)
  | o :: os =>
    let (r, a') := a.step o
    let (rs, a'') := a'.steps os
    (r :: rs, a'')

/-- number of symbols actually delivered by `next` in a run (outputs paired with the operations) -/
def countNext : List Op → List (Option Sym) → Nat
  | .next :: os, some _ :: rs => countNext os rs + 1
  | _ :: os, _ :: rs => countNext os rs
  | _, _ => 0

def countPush : List Op → Nat
  | [] => 0
  | .push _ :: os => countPush os + 1
  | _ :: os => countPush os

end Cpppo.Source
