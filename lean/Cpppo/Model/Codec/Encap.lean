import Cpppo.Model.Codec.Prim
/-
EtherNet/IP encapsulation layer of the codec: the 24-byte header, the commands (Register, Unregister,
List Services / Identity / Interfaces, Legacy 0x0001, SendRRData / SendUnitData), the Common Packet
Format with its item types, and the Unconnected Send wrapper.  Model of enip_header / enip_machine /
enip_encode, CIP, send_data, register, CPF_service, CPF and its ITEM_PARSERS, unconnected_send in
server/enip/parser.py — written from the layout tables, sharing nothing with the Python code.
-/
namespace Cpppo.Codec
open Cpppo

/-! ### frame -/

structure Header where
  command : Nat
  session : Nat
  status  : Nat
  context : Bytes          -- 8 octets
  options : Nat
deriving Repr, DecidableEq

structure Frame where
  hdr     : Header
  payload : Bytes
deriving Repr, DecidableEq

def encodeFrame (f : Frame) : Bytes :=
  Bytes.le 2 f.hdr.command ++ Bytes.le 2 f.payload.length ++ Bytes.le 4 f.hdr.session
    ++ Bytes.le 4 f.hdr.status ++ f.hdr.context ++ Bytes.le 4 f.hdr.options ++ f.payload

def decodeFrame (bs : Bytes) : Option (Frame × Bytes) :=
  match takeLE 2 bs with
  | none => none
  | some (cmd, bs) =>
  match takeLE 2 bs with
  | none => none
  | some (len, bs) =>
  match takeLE 4 bs with
  | none => none
  | some (sess, bs) =>
  match takeLE 4 bs with
  | none => none
  | some (st, bs) =>
  match takeN 8 bs with
  | none => none
  | some (ctx, bs) =>
  match takeLE 4 bs with
  | none => none
  | some (opt, bs) =>
  match takeN len bs with
  | none => none
  | some (pl, rest) =>
    some ({ hdr := { command := cmd, session := sess, status := st, context := ctx, options := opt },
            payload := pl }, rest)

/-! ### Unconnected Send (CPF item 0x00B2 body) -/

inductive USend
  | send (path : List Seg) (priority ticks : Nat) (request : Bytes) (route : List Seg)   -- service 0x52
  | error (status : Status)          -- 0xD2 reply of ≤ 6 bytes with status < 0x10 and no extended status
  | other (request : Bytes)          -- anything else: passed through unparsed
deriving Repr, DecidableEq

def encodeUSend : USend → Bytes
  | .send path prio ticks req route =>
    [0x52] ++ encodeEpath .plain path ++ [prio, ticks] ++ Bytes.le 2 req.length ++ req
      ++ (if req.length % 2 = 1 then [0] else []) ++ encodeEpath .padded route
  | .error st => [0xD2, 0] ++ encodeStatus st
  | .other req => req

/-- `len` is the CPF item length (the `is_uerr` predicate looks at it) -/
def decodeUSend (bs : Bytes) : Option USend :=
  match bs with
  | 0x52 :: rest =>
    match decodeEpath false rest with
    | none => none
    | some (path, rest) =>
      match rest with
      | prio :: ticks :: rest =>
        match takeLE 2 rest with
        | none => none
        | some (n, rest) =>
          match takeN n rest with
          | none => none
          | some (req, rest) =>
            match dropPad (n % 2 = 1) rest with
            | none => none
            | some rest =>
              match decodeEpath true rest with
              | some (route, []) => some (.send path prio ticks req route)
              | _ => none
      | _ => none
  | 0xD2 :: _pad :: sts :: ext :: rest =>
    if bs.length ≤ 6 ∧ sts < 0x10 ∧ ext = 0 then
      (if rest.isEmpty then some (.error { code := sts, ext := [] }) else none)
    else if bs.isEmpty then none else some (.other bs)
  | _ => if bs.isEmpty then none else some (.other bs)

/-! ### CPF -/

structure Identity where
  (version family port addr : Nat)
  (vendor devType product revision statusWord serial : Nat)
  name : Bytes
  state : Option Nat           -- trailing state byte (0xFF when absent at produce time)
  extra : Bytes
deriving Repr, DecidableEq

structure Legacy1 where
  (version unknown1 family port addr : Nat)
  ip : Bytes                   -- ASCII dotted quad, 1..16 non-NUL bytes, NUL-filled to 16
deriving Repr, DecidableEq

inductive ItemBody
  | empty
  | usend (u : USend)                          -- 0x00B2
  | connId (n : Nat)                           -- 0x00A1
  | connData (seq : Nat) (req : Bytes)         -- 0x00B1
  | commSvc (version capability : Nat) (name : Bytes)   -- 0x0100
  | identity (i : Identity)                    -- 0x000C
  | legacy1 (l : Legacy1)                      -- 0x0001
  | raw (bs : Bytes)                           -- any other type id
deriving Repr, DecidableEq

structure Item where
  typeId : Nat
  body   : ItemBody
deriving Repr, DecidableEq

def encodeIdentity (i : Identity) : Bytes :=
  Bytes.le 2 i.version ++ Bytes.be 2 i.family ++ Bytes.be 2 i.port ++ Bytes.be 4 i.addr
    ++ List.replicate 8 0
    ++ Bytes.le 2 i.vendor ++ Bytes.le 2 i.devType ++ Bytes.le 2 i.product ++ Bytes.le 2 i.revision
    ++ Bytes.le 2 i.statusWord ++ Bytes.le 4 i.serial ++ encodeSString i.name
    ++ [i.state.getD 0xFF] ++ i.extra

def takeBE (k : Nat) (bs : Bytes) : Option (Nat × Bytes) :=
  if bs.length < k then none else some (Bytes.beNat (bs.take k), bs.drop k)

def decodeIdentity (bs : Bytes) : Option Identity :=
  match takeLE 2 bs with
  | none => none
  | some (version, bs) =>
  match takeBE 2 bs with
  | none => none
  | some (family, bs) =>
  match takeBE 2 bs with
  | none => none
  | some (port, bs) =>
  match takeBE 4 bs with
  | none => none
  | some (addr, bs) =>
  match takeN 8 bs with
  | none => none
  | some (_, bs) =>
  match takeLE 2 bs with
  | none => none
  | some (vendor, bs) =>
  match takeLE 2 bs with
  | none => none
  | some (devType, bs) =>
  match takeLE 2 bs with
  | none => none
  | some (product, bs) =>
  match takeLE 2 bs with
  | none => none
  | some (revision, bs) =>
  match takeLE 2 bs with
  | none => none
  | some (statusWord, bs) =>
  match takeLE 4 bs with
  | none => none
  | some (serial, bs) =>
  match decodeSString bs with
  | none => none
  | some (name, bs) =>
    let (state, extra) := match bs with
      | [] => (none, [])
      | s :: rest => (some s, rest)
    some { version, family, port, addr, vendor, devType, product, revision, statusWord, serial,
           name, state, extra }

def encodeLegacy1 (l : Legacy1) : Bytes :=
  Bytes.le 2 l.version ++ Bytes.le 2 l.unknown1 ++ Bytes.be 2 l.family ++ Bytes.be 2 l.port
    ++ Bytes.be 4 l.addr ++ List.replicate 8 0 ++ l.ip ++ List.replicate (16 - l.ip.length) 0

def decodeLegacy1 (bs : Bytes) : Option Legacy1 :=
  match takeLE 2 bs with
  | none => none
  | some (version, bs) =>
  match takeLE 2 bs with
  | none => none
  | some (unknown1, bs) =>
  match takeBE 2 bs with
  | none => none
  | some (family, bs) =>
  match takeBE 2 bs with
  | none => none
  | some (port, bs) =>
  match takeBE 4 bs with
  | none => none
  | some (addr, bs) =>
  match takeN 8 bs with
  | none => none
  | some (_, bs) =>
    let ip := bs.takeWhile (· ≠ 0)
    let rest := bs.dropWhile (· ≠ 0)
    if ip.isEmpty then none
    else if rest.all (· == 0) then some { version, unknown1, family, port, addr, ip } else none

def encodeItemBody : ItemBody → Bytes
  | .empty => []
  | .usend u => encodeUSend u
  | .connId n => Bytes.le 4 n
  | .connData seq req => Bytes.le 2 seq ++ req
  | .commSvc v c name => Bytes.le 2 v ++ Bytes.le 2 c ++ name ++ [0]
  | .identity i => encodeIdentity i
  | .legacy1 l => encodeLegacy1 l
  | .raw bs => bs

def encodeItem (it : Item) : Bytes :=
  let body := encodeItemBody it.body
  Bytes.le 2 it.typeId ++ Bytes.le 2 body.length ++ body

def decodeItemBody (typeId : Nat) (body : Bytes) : Option ItemBody :=
  if body.isEmpty then some .empty
  else if typeId = 0x00B2 then (decodeUSend body).map .usend
  else if typeId = 0x00A1 then
    (match takeLE 4 body with | some (n, []) => some (.connId n) | _ => none)
  else if typeId = 0x00B1 then
    (match takeLE 2 body with
      | some (seq, req) => if req.isEmpty then none else some (.connData seq req)
      | none => none)
  else if typeId = 0x0100 then
    (match takeLE 2 body with
      | none => none
      | some (v, bs) =>
        match takeLE 2 bs with
        | none => none
        | some (c, bs) =>
          let name := bs.takeWhile (· ≠ 0)
          if name.isEmpty then none
          else if bs.dropWhile (· ≠ 0) = [0] then some (.commSvc v c name) else none)
  else if typeId = 0x000C then (decodeIdentity body).map .identity
  else if typeId = 0x0001 then (decodeLegacy1 body).map .legacy1
  else some (.raw body)

def recognised (ty : Nat) : Bool :=
  ty == 0x00B2 || ty == 0x00A1 || ty == 0x00B1 || ty == 0x0100 || ty == 0x000C || ty == 0x0001

def decodeItem (bs : Bytes) : Option (Item × Bytes) :=
  match takeLE 2 bs with
  | none => none
  | some (ty, bs) =>
    match takeLE 2 bs with
    | none => none
    | some (len, bs) =>
      match takeN len bs with
      | none => none
      | some (body, rest) => (decodeItemBody ty body).map fun b => ({ typeId := ty, body := b }, rest)

def decodeItems : Nat → Bytes → Option (List Item × Bytes)
  | 0, bs => some ([], bs)
  | n + 1, bs =>
    match decodeItem bs with
    | none => none
    | some (it, rest) =>
      match decodeItems n rest with
      | none => none
      | some (its, rest) => some (it :: its, rest)

/-- a CPF list; `none` = no CPF at all (the request form of the List* services) -/
def encodeCpf : Option (List Item) → Bytes
  | none => []
  | some items => Bytes.le 2 items.length ++ (items.map encodeItem).flatten

def decodeCpf (bs : Bytes) : Option (Option (List Item)) :=
  if bs.isEmpty then some none
  else match takeLE 2 bs with
    | none => none
    | some (n, rest) =>
      match decodeItems n rest with
      | some (items, []) => some (some items)
      | _ => none

/-! ### commands -/

inductive Cmd
  | register (version options : Nat)                -- 0x0065
  | unregister                                      -- 0x0066
  | sendData (iface timeout : Nat) (cpf : Option (List Item))    -- 0x006F / 0x0070
  | cpfService (cpf : Option (List Item))           -- 0x0001, 0x0004, 0x0063, 0x0064
deriving Repr, DecidableEq

def encodeCmd : Cmd → Bytes
  | .register v o => Bytes.le 2 v ++ Bytes.le 2 o
  | .unregister => []
  | .sendData i t cpf => Bytes.le 4 i ++ Bytes.le 2 t ++ encodeCpf cpf
  | .cpfService cpf => encodeCpf cpf

def decodeCmd (command : Nat) (bs : Bytes) : Option Cmd :=
  if command = 0x0065 then
    (match takeLE 2 bs with
      | none => none
      | some (v, bs) => match takeLE 2 bs with
        | some (o, []) => some (.register v o)
        | _ => none)
  else if command = 0x0066 then (if bs.isEmpty then some .unregister else none)
  else if command = 0x006F ∨ command = 0x0070 then
    (match takeLE 4 bs with
      | none => none
      | some (i, bs) => match takeLE 2 bs with
        | none => none
        | some (t, bs) => (decodeCpf bs).map fun cpf => .sendData i t cpf)
  else if command = 0x0001 ∨ command = 0x0004 ∨ command = 0x0063 ∨ command = 0x0064 then
    (decodeCpf bs).map .cpfService
  else none

/-- a whole message: header + parsed command -/
structure Message where
  hdr : Header
  cmd : Cmd
deriving Repr, DecidableEq

def encodeMessage (m : Message) : Bytes := encodeFrame { hdr := m.hdr, payload := encodeCmd m.cmd }

def decodeMessage (bs : Bytes) : Option (Message × Bytes) :=
  match decodeFrame bs with
  | none => none
  | some (f, rest) => (decodeCmd f.hdr.command f.payload).map fun c => ({ hdr := f.hdr, cmd := c }, rest)

end Cpppo.Codec
