import Cpppo.Model.Bytes
/-
Wire-level primitives of the EtherNet/IP CIP codec (model of server/enip/parser.py, written from the CIP
layout tables): little-endian integers, SSTRING / STRING, CIP status, EPATH (plain / padded / single).
Encoders return the bytes; decoders consume a prefix and return `(value, rest)`.
-/
namespace Cpppo.Codec
open Cpppo

/-- take a `k`-byte little-endian unsigned integer -/
def takeLE (k : Nat) (bs : Bytes) : Option (Nat × Bytes) :=
  if bs.length < k then none else some (Bytes.leNat (bs.take k), bs.drop k)

/-- take exactly `n` bytes -/
def takeN (n : Nat) (bs : Bytes) : Option (Bytes × Bytes) :=
  if bs.length < n then none else some (bs.take n, bs.drop n)

/-! ### SSTRING (1-byte length) and STRING (2-byte length, padded to even) -/

def encodeSString (s : Bytes) : Bytes := s.length :: s

def decodeSString (bs : Bytes) : Option (Bytes × Bytes) :=
  match bs with
  | [] => none
  | n :: rest => takeN n rest

def encodeString (s : Bytes) : Bytes :=
  Bytes.le 2 s.length ++ s ++ (if s.length % 2 = 1 then [0] else [])

def decodeString (bs : Bytes) : Option (Bytes × Bytes) :=
  match takeLE 2 bs with
  | none => none
  | some (n, rest) =>
    match takeN n rest with
    | none => none
    | some (s, rest) =>
      if n % 2 = 1 then
        match rest with
        | [] => none
        | _ :: rest => some (s, rest)
      else some (s, rest)

/-! ### CIP status: status, ext size, ext words -/

structure Status where
  code : Nat
  ext  : List Nat := []
deriving Repr, DecidableEq

/-- `status.produce`: extended status is only written for a non-zero status -/
def encodeStatus (s : Status) : Bytes :=
  if s.code = 0 then [0, 0] else [s.code, s.ext.length] ++ (s.ext.map (Bytes.le 2)).flatten

def takeWords : Nat → Bytes → Option (List Nat × Bytes)
  | 0, bs => some ([], bs)
  | n + 1, bs =>
    match takeLE 2 bs with
    | none => none
    | some (w, rest) =>
      match takeWords n rest with
      | none => none
      | some (ws, rest) => some (w :: ws, rest)

def decodeStatus (bs : Bytes) : Option (Status × Bytes) :=
  match bs with
  | code :: n :: rest =>
    match takeWords n rest with
    | none => none
    | some (ws, rest) => some ({ code := code, ext := ws }, rest)
  | _ => none

/-! ### EPATH -/

inductive Link
  | num (n : Nat)             -- 8-bit link number
  | addr (s : Bytes)          -- link address string (ISO-8859-1), eg. an IP address
deriving Repr, DecidableEq

inductive Seg
  | cls (n : Nat) | ins (n : Nat) | conn (n : Nat) | attr (n : Nat) | elem (n : Nat)
  | sym (s : Bytes)
  | port (p : Nat) (l : Link)
deriving Repr, DecidableEq

/-- logical segment: narrowest of 8 / 16 (/ 32 for elements) bit form -/
def encodeLogical (ty : Nat) (allow32 : Bool) (n : Nat) : Bytes :=
  if n ≤ 0xff then [ty, n]
  else if n ≤ 0xffff then [ty + 1, 0] ++ Bytes.le 2 n
  else if allow32 then [ty + 2, 0] ++ Bytes.le 4 n
  else []        -- not encodable (EPATH.produce asserts); excluded by `Seg.WF`

def encodeSeg : Seg → Bytes
  | .cls n  => encodeLogical 0x20 false n
  | .ins n  => encodeLogical 0x24 false n
  | .conn n => encodeLogical 0x2c false n
  | .attr n => encodeLogical 0x30 false n
  | .elem n => encodeLogical 0x28 true n
  | .sym s  => [0x91, s.length] ++ s ++ (if s.length % 2 = 1 then [0] else [])
  | .port p (.num l) =>
    if p < 0x0f then [p, l] else [0x0f] ++ Bytes.le 2 p ++ [l]
  | .port p (.addr s) =>
    (if p < 0x0f then [p + 0x10, s.length] else [0x1f, s.length] ++ Bytes.le 2 p)
      ++ s ++ (if s.length % 2 = 1 then [0] else [])

def encodeSegs (segs : List Seg) : Bytes := (segs.map encodeSeg).flatten

/-- drop an optional pad byte after an odd-length string -/
def dropPad (odd : Bool) (bs : Bytes) : Option Bytes :=
  if odd then (match bs with | [] => none | _ :: r => some r) else some bs

def decodeSeg (bs : Bytes) : Option (Seg × Bytes) :=
  match bs with
  | [] => none
  | t :: rest =>
    -- 8-bit logical forms: type, value
    if t = 0x20 ∨ t = 0x24 ∨ t = 0x2c ∨ t = 0x30 ∨ t = 0x28 then
      match rest with
      | v :: rest =>
        some ((if t = 0x20 then Seg.cls v else if t = 0x24 then .ins v else if t = 0x2c then .conn v
               else if t = 0x30 then .attr v else .elem v), rest)
      | [] => none
    -- 16-bit forms: type, pad, UINT
    else if t = 0x21 ∨ t = 0x25 ∨ t = 0x2d ∨ t = 0x31 ∨ t = 0x29 then
      match rest with
      | _ :: rest =>
        match takeLE 2 rest with
        | some (v, rest) =>
          some ((if t = 0x21 then Seg.cls v else if t = 0x25 then .ins v else if t = 0x2d then .conn v
                 else if t = 0x31 then .attr v else .elem v), rest)
        | none => none
      | [] => none
    -- 32-bit element
    else if t = 0x2a then
      match rest with
      | _ :: rest =>
        match takeLE 4 rest with
        | some (v, rest) => some (.elem v, rest)
        | none => none
      | [] => none
    -- symbolic
    else if t = 0x91 then
      match rest with
      | n :: rest =>
        match takeN n rest with
        | some (s, rest) => (dropPad (n % 2 = 1) rest).map fun r => (.sym s, r)
        | none => none
      | [] => none
    -- port with numeric link
    else if 1 ≤ t ∧ t ≤ 0x0e then
      match rest with
      | l :: rest => some (.port t (.num l), rest)
      | [] => none
    else if t = 0x0f then
      match takeLE 2 rest with
      | some (p, l :: rest) => some (.port p (.num l), rest)
      | _ => none
    -- port with link address
    else if 0x11 ≤ t ∧ t ≤ 0x1e then
      match rest with
      | n :: rest =>
        match takeN n rest with
        | some (s, rest) => (dropPad (n % 2 = 1) rest).map fun r => (.port (t - 0x10) (.addr s), r)
        | none => none
      | [] => none
    else if t = 0x1f then
      match rest with
      | n :: rest =>
        match takeLE 2 rest with
        | some (p, rest) =>
          match takeN n rest with
          | some (s, rest) => (dropPad (n % 2 = 1) rest).map fun r => (.port p (.addr s), r)
          | none => none
        | none => none
      | [] => none
    else none

/-- segments until the bytes are exhausted (fuel: the byte count) -/
def decodeSegs : Nat → Bytes → Option (List Seg)
  | 0, bs => if bs.isEmpty then some [] else none
  | fuel + 1, bs =>
    if bs.isEmpty then some []
    else match decodeSeg bs with
      | none => none
      | some (s, rest) => (decodeSegs fuel rest).map (s :: ·)

inductive EpathKind
  | plain | padded | single
deriving Repr, DecidableEq

def encodeEpath (k : EpathKind) (segs : List Seg) : Bytes :=
  let body := encodeSegs segs
  match k with
  | .single => body
  | .plain  => (body.length / 2) :: body
  | .padded => (body.length / 2) :: 0 :: body

/-- plain / padded EPATH: size in words, optional pad, then exactly that many bytes of segments -/
def decodeEpath (padded : Bool) (bs : Bytes) : Option (List Seg × Bytes) :=
  match bs with
  | [] => none
  | n :: rest =>
    match dropPad padded rest with
    | none => none
    | some rest =>
      match takeN (2 * n) rest with
      | none => none
      | some (body, rest) => (decodeSegs body.length body).map fun segs => (segs, rest)

end Cpppo.Codec
