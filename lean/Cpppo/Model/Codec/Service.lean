import Cpppo.Model.Codec.Prim
/-
CIP service layer of the codec: requests and replies of the Logix-dialect services (Read/Write Tag
[Fragmented]), the Object services (Get Attributes All, Get Attribute Single/List, Set Attribute Single,
generic service-code reply), the Multiple Service Packet, and the Connection Manager's Forward Open
(small/large) / Forward Close — model of the `produce` class methods and the registered service parsers
of server/enip/logix.py and server/enip/device.py, written from the CIP layout tables.

Typed data is kept as its bytes here; `Cpppo.decodeVals` / `Val.encode` give the element level.
A service message is delimited by its enclosing item, so decoders take the whole buffer.
-/
namespace Cpppo.Codec
open Cpppo

/-- type word, optional STRUCT handle (type 0x02A0), data bytes -/
structure Typed where
  ty     : Nat
  handle : Option Nat
  data   : Bytes
deriving Repr, DecidableEq

def structType : Nat := 0x02A0

def encodeTyped (t : Typed) : Bytes :=
  Bytes.le 2 t.ty ++ (match t.handle with | some h => Bytes.le 2 h | none => []) ++ t.data

/-- Network Connection Parameters of a Forward Open -/
structure Ncp where
  (size var prio kind redundant : Nat)
deriving Repr, DecidableEq

def encodeNcp (large : Bool) (p : Ncp) : Nat :=
  (p.var * 2 ^ 9 + p.prio * 2 ^ 10 + p.kind * 2 ^ 13 + p.redundant * 2 ^ 15) * (if large then 2 ^ 16 else 1)
    + p.size

def decodeNcp (large : Bool) (n : Nat) : Ncp :=
  let sh := if large then 16 else 0
  { size := n % (if large then 2 ^ 16 else 2 ^ 9)
    var := n / 2 ^ (9 + sh) % 2
    prio := n / 2 ^ (10 + sh) % 4
    kind := n / 2 ^ (13 + sh) % 4
    redundant := n / 2 ^ (15 + sh) % 2 }

structure FwdOpen where
  (priority ticks otId toId connSerial vendor serial multiplier otRpi otNcp toRpi toNcp trigger : Nat)
  connPath : List Seg
deriving Repr, DecidableEq

structure FwdClose where
  (priority ticks connSerial vendor serial : Nat)
  connPath : List Seg
deriving Repr, DecidableEq

inductive Svc
  -- Logix dialect requests
  | readTagReq (path : List Seg) (elements : Nat)                                   -- 0x4C
  | readFragReq (path : List Seg) (elements offset : Nat)                           -- 0x52
  | writeTagReq (path : List Seg) (t : Typed) (elements : Nat)                      -- 0x4D: type [handle] elements data
  | writeFragReq (path : List Seg) (t : Typed) (elements offset : Nat)              -- 0x53
  -- Logix dialect replies
  | readReply (frag : Bool) (st : Status) (t : Option Typed)                        -- 0xCC / 0xD2
  | writeReply (frag : Bool) (st : Status)                                          -- 0xCD / 0xD3
  -- Object services
  | gaAllReq (path : List Seg)                                                      -- 0x01
  | gaSngReq (path : List Seg)                                                      -- 0x0E
  | gaLstReq (path : List Seg) (attrs : List Nat)                                   -- 0x03
  | saSngReq (path : List Seg) (data : Bytes)                                       -- 0x10
  | dataReply (svc : Nat) (st : Status) (data : Bytes)     -- 0x81 / 0x83 / 0x8E, and any unrecognised service code
  | saSngReply (st : Status)                                                        -- 0x90
  -- Multiple Service Packet
  | multipleReq (path : List Seg) (members : List Bytes)                            -- 0x0A
  | multipleReply (st : Status) (members : Option (List Bytes))                     -- 0x8A
  -- Connection Manager
  | fwdOpenReq (large : Bool) (path : List Seg) (fo : FwdOpen)                      -- 0x54 / 0x5B
  | fwdOpenOk (large : Bool) (otId toId connSerial vendor serial otApi toApi : Nat) (app : Bytes)   -- status 0
  | fwdOpenFail (large : Bool) (st : Status) (connSerial vendor serial : Nat) (remaining : Option Nat)
  | fwdCloseReq (path : List Seg) (fc : FwdClose)                                   -- 0x4E
  | fwdCloseReply (st : Status) (connSerial vendor serial : Nat) (app : Bytes)      -- 0xCE
deriving Repr, DecidableEq

/-- offsets of a Multiple Service Packet: first 2+2N, each next advanced by the previous length -/
def msOffsets (ms : List Bytes) : List Nat :=
  let rec go (o : Nat) : List Bytes → List Nat
    | [] => []
    | m :: rest => o :: go (o + m.length) rest
  go (2 + 2 * ms.length) ms

def encodeMembers (ms : List Bytes) : Bytes :=
  Bytes.le 2 ms.length ++ ((msOffsets ms).map (Bytes.le 2)).flatten ++ ms.flatten

/-- application reply data of a Forward Open/Close reply: size in words, pad, bytes (even) -/
def encodeApp (app : Bytes) : Bytes := [app.length / 2, 0] ++ app

def encodeFwdOpenBody (large : Bool) (fo : FwdOpen) : Bytes :=
  [fo.priority, fo.ticks] ++ Bytes.le 4 fo.otId ++ Bytes.le 4 fo.toId ++ Bytes.le 2 fo.connSerial
    ++ Bytes.le 2 fo.vendor ++ Bytes.le 4 fo.serial ++ [fo.multiplier, 0, 0, 0]
    ++ Bytes.le 4 fo.otRpi ++ Bytes.le (if large then 4 else 2) fo.otNcp
    ++ Bytes.le 4 fo.toRpi ++ Bytes.le (if large then 4 else 2) fo.toNcp
    ++ [fo.trigger] ++ encodeEpath .plain fo.connPath

def encodeSvc : Svc → Bytes
  | .readTagReq p n => [0x4C] ++ encodeEpath .plain p ++ Bytes.le 2 n
  | .readFragReq p n off => [0x52] ++ encodeEpath .plain p ++ Bytes.le 2 n ++ Bytes.le 4 off
  | .writeTagReq p t n =>
    [0x4D] ++ encodeEpath .plain p ++ Bytes.le 2 t.ty
      ++ (match t.handle with | some h => Bytes.le 2 h | none => []) ++ Bytes.le 2 n ++ t.data
  | .writeFragReq p t n off =>
    [0x53] ++ encodeEpath .plain p ++ Bytes.le 2 t.ty
      ++ (match t.handle with | some h => Bytes.le 2 h | none => []) ++ Bytes.le 2 n ++ Bytes.le 4 off ++ t.data
  | .readReply frag st t =>
    [if frag then 0xD2 else 0xCC, 0] ++ encodeStatus st ++ (match t with | some t => encodeTyped t | none => [])
  | .writeReply frag st => [if frag then 0xD3 else 0xCD, 0] ++ encodeStatus st
  | .gaAllReq p => [0x01] ++ encodeEpath .plain p
  | .gaSngReq p => [0x0E] ++ encodeEpath .plain p
  | .gaLstReq p attrs => [0x03] ++ encodeEpath .plain p ++ Bytes.le 2 attrs.length ++ (attrs.map (Bytes.le 2)).flatten
  | .saSngReq p data => [0x10] ++ encodeEpath .plain p ++ data
  | .dataReply svc st data => [svc, 0] ++ encodeStatus st ++ data
  | .saSngReply st => [0x90, 0] ++ encodeStatus st
  | .multipleReq p ms => [0x0A] ++ encodeEpath .plain p ++ encodeMembers ms
  | .multipleReply st ms => [0x8A, 0] ++ encodeStatus st ++ (match ms with | some ms => encodeMembers ms | none => [])
  | .fwdOpenReq large p fo => [if large then 0x5B else 0x54] ++ encodeEpath .plain p ++ encodeFwdOpenBody large fo
  | .fwdOpenOk large otId toId cs v s otApi toApi app =>
    [if large then 0xDB else 0xD4, 0, 0, 0] ++ Bytes.le 4 otId ++ Bytes.le 4 toId ++ Bytes.le 2 cs ++ Bytes.le 2 v
      ++ Bytes.le 4 s ++ Bytes.le 4 otApi ++ Bytes.le 4 toApi ++ encodeApp app
  | .fwdOpenFail large st cs v s rem =>
    [if large then 0xDB else 0xD4, 0] ++ encodeStatus st ++ Bytes.le 2 cs ++ Bytes.le 2 v ++ Bytes.le 4 s
      ++ (match rem with | some r => [r, 0] | none => [])
  | .fwdCloseReq p fc =>
    [0x4E] ++ encodeEpath .plain p ++ [fc.priority, fc.ticks] ++ Bytes.le 2 fc.connSerial ++ Bytes.le 2 fc.vendor
      ++ Bytes.le 4 fc.serial ++ encodeEpath .padded fc.connPath
  | .fwdCloseReply st cs v s app =>
    [0xCE, 0] ++ encodeStatus st ++ Bytes.le 2 cs ++ Bytes.le 2 v ++ Bytes.le 4 s ++ encodeApp app

/-! ### decoding -/

/-- type word, STRUCT handle when the type says so, rest = data; `none` for an empty buffer is handled by callers -/
def decodeTyped (bs : Bytes) : Option Typed :=
  match takeLE 2 bs with
  | none => none
  | some (ty, rest) =>
    if ty = structType then
      match takeLE 2 rest with
      | none => none
      | some (h, data) => some { ty := ty, handle := some h, data := data }
    else some { ty := ty, handle := none, data := rest }

/-- slice the member messages by the offset table -/
def sliceMembers (body : Bytes) : List Nat → List Bytes
  | [] => []
  | [o] => [body.drop o]
  | o :: o2 :: rest => (body.drop o).take (o2 - o) :: sliceMembers body (o2 :: rest)

def decodeMembers (bs : Bytes) : Option (List Bytes) :=
  match takeLE 2 bs with
  | none => none
  | some (n, rest) =>
    match takeWords n rest with
    | none => none
    | some (offs, _) => some (sliceMembers bs offs)

def decodeApp (bs : Bytes) : Option Bytes :=
  match bs with
  | n :: _ :: app => if app.length = 2 * n then some app else none
  | _ => none

def decodeFwdOpenBody (large : Bool) (bs : Bytes) : Option FwdOpen :=
  match bs with
  | prio :: ticks :: bs =>
    match takeLE 4 bs with
    | none => none
    | some (otId, bs) =>
    match takeLE 4 bs with
    | none => none
    | some (toId, bs) =>
    match takeLE 2 bs with
    | none => none
    | some (cs, bs) =>
    match takeLE 2 bs with
    | none => none
    | some (v, bs) =>
    match takeLE 4 bs with
    | none => none
    | some (s, bs) =>
    match bs with
    | mult :: _ :: _ :: _ :: bs =>
      match takeLE 4 bs with
      | none => none
      | some (otRpi, bs) =>
      match takeLE (if large then 4 else 2) bs with
      | none => none
      | some (otNcp, bs) =>
      match takeLE 4 bs with
      | none => none
      | some (toRpi, bs) =>
      match takeLE (if large then 4 else 2) bs with
      | none => none
      | some (toNcp, bs) =>
      match bs with
      | trig :: bs =>
        match decodeEpath false bs with
        | some (cp, []) =>
          some { priority := prio, ticks := ticks, otId := otId, toId := toId, connSerial := cs, vendor := v,
                 serial := s, multiplier := mult, otRpi := otRpi, otNcp := otNcp, toRpi := toRpi,
                 toNcp := toNcp, trigger := trig, connPath := cp }
        | _ => none
      | [] => none
    | _ => none
  | _ => none

def decodeSvc (bs : Bytes) : Option Svc :=
  match bs with
  | [] => none
  | svc :: rest =>
    if svc = 0x4C then
      match decodeEpath false rest with
      | none => none
      | some (p, rest) => match takeLE 2 rest with
        | some (n, []) => some (.readTagReq p n)
        | _ => none
    else if svc = 0x52 then
      match decodeEpath false rest with
      | none => none
      | some (p, rest) => match takeLE 2 rest with
        | none => none
        | some (n, rest) => match takeLE 4 rest with
          | some (off, []) => some (.readFragReq p n off)
          | _ => none
    else if svc = 0x4D ∨ svc = 0x53 then
      match decodeEpath false rest with
      | none => none
      | some (p, rest) => match takeLE 2 rest with
        | none => none
        | some (ty, rest) =>
          let hr : Option (Option Nat × Bytes) :=
            if ty = structType then (takeLE 2 rest).map fun (h, r) => (some h, r) else some (none, rest)
          match hr with
          | none => none
          | some (h, rest) => match takeLE 2 rest with
            | none => none
            | some (n, rest) =>
              if svc = 0x4D then
                (if rest.isEmpty then none else some (.writeTagReq p { ty := ty, handle := h, data := rest } n))
              else match takeLE 4 rest with
                | none => none
                | some (off, data) =>
                  if data.isEmpty then none else some (.writeFragReq p { ty := ty, handle := h, data := data } n off)
    else if svc = 0xCC ∨ svc = 0xD2 then
      match rest with
      | _ :: rest => match decodeStatus rest with
        | none => none
        | some (st, rest) =>
          if st.code = 0 ∨ st.code = 6 then
            -- type and data follow
            (match decodeTyped rest with
              | some t => if t.data.isEmpty then none else some (.readReply (svc = 0xD2) st (some t))
              | none => none)
          else if rest.isEmpty then some (.readReply (svc = 0xD2) st none) else none
      | [] => none
    else if svc = 0xCD ∨ svc = 0xD3 then
      match rest with
      | _ :: rest => match decodeStatus rest with
        | some (st, []) => some (.writeReply (svc = 0xD3) st)
        | _ => none
      | [] => none
    else if svc = 0x01 then
      (match decodeEpath false rest with | some (p, []) => some (.gaAllReq p) | _ => none)
    else if svc = 0x0E then
      (match decodeEpath false rest with | some (p, []) => some (.gaSngReq p) | _ => none)
    else if svc = 0x03 then
      match decodeEpath false rest with
      | none => none
      | some (p, rest) => match takeLE 2 rest with
        | none => none
        | some (n, rest) => match takeWords n rest with
          | some (attrs, []) => if attrs.isEmpty then none else some (.gaLstReq p attrs)
          | _ => none
    else if svc = 0x10 then
      match decodeEpath false rest with
      | none => none
      | some (p, data) => if data.isEmpty then none else some (.saSngReq p data)
    else if svc = 0x90 then
      match rest with
      | _ :: rest => match decodeStatus rest with
        | some (st, []) => some (.saSngReply st)
        | _ => none
      | [] => none
    else if svc = 0x0A then
      match decodeEpath false rest with
      | none => none
      | some (p, body) => (decodeMembers body).map fun ms => .multipleReq p ms
    else if svc = 0x8A then
      match rest with
      | _ :: rest => match decodeStatus rest with
        | none => none
        | some (st, body) =>
          if body.isEmpty then some (.multipleReply st none)
          else (decodeMembers body).map fun ms => .multipleReply st (some ms)
      | [] => none
    else if svc = 0x54 ∨ svc = 0x5B then
      match decodeEpath false rest with
      | none => none
      | some (p, body) => (decodeFwdOpenBody (svc = 0x5B) body).map fun fo => .fwdOpenReq (svc = 0x5B) p fo
    else if svc = 0xD4 ∨ svc = 0xDB then
      match rest with
      | _ :: rest => match decodeStatus rest with
        | none => none
        | some (st, bs) =>
          if st.code = 0 then
            match takeLE 4 bs with
            | none => none
            | some (otId, bs) =>
            match takeLE 4 bs with
            | none => none
            | some (toId, bs) =>
            match takeLE 2 bs with
            | none => none
            | some (cs, bs) =>
            match takeLE 2 bs with
            | none => none
            | some (v, bs) =>
            match takeLE 4 bs with
            | none => none
            | some (s, bs) =>
            match takeLE 4 bs with
            | none => none
            | some (otApi, bs) =>
            match takeLE 4 bs with
            | none => none
            | some (toApi, bs) =>
              (decodeApp bs).map fun app => .fwdOpenOk (svc = 0xDB) otId toId cs v s otApi toApi app
          else
            match takeLE 2 bs with
            | none => none
            | some (cs, bs) =>
            match takeLE 2 bs with
            | none => none
            | some (v, bs) =>
            match takeLE 4 bs with
            | none => none
            | some (s, bs) =>
              match bs with
              | [] => some (.fwdOpenFail (svc = 0xDB) st cs v s none)
              | [r, _] => some (.fwdOpenFail (svc = 0xDB) st cs v s (some r))
              | _ => none
      | [] => none
    else if svc = 0x4E then
      match decodeEpath false rest with
      | none => none
      | some (p, bs) =>
        match bs with
        | prio :: ticks :: bs =>
          match takeLE 2 bs with
          | none => none
          | some (cs, bs) =>
          match takeLE 2 bs with
          | none => none
          | some (v, bs) =>
          match takeLE 4 bs with
          | none => none
          | some (s, bs) =>
            match decodeEpath true bs with
            | some (cp, []) =>
              some (.fwdCloseReq p { priority := prio, ticks := ticks, connSerial := cs, vendor := v, serial := s,
                                     connPath := cp })
            | _ => none
        | _ => none
    else if svc = 0xCE then
      match rest with
      | _ :: rest => match decodeStatus rest with
        | none => none
        | some (st, bs) =>
          match takeLE 2 bs with
          | none => none
          | some (cs, bs) =>
          match takeLE 2 bs with
          | none => none
          | some (v, bs) =>
          match takeLE 4 bs with
          | none => none
          | some (s, bs) => (decodeApp bs).map fun app => .fwdCloseReply st cs v s app
      | [] => none
    else
      -- 0x81 / 0x83 / 0x8E and every other code: the generic "service code reply" layout
      match rest with
      | _ :: rest => match decodeStatus rest with
        | some (st, data) => some (.dataReply svc st data)
        | none => none
      | [] => none

end Cpppo.Codec
