/-
Model of `history/times.py` (property C17): `timestamp` (render / parse / comparison), `duration`
(`_format` / `_parse`), `parse_seconds`, `format_offset` / `parse_offset`.

Instants are integer microseconds since the UNIX epoch (`μ : Int`); a binary64 `timestamp.value` is
represented by the microsecond nearest to it (`μ`, ties to even, as `datetime.fromtimestamp` rounds)
plus the *sign of the representation error* (`bias ∈ {-1,0,1}`: the float is below / exactly at /
above `μ`), which is all that `round(value, p)` can observe of the difference.

Text is `List Char`.  Time zones are tables (initial period, then `(utcStart, period)` transitions)
as `zoneinfo` holds them; `periodAt` is `ZoneInfo.fromutc`'s bisect, `wallPeriod fold` is
`ZoneInfo._find_trans` on the fold-specific local transition lists, `localize` is
`pytz_deprecation_shim`'s `localize(dt, is_dst)`.

`fixed = true` is the code after the two `fix:` patches of fixes/C17-*.patch; `fixed = false` is the
code before (kept for the witnesses):
  * render: the fraction digits are taken from `value % 1` (before: from the text of the *signed*
    value, so '-0.250'[-4:] = '.250' was appended to the civil time of -0.25 = 23:59:59.75);
  * parse: the time zone is the last white-space separated word when it does not start with a digit
    (before: the last term after ':-.' were blanked, so 'America/Port-au-Prince' became 'Prince'
    and 'Etc/GMT-5' lost its '5').
No imports: this file is linked into the `cpppo_model` driver.
-/
namespace Cpppo.Times

/-! ### decimal digits -/

def digitOf : Nat → Char
  | 0 => '0' | 1 => '1' | 2 => '2' | 3 => '3' | 4 => '4'
  | 5 => '5' | 6 => '6' | 7 => '7' | 8 => '8' | _ => '9'

def digitVal : Char → Option Nat
  | '0' => some 0 | '1' => some 1 | '2' => some 2 | '3' => some 3 | '4' => some 4
  | '5' => some 5 | '6' => some 6 | '7' => some 7 | '8' => some 8 | '9' => some 9
  | _ => none

def isDigit (c : Char) : Bool := (digitVal c).isSome

/-- most significant digit first; `fuel` bounds the number of digits (`n + 1` is always enough) -/
def natDigitsAux : Nat → Nat → List Char → List Char
  | 0, _, acc => acc
  | fuel + 1, n, acc =>
    if n < 10 then digitOf n :: acc else natDigitsAux fuel (n / 10) (digitOf (n % 10) :: acc)

/-- Python `str(n)` / `'%d' % n` for `n ≥ 0` -/
def natDigits (n : Nat) : List Char := natDigitsAux (n + 1) n []

/-- `'%d'` of an integer -/
def intDigits (i : Int) : List Char :=
  if i < 0 then '-' :: natDigits i.natAbs else natDigits i.toNat

/-- `'%02d'` for `n < 100` -/
def pad2 (n : Nat) : List Char := [digitOf (n / 10 % 10), digitOf (n % 10)]

def pow10 : Nat → Nat
  | 0 => 1
  | k + 1 => 10 * pow10 k

/-- exactly `p` digits of `k < 10^p`, most significant first (`'%0*d'`) -/
def fixDigits : Nat → Nat → List Char
  | 0, _ => []
  | p + 1, k => digitOf (k / pow10 p % 10) :: fixDigits p (k % pow10 p)

/-- value of a digit string (`none` when a non-digit occurs); the empty string is `acc` -/
def digitsValAcc : Nat → List Char → Option Nat
  | acc, [] => some acc
  | acc, c :: cs => match digitVal c with
    | some d => digitsValAcc (acc * 10 + d) cs
    | none => none

def allDigits (s : List Char) : Bool := !s.isEmpty && s.all isDigit

/-- Python `int(term)` for a term without white space: optional sign, digits, single underscores
between digits.  (`'-'` never reaches `int` in `datetime_from_string`: it is a separator.) -/
def pyDigitsGo : Nat → Bool → List Char → Option Nat
  | acc, prevDigit, [] => if prevDigit then some acc else none
  | acc, prevDigit, c :: cs =>
    match digitVal c with
    | some d => pyDigitsGo (acc * 10 + d) true cs
    | none => if c == '_' && prevDigit then pyDigitsGo acc false cs else none

def pyInt (s : List Char) : Option Int :=
  match s with
  | '+' :: r => (pyDigitsGo 0 false r).map Int.ofNat
  | '-' :: r => (pyDigitsGo 0 false r).map fun n => - Int.ofNat n
  | r => (pyDigitsGo 0 false r).map Int.ofNat

/-! ### proleptic Gregorian calendar (March-based years; cascaded 400/100/4/1-year cycles) -/

def isLeap (y : Int) : Bool := y % 4 == 0 && (y % 100 != 0 || y % 400 == 0)

def daysInMonth (y m : Int) : Int :=
  if m == 2 then (if isLeap y then 29 else 28)
  else if m == 4 || m == 6 || m == 9 || m == 11 then 30 else 31

/-- days since 1970-01-01 of the civil date `y-m-d` -/
def daysFromCivil (y m d : Int) : Int :=
  let y' := if m ≤ 2 then y - 1 else y
  let era := y' / 400
  let yoe := y' - era * 400
  let mp := if m > 2 then m - 3 else m + 9
  let doy := (153 * mp + 2) / 5 + d - 1
  let doe := yoe * 365 + yoe / 4 - yoe / 100 + doy
  era * 146097 + doe - 719468

/-- civil date `(y, m, d)` of a day number -/
def civilFromDays (z : Int) : Int × Int × Int :=
  let z' := z + 719468
  let era := z' / 146097
  let doe := z' % 146097
  let c := if doe / 36524 ≥ 4 then 3 else doe / 36524
  let r1 := doe - 36524 * c
  let q := r1 / 1461
  let r2 := r1 % 1461
  let yq := if r2 / 365 ≥ 4 then 3 else r2 / 365
  let doy := r2 - 365 * yq
  let yoe := 100 * c + 4 * q + yq
  let mp := (5 * doy + 2) / 153
  let d := doy - (153 * mp + 2) / 5 + 1
  let m := if mp < 10 then mp + 3 else mp - 9
  (yoe + era * 400 + (if m ≤ 2 then 1 else 0), m, d)

structure Civil where
  y : Int
  m : Int
  d : Int
  hh : Int
  mm : Int
  ss : Int
deriving Repr, DecidableEq

/-- broken-down time of a count of seconds since the epoch (floor semantics for negatives) -/
def civilOfSecs (s : Int) : Civil :=
  let days := s / 86400
  let sod := s % 86400
  let c := civilFromDays days
  { y := c.1, m := c.2.1, d := c.2.2, hh := sod / 3600, mm := sod % 3600 / 60, ss := sod % 60 }

def secsOfCivil (c : Civil) : Int :=
  daysFromCivil c.y c.m c.d * 86400 + c.hh * 3600 + c.mm * 60 + c.ss

/-- what `datetime.datetime(y, m, d, hh, mm, ss)` accepts -/
def Civil.valid (c : Civil) : Bool :=
  1 ≤ c.y && c.y ≤ 9999 && 1 ≤ c.m && c.m ≤ 12 && 1 ≤ c.d && c.d ≤ daysInMonth c.y c.m
  && 0 ≤ c.hh && c.hh < 24 && 0 ≤ c.mm && c.mm < 60 && 0 ≤ c.ss && c.ss < 60

/-! ### rounding to `p` sub-second digits (`round(value, p)`) -/

/-- `μ` rounded to a multiple of `10^(6-p)` µs; ties go where the representation error points, and
to the even multiple when the float is exactly at the tie. -/
def roundTo (p : Nat) (μ bias : Int) : Int :=
  let q : Int := pow10 (6 - p)
  let lo := μ / q
  let r := μ % q
  if 2 * r < q then lo * q
  else if 2 * r > q then (lo + 1) * q
  else if bias > 0 then (lo + 1) * q
  else if bias < 0 then lo * q
  else if lo % 2 = 0 then lo * q else (lo + 1) * q

/-! ### time zones -/

structure Period where
  off : Int            -- utcoffset, seconds
  dst : Bool           -- bool(dst())
  abbr : List Char     -- tzname
deriving Repr, DecidableEq

structure Zone where
  name : List Char
  first : Period
  trans : List (Int × Period)     -- (first UTC second of the period, period), ascending
deriving Repr, DecidableEq

def utcPeriod : Period := { off := 0, dst := false, abbr := "UTC".toList }
def utcZone : Zone := { name := "UTC".toList, first := utcPeriod, trans := [] }

/-- `ZoneInfo.fromutc`: the period in force at UTC second `u` (bisect_right on the UTC transitions) -/
def walkU (cur : Period) : List (Int × Period) → Int → Period
  | [], _ => cur
  | (t, p) :: rest, u => if t ≤ u then walkU p rest u else cur

def periodAt (z : Zone) (u : Int) : Period := walkU z.first z.trans u

/-- the local-time threshold of a transition for `fold`: `trans_list_wall[fold]` of zoneinfo -/
def wallThreshold (fold : Bool) (t : Int) (before after : Int) : Int :=
  if fold then t + min before after else t + max before after

/-- `ZoneInfo._find_trans` for a naive local second `w` with the given fold -/
def walkW (fold : Bool) (cur : Period) : List (Int × Period) → Int → Period
  | [], _ => cur
  | (t, p) :: rest, w => if wallThreshold fold t cur.off p.off ≤ w then walkW fold p rest w else cur

def wallPeriod (fold : Bool) (z : Zone) (w : Int) : Period := walkW fold z.first z.trans w

/-- Well-formedness of a zone table: the local-time "confusion interval"
`[t + min(before, after), t + max(before, after))` of each transition ends before that of the next
transition begins (so the fold-0 and fold-1 local transition lists of zoneinfo are sorted and
interleave).  `prevHi` is the end of the previous interval. -/
def transWf (cur : Int) : Option Int → List (Int × Period) → Bool
  | _, [] => true
  | prevHi, (t, p) :: rest =>
    (match prevHi with
      | none => true
      | some h => decide (h ≤ t + min cur p.off))
    && transWf p.off (some (t + max cur p.off)) rest

def Zone.wf (z : Zone) : Bool := transWf z.first.off none z.trans

inductive Reject where
  | empty | terms | value | zone | ambiguous | nonexistent | overflow | syntax
deriving Repr, DecidableEq

def Reject.text : Reject → String
  | .empty => "reject:empty" | .terms => "reject:terms" | .value => "reject:value"
  | .zone => "reject:zone" | .ambiguous => "reject:ambiguous" | .nonexistent => "reject:nonexistent"
  | .overflow => "reject:overflow" | .syntax => "reject:syntax"

/-- `tz.localize(naive, is_dst)` of the shim, on local second `w`; answer: the UTC second.
`isDst = none` is the zone given without daylight-saving designation. -/
def localize (z : Zone) (isDst : Option Bool) (w : Int) : Except Reject Int :=
  let p0 := wallPeriod false z w
  let p1 := wallPeriod true z w
  let u0 := w - p0.off
  let imaginary := u0 + (periodAt z u0).off != w
  let ambiguous := !imaginary && p0.off != p1.off
  -- `is_imaginary` converts to UTC first: OverflowError (inside the parser's `try`) out of years 1..9999
  if (civilOfSecs u0).y < 1 || (civilOfSecs u0).y > 9999 then .error .value else
  match isDst with
  | none =>
    if imaginary then .error .nonexistent
    else if ambiguous then .error .ambiguous
    else .ok u0
  | some flag =>
    if ambiguous || imaginary then
      let enfoldedDst := if p0.dst == p1.dst then decide (p1.off > p0.off) else p1.dst
      .ok (if flag == enfoldedDst then w - p1.off else u0)
    else .ok u0

/-! ### rendering -/

inductive Detail where
  | dflt      -- tzdetail=None: abbreviation, nothing for UTC
  | full      -- tzdetail truthy: zone key
  | numeric   -- tzdetail falsy: %z
deriving Repr, DecidableEq

/-- `%z`: ±HHMM[SS] -/
def numericOffset (off : Int) : List Char :=
  let a := off.natAbs
  (if off < 0 then '-' else '+') :: pad2 (a / 3600) ++ pad2 (a % 3600 / 60)
    ++ (if a % 60 = 0 then [] else pad2 (a % 60))

/-- `'%Y-%m-%d %H:%M:%S'` (glibc: `%Y` is not zero padded) followed by `.` and `p` fraction digits -/
def formatCivil (c : Civil) (p : Nat) (frac : Nat) : List Char :=
  natDigits c.y.toNat ++ '-' :: pad2 c.m.toNat ++ '-' :: pad2 c.d.toNat ++ ' ' ::
    pad2 c.hh.toNat ++ ':' :: pad2 c.mm.toNat ++ ':' :: pad2 c.ss.toNat ++
    (if p = 0 then [] else '.' :: fixDigits p frac)

/-- the rounded instant that `render` formats (`ms=False` does not round) -/
def renderInstant (p : Nat) (μ bias : Int) : Int := if p = 0 then μ else roundTo p μ bias

/-- `timestamp(μ).render(tzinfo=zone, ms=p, tzdetail=detail)`; `zone = none` is `tzinfo=None`
(the `timestamp.UTC` object itself).  `none`: `datetime.fromtimestamp` refuses (year out of 1..9999). -/
def renderWith (fixed : Bool) (p : Nat) (μ bias : Int) (zone : Option Zone) (detail : Detail) :
    Option (List Char) :=
  let v := renderInstant p μ bias
  let us := v / 1000000
  let z := zone.getD utcZone
  let per := periodAt z us
  let cu := civilOfSecs us
  let c := civilOfSecs (us + per.off)
  if cu.y < 1 || cu.y > 9999 || c.y < 1 || c.y > 9999 then none
  else
    let sub : Nat := if fixed then (v % 1000000).toNat else v.natAbs % 1000000
    let frac := sub / pow10 (6 - p)
    let suffix : List Char :=
      match detail, zone with
      | .dflt, none => []
      | .dflt, some _ => ' ' :: per.abbr
      | .full, _ => ' ' :: z.name
      | .numeric, _ => numericOffset per.off
    some (formatCivil c p frac ++ suffix)

def render := renderWith true
def renderOld := renderWith false

/-! ### parsing -/

/-- ASCII white space of `str.split()` -/
def isWs (c : Char) : Bool :=
  c == ' ' || c == '\t' || c == '\n' || c == '\r' || c == '\x0b' || c == '\x0c'
    || c == '\x1c' || c == '\x1d' || c == '\x1e' || c == '\x1f'

/-- `timestamp._timeseps`: the characters blanked before splitting -/
def isSep (c : Char) : Bool := c == ':' || c == '-' || c == '.'

/-- `s.split()` for an arbitrary delimiter class: maximal runs of non-delimiters -/
def splitAux (isD : Char → Bool) : List Char → List Char → List (List Char)
  | cur, [] => if cur.isEmpty then [] else [cur.reverse]
  | cur, c :: cs =>
    if isD c then (if cur.isEmpty then splitAux isD [] cs else cur.reverse :: splitAux isD [] cs)
    else splitAux isD (c :: cur) cs

def splitOn (isD : Char → Bool) (s : List Char) : List (List Char) := splitAux isD [] s

def isWsOrSep (c : Char) : Bool := isWs c || isSep c

/-- the time-zone data base as the parser sees it: zone keys, and `timestamp._tzabbrev` -/
structure TzDb where
  zones : List Zone
  abbrevs : List (List Char × List Char × Option Bool)    -- abbreviation ↦ (zone key, is_dst)

def TzDb.find (db : TzDb) (key : List Char) : Option Zone := db.zones.find? fun z => z.name == key

/-- `timestamp.timezone_info(word)` -/
def TzDb.info (db : TzDb) (word : List Char) : Except Reject (Zone × Option Bool) :=
  match db.abbrevs.find? fun a => a.1 == word with
  | some (_, key, flag) => match db.find key with
    | some z => .ok (z, flag)
    | none => .error .zone
  | none => match db.find word with
    | some z => .ok (z, none)
    | none => .error .zone

/-- the terms and the optional trailing time-zone word of `datetime_from_string` -/
def tokenize (fixed : Bool) (s : List Char) : Except Reject (List (List Char) × Option (List Char)) :=
  if fixed then
    match (splitOn isWs s).reverse with
    | [] => .error .empty
    | last :: initRev =>
      let startsWithDigit := match last with | c :: _ => isDigit c | [] => false
      if startsWithDigit then .ok ((splitOn isWs s).flatMap (splitOn isWsOrSep), none)
      else .ok (initRev.reverse.flatMap (splitOn isWsOrSep), some last)
  else
    match (splitOn isWsOrSep s).reverse with
    | [] => .error .empty
    | last :: initRev =>
      if allDigits last then .ok (splitOn isWsOrSep s, none) else .ok (initRev.reverse, some last)

/-- `terms[6] += '0' * (6 - len(terms[6]))` -/
def padFraction (t : List Char) : List Char := t ++ List.replicate (6 - t.length) '0'

def mapInts : List (List Char) → Option (List Int)
  | [] => some []
  | t :: ts => match pyInt t, mapInts ts with
    | some i, some is => some (i :: is)
    | _, _ => none

/-- `timestamp.timezone_info` on the trailing word; no word: `timestamp.UTC` -/
def resolveZone (db : TzDb) (word : Option (List Char)) : Except Reject (Zone × Option Bool) :=
  match word with
  | none => .ok (utcZone, none)
  | some w => db.info w

/-- the `assert 6 <= len(terms) <= 7`, the fraction padding, `map(int, terms)` and the checks of
`datetime.datetime(*ints)`: the civil fields and the microseconds -/
def readTerms (terms : List (List Char)) : Except Reject (Civil × Int) :=
  if terms.length < 6 || terms.length > 7 then .error .terms
  else
    let terms := match terms with
      | [a, b, c, d, e, f, g] => [a, b, c, d, e, f, padFraction g]
      | ts => ts
    match mapInts terms with
    | none => .error .value
    | some ints =>
      let r : Civil × Int := match ints with
        | [y, m, d, hh, mm, ss] => (⟨y, m, d, hh, mm, ss⟩, 0)
        | [y, m, d, hh, mm, ss, us] => (⟨y, m, d, hh, mm, ss⟩, us)
        | _ => (⟨0, 0, 0, 0, 0, 0⟩, 0)
      if !r.1.valid || r.2 < 0 || r.2 ≥ 1000000 then .error .value else .ok r

/-- `tz.localize(naive)` and `number_from_datetime`: the instant in microseconds -/
def instantOf (z : Zone) (flag : Option Bool) (c : Civil) (micro : Int) : Except Reject Int :=
  match localize z flag (secsOfCivil c) with
  | .error e => .error e
  | .ok u =>
    if (civilOfSecs u).y < 1 || (civilOfSecs u).y > 9999 then .error .overflow
    else .ok (u * 1000000 + micro)

/-- `timestamp(text).value` in microseconds -/
def parseWith (fixed : Bool) (db : TzDb) (s : List Char) : Except Reject Int :=
  match tokenize fixed s with
  | .error e => .error e
  | .ok (terms, word) =>
    match resolveZone db word with
    | .error e => .error e
    | .ok (z, flag) =>
      match readTerms terms with
      | .error e => .error e
      | .ok (c, micro) => instantOf z flag c micro

def parse := parseWith true
def parseOld := parseWith false

/-! ### comparison -/

structure CmpCfg where
  eps : Int := 1000         -- timestamp._epsilon, µs
  prec : Nat := 3           -- timestamp._precision

def tsLt (cfg : CmpCfg) (a b : Int) : Bool := a + cfg.eps < b
def tsGt (cfg : CmpCfg) (a b : Int) : Bool := a - cfg.eps > b
def tsLe (cfg : CmpCfg) (a b : Int) : Bool := !tsGt cfg a b
def tsGe (cfg : CmpCfg) (a b : Int) : Bool := !tsLt cfg a b
def tsNe (cfg : CmpCfg) (a b : Int) : Bool := tsLt cfg a b || tsGt cfg a b
def tsEq (cfg : CmpCfg) (a b : Int) : Bool := !tsNe cfg a b

/-! ### a timestamp object: the value and the lazily cached UTC rendering (`_str`) -/

structure TsObj where
  μ : Int
  bias : Int
  cache : Option (List Char) := none
deriving Repr, DecidableEq

/-- `str(ts)` / `ts.utc` / `repr`: render with the default precision once, then answer from the
cache.  `none`: `render` raised (year out of range); the cache is left alone. -/
def TsObj.str (prec : Nat) (o : TsObj) : Option (List Char) × TsObj :=
  match o.cache with
  | some t => (some t, o)
  | none =>
    match render prec o.μ o.bias none .dflt with
    | some t => (some t, { o with cache := some t })
    | none => (none, o)

/-- `ts += n` / `ts -= n`: `nonzero` is the truthiness of `n`, `(μ', bias')` the new float value.
The cached rendering is dropped exactly when the value changes. -/
def TsObj.inplace (o : TsObj) (nonzero : Bool) (μ' bias' : Int) : TsObj :=
  if nonzero then { μ := μ', bias := bias', cache := none } else o

/-- `ts + n` / `ts - n` (a number): a new timestamp; `timestamp(self)` for a falsy `n` copies the
value *and* the cached rendering -/
def TsObj.arith (o : TsObj) (nonzero : Bool) (μ' bias' : Int) : TsObj :=
  if nonzero then { μ := μ', bias := bias', cache := none } else o

/-- `ts.utc = text` / `ts.local = text` (text with its own zone word): parse first; only a
successful parse changes the object, and it drops the cache -/
def TsObj.assign (db : TzDb) (_o : TsObj) (text : List Char) : Except Reject TsObj :=
  match parse db text with
  | .ok v => .ok { μ := v, bias := 0, cache := none }
  | .error e => .error e

/-- the operations of the mutating API, as the driver and the theorems see them -/
inductive ObjOp where
  | str                                   -- str(ts) / ts.utc / repr(ts)
  | render (p : Nat)                      -- ts.render(ms=p): never cached
  | localGet                              -- ts.local: render(tzinfo=LOC, ms=False), never cached
  | inplace (nonzero : Bool) (μ bias : Int)   -- ts += n, ts -= n
  | arith (nonzero : Bool) (μ bias : Int)     -- ts = ts + n, ts = ts - n
  | copy                                  -- ts = timestamp(ts): value and cache are copied
  | assign (text : List Char)             -- ts.utc = text, ts.local = text
  | cmp (μ bias : Int)                    -- compare with a fresh timestamp, then look at str() of both
deriving Repr

/-- the object after an operation (observing `str` fills the cache; a refused assignment changes nothing) -/
def TsObj.step (prec : Nat) (db : TzDb) (o : TsObj) : ObjOp → TsObj
  | .str => (o.str prec).2
  | .render _ => o
  | .localGet => o
  | .inplace nz μ b => o.inplace nz μ b
  | .arith nz μ b => o.arith nz μ b
  | .copy => o
  | .assign t => match o.assign db t with
    | .ok o' => o'
    | .error _ => o
  | .cmp _ _ => (o.str prec).2

/-! ### durations -/

structure DurCfg where
  yr : Nat := 31557600
  wk : Nat := 604800
  dy : Nat := 86400
  hr : Nat := 3600
  mn : Nat := 60
deriving Repr

/-- strip trailing `'0'` (`str.rstrip('0')`) -/
def rstripZeros (s : List Char) : List Char :=
  (s.reverse.dropWhile (· == '0')).reverse

def unitText (n : Int) (u : String) : List Char := if n = 0 then [] else intDigits n ++ u.toList

/-- `duration._format(timedelta(microseconds=d))` -/
def durFormat (cfg : DurCfg) (d : Int) : List Char :=
  let seconds := d / 1000000
  let micro := (d % 1000000).toNat
  let years := seconds / cfg.yr
  let ySecs := (seconds % cfg.yr).toNat
  let weeks := ySecs / cfg.wk
  let wSecs := ySecs % cfg.wk
  let days := wSecs / cfg.dy
  let dSecs := wSecs % cfg.dy
  let hours := dSecs / cfg.hr
  let hSecs := dSecs % cfg.hr
  let minutes := hSecs / cfg.mn
  let s := hSecs % cfg.mn
  let isUs := micro % 1000 > 0
  let isMs := micro / 1000 > 0
  let head := unitText years "y" ++ unitText weeks "w" ++ unitText days "d" ++ unitText hours "h"
    ++ unitText minutes "m"
  let tail : List Char :=
    if isMs && (s > 0 || isUs) then
      rstripZeros (natDigits s ++ '.' :: fixDigits 6 micro) ++ ['s']
    else if micro > 0 || s > 0 then
      (if s = 0 then [] else natDigits s ++ ['s'])
        ++ (if isUs then natDigits micro ++ "us".toList
            else if isMs then natDigits (micro / 1000) ++ "ms".toList else [])
    else if micro = 0 && seconds = 0 then "0s".toList
    else []
  head ++ tail

/-- ASCII lower case (the regular expression is compiled with IGNORECASE) -/
def lowerChar (c : Char) : Char := if 'A' ≤ c ∧ c ≤ 'Z' then Char.ofNat (c.toNat + 32) else c

def isAlpha (c : Char) : Bool := ('a' ≤ c && c ≤ 'z') || ('A' ≤ c && c ≤ 'Z')

/-- the captured groups of `DURSPEC_RE` -/
structure DurFields where
  y : Nat := 0
  w : Nat := 0
  d : Nat := 0
  h : Nat := 0
  m : Nat := 0
  s : Nat := 0
  sFra : Option (List Char) := none
  ms : Nat := 0
  us : Nat := 0
  ns : Nat := 0
deriving Repr

/-- unit words of `DURSPEC_RE` (lower case) and the index of the group they close:
0 y, 1 w, 2 d, 3 h, 4 m, 5 s, 6 ms, 7 us, 8 ns.  Extracted from the live expression. -/
abbrev UnitTable := List (String × Nat)

def unitIndex (tbl : UnitTable) (word : List Char) : Option Nat :=
  (tbl.find? fun e => e.1.toList == word.map lowerChar).map (·.2)

def DurFields.set (f : DurFields) (idx n : Nat) : DurFields :=
  match idx with
  | 0 => { f with y := n } | 1 => { f with w := n } | 2 => { f with d := n }
  | 3 => { f with h := n } | 4 => { f with m := n } | 5 => { f with s := n }
  | 6 => { f with ms := n } | 7 => { f with us := n } | _ => { f with ns := n }

def spanDigits : List Char → List Char × List Char
  | [] => ([], [])
  | c :: cs => if isDigit c then let r := spanDigits cs; (c :: r.1, r.2) else ([], c :: cs)

def spanAlpha : List Char → List Char × List Char
  | [] => ([], [])
  | c :: cs => if isAlpha c then let r := spanAlpha cs; (c :: r.1, r.2) else ([], c :: cs)

def dropWs : List Char → List Char
  | [] => []
  | c :: cs => if isWs c then dropWs cs else c :: cs

def isDecPoint (c : Char) : Bool := c == '.' || c == ','

/-- Deterministic recogniser for the language of `DURSPEC_RE` (the groups are told apart by the
unit word after each number, and must come in the order of the expression).  `next` is the lowest
group index still allowed; `fuel` bounds the number of items (the input length is enough). -/
def durItems (tbl : UnitTable) : Nat → Nat → DurFields → List Char → Option DurFields
  | 0, _, _, _ => none
  | fuel + 1, next, f, s =>
    if (dropWs s).isEmpty then some f
    else
      let num := (spanDigits (dropWs s)).1
      match (spanDigits (dropWs s)).2 with
      | p :: rest' =>
        if isDecPoint p then
          -- seconds mantissa (optional) + fraction (required) + seconds unit; must be the last item
          let fra := (spanDigits rest').1
          let word := (spanAlpha (dropWs (spanDigits rest').2)).1
          let tl := (spanAlpha (dropWs (spanDigits rest').2)).2
          if fra.isEmpty || next > 5 || unitIndex tbl word != some 5 || !(dropWs tl).isEmpty then none
          else some { f with s := (digitsValAcc 0 num).getD 0, sFra := some fra }
        else if num.isEmpty then none
        else
          let word := (spanAlpha (dropWs (p :: rest'))).1
          let tl := (spanAlpha (dropWs (p :: rest'))).2
          match unitIndex tbl word with
          | some idx =>
            if idx < next then none
            else durItems tbl fuel (idx + 1) (f.set idx ((digitsValAcc 0 num).getD 0)) tl
          | none => none
      | [] => none

/-- `"{:0<6}".format(s_fra or '0')` read as an integer (longer fractions are *not* truncated) -/
def fractionMicros (fra : Option (List Char)) : Nat :=
  match fra with
  | none => 0
  | some ds => (digitsValAcc 0 (ds ++ List.replicate (6 - ds.length) '0')).getD 0

/-- `duration._parse(text)` as a count of microseconds -/
def durParse (cfg : DurCfg) (tbl : UnitTable) (s : List Char) : Except Reject Int :=
  match durItems tbl (s.length + 1) 0 {} s with
  | none => .error .syntax
  | some f =>
    let seconds := f.s + cfg.mn * f.m + cfg.hr * f.h + cfg.dy * f.d + cfg.wk * f.w + cfg.yr * f.y
    let micros := fractionMicros f.sFra + f.ms * 1000 + f.us + f.ns / 1000
    let total : Nat := seconds * 1000000 + micros
    if total / 86400000000 > 999999999 then .error .overflow else .ok total

end Cpppo.Times
