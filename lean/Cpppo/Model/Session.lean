import Cpppo.Model.Logix
/-
Model of one client connection of the simulator at the EtherNet/IP encapsulation level:

  server/enip/main.py    enip_srv_tcp    one parse -> one enip_process -> at most one send; stop on
                                         non-zero status, on "proceed False", on any exception
  server/enip/logix.py   process         response = structural copy of the request's encapsulation
  server/enip/ucmm.py    UCMM.request    Register / Unregister / SendRRData (route check, Unconnected Send
                                         unwrap, re-encapsulation) / List* / Legacy; any exception -> status 0x08
  server/enip/device.py  Connection_Manager.request   hand the embedded request to the Object it designates, else to
                                         the Message Router (`Cpppo.Logix.exec`); anything failing propagates to the UCMM

A request frame is given in *parsed* form (`Frame`): the 24-byte header fields and a `Body` that names the
layout of the payload.  The harness builds the bytes of the frame from the same description; the model produces
the bytes of the reply frames (`ReplyFrame.encode`).  `Body` covers the layouts the simulator's grammar accepts plus
a structured set of malformed ones (short Register, unknown command, CPF item lists of
unrecognized items instead of [null address, unconnected data], unknown CIP services); `Frame.inScope` says which frames the model speaks about.

Quirks mirrored: the session handle of a request is never validated; the request's status and options fields
are echoed (a non-zero request status ends the session after the reply); Register re-draws only on 0 (the
`session in sessions` test looks among the dict's *keys*, which are peer addresses, so it never fires); an
unparsable encapsulated command ends the session without any reply.
-/
namespace Cpppo.Session
open Cpppo Cpppo.Logix

/-- encapsulation header fields other than command and length (`enip_header`) -/
structure Hdr where
  session : Nat
  status  : Nat := 0
  context : Bytes               -- 8 octets
  options : Nat := 0
  length  : Nat := 0            -- the length field = number of payload octets (what the harness sent)
deriving Repr, DecidableEq

/-- a port/link route path segment -/
abbrev RouteSeg := Nat × Nat

/-- how the CIP request sits in the unconnected data item -/
inductive Wrap
  | direct                                                    -- the bare request (no routing encapsulation)
  | usend (cls ins prio ticks : Nat) (route : List RouteSeg)  -- Unconnected Send 0x52 to @cls/ins + route path
deriving Repr, DecidableEq

/-- the Connection Manager's own services, as its parsers deliver them (path @6/1) -/
inductive CmReq
  | fwdOpen (large : Bool) (prio ticks otId toId serial vendor oserial mult otRpi otNcp toRpi toNcp tct : Nat)
      (cpath : Path)
  | fwdClose (prio ticks serial vendor oserial : Nat) (cpath : Path)
deriving Repr, DecidableEq

/-- the embedded CIP request; `raw` = its bytes as sent (only the unrepaired `processOld` looks at them) -/
inductive Cip
  | req (r : Req) (raw : Bytes)
  | unknown (code : Nat) (path : Path) (raw : Bytes)          -- a service code no Object's parser knows
  | cm (r : CmReq) (raw : Bytes)                               -- [Large] Forward Open / Forward Close to @6/1
deriving Repr, DecidableEq

inductive Body
  | register (proto opts : Nat) (extra : Bytes)               -- protocol version, options (+ ignored bytes)
  | registerShort (bs : Bytes)                                -- fewer than 4 bytes: unparsable
  | unregister (payload : Bytes)
  | listServices | listIdentity | listInterfaces | legacy     -- empty payload
  | send (unit : Bool) (iface timeout : Nat) (w : Wrap) (c : Cip)      -- SendRRData / SendUnitData, CPF [null, data]
  | sendItems (unit : Bool) (iface timeout : Nat) (items : List (Nat × Bytes))  -- another CPF item list (count ≠ 2,
                                                           -- or no unconnected data item in second place)
  | unknownCmd (cmd : Nat) (payload : Bytes)
deriving Repr, DecidableEq

structure Frame where
  hdr  : Hdr
  body : Body
deriving Repr, DecidableEq

def Body.command : Body → Nat
  | .register .. | .registerShort _ => Generated.cmdRegister
  | .unregister _ => Generated.cmdUnregister
  | .listServices => Generated.cmdListServices
  | .listIdentity => Generated.cmdListIdentity
  | .listInterfaces => Generated.cmdListInterfaces
  | .legacy => Generated.cmdLegacy
  | .send unit .. | .sendItems unit .. => if unit then Generated.cmdSendUnit else Generated.cmdSendRR
  | .unknownCmd c _ => c

def Frame.command (f : Frame) : Nat := f.body.command

def Frame.isUnregister (f : Frame) : Bool :=
  match f.body with
  | .unregister _ => true
  | _ => false

def Frame.isRegister (f : Frame) : Bool :=
  match f.body with
  | .register .. => true
  | _ => false

/-- the encapsulated command parser (`parser.CIP`) accepts the payload -/
def Frame.parsable (f : Frame) : Bool :=
  match f.body with
  | .registerShort _ => false
  | .unknownCmd .. => false
  | _ => true

/-- a reply frame (`enip_encode( data.response.enip )`) -/
structure ReplyFrame where
  command : Nat
  session : Nat
  status  : Nat
  context : Bytes
  options : Nat
  payload : Bytes
deriving Repr, DecidableEq

def ReplyFrame.encode (r : ReplyFrame) : Bytes :=
  Bytes.le 2 r.command ++ Bytes.le 2 r.payload.length ++ Bytes.le 4 r.session ++ Bytes.le 4 r.status
    ++ r.context ++ Bytes.le 4 r.options ++ r.payload

/-- what `logix.process` does with one parsed frame -/
inductive Outcome
  | reply (r : ReplyFrame)       -- returned True: `data.response.enip` is sent
  | close                   -- returned False (Unregister): nothing is sent, the connection is dropped
  | abort                   -- raised (the frame cannot be parsed): nothing is sent, the connection is dropped
deriving Repr, DecidableEq

/-- `UCMM.route_path`: None = any route path; otherwise (a list, or a falsy value = `[]`) -/
inductive RouteCfg
  | any
  | only (segs : List RouteSeg)
deriving Repr, DecidableEq

/-- `route` = `UCMM.route_path` (the personality); `routes` = the keys of the routing table `UCMM.route`
(port/link --> another EtherNet/IP device).  In the check every route leads to a device that serves the same
objects with the same UCMM (the simulator itself), one hop away. -/
structure Cfg where
  route  : RouteCfg := .any
  routes : List RouteSeg := []
  size   : Option Nat := none       -- `enip_server --size`: limit on the payload of a request
deriving Repr, DecidableEq

/-- per-connection state: the device, the stream `random.randint` will deliver, `UCMM.sessions[addr]` -/
structure Srv where
  dev       : Dev
  rand      : List Nat
  session   : Option Nat := none
  routeConn : Bool := false       -- `UCMM.route_conn[target]`: a registered client connection to the route's device
  forwards  : List (Nat × Nat) := []   -- `Connection_Manager.forwards` of this peer: (O->T connection ID, connection serial)
  refusing  : List (Nat × Nat × Nat) := []   -- addresses of Attributes whose `__setitem__` raises (never changes)
deriving Repr, DecidableEq

/-! ### pieces of UCMM.request -/

/-- `if 'enip.status' not in data or data.enip.status == 0x00: data['enip.status'] = 0x08` -/
def failStatus (st : Nat) : Nat := if st = 0 then Generated.failStatusDefault else st

/-- the response is a structural copy of the request's encapsulation -/
def echo (f : Frame) (status : Nat) (payload : Bytes) : ReplyFrame :=
  { command := f.command, session := f.hdr.session, status := status, context := f.hdr.context,
    options := f.hdr.options, payload := payload }

/-- an exception inside `UCMM.request`: no payload, non-zero status -/
def refuse (f : Frame) : Outcome := .reply (echo f (failStatus f.hdr.status) [])

/-- `session = random.randint(..)  while not session or session in sessions` (the second test never fires) -/
def pickNonzero : List Nat → Option (Nat × List Nat)
  | [] => none
  | x :: xs => if x = 0 then pickNonzero xs else some (x, xs)

/-- the route-path assertion of a local request -/
def routeAccepts : RouteCfg → Wrap → Bool
  | .any, _ => true
  | .only _, .direct => true
  | .only segs, .usend _ _ _ _ route => route.isEmpty || route == segs

/-- the Object an Unconnected Send designates must be able to process it: a Connection Manager
(instance 1, or the class-level instance 0).  Before the `fix:` commit any existing Object was handed the
Unconnected Send wrapper as if it were a request of its own (`fixed = false`). -/
def usendToCM : Wrap → Bool
  | .direct => true
  | .usend cls ins .. => cls = Generated.cmClass && (ins = 0 || ins = 1)

/-- old code: the wrapper was handed to a Logix object (the Message Router or its class-level instance), which
answered *the wrapper*; the embedded request came back unprocessed -/
def usendToRouterOld : Wrap → Bool
  | .direct => false
  | .usend cls ins .. => cls = Generated.routerClass && (ins = 0 || ins = 1)

/-- `find_route()`: the first route path segment names an entry of the routing table; the request is then forwarded
with that segment removed -- bare when nothing remains, else in an Unconnected Send with the same send path -/
def routedVia (cfg : Cfg) : Wrap → Option Wrap
  | .direct => none
  | .usend _ _ _ _ [] => none
  | .usend cls ins prio ticks (r :: rest) =>
    if cfg.routes.contains r then some (if rest.isEmpty then .direct else .usend cls ins prio ticks rest) else none

/-- `data.enip.status = 0x65` while a routed request is under way: what any failure of it leaves behind -/
def routeFailStatus : Nat := Generated.routeFailStatus

def Cip.path : Cip → Path
  | .req (.simple s) _ => match s with
    | .readTag p _ | .readFrag p _ _ | .writeTag p _ _ _ | .writeFrag p _ _ _ _
    | .getAttrSingle p | .setAttrSingle p _ | .getAttrAll p => p
  | .req (.multiple p _) _ => p
  | .unknown _ p _ => p
  | .cm _ _ => [.cls Generated.cmClass, .ins 1]

def Cip.raw : Cip → Bytes
  | .req _ raw => raw
  | .unknown _ _ raw => raw
  | .cm _ raw => raw

def simpleService : Simple → Nat
  | .readTag .. => Generated.svcReadTag
  | .readFrag .. => Generated.svcReadFrag
  | .writeTag .. => Generated.svcWriteTag
  | .writeFrag .. => Generated.svcWriteFrag
  | .getAttrSingle _ => Generated.svcGetAttrSingle
  | .setAttrSingle .. => Generated.svcSetAttrSingle
  | .getAttrAll _ => Generated.svcGetAttrAll

/-- the service code a request carries in its first byte -/
def reqService : Req → Nat
  | .simple s => simpleService s
  | .multiple .. => Generated.svcMultiple

def Cip.service : Cip → Nat
  | .req r _ => reqService r
  | .unknown code _ _ => code
  | .cm (.fwdOpen large ..) _ => if large then Generated.svcFwdOpenLarge else Generated.svcFwdOpen
  | .cm (.fwdClose ..) _ => Generated.svcFwdClose

/-- the Attribute a top-level Write Tag [Fragmented] assigns to, when everything before the assignment succeeds -/
def writeTarget (d : Dev) : Req → Option (Nat × Nat × Nat)
  | .simple (.writeTag p ..) | .simple (.writeFrag p ..) =>
    (resolveTag d ((routeTarget d router p).getD router) p).map fun (c, i, a, _) => (c, i, a)
  | _ => none

/-- `Cpppo.Logix.exec`, on a device some of whose Attributes refuse every store (an application's
`device.Attribute` subclass whose `__setitem__` raises: the documented extension point): the assignment
`attribute[beg:end] = …` is the last step inside the `try`, with status 0xFF / 0x2105 still pending -- so a write
that would have succeeded is answered with that status, and nothing changes.  (Only top-level writes are looked
at: `Frame.inScope` keeps bundled writes and Set Attribute Single away from refusing Attributes.) -/
def execReq (refusing : List (Nat × Nat × Nat)) (d : Dev) (r : Req) : Dev × Option Bytes :=
  match writeTarget d r with
  | some addr =>
    if refusing.contains addr then
      match exec d r with
      | (d', some bs) =>
        if bs.getD 2 1 = 0 then (d, encodeReply (errReply (reqService r + 128) 255 [0x2105])) else (d', some bs)
      | x => x
    else exec d r
  | none => exec d r

/-- `Connection_Manager.request` on the embedded request: the Object its path designates -- or, when the path
does not resolve to an existing Object (unknown Tag, unknown Object), the Message Router @2/1 -- parses and
executes it.  `Cpppo.Logix.exec` starts at the Message Router and routes to the designated Object when it exists,
which is the same thing; an unknown target is answered by the Message Router itself with CIP status 0x05 (0x16 for
a Multiple Service Packet).  `none` = an exception leaves `request` (no Object's parser knows the service, or
the reply cannot be produced). -/
def cmRequest (refusing : List (Nat × Nat × Nat)) (d : Dev) (c : Cip) : Dev × Option Bytes :=
  match c with
  | .req r _ => execReq refusing d r
  | .unknown .. => (d, none)
  | .cm .. => (d, none)           -- (served by `execCm`, see `cmServe`)

/-! ### the Connection Manager's own services -/

/-- `random.randint` of device.py (connection IDs): any value will do -/
def draw : List Nat → Option (Nat × List Nat)
  | [] => none
  | x :: xs => some (x, xs)

/-- `defaults.Connection.decoding`: connection size and type out of the Network Connection Parameters
(16-bit; Large: 32-bit, the parameter bits 16 places higher) -/
def ncpSize (large : Bool) (ncp : Nat) : Nat := ncp % (if large then 65536 else 512)
def ncpType (large : Bool) (ncp : Nat) : Nat := (ncp / 2 ^ (13 + (if large then 16 else 0))) % 4

def fwdOpenRpy (large : Bool) : Nat := (if large then Generated.svcFwdOpenLarge else Generated.svcFwdOpen) + 128

/-- `Connection_Manager.request` for [Large] Forward Open / Forward Close: always a reply (status 0x00 or 0x08).
Quirks mirrored: a Forward Open whose (peer, O->T connection ID) is already known always fails -- the comparison
with the stored one calls a method dotdict does not have; Forward Close succeeds whether or not it matches. -/
def execCm (s : Srv) : CmReq → Srv × Bytes
  | .fwdOpen large _ _ otId toId serial vendor oserial _ otRpi otNcp toRpi toNcp _ _ =>
    let svc := fwdOpenRpy large
    let fail : Bytes := [svc, 0, 8, 0] ++ Bytes.le 2 serial ++ Bytes.le 2 vendor ++ Bytes.le 4 oserial
    -- `defaults.Connection( **fo.O_T )`: assert 0 < size
    if ncpSize large otNcp = 0 || ncpSize large toNcp = 0 then (s, fail) else
    -- the Target picks the O->T connection ID of a point-to-point, the T->O ID of a multicast connection
    match (if ncpType large otNcp = Generated.connTypeP2P then draw s.rand else some (otId, s.rand)) with
    | none => ({ s with rand := [] }, fail)
    | some (ot, r1) =>
      match (if ncpType large toNcp = Generated.connTypeMC then draw r1 else some (toId, r1)) with
      | none => ({ s with rand := [] }, fail)
      | some (to, r2) =>
        if s.forwards.any (·.1 == ot) then ({ s with rand := r2 }, fail)
        else
          ({ s with rand := r2, forwards := s.forwards ++ [(ot, serial)] },
           [svc, 0, 0, 0] ++ Bytes.le 4 ot ++ Bytes.le 4 to ++ Bytes.le 2 serial ++ Bytes.le 2 vendor
             ++ Bytes.le 4 oserial ++ Bytes.le 4 otRpi ++ Bytes.le 4 toRpi ++ [0, 0])
  | .fwdClose _ _ serial vendor oserial _ =>
    ({ s with forwards := s.forwards.filter (·.2 != serial) },
     [Generated.svcFwdClose + 128, 0, 0, 0] ++ Bytes.le 2 serial ++ Bytes.le 2 vendor ++ Bytes.le 4 oserial ++ [0, 0])

/-- the embedded request served by whoever it is for -/
def cmServe (s : Srv) (c : Cip) : Srv × Option Bytes :=
  match c with
  | .cm r _ => let (s', bs) := execCm s r; (s', some bs)
  | c => let (d', o) := cmRequest s.refusing s.dev c; ({ s with dev := d' }, o)

/-- CPF item list -/
def cpfEncode (items : List (Nat × Bytes)) : Bytes :=
  Bytes.le 2 items.length ++ (items.map fun (t, bs) => Bytes.le 2 t ++ Bytes.le 2 bs.length ++ bs).flatten

/-- `send_data.produce`: interface, timeout, CPF [null address, unconnected data] -/
def sendFraming (iface timeout : Nat) (bs : Bytes) : Bytes :=
  Bytes.le 4 iface ++ Bytes.le 2 timeout ++ cpfEncode [(0, []), (Generated.cpfUnconnected, bs)]

/-! ### logix.process / UCMM.request -/

/-- the request's payload is within the configured limit (`len( data.request.enip.input ) > int( kwds['size'] )`) -/
def fits (cfg : Cfg) (f : Frame) : Bool :=
  match cfg.size with
  | none => true
  | some n => f.hdr.length ≤ n

def sizeFailStatus : Nat := Generated.sizeFailStatus

/-- `UCMM.request` (and, for a frame the command parser rejects, the exception out of `logix.process`) -/
def processBody (fixed : Bool) (cfg : Cfg) (s : Srv) (f : Frame) : Srv × Outcome :=
  match f.body with
  | .register proto opts _ =>
    match pickNonzero s.rand with
    | none => ({ s with rand := [] }, refuse f)          -- the random source raised
    | some (h, rest) =>
      ({ s with rand := rest, session := some h },
       .reply { echo f 0 (Bytes.le 2 proto ++ Bytes.le 2 opts) with session := h })
  | .registerShort _ => (s, .abort)
  | .unregister _ => ({ s with session := none }, .close)
  | .listServices => (s, .reply (echo f f.hdr.status Generated.listServicesPayload))
  | .listIdentity => (s, .reply (echo f f.hdr.status Generated.listIdentityPayload))
  | .listInterfaces => (s, .reply (echo f f.hdr.status Generated.listInterfacesPayload))
  | .legacy => (s, .reply (echo f f.hdr.status Generated.legacyPayload))
  | .sendItems .. => (s, refuse f)
  | .unknownCmd .. => (s, .abort)
  | .send _ iface timeout w c =>
    match routedVia cfg w with
    | some inner =>
      -- the connection to the route's device: created and registered on first use, and after every failure
      let conn : Option Srv :=
        if s.routeConn then some s
        else match pickNonzero s.rand with
          | none => none
          | some (_, rest) => some { s with rand := rest, routeConn := true }
      match conn with
      | none => ({ s with rand := [], routeConn := false }, .reply (echo f routeFailStatus []))
      | some s1 =>
        -- the route's device serves the forwarded request as a local one; whatever it refuses, the forwarding
        -- UCMM turns into a failure, and discards the connection
        if !routeAccepts cfg.route inner || !usendToCM inner then
          ({ s1 with routeConn := false }, .reply (echo f routeFailStatus []))
        else
          match cmServe s1 c with
          | (s2, some bs) => (s2, .reply (echo f 0 (sendFraming iface timeout bs)))
          | (s2, none) => ({ s2 with routeConn := false }, .reply (echo f routeFailStatus []))
    | none =>
    if !routeAccepts cfg.route w then (s, refuse f)
    else if !fixed && usendToRouterOld w then
      (s, .reply (echo f f.hdr.status (sendFraming iface timeout c.raw)))
    else if !usendToCM w then (s, refuse f)
    else
      match cmServe s c with
      | (s', some bs) => (s', .reply (echo f f.hdr.status (sendFraming iface timeout bs)))
      | (s', none) => (s', refuse f)

/-- `logix.process`: after the command parser has accepted the frame, and before anything is done with it, a
payload over the size limit is refused (even an Unregister Session is then *answered*) -/
def processWith (fixed : Bool) (cfg : Cfg) (s : Srv) (f : Frame) : Srv × Outcome :=
  if f.parsable && !fits cfg f then (s, .reply (echo f sizeFailStatus [])) else processBody fixed cfg s f

def process := processWith true
def processOld := processWith false

/-! ### enip_srv_tcp -/

inductive End
  | «open»        -- all input consumed, the session is still established
  | closed        -- ended by Unregister or after a reply with non-zero status
  | aborted       -- ended by an exception
deriving Repr, DecidableEq

structure Run where
  srv      : Srv
  replies  : List ReplyFrame
  consumed : Nat          -- frames taken from the input (`stats.requests`)
  «end»    : End
deriving Repr, DecidableEq

/-- the `while not stats.eof` loop over the frames present in the input -/
def serveWith (fixed : Bool) (cfg : Cfg) : Srv → List Frame → Run
  | s, [] => ⟨s, [], 0, .open⟩
  | s, f :: fs =>
    match processWith fixed cfg s f with
    | (s', .reply r) =>
      if r.status = 0 then
        let run := serveWith fixed cfg s' fs
        { run with replies := r :: run.replies, consumed := run.consumed + 1 }
      else ⟨s', [r], 1, .closed⟩
    | (s', .close) => ⟨s', [], 1, .closed⟩
    | (s', .abort) => ⟨s', [], 1, .aborted⟩

def serve := serveWith true
def serveOld := serveWith false

/-- the input delivered in several batches (a client that writes some requests, reads, writes more …;
one frame per batch = no pipelining at all) -/
def serveBatches (cfg : Cfg) : Srv → List (List Frame) → Run
  | s, [] => ⟨s, [], 0, .open⟩
  | s, b :: bs =>
    let r1 := serve cfg s b
    match r1.end with
    | .open =>
      let r2 := serveBatches cfg r1.srv bs
      ⟨r2.srv, r1.replies ++ r2.replies, r1.consumed + r2.consumed, r2.end⟩
    | _ => r1

/-- several connections one after the other (same peer address), on the same device and UCMM -/
def serveSessions (cfg : Cfg) : Srv → List (List Frame) → List Run
  | _, [] => []
  | s, fs :: rest =>
    let r := serve cfg s fs
    -- at EOF, and after an exception, `enip_process( addr, data={} )` lets the Connection Manager forget the peer
    let s' := if r.end == .closed then r.srv else { r.srv with forwards := [] }
    r :: serveSessions cfg s' rest

/-! ### which frames the model speaks about -/

/-- a bundled write, or a Set Attribute Single, whose path names a refusing Attribute (not modelled) -/
def touchesRefusing (refusing : List (Nat × Nat × Nat)) (d : Dev) : Simple → Bool
  | .writeTag p .. | .writeFrag p .. | .setAttrSingle p _ =>
    match resolve d.symbols (.dflt 1) p with
    | some (c, i, a) => refusing.contains (c, i, a.getD 1)
    | none => false
  | _ => false

def reqAvoidsRefusing (refusing : List (Nat × Nat × Nat)) (d : Dev) : Req → Bool
  | .simple (.setAttrSingle p x) => !touchesRefusing refusing d (.setAttrSingle p x)
  | .simple _ => true
  | .multiple _ reqs => reqs.all fun m => !touchesRefusing refusing d m

def Cip.isCm : Cip → Bool
  | .cm .. => true
  | _ => false

def Cip.inScope (d : Dev) (c : Cip) (refusing : List (Nat × Nat × Nat) := []) : Bool :=
  (match c with
   | .req r _ => reqAvoidsRefusing refusing d r
   | _ => true) &&
  (c.isCm || match resolve d.symbols .no c.path with
   | some (cl, i, _) => !Generated.builtinClasses.contains cl && i != 0
   | none => true) &&
  (match c with
   | .req .. => true
   | .cm (.fwdOpen _ prio ticks otId toId serial vendor oserial mult otRpi otNcp toRpi toNcp tct _) _ =>
     prio < 256 && ticks < 256 && otId < 2 ^ 32 && toId < 2 ^ 32 && serial < 65536 && vendor < 65536
       && oserial < 2 ^ 32 && mult < 256 && otRpi < 2 ^ 32 && toRpi < 2 ^ 32 && otNcp < 2 ^ 32 && toNcp < 2 ^ 32 && tct < 256
   | .cm (.fwdClose prio ticks serial vendor oserial _) _ =>
     prio < 256 && ticks < 256 && serial < 65536 && vendor < 65536 && oserial < 2 ^ 32
   | .unknown code _ _ =>
     code < 128 && ![Generated.svcReadTag, Generated.svcReadFrag, Generated.svcWriteTag, Generated.svcWriteFrag,
       Generated.svcGetAttrSingle, Generated.svcSetAttrSingle, Generated.svcGetAttrAll, Generated.svcGetAttrList,
       Generated.svcMultiple].contains code)

def Frame.inScope (cfg : Cfg) (d : Dev) (f : Frame) (refusing : List (Nat × Nat × Nat) := []) : Bool :=
  f.hdr.context.length == 8 &&
  match f.body with
  | .registerShort bs => bs.length < 4
  | .unknownCmd c _ => !Generated.knownCommands.contains c
  | .sendItems _ _ _ items =>
    -- items of unrecognized type; or, in a list of other than two items, unconnected data items that carry a bare
    -- request (anything not starting with 0x52 / 0xD2 is left unparsed by the item parser)
    items.all fun (t, bs) =>
      !Generated.cpfItemTypes.contains t ||
        (t == Generated.cpfUnconnected && items.length != 2 && !bs.isEmpty
          && bs.head? != some Generated.svcUnconnectedSend && bs.head? != some (Generated.svcUnconnectedSend + 128))
  | .send _ _ _ w c =>
    -- a bare request whose first byte is 0x52 is taken for an Unconnected Send by the CPF item parser
    c.inScope d refusing &&
    (match routedVia cfg w with
     | some inner =>      -- one hop only; the forwarded request is subject to the same ambiguity
       !c.isCm && !(inner == .direct && c.service == Generated.svcUnconnectedSend) && (routedVia cfg inner).isNone
     | none => !(w == .direct && c.service == Generated.svcUnconnectedSend))
  | _ => true

end Cpppo.Session
