import Cpppo.Model.Wire
import Cpppo.Model.Poll
import Cpppo.Generated.Tables
/-! driver: `poll <reach> <op;op;…>` — one answer per op, joined by `;`
  p<addr>            poller.poll( addr )                     -> `-`
  r<addr>            poller.read( addr )                     -> value | `N` (None)
  c                  one complete turn of the polling loop   -> data=…|on=…|pol=…|fail=…|req=…
  s<k>.<off>=<v>     the process changes a device cell       -> `-`
  b<k>.<off> / g<k>.<off>   the device starts / stops refusing a cell -> `-`
  W<addr>=<v,v…>     poller.write( addr, value(s) )          -> ok | offline | invalid | refused
-/
namespace Cpppo.Driver.Poll
open Cpppo.Wire Cpppo.Merge Cpppo.Poll

def cfg : Cfg := { coil := Generated.shatterCoilLimit, reg := Generated.shatterRegLimit,
                   block := Generated.mergeBlock }

def commands : List String := ["poll"]

def showVal : Option Nat → String
  | none => "N"
  | some v => toString v

def insTriple (x : Nat × Nat × Nat) : List (Nat × Nat × Nat) → List (Nat × Nat × Nat)
  | [] => [x]
  | y :: ys =>
    if x.1 < y.1 || (x.1 == y.1 && (x.2.1 < y.2.1 || (x.2.1 == y.2.1 && x.2.2 ≤ y.2.2))) then x :: y :: ys
    else y :: insTriple x ys

def sortTriples : List (Nat × Nat × Nat) → List (Nat × Nat × Nat)
  | [] => []
  | x :: xs => insTriple x (sortTriples xs)

def showState (st : PState) (reqs : List (Nat × Nat × Nat)) : String :=
  let d := if st.data.isEmpty then "-" else ",".intercalate (st.data.map fun kv => s!"{kv.1}:{showVal kv.2}")
  let r := if reqs.isEmpty then "-" else ",".intercalate ((sortTriples reqs).map fun q => s!"{q.1}.{q.2.1}.{q.2.2}")
  s!"data={d}|on={if st.online then 1 else 0}|pol={showPairs st.polling}|fail={showPairs st.failing}|req={r}"

def cellOf (s : String) : Option (Nat × Nat) :=
  match s.split (· == '.') |>.toList.map (·.toString) with
  | [k, o] => do pure (← k.toNat?, ← o.toNat?)
  | _ => none

def step (reach : Nat) (acc : PState × DevSt) (op : String) : Option ((PState × DevSt) × String) :=
  let (st, d) := acc
  match op.toList with
  | ['c'] =>
    let reqs := requests Generated.modbusReadBanks cfg reach st
    let st' := pollCycle Generated.modbusReadBanks cfg reach d.dev st
    some ((st', d), showState st' reqs)
  | 'p' :: rest => do
    let a ← (String.ofList rest).toNat?
    pure ((poll st a, d), "-")
  | 'r' :: rest => do
    let a ← (String.ofList rest).toNat?
    let (st', v) := read st a
    pure ((st', d), showVal v)
  | 's' :: rest =>
    match (String.ofList rest).split (· == '=') |>.toList.map (·.toString) with
    | [c, v] => do
      let (k, o) ← cellOf c
      let v ← v.toNat?
      pure ((st, d.put k o [v]), "-")
    | _ => none
  | 'b' :: rest => do
    let c ← cellOf (String.ofList rest)
    pure ((st, { d with badCells := c :: d.badCells }), "-")
  | 'g' :: rest => do
    let c ← cellOf (String.ofList rest)
    pure ((st, { d with badCells := d.badCells.filter (· != c) }), "-")
  | 'W' :: rest =>
    match (String.ofList rest).split (· == '=') |>.toList.map (·.toString) with
    | [a, vs] => do
      let a ← a.toNat?
      let vs ← (splitNonEmpty vs ',').mapM (·.toNat?)
      let (d', out) := write Generated.modbusWriteBanks st d a vs
      pure ((st, d'), match out with | .ok => "ok" | .offline => "offline" | .invalid => "invalid" | .refused => "refused")
    | _ => none
  | _ => none

def runOps (reach : Nat) : PState × DevSt → List String → Option (List String)
  | _, [] => some []
  | acc, op :: ops => do
    let (acc', out) ← step reach acc op
    let rest ← runOps reach acc' ops
    pure (out :: rest)

def handle : List String → Option String
  | ["poll", reach, ops] => do
    let reach ← reach.toNat?
    let outs ← runOps reach ({}, {}) (splitNonEmpty ops ';')
    pure (if outs.isEmpty then "-" else ";".intercalate outs)
  | _ => none

end Cpppo.Driver.Poll
