import Cpppo.Model.Wire
import Cpppo.Model.Merge
import Cpppo.Generated.Tables
/-! driver: `merge <fixed> <reach> <lim|-> a:c,a:c…`   `shatter <a> <c> <lim|->` -/
namespace Cpppo.Driver.Merge
open Cpppo.Wire Cpppo.Merge

def cfg : Cfg := { coil := Generated.shatterCoilLimit, reg := Generated.shatterRegLimit,
                   block := Generated.mergeBlock }

def commands : List String := ["merge", "shatter"]

def handle : List String → Option String
  | ["merge", fixed, reach, lim, rs] => do
    let reach ← reach.toNat?
    let lim ← optNat lim
    let rs ← (splitNonEmpty rs ',').mapM natPair
    match mergeWith (fixed == "1") cfg rs reach lim with
    | none => pure "reject"
    | some out => pure (showPairs out)
  | ["shatter", a, c, lim] => do
    let a ← a.toNat?
    let c ← c.toNat?
    let lim ← optNat lim
    pure (showPairs (shatter cfg a c lim))
  | _ => none

end Cpppo.Driver.Merge
