import Cpppo.Model.Wire
import Cpppo.Model.ClientOps
import Cpppo.Model.ClientIssue
import Cpppo.Generated.Tables
/-!
driver (property C12); text travels as hex of its bytes (ASCII), "-" = empty

  `c12.parse <fragment 0|1> <int_type hex> <text hex>`         parse_operations
  `c12.attr  <text hex>`                                       get_attribute.attribute_operations
  `c12.ppath <elm|-> <cnt|-> <text hex>`                        device.parse_path_elements
  `c12.fmt   <count|-> <segs>`                                  client.format_path
  `c12.fmtparse <count|-> <segs>`                               parse_path_elements( format_path( .. ))
  `c12.seq   <index> <passes> <ops>`   the SAME operation list issued under several settings in a row
       passes = `via/depth/multiple/fragment` joined by '+'
       ops = `method|-:hasdata:tag_type:ndata:elements:data_size:offset:route:send:token(fragment off):token(on)`
  `c12.pipe  <via s|p|o> <depth> <multiple> <index> <fragment 0|1> <ops>`
       ops = `method:tag_type:ndata:elements:data_size:offset:route:send:token` joined by ','
-/
namespace Cpppo.Driver.Client
open Cpppo.Wire Cpppo.Py Cpppo.Client

def commands : List String := ["c12.parse", "c12.attr", "c12.ppath", "c12.fmt", "c12.fmtparse", "c12.pipe", "c12.seq"]

def cipTypes : List CipType :=
  Generated.clientCipTypes.map fun (n, tt, sz, k, lo, hi) =>
    { name := n.toList, tagType := tt, size := sz,
      kind := if k = 0 then Kind.str else if k = 1 then Kind.bool else if k = 2 then Kind.real
              else Kind.int lo hi }

def cfg : Cfg :=
  { reqMin := Generated.clientIssueReqMin, rpyMin := Generated.clientIssueRpyMin,
    readReq := Generated.clientIssueReadReq, readRpy := Generated.clientIssueReadRpy,
    writeReq := Generated.clientIssueWriteReq, writeRpy := Generated.clientIssueWriteRpy,
    sasReq := Generated.clientIssueSasReq, sasRpy := Generated.clientIssueSasRpy,
    gaReq := Generated.clientIssueGaReq, gaRpy := Generated.clientIssueGaRpy,
    svcReq := Generated.clientIssueSvcReq, svcRpy := Generated.clientIssueSvcRpy,
    sizes := Generated.clientTypeSizes,
    writeDef := Generated.clientIssueWriteDef, readDef := Generated.clientIssueReadDef,
    sasDef := Generated.clientIssueSasDef,
    tSINT := Generated.clientTagSINT, tUSINT := Generated.clientTagUSINT }

def textOfHex (s : String) : Option Str := (bytesOfHex s).map fun bs => bs.map Char.ofNat

def hexOfText (s : Str) : String := hexOfBytes (s.map Char.toNat)

def optInt (s : String) : Option (Option Int) := if s = "-" then some none else s.toInt?.map some

def showOptInt : Option Int → String
  | none => "-"
  | some v => toString v

def showSeg : Seg → String
  | Seg.sym n => "S" ++ hexOfText n
  | Seg.dict kvs => "D" ++ ";".intercalate (kvs.map fun p => hexOfText p.1 ++ ":" ++ toString p.2)

def showSegs (l : List Seg) : String := if l.isEmpty then "-" else ",".intercalate (l.map showSeg)

def readSeg (s : String) : Option Seg :=
  match s.toList with
  | 'S' :: r => (textOfHex (String.ofList r)).map Seg.sym
  | 'D' :: r =>
    let body := String.ofList r
    if body = "" then some (Seg.dict [])
    else
      let items : List String := (body.split (· == ';')).toList.map (·.toString)
      let kv (it : String) : Option (Str × Int) :=
        match (it.split (· == ':')).toList.map (·.toString) with
        | [k, v] => do pure (← textOfHex k, ← v.toInt?)
        | _ => none
      (items.mapM kv).map Seg.dict
  | _ => none

def readSegs (s : String) : Option (List Seg) := (splitNonEmpty s ',').mapM readSeg

def showVal : Val → String
  | Val.int v => "i" ++ toString v
  | Val.bool b => if b then "bT" else "bF"
  | Val.real neg m e => "r" ++ (if neg then "-" else "") ++ toString m ++ "e" ++ toString e
  | Val.str s => "s" ++ hexOfText s

def showData : Option (List Val) → String
  | none => "-"
  | some [] => "()"
  | some l => ";".intercalate (l.map showVal)

def showErr : Err → String
  | Err.reject => "reject"
  | Err.unmodelled => "unmodelled"

def showOp (op : OpD) : String :=
  s!"w={if op.write then 1 else 0} off={showOptInt op.offset} p={showSegs op.path} el={showOptInt op.elements} tt={match op.tagType with | none => "-" | some t => toString t} d={showData op.data}"

def readMethod : String → Option Method
  | "r" => some Method.read
  | "w" => some Method.write
  | "s" => some Method.sas
  | "g" => some Method.gas
  | "a" => some Method.gaa
  | "c" => some Method.svc
  | _ => none

def readOp (s : String) : Option (Op × String) :=
  match (s.split (· == ':')).toList.map (·.toString) with
  | [m, tt, nd, el, ds, off, ro, se, tok] => do
    let m ← readMethod m
    let tt ← optNat tt
    let nd ← nd.toNat?
    let el ← optNat el
    let ds ← optNat ds
    let off ← if off = "a" then some none else if off = "n" then some (some none)
              else off.toNat?.map fun v => some (some v)
    let ro ← ro.toNat?
    let se ← se.toNat?
    pure ({ method := m, tagType := tt, ndata := nd, elements := el, dataSize := ds, offset := off,
            route := ro, send := se }, tok)
  | _ => none

def kindLetter : ReqKind → String
  | ReqKind.readTag => "t"
  | ReqKind.readFrag => "f"
  | ReqKind.writeTag => "w"
  | ReqKind.writeFrag => "x"
  | ReqKind.sas => "s"
  | ReqKind.gas => "g"
  | ReqKind.gaa => "a"
  | ReqKind.svc => "c"

def showPacket (fragment : Bool) (p : Packet (Op × String)) : String :=
  let ks := String.join (p.members.map fun m => kindLetter (reqKind fragment m.1))
  let (ro, se) := match p.members.head? with
    | some m => (m.1.route, m.1.send)
    | none => (0, 0)
  s!"{p.index}:{if p.bundled then "M" else "S"}:{ks}:{ro}:{se}"

def showOutcome : Outcome → String
  | Outcome.ok => "ok"
  | Outcome.mismatch => "mismatch"
  | Outcome.incomplete => "incomplete"
  | Outcome.fuel => "fuel"

def listOr (l : List String) : String := if l.isEmpty then "-" else ",".intercalate l

def readRaw (s : String) : Option (RawOp × String × String) :=
  match (s.split (· == ':')).toList.map (·.toString) with
  | [m, hd, tt, nd, el, ds, off, ro, se, tokF, tokT] => do
    let m ← if m = "-" then some none else (readMethod m).map some
    let tt ← optNat tt
    let nd ← nd.toNat?
    let el ← optNat el
    let ds ← optNat ds
    let off ← if off = "a" then some none else if off = "n" then some (some none)
              else off.toNat?.map fun v => some (some v)
    let ro ← ro.toNat?
    let se ← se.toNat?
    pure ({ method := m, hasData := hd == "1", offset := off, tagType := tt, ndata := nd, elements := el,
            dataSize := ds, route := ro, send := se }, tokF, tokT)
  | _ => none

def readPass (s : String) : Option Pass :=
  match (s.split (· == '/')).toList.map (·.toString) with
  | [via, d, m, f] => do
    let via ← if via = "s" then some 0 else if via = "p" then some 1 else if via = "o" then some 2 else none
    pure { via := via, depth := (← d.toInt?), multiple := (← m.toNat?), fragment := f == "1" }
  | _ => none

def runPass (index : Nat) (p : Pass) (ops : List (Op × String)) : String :=
  let packets := issue (fun (o : Op × String) => estimate cfg p.multiple o.1) (fun o => opKey o.1)
    p.multiple cfg.reqMin cfg.rpyMin index ops
  let step : Unit → (Op × String) → Unit × String := fun _ o => ((), o.2)
  let (out, oc) :=
    if p.via = 0 then synchronous step () packets
    else if p.via = 1 then pipeline step p.depth index () packets
    else operate step p.depth.toNat index () packets
  let ps := listOr (packets.map (showPacket p.fragment))
  let rs := listOr (out.map fun (i, t) => s!"{i}:{t}")
  s!"P={ps} R={rs} O={showOutcome oc}"

/-- the passes over the caller's list, which `issue` leaves as it is (`callerAfter true`) -/
def runSeq (index : Nat) : List (RawOp × String × String) → List Pass → List String
  | _, [] => []
  | ops, p :: ps =>
    let now := ops.map fun (r, tf, tt) => (r.toOp p.fragment, if p.fragment then tt else tf)
    let after := (callerAfter true p.fragment (ops.map (·.1))).zip (ops.map (·.2))
    runPass index p now :: runSeq index after ps

def handle : List String → Option String
  | ["c12.seq", index, passes, ops] => do
    let index ← index.toNat?
    let passes ← (passes.split (· == '+')).toList.map (·.toString) |>.mapM readPass
    let ops ← (splitNonEmpty ops ',').mapM readRaw
    let final := passes.foldl (fun acc p => callerAfter true p.fragment acc) (ops.map (·.1))
    let a := if final == ops.map (·.1) then "same" else "altered"
    pure (" ;; ".intercalate (runSeq index ops passes) ++ s!" A={a}")
  | ["c12.parse", frag, ity, txt] => do
    let ity ← textOfHex ity
    let txt ← textOfHex txt
    match parseOperation cipTypes (frag == "1") ity txt with
    | Except.ok op => pure ("ok " ++ showOp op)
    | Except.error e => pure (showErr e)
  | ["c12.attr", txt] => do
    let txt ← textOfHex txt
    match parseOperation cipTypes false "SINT".toList txt with
    | Except.error e => pure (showErr e)
    | Except.ok op =>
      match attributeMethod op with
      | Except.error e => pure (showErr e)
      | Except.ok m =>
        let op := { op with write := false }
        let ms := match m with
          | AttrMethod.getAll => "get_attributes_all"
          | AttrMethod.getSingle => "get_attribute_single"
          | AttrMethod.setSingle => "set_attribute_single"
        pure (s!"ok m={ms} " ++ showOp op)
  | ["c12.ppath", elm, cnt, txt] => do
    let elm ← optInt elm
    let cnt ← optInt cnt
    let txt ← textOfHex txt
    match parsePathElements txt elm cnt with
    | Except.ok (segs, e, c) => pure s!"ok p={showSegs segs} e={showOptInt e} c={showOptInt c}"
    | Except.error e => pure (showErr e)
  | ["c12.fmt", cnt, segs] => do
    let cnt ← optInt cnt
    let segs ← readSegs segs
    match formatPath segs cnt with
    | some s => pure ("ok " ++ hexOfText s)
    | none => pure "reject"
  | ["c12.fmtparse", cnt, segs] => do
    let cnt ← optInt cnt
    let segs ← readSegs segs
    match formatPath segs cnt with
    | none => pure "reject"
    | some s =>
      match parsePathElements s none none with
      | Except.ok (segs', e, c) =>
        pure s!"ok {hexOfText s} p={showSegs segs'} e={showOptInt e} c={showOptInt c}"
      | Except.error e => pure (s!"ok {hexOfText s} " ++ showErr e)
  | ["c12.pipe", via, depth, multiple, index, frag, ops] => do
    let depth ← depth.toInt?
    let multiple ← multiple.toNat?
    let index ← index.toNat?
    let ops ← (splitNonEmpty ops ',').mapM readOp
    let fragment := frag == "1"
    let packets := issue (fun (o : Op × String) => estimate cfg multiple o.1) (fun o => opKey o.1)
      multiple cfg.reqMin cfg.rpyMin index ops
    let step : Unit → (Op × String) → Unit × String := fun _ o => ((), o.2)
    let (out, oc) :=
      if via == "s" then synchronous step () packets
      else if via == "p" then pipeline step depth index () packets
      else operate step depth.toNat index () packets
    let ps := listOr (packets.map (showPacket fragment))
    let rs := listOr (out.map fun (i, t) => s!"{i}:{t}")
    if via == "x" then pure s!"V={listOr (out.map fun (_, t) => t)} O={showOutcome oc}"
    else pure s!"P={ps} R={rs} O={showOutcome oc}"
  | _ => none

end Cpppo.Driver.Client
