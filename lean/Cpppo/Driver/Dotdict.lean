import Cpppo.Model.Wire
import Cpppo.Model.Dotdict
import Cpppo.Generated.Tables
/-!
driver: `dd <fixResolve><fixReserved> op/slot/key/value …`  — a whole operation sequence on two
dotdict slots (slot 1 is filled by `copy`/`deepcopy`), answered on one line:
`res~dump0~dump1|res~dump0~dump1|…`; the line stops after an `oom` result.

values: `i5` `i-3` int · `(v;v)` list · `<k=v,k=v>` dotdict instance (a tree) · `{k=v,k=v}` plain dict
-/
namespace Cpppo.Driver.Dotdict
open Cpppo.Dotdict

def commands : List String := ["dd", "ddh"]

/-! ### values -/

def takeUntil (stop : Char → Bool) : List Char → List Char × List Char
  | [] => ([], [])
  | c :: r => if stop c then ([], c :: r) else let (a, b) := takeUntil stop r; (c :: a, b)

mutual
def parseTree : Nat → List Char → Option (Tree × List Char)
  | 0, _ => none
  | _ + 1, 'i' :: r =>
    let (ds, rest) := takeUntil (fun c => !(c == '-' || isDigit c)) r
    (parseInt ds).map fun v => (.leaf (.int v), rest)
  | _ + 1, 'N' :: r => some (.leaf .none, r)
  | n + 1, '(' :: r => (parseTrees n r).map fun (xs, rest) => (.list xs, rest)
  | n + 1, '<' :: r => (parseKvs n r).map fun (kvs, rest) => (.node kvs, rest)
  | _, _ => none
def parseTrees : Nat → List Char → Option (List Tree × List Char)
  | 0, _ => none
  | _ + 1, ')' :: r => some ([], r)
  | n + 1, s =>
    match parseTree n s with
    | none => none
    | some (t, ';' :: r) => (parseTrees n r).map fun (ts, rest) => (t :: ts, rest)
    | some (t, ')' :: r) => some ([t], r)
    | _ => none
def parseKvs : Nat → List Char → Option (Kvs × List Char)
  | 0, _ => none
  | _ + 1, '>' :: r => some ([], r)
  | n + 1, s =>
    let (k, r) := takeUntil (· == '=') s
    match r with
    | '=' :: r =>
      (match parseTree n r with
       | none => none
       | some (t, ',' :: r) => (parseKvs n r).map fun (kvs, rest) => ((k, t) :: kvs, rest)
       | some (t, '>' :: r) => some ([(k, t)], r)
       | _ => none)
    | _ => none
end

mutual
def parseVal : Nat → List Char → Option (PVal × List Char)
  | 0, _ => none
  | n + 1, '{' :: r => (parseItems n r).map fun (its, rest) => (.pdict its, rest)
  | n + 1, s => (parseTree (n + 1) s).map fun (t, rest) => (.tree t, rest)
def parseItems : Nat → List Char → Option (List (Name × PVal) × List Char)
  | 0, _ => none
  | _ + 1, '}' :: r => some ([], r)
  | n + 1, s =>
    let (k, r) := takeUntil (· == '=') s
    match r with
    | '=' :: r =>
      (match parseVal n r with
       | none => none
       | some (v, ',' :: r) => (parseItems n r).map fun (its, rest) => ((k, v) :: its, rest)
       | some (v, '}' :: r) => some ([(k, v)], r)
       | _ => none)
    | _ => none
end

/-- a space (inside a key) travels as '@' -/
def unAt (s : List Char) : List Char := s.map fun c => if c = '@' then ' ' else c

def valOf (s0 : List Char) : Option PVal :=
  let s := unAt s0
  match parseVal (s.length + 2) s with
  | some (v, []) => some v
  | _ => none

def treeOf (s0 : List Char) : Option Tree :=
  let s := unAt s0
  match parseTree (s.length + 2) s with
  | some (t, []) => some t
  | _ => none

mutual
def showTree : Tree → List Char
  | .leaf (.int v) => 'i' :: (toString v).toList
  | .leaf .none => ['N']
  | .node kvs => '<' :: showKvs kvs ++ ['>']
  | .list xs => '(' :: showTrees xs ++ [')']
def showKvs : Kvs → List Char
  | [] => []
  | [(k, v)] => k ++ '=' :: showTree v
  | (k, v) :: r => k ++ '=' :: showTree v ++ ',' :: showKvs r
def showTrees : List Tree → List Char
  | [] => []
  | [t] => showTree t
  | t :: r => showTree t ++ ';' :: showTrees r
end

def showErr : Err → String
  | .key => "!key" | .attr => "!attr" | .type => "!type" | .index => "!index" | .name => "!name"
  | .value => "!value" | .syntax => "!syntax" | .oom => "oom"

def str (cs : List Char) : String := String.ofList cs

def showRes : Except Err Tree → String
  | .ok t => str (showTree t)
  | .error e => showErr e

def showOpt : Option Err → String
  | none => "ok"
  | some e => showErr e

/-! ### the two slots -/

structure World where
  d : Tree := .node []
  c : Tree := .node []

def World.get (w : World) (s : Nat) : Tree := if s = 0 then w.d else w.c
def World.put (w : World) (s : Nat) (t : Tree) : World := if s = 0 then { w with d := t } else { w with c := t }

def itemsLine (t : Tree) : String :=
  ",".intercalate ((items t).map fun (k, v) => str k ++ "=" ++ str (showTree v))

/-- every listed key is a member and looks up to the listed value (`none`: a lookup left the model) -/
def chk (cfg : Cfg) (t : Tree) : Option Bool :=
  let its := items t
  if its.any (fun (k, _) => match getT cfg t k with | .error .oom => true | _ => false) then none
  else some <| its.all fun (k, v) =>
    (match getT cfg t k with
     | .ok v' => showTree v' == showTree v
     | .error _ => false) &&
    (match containsT cfg t k with
     | .ok true => true
     | _ => false)

/-- one operation: the result text and the new world -/
def runOp (cfg : Cfg) (w : World) (op : String) (s : Nat) (key : Name) (val : List Char) :
    Option (String × World) :=
  let t := w.get s
  match op with
  | "get" => some (showRes (getT cfg t key), w)
  | "getd" => some ((match getT cfg t key with
      | .ok v => str (showTree v) | .error .key => "N" | .error e => showErr e), w)
  | "getattr" => some ((match getT cfg t key with
      | .ok v => str (showTree v) | .error .key => "!attr" | .error e => showErr e), w)
  | "hasattr" => some ((match getT cfg t key with
      | .ok _ => "T" | .error .key => "F" | .error .attr => "F" | .error e => showErr e), w)
  | "in" => some ((match containsT cfg t key with
      | .ok true => "T" | .ok false => "F" | .error e => showErr e), w)
  | "set" | "setattr" => do
    let v ← valOf val
    let (_, e) := setT cfg t key v
    pure (showOpt e, w.put s (applyOp cfg t (.set key v)))
  | "del" =>
    let (_, e) := delT cfg t key
    some (showOpt e, w.put s (applyOp cfg t (.del key)))
  | "delattr" => some ("!attr", w)
  | "pop" | "popn" | "popd" => do
    let dflt ← if op == "popd" then (treeOf val).map some else pure none
    let (_, r) := popT cfg t key (op != "pop")
    let t' := applyOp cfg t (.pop key (op != "pop"))
    let txt := match r with
      | .error e => showErr e
      | .ok (some v) => str (showTree v)
      | .ok none => (match dflt with | some d => str (showTree d) | none => "N")
    pure (txt, w.put s t')
  | "setdefault" => do
    let v ← valOf val
    let (_, r) := setdefaultT cfg t key v
    pure (showRes r, w.put s (applyOp cfg t (.setdefault key v)))
  | "update" => do
    let v ← valOf val
    let its ← match v with
      | .pdict its => some its
      | .tree (.node kvs) => some (kvs.map fun (k, x) => (k, PVal.tree x))
      | _ => none
    let (_, e) := updateT cfg t its
    pure (showOpt e, w.put s (applyOp cfg t (.update its)))
  | "keys" => some (",".intercalate ((keys t).map str), w)
  | "items" => some (itemsLine t, w)
  | "chk" => some ((match chk cfg t with | some true => "T" | some false => "F" | none => "oom"), w)
  | "dir" => some (",".intercalate ((dirK (rootKvs t)).map str), w)
  | "copy" | "deepcopy" =>
    (match copyT cfg t with
     | .ok t' => some ("ok", w.put (1 - s) t')
     | .error e => some (showErr e, w))
  | _ => none

def fields (tok : String) : Option (String × Nat × Name × List Char) :=
  match (tok.split (· == '/')).toList.map (·.toString) with
  | [op, s, key, val] => do
    -- a space inside a key travels as '@'
    pure (op, ← s.toNat?, key.toList.map (fun c => if c = '@' then ' ' else c), val.toList)
  | _ => none

def runOps (cfg : Cfg) : World → List String → List String → Option (List String)
  | _, [], acc => some acc.reverse
  | w, tok :: rest, acc => do
    let (op, s, key, val) ← fields tok
    let (res, w') ← runOp cfg w op s key val
    let entry := res ++ "~" ++ str (showTree w'.d) ++ "~" ++ str (showTree w'.c)
    if res == "oom" then pure (entry :: acc).reverse
    else runOps cfg w' rest (entry :: acc)

/-- `ka` / `i0` steps separated by commas -/
def stepsOf (s : String) : Option (List Heap.Step) :=
  (Wire.splitNonEmpty s ',').mapM fun t =>
    match t.toList with
    | 'k' :: r => some (Heap.Step.key r)
    | 'i' :: r => (String.ofList r).toNat?.map Heap.Step.idx
    | _ => none

/-- `ddh <fixed> <tree> <steps> <k> <v>`: build the tree in an empty heap, `copy.copy` it, assign the int
`v` at `copy[steps][k]`, and show how the original and the copy read afterwards -/
def handleHeap (fixed : Bool) (tree steps k v : String) : Option String := do
  let t ← treeOf tree.toList
  let path ← stepsOf steps
  let vi ← parseInt v.toList
  let (h0, d) := Heap.alloc t []
  let fuel := h0.length + 2
  let (h1, c) := Heap.copyObj fixed fuel h0 d
  match Heap.assign h1 c path k.toList vi with
  | none => pure "none"
  | some h2 => pure (str (showTree (Heap.read (h2.length + 2) h2 d)) ++ "~" ++
      str (showTree (Heap.read (h2.length + 2) h2 c)))

def handle : List String → Option String
  | ["ddh", fixed, tree, steps, k, v] => handleHeap (fixed == "1") tree steps k v
  | "dd" :: flags :: ops => do
    let fl := flags.toList
    let cfg : Cfg := { reserved := Generated.dotdictInvalidKeys,
                       fixResolve := fl[0]? == some '1', fixReserved := fl[1]? == some '1' }
    let out ← runOps cfg {} ops []
    pure ("|".intercalate out)
  | _ => none

end Cpppo.Driver.Dotdict
