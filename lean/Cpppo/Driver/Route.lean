import Cpppo.Model.Wire
import Cpppo.Model.Route
/-!
driver for the route-path model (C15); texts travel as hex of their code points ("-" = empty, "~" = absent)

  rp.int  <hex>                         `int(text)`                      -> `<n>` | reject
  rp.ip   <hex>                         `ip_address(text)` (IPv4)        -> `ok` | reject
  rp.json <hex>                         `json.loads(text)`               -> canonical dump | reject
  rp.pl   <hex>                         `port_link(text)`                -> `<seg>` | reject
  rp.parse <hex>                        `parse_route_path(text, rec)`    -> `ok <segs> T <trailer>` | reject
  rp.main <hex|~> <simple>              `main()`'s UCMM configuration    -> any | falsy | path <segs> | reject
  rp.srv  <cfg> <routes> <tags> <route> <send> <req>          one request through client + UCMM + device
  rp.sess <cfg> <routes> <tags> (<route> <send> <req>)*       one TCP session
-/
namespace Cpppo.Driver.Route
open Cpppo.Wire Cpppo.Route

def commands : List String :=
  ["rp.int", "rp.ip", "rp.json", "rp.pl", "rp.parse", "rp.main", "rp.srv", "rp.sess"]

/-! ### output syntax -/

def showInt (n : Int) : String := toString n

def showLink : Link → String
  | .num n => "n" ++ showInt n
  | .addr s => "a" ++ hexOfBytes s

def showSeg : Seg → String
  | .pl p l => showInt p ++ ":" ++ showLink l
  | .other k v => s!"o{k}.{v}"

def showSegs (ss : List Seg) : String :=
  if ss.isEmpty then "-" else ",".intercalate (ss.map showSeg)

def kindOf : JV → String
  | .null => "jnull"
  | .bool _ => "jbool"
  | .int _ => "jint"
  | .float => "jfloat"
  | .str s => "s" ++ hexOfBytes s
  | .list _ => "jlist"
  | .dict _ => "jdict"

def showTrailer (tr : List JV) : String :=
  if tr.isEmpty then "-" else ",".intercalate (tr.map kindOf)

/-- canonical dump of a JSON value (fuel = nesting depth) -/
def dumpJV : Nat → JV → String
  | 0, _ => "?"
  | _ + 1, .null => "n"
  | _ + 1, .bool b => if b then "t" else "f"
  | _ + 1, .int n => "i" ++ showInt n
  | _ + 1, .float => "F"
  | _ + 1, .str s => "s" ++ hexOfBytes s
  | f + 1, .list xs => "L(" ++ ",".intercalate (xs.map (dumpJV f)) ++ ")"
  | f + 1, .dict kvs => "D(" ++ ",".intercalate (kvs.map fun (k, v) => hexOfBytes k ++ "=" ++ dumpJV f v) ++ ")"

def showOutcome : Outcome → String
  | .reject => "reject"
  | .ok ss tr => "ok " ++ showSegs ss ++ " T " ++ showTrailer tr

def showConfig : Option Config → String
  | none => "reject"
  | some .any => "any"
  | some .falsy => "falsy"
  | some (.path p) => "path " ++ showSegs p

/-! ### input syntax -/

def parseInt (s : String) : Option Int :=
  match s.toList with
  | '-' :: r => (String.ofList r).toNat?.map fun n => - Int.ofNat n
  | _ => s.toNat?.map Int.ofNat

def splitStr (s : String) (c : Char) : List String := s.split (· == c) |>.toList.map (·.toString)

def natList (s : String) : Option (List Nat) :=
  if s = "-" then some [] else (splitStr s ',').mapM (·.toNat?)

def parseSeg (s : String) : Option Seg :=
  match s.toList with
  | 'o' :: r =>
    match splitStr (String.ofList r) '.' with
    | [k, v] => do pure (.other (← k.toNat?) (← v.toNat?))
    | _ => none
  | _ =>
    match splitStr s ':' with
    | [p, l] => do
      let p ← parseInt p
      match l.toList with
      | 'n' :: r => do pure (.pl p (.num (← parseInt (String.ofList r))))
      | 'a' :: r => do pure (.pl p (.addr (← bytesOfHex (String.ofList r))))
      | _ => none
    | _ => none

def parseSegs (s : String) : Option (List Seg) :=
  if s = "-" then some [] else (splitStr s ',').mapM parseSeg

/-- a configuration assigned directly to `UCMM.route_path`: a JSON list of `{"port": int, "link": int|str}` -/
def segOfDict : JV → Option Seg
  | .dict [(k1, .int p), (k2, l)] =>
    if k1 == kPort && k2 == kLink then
      match l with
      | .int n => some (.pl p (.num n))
      | .str s => some (.pl p (.addr s))
      | _ => none
    else none
  | _ => none

def parseCfg (s : String) : Option (Option Config) :=
  if s = "any" then some (some .any)
  else if s = "F" then some (some .falsy)
  else match splitStr s ':' with
    | ["L", h] => do
      let t ← bytesOfHex h
      match jsonLoads t with
      | some (.list xs) => do pure (some (.path (← xs.mapM segOfDict)))
      | _ => none
    | ["G", h] => do
      let t ← if h = "~" then some none else (bytesOfHex h).map some
      pure (fileConfig t)
    | ["M", h, simple] => do
      let t ← if h = "~" then some none else (bytesOfHex h).map some
      pure (mainConfig t (simple == "1"))
    | _ => none

inductive Carried where
  | reject
  | ok (rp : Option RoutePath) (toCM : Bool)

def parseCarried (route send : String) : Option Carried := do
  let sendArg ← if send = "D" then some SendArg.dflt else if send = "E" then some SendArg.empty
    else if send = "O1" || send = "O2" || send = "O3" then some SendArg.other else none
  let conv : Option (Option RoutePath) → Carried := fun
    | none => .reject
    | some rp => .ok rp sendArg.toCM
  if route = "D" then pure (conv (clientCarried .dflt sendArg))
  else if route = "F" then pure (conv (clientCarried .falsy sendArg))
  else if route = "N" then pure (.ok none true)
  else match route.toList with
    | 'C' :: ':' :: h => do pure (conv (clientCarried (.dfltAs (← bytesOfHex (String.ofList h))) sendArg))
    | 'T' :: ':' :: h => do pure (conv (clientCarried (.text (← bytesOfHex (String.ofList h))) sendArg))
    | 'L' :: ':' :: h => do
      match jsonLoads (← bytesOfHex (String.ofList h)) with
      | some (.list xs) => pure (conv (clientCarried (.list xs) sendArg))
      | _ => none
    | 'R' :: ':' :: segs => do pure (.ok (some (← parseSegs (String.ofList segs))) true)
    | _ => none

def parseOp (s : String) : Option Op :=
  match splitStr s '.' with
  | ["r", t, i, n] => do pure (.read (← t.toNat?) (← i.toNat?) (← n.toNat?) false)
  | ["rf", t, i, n] => do pure (.read (← t.toNat?) (← i.toNat?) (← n.toNat?) true)
  | ["w", t, i, vs] => do pure (.write (← t.toNat?) (← i.toNat?) (← natList vs))
  | ["g", a] => do pure (.gas (← a.toNat?))
  | ["s", a, vs] => do pure (.sas (← a.toNat?) (← natList vs))
  | ["a"] => some .gaa
  | ["f"] => some .fwdOpen
  | ["u"] => some (.unknown false)
  | ["uf"] => some (.unknown true)
  | _ => none

def parseReq (s : String) : Option Req :=
  match splitStr s ':' with
  | ["S", op] => do pure (.single (← parseOp op))
  | ["M", ops] => do pure (.multiple (← (splitStr ops ';').mapM parseOp))
  | _ => none

/-- routing table keys ("p/l" texts in hex), comma separated; "-" = no table -/
def parseRoutes (s : String) : Option (List Text) :=
  if s = "-" then some [] else (splitStr s ',').mapM bytesOfHex

def parseTags (s : String) : Option Tags := (splitStr s '/').mapM natList

def showNats (l : List Nat) : String := if l.isEmpty then "-" else ",".intercalate (l.map toString)

/-- which CIP error an invalid inner request gets is not this property's subject: `nz` -/
def showResult (r : OpResult) : String :=
  if r.status = 0 then "0:" ++ (if r.star then "*" else showNats r.data) else "nz:-"

def showPayload : Option (List OpResult) → String
  | none => "-"
  | some rs => ";".intercalate (rs.map showResult)

def showAccess (a : Access) : String := s!"{a.tag}.{if a.set then "s" else "g"}.{a.lo}.{a.hi}"

def showDev (d : Dev) : String :=
  "/".intercalate (d.tags.map showNats) ++ " " ++
    (if d.log.isEmpty then "-" else ",".intercalate (d.log.map showAccess))

def showReply (r : Reply (List OpResult)) : String :=
  (if r.proceed then "1" else "0") ++ " " ++ toString r.status ++ " " ++ showPayload r.payload

/-- `(route, send, req)` triples -/
def parseFrames : List String → Option (List (Carried × Req))
  | [] => some []
  | r :: s :: q :: rest => do
    let c ← parseCarried r s
    let q ← parseReq q
    let fs ← parseFrames rest
    pure ((c, q) :: fs)
  | _ => none

def framesOk : List (Carried × Req) → Option (List (Option RoutePath × Bool × Req))
  | [] => some []
  | (.ok rp cm, q) :: rest => (framesOk rest).map fun l => (rp, cm, q) :: l
  | (.reject, _) :: _ => none

def handle : List String → Option String
  | ["rp.int", h] => do
    match pyInt (← bytesOfHex h) with
    | some n => pure (showInt n)
    | none => pure "reject"
  | ["rp.ip", h] => do pure (if ipv4Ok (← bytesOfHex h) then "ok" else "reject")
  | ["rp.json", h] => do
    let t ← bytesOfHex h
    match jsonLoads t with
    | some v => pure (dumpJV (t.length + 2) v)
    | none => pure "reject"
  | ["rp.pl", h] => do
    match portLink (.str (← bytesOfHex h)) with
    | some s => pure (showSeg s)
    | none => pure "reject"
  | ["rp.parse", h] => do pure (showOutcome (parseRoute (← bytesOfHex h)))
  | ["rp.main", h, simple] => do
    let t ← if h = "~" then some none else (bytesOfHex h).map some
    pure (showConfig (mainConfig t (simple == "1")))
  | ["rp.srv", cfg, routes, tags, route, send, req] => do
    let cfg ← parseCfg cfg
    let routes ← parseRoutes routes
    let tags ← parseTags tags
    let carried ← parseCarried route send
    let req ← parseReq req
    match cfg with
    | none => pure "cfg-reject"
    | some cfg =>
      match carried with
      | .reject => pure "build-reject"
      | .ok rp cm =>
        let (d, r) := serve cfg routes ⟨tags, []⟩ rp cm req
        pure (showReply r ++ " " ++ showDev d)
  | "rp.sess" :: cfg :: routes :: tags :: frames => do
    let cfg ← parseCfg cfg
    let routes ← parseRoutes routes
    let tags ← parseTags tags
    let frames ← parseFrames frames
    match cfg with
    | none => pure "cfg-reject"
    | some cfg =>
      match framesOk frames with
      | none => pure "build-reject"
      | some fs =>
        let (d, rs) := session cfg routes ⟨tags, []⟩ fs
        pure (s!"n={rs.length} " ++ " ".intercalate (rs.map fun r => toString r.status ++ "=" ++ showPayload r.payload)
              ++ " " ++ showDev d)
  | _ => none

end Cpppo.Driver.Route
