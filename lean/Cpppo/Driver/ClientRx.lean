import Cpppo.Model.Wire
import Cpppo.Model.ClientRxSpec
/-!
driver for the client receive model (C13)

  `crx <pipe|sync|syncold> <depth> <index> <issued> <events> [<k>:<whole stream hex>]`
  `prx <n|e> <ident 0|1> <depth> <use|use|...> <events|events|...>`   (ident 1: proxy without identity_default)

  issued  `idx:ctxhex:svc,...` or `-`
  events  `,`-separated: a hex chunk, `E` (EOF) or `Q` (nothing within the timeout); `-` = none
  with the optional last token the answer is followed by `#spec-ok|#spec-nohyp|#spec-differs`: the hypotheses
  of `exchange_cut_segmented` evaluated on this exchange, and its right-hand side compared with the run
answers
  `connect:<err>`  or  `<idx>/<rawhex><+|->,...;<ok|err>`   (`+`: `collect` gave a value, `-`: `None`)
  for `prx` one answer per use, joined by `|`: `c<conn>:<number of values>;<ok|err>` or `c<conn>:connect:<err>` / `c<conn>:identify:<err>`;
  `refused` when out of connections
-/
namespace Cpppo.Driver.ClientRx
open Cpppo.Wire Cpppo.ClientRx

def commands : List String := ["crx", "prx"]

def splitOn (s : String) (sep : Char) : List String :=
  s.split (· == sep) |>.toList.map (·.toString)

def parseIss (s : String) : Option Iss :=
  match splitOn s ':' with
  | [i, c, v] => do pure { idx := ← i.toNat?, ctx := ← bytesOfHex c, svc := ← v.toNat? }
  | _ => none

def parseIssued (s : String) : Option (List Iss) := (splitNonEmpty s ',').mapM parseIss

def parseEv (s : String) : Option Ev :=
  if s = "E" then some .eof else if s = "Q" then some .quiet else if s = "R" then some .reset
  else (bytesOfHex s).map .data

def parseEvs (s : String) : Option (List Ev) := (splitNonEmpty s ',').mapM parseEv

def showErr : Err → String
  | .rxerror => "rxerror" | .enipStatus => "enip-status" | .msvcStatus => "msvc-status"
  | .senderror => "senderror" | .unrecognized => "unrecognized" | .unmodelled => "unmodelled" | .mismatch => "mismatch"
  | .incomplete => "incomplete" | .partialHeld => "partial-held"

def showConnErr : ConnErr → String
  | .noresponse => "noresponse" | .noenip => "noenip" | .partialHeld => "partial-held"
  | .rxerror => "rxerror" | .status => "status" | .notregister => "notregister"

def showIdErr : IdErr → String
  | .noidentity => "noidentity" | .rxerror => "rxerror" | .badidentity => "badidentity"

def showEnd : End → String
  | .ok => "ok"
  | .error e => showErr e

def showRes (r : Res) : String :=
  s!"{r.iss.idx}/{hexOfBytes r.rpy.raw}{if r.rpy.hasValue then "+" else "-"}"

def showRun (rs : List Res) (e : End) : String :=
  (if rs.isEmpty then "-" else ",".intercalate (rs.map showRes)) ++ ";" ++ showEnd e

/-- `fmt = "n"`: number of values and end; `fmt = "e"`: the number only for a use that succeeded (what a
`poll.run` observer sees) -/
def showUse (fmt : String) : UseOut → String
  | .openfail n (.connect e) => s!"c{n}:connect:{showConnErr e}"
  | .openfail n (.identify e) => s!"c{n}:identify:{showIdErr e}"
  | .ran n rs .ok => s!"c{n}:{rs.length};ok"
  | .ran n rs (.error e) => if fmt = "e" then s!"c{n}:?;{showErr e}" else s!"c{n}:{rs.length};{showErr e}"
  | .identified n none => s!"c{n}:id;ok"
  | .identified n (some e) => s!"c{n}:id;{showIdErr e}"
  | .refused => "refused"

def sameOutcome : Except ConnErr (List Res × End) → Except ConnErr (List Res × End) → Bool
  | .ok a, .ok b => a == b
  | .error a, .error b => a == b
  | _, _ => false

/-- Evaluate the hypotheses of `exchange_zip_segmented` (and, when the replies answer the requests, of
`exchange_cut_segmented`) on a real exchange (`full`: the peer's whole stream, `k`: the cut, `evs`: what was
delivered) and compare the theorems' right-hand sides with the model run:
`#spec-ok`, `#spec-nohyp` (a hypothesis does not hold) or `#spec-differs` (never, by the theorems). -/
def specVerdict (depth : Nat) (issued : List Iss) (evs : List Ev) (k : Nat) (full : Bytes) : String :=
  match splitFrames full.length full, afterData evs with
  | reg :: fs, [t] =>
    let closed := t == .eof
    if t = termEv closed ∧ joinData evs = (stream (reg :: fs)).take k ∧ IsRegister reg ∧ Served parseFrame fs then
      let run := exchange parseFrame depth issued evs
      if sameOutcome run (exchangeZipSpec parseFrame issued reg fs k closed) &&
         (!(decide (AllMatch issued (fs.flatMap (colsOf parseFrame)))) ||
          sameOutcome run (exchangeCutSpec parseFrame issued reg fs k closed))
      then "#spec-ok" else "#spec-differs"
    else "#spec-nohyp"
  | _, _ => "#spec-nohyp"

def crx (api : String) (depth index : Nat) (issued : List Iss) (evs : List Ev) : Option String :=
  match connect evs with
  | .error e => some s!"connect:{showConnErr e}"
  | .ok st => do
    let (rs, e, _) ←
      if api = "pipe" then some (pipeline parseFrame depth index issued st)
      else if api = "sync" then some (synchronous parseFrame issued st)
      else if api = "syncold" then some (synchronousOld parseFrame issued st)
      else none
    pure (showRun rs e)

def handle : List String → Option String
  | ["crx", api, depth, index, issued, evs, spec] => do
    let depth ← depth.toNat?
    let index ← index.toNat?
    let issued ← parseIssued issued
    let evs ← parseEvs evs
    let out ← crx api depth index issued evs
    match splitOn spec ':' with
    | [k, full] =>
      let k ← k.toNat?
      let full ← bytesOfHex full
      if index = 0 ∧ api ≠ "syncold" then pure (out ++ specVerdict depth issued evs k full) else none
    | _ => none
  | ["crx", api, depth, index, issued, evs] => do
    let depth ← depth.toNat?
    let index ← index.toNat?
    let issued ← parseIssued issued
    let evs ← parseEvs evs
    crx api depth index issued evs
  | ["prx", fmt, ident, depth, uses, conns] => do
    let ident ← if ident = "1" then some true else if ident = "0" then some false else none
    let depth ← depth.toNat?
    let uses ← (splitOn uses '|').mapM fun u => if u = "I" then some Use.identity else (parseIssued u).map Use.read
    let conns ← (splitOn conns '|').mapM parseEvs
    let outs := proxyRun parseFrame ident depth conns { gateway := none, opened := 0 } uses
    pure ("|".intercalate (outs.map (showUse fmt)))
  | _ => none

end Cpppo.Driver.ClientRx
