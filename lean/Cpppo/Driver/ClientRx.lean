import Cpppo.Model.Wire
import Cpppo.Model.ClientRx
/-!
driver for the client receive model (C13)

  `crx <pipe|sync|syncold> <depth> <index> <issued> <events>`
  `prx <n|e> <depth> <use|use|...> <events|events|...>`

  issued  `idx:ctxhex:svc,...` or `-`
  events  `,`-separated: a hex chunk, `E` (EOF) or `Q` (nothing within the timeout); `-` = none
answers
  `connect:<err>`  or  `<idx>/<rawhex><+|->,...;<ok|err>`   (`+`: `collect` gave a value, `-`: `None`)
  for `prx` one answer per use, joined by `|`: `c<conn>:<number of values>;<ok|err>` or `c<conn>:connect:<err>`;
  `refused` when out of connections
-/
namespace Cpppo.Driver.ClientRx
open Cpppo.Wire Cpppo.ClientRx

def commands : List String := ["crx", "prx"]

def splitOn (s : String) (sep : Char) : List String :=
  s.split (· == sep) |>.toList.map (·.toString)

def parseIss (s : String) : Option Iss :=
  match splitOn s ':' with
  | [i, c, v] => do pure { idx := ← i.toNat?, ctx := ← bytesOfHex c, svc := ← v.toNat? }
  | _ => none

def parseIssued (s : String) : Option (List Iss) := (splitNonEmpty s ',').mapM parseIss

def parseEv (s : String) : Option Ev :=
  if s = "E" then some .eof else if s = "Q" then some .quiet else (bytesOfHex s).map .data

def parseEvs (s : String) : Option (List Ev) := (splitNonEmpty s ',').mapM parseEv

def showErr : Err → String
  | .rxerror => "rxerror" | .enipStatus => "enip-status" | .msvcStatus => "msvc-status"
  | .unrecognized => "unrecognized" | .unmodelled => "unmodelled" | .mismatch => "mismatch"
  | .incomplete => "incomplete" | .partialHeld => "partial-held"

def showConnErr : ConnErr → String
  | .noresponse => "noresponse" | .noenip => "noenip" | .partialHeld => "partial-held"
  | .rxerror => "rxerror" | .status => "status" | .notregister => "notregister"

def showEnd : End → String
  | .ok => "ok"
  | .error e => showErr e

/-- `collect`'s value is not `None`: data for the reading services on status 0/6, `True` on status 0 -/
def hasValue (r : Reply) : Bool :=
  (([0xcc, 0xd2, 0x8e, 0x81].contains r.svc) && (r.status == 0 || r.status == 6)) || r.status == 0

def showRes (r : Res) : String :=
  s!"{r.iss.idx}/{hexOfBytes r.rpy.raw}{if hasValue r.rpy then "+" else "-"}"

def showRun (rs : List Res) (e : End) : String :=
  (if rs.isEmpty then "-" else ",".intercalate (rs.map showRes)) ++ ";" ++ showEnd e

/-- `fmt = "n"`: number of values and end; `fmt = "e"`: the number only for a use that succeeded (what a
`poll.run` observer sees) -/
def showUse (fmt : String) : UseOut → String
  | .connfail n e => s!"c{n}:connect:{showConnErr e}"
  | .ran n rs .ok => s!"c{n}:{rs.length};ok"
  | .ran n rs (.error e) => if fmt = "e" then s!"c{n}:?;{showErr e}" else s!"c{n}:{rs.length};{showErr e}"
  | .refused => "refused"

def handle : List String → Option String
  | ["crx", api, depth, index, issued, evs] => do
    let depth ← depth.toNat?
    let index ← index.toNat?
    let issued ← parseIssued issued
    let evs ← parseEvs evs
    match connect evs with
    | .error e => pure s!"connect:{showConnErr e}"
    | .ok st =>
      let (rs, e, _) ←
        if api = "pipe" then some (pipeline parseFrame depth index issued st)
        else if api = "sync" then some (synchronous parseFrame issued st)
        else if api = "syncold" then some (synchronousOld parseFrame issued st)
        else none
      pure (showRun rs e)
  | ["prx", fmt, depth, uses, conns] => do
    let depth ← depth.toNat?
    let uses ← (splitOn uses '|').mapM parseIssued
    let conns ← (splitOn conns '|').mapM parseEvs
    let outs := proxyRun parseFrame depth conns { gateway := none, opened := 0 } uses
    pure ("|".intercalate (outs.map (showUse fmt)))
  | _ => none

end Cpppo.Driver.ClientRx
