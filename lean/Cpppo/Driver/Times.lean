import Cpppo.Model.Wire
import Cpppo.Model.Times
import Cpppo.Generated.Tables
/-!
driver for C17 (all text arguments are hex of the UTF-8 bytes, `-` = empty):
  `ts.rt <fixed> <p> <mu> <bias> <detail n|t|f> <zone|-> <db|-> <abbrevs|->`  render, then parse the rendering
  `ts.parse <fixed> <hex text> <db|-> <abbrevs|->`
  `ts.loc <zone> <isdst -|0|1> <wall second>`      localize alone (+ the list of preimages)
  `ts.wf <zone>`                                    the hypothesis of the zone theorems on this table
  `ts.cmp <a> <b>`                                  lt gt le ge eq ne
  `ts.seq <mu> <bias> <loc zone|-> <db|-> <ops>`    operations on ONE timestamp object (cached `_str`), ops joined by `,`:
        `s` str()  `r:<p>` render(ms=p)  `L` .local  `i:<nz>:<mu>:<bias>` += / -=  `a:<nz>:<mu>:<bias>` obj = obj ± n
        `k` obj = timestamp(obj)  `u:<hex>` .utc = text  `c:<mu>:<bias>` compare with a fresh timestamp (bits~str(obj)~str(other))
  `dur.rt <d>` `dur.fmt <d>` `dur.parse <hex>`
zone  = `name;off,dst,abbr;t,off,dst,abbr;…`   db = zones joined by `|`   abbrevs = `ABBR=key=flag,…`
-/
namespace Cpppo.Driver.Times
open Cpppo.Wire Cpppo.Times

def splitStr (s : String) (sep : Char) : List String :=
  s.split (· == sep) |>.toList.map (·.toString)

def parsePeriod : List String → Option Period
  | [off, dst, abbr] => do
    let off ← off.toInt?
    pure { off := off, dst := dst == "1", abbr := abbr.toList }
  | _ => none

def parseTrans (s : String) : Option (Int × Period) :=
  match splitStr s ',' with
  | t :: rest => do
    let t ← t.toInt?
    let p ← parsePeriod rest
    pure (t, p)
  | _ => none

def parseZone (s : String) : Option Zone :=
  match splitStr s ';' with
  | name :: first :: trans => do
    let first ← parsePeriod (splitStr first ',')
    let trans ← trans.mapM parseTrans
    pure { name := name.toList, first := first, trans := trans }
  | _ => none

def parseOptZone (s : String) : Option (Option Zone) :=
  if s = "-" then some none else (parseZone s).map some

def parseFlag (s : String) : Option (Option Bool) :=
  if s = "-" then some none else if s = "1" then some (some true) else if s = "0" then some (some false)
  else none

def parseAbbrev (s : String) : Option (List Char × List Char × Option Bool) :=
  match splitStr s '=' with
  | [a, key, flag] => do
    let flag ← parseFlag flag
    pure (a.toList, key.toList, flag)
  | _ => none

def parseDb (zones abbrevs : String) : Option TzDb := do
  let zs ← (if zones = "-" then some [] else (splitStr zones '|').mapM parseZone)
  let ab ← (if abbrevs = "-" then some [] else (splitStr abbrevs ',').mapM parseAbbrev)
  pure { zones := zs, abbrevs := ab }

def parseDetail : String → Option Detail
  | "n" => some .dflt | "t" => some .full | "f" => some .numeric | _ => none

def textOfHex (s : String) : Option (List Char) :=
  (bytesOfHex s).map fun bs => bs.map Char.ofNat

def showResult : Except Reject Int → String
  | .ok v => s!"ok {v}"
  | .error e => e.text

def cmpCfg : CmpCfg := { eps := Generated.tsEpsilonUs, prec := Generated.tsPrecision }
def durCfg : DurCfg := { yr := Generated.durYR, wk := Generated.durWK, dy := Generated.durDY,
                         hr := Generated.durHR, mn := Generated.durMN }

def bit (b : Bool) : String := if b then "1" else "0"

def showText : Option (List Char) → String
  | some t => String.ofList t
  | none => "reject:range"

def parseObjOp (op : String) : Option ObjOp :=
  match splitStr op ':' with
  | ["s"] => some .str
  | ["r", p] => do
    let p ← p.toNat?
    if p > 6 then none
    pure (.render p)
  | ["L"] => some .localGet
  | ["i", nz, mu, bias] => do pure (.inplace (nz == "1") (← mu.toInt?) (← bias.toInt?))
  | ["a", nz, mu, bias] => do pure (.arith (nz == "1") (← mu.toInt?) (← bias.toInt?))
  | ["k"] => some .copy
  | ["u", text] => do pure (.assign (← textOfHex text))
  | ["c", mu, bias] => do pure (.cmp (← mu.toInt?) (← bias.toInt?))
  | _ => none

/-- what the harness observes of an operation (the object afterwards is `TsObj.step`) -/
def observe (loc : Option Zone) (db : TzDb) (o : TsObj) : ObjOp → String
  | .str => showText (o.str cmpCfg.prec).1
  | .render p => showText (render p o.μ o.bias none .dflt)
  | .localGet => showText (render 0 o.μ o.bias loc .dflt)
  | .inplace .. => "-"
  | .arith .. => "-"
  | .copy => "-"
  | .assign t => match o.assign db t with
    | .ok _ => "ok"
    | .error e => e.text
  | .cmp mu bias =>
    let other : TsObj := { μ := mu, bias := bias }
    "".intercalate ([tsLt cmpCfg o.μ mu, tsGt cmpCfg o.μ mu, tsLe cmpCfg o.μ mu, tsGe cmpCfg o.μ mu,
      tsEq cmpCfg o.μ mu, tsNe cmpCfg o.μ mu].map bit)
      ++ "~" ++ showText (o.str cmpCfg.prec).1 ++ "~" ++ showText (other.str cmpCfg.prec).1

def seqOp (loc : Option Zone) (db : TzDb) (o : TsObj) (op : String) : Option (String × TsObj) := do
  let op ← parseObjOp op
  pure (observe loc db o op, o.step cmpCfg.prec db op)

def seqRun (loc : Option Zone) (db : TzDb) : TsObj → List String → Option (List String)
  | _, [] => some []
  | o, op :: ops => do
    let (out, o') ← seqOp loc db o op
    let rest ← seqRun loc db o' ops
    pure (out :: rest)

def commands : List String :=
  ["ts.rt", "ts.parse", "ts.loc", "ts.wf", "ts.cmp", "ts.seq", "dur.rt", "dur.fmt", "dur.parse"]

def handle : List String → Option String
  | ["ts.rt", fixed, p, mu, bias, detail, zone, db, abbrevs] => do
    let p ← p.toNat?
    let mu ← mu.toInt?
    let bias ← bias.toInt?
    let detail ← parseDetail detail
    let zone ← parseOptZone zone
    let db ← parseDb db abbrevs
    if p > 6 then none
    match renderWith (fixed == "1") p mu bias zone detail with
    | none => pure "reject:range"
    | some text => pure (String.ofList text ++ "|" ++ showResult (parseWith (fixed == "1") db text))
  | ["ts.parse", fixed, text, db, abbrevs] => do
    let text ← textOfHex text
    let db ← parseDb db abbrevs
    pure (showResult (parseWith (fixed == "1") db text))
  | ["ts.loc", zone, flag, w] => do
    let zone ← parseZone zone
    let flag ← parseFlag flag
    let w ← w.toInt?
    pure (showResult (localize zone flag w))
  | ["ts.wf", zone] => do
    let zone ← parseZone zone
    pure (if zone.wf then "wf" else "not-wf")
  | ["ts.cmp", a, b] => do
    let a ← a.toInt?
    let b ← b.toInt?
    pure (" ".intercalate ([tsLt cmpCfg a b, tsGt cmpCfg a b, tsLe cmpCfg a b, tsGe cmpCfg a b,
      tsEq cmpCfg a b, tsNe cmpCfg a b].map bit))
  | ["ts.seq", mu, bias, loc, db, ops] => do
    let mu ← mu.toInt?
    let bias ← bias.toInt?
    let loc ← parseOptZone loc
    let db ← parseDb db "-"
    let outs ← seqRun loc db { μ := mu, bias := bias } (splitStr ops ',')
    pure (";".intercalate outs)
  | ["dur.rt", d] => do
    let d ← d.toInt?
    let text := durFormat durCfg d
    pure (String.ofList text ++ "|" ++ showResult (durParse durCfg Generated.durUnits text))
  | ["dur.fmt", d] => do
    let d ← d.toInt?
    pure (String.ofList (durFormat durCfg d))
  | ["dur.parse", text] => do
    let text ← textOfHex text
    pure (showResult (durParse durCfg Generated.durUnits text))
  | _ => none

end Cpppo.Driver.Times
