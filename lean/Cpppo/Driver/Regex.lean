import Cpppo.Model.Wire
import Cpppo.Model.Rx
import Cpppo.Model.Regex
/-!
driver for C11

* `rx.run <bytes 0|1> <variant 1=fixed|0=old|d|k> <terminal 0|1> <fsm> <chunks>`  → `<ok|nonterminal|refused> <T|F> <sent> <stored>`
* `rx.lang <fsm> <ast> <bound> <exact 0|1>` → `ok` when the fsm is well-formed, carries the liveness certificate and
  accepts exactly the sentences of `<ast>`: no difference among all strings up to `<bound>` over the symbols
  named in either plus one unnamed symbol, AND a bisimulation certificate between the fsm and the iterated
  derivatives of `<ast>` is found and passes the verified checker `isBisim` (exact equality of the
  languages); if only the bounded comparison holds: `ok-bounded` when `<exact>` = 1, `ok` when 0; otherwise `illformed` / `nocert` /
  `diff:<string>`
* `rx.spec <ast> <symbols>` → `<ok|nonterminal> <sent> <stored>`: the specification run
* `rx.utf8 <codepoints>` → the UTF-8 bytes

`<fsm>`    = `init;f1,f2;q:k>d,k>d|q:k>d…`   (key `*` = anything-else)
`<ast>`    = prefix tokens separated by `,`: `eps lit:N dot cls:a.b ncls:a.b alt cat star plus opt rep:m:n`
`<chunks>` = chunks separated by `/`, symbols by `,`; `e` = an empty chunk; `-` = no chunk at all
-/
namespace Cpppo.Driver.Regex
open Cpppo.Wire Cpppo.Regex Cpppo.Rx

def commands : List String := ["rx.run", "rx.lang", "rx.spec", "rx.utf8", "rx.bisim"]

def splitOn (s : String) (sep : Char) : List String :=
  s.split (· == sep) |>.toList.map (·.toString)

def natList (s : String) (sep : Char) : Option (List Nat) :=
  if s = "-" ∨ s = "" then some [] else (splitOn s sep).mapM (·.toNat?)

def showNats (l : List Nat) : String :=
  if l.isEmpty then "-" else ",".intercalate (l.map toString)

def parseEntry (s : String) : Option (Option Sym × Nat) :=
  match splitOn s '>' with
  | [k, d] => do
    let d ← d.toNat?
    if k = "*" then pure (none, d) else do
      let k ← k.toNat?
      pure (some k, d)
  | _ => none

def parseState (s : String) : Option (Nat × Tab) :=
  match splitOn s ':' with
  | [q, es] => do
    let q ← q.toNat?
    let es ← (splitNonEmpty es ',').mapM parseEntry
    pure (q, es)
  | _ => none

def parseFsm (s : String) : Option Fsm :=
  match splitOn s ';' with
  | [i, fs, m] => do
    let i ← i.toNat?
    let fs ← natList fs ','
    let m ← (splitNonEmpty m '|').mapM parseState
    pure { init := i, finals := fs, map := m }
  | _ => none

/-- prefix parser, fuel = number of tokens -/
def parseRx : Nat → List String → Option (Rx × List String)
  | 0, _ => none
  | _ + 1, [] => none
  | fuel + 1, t :: ts =>
    let un (f : Rx → Rx) : Option (Rx × List String) := do
      let (r, rest) ← parseRx fuel ts
      pure (f r, rest)
    let bin (f : Rx → Rx → Rx) : Option (Rx × List String) := do
      let (r, rest) ← parseRx fuel ts
      let (s, rest) ← parseRx fuel rest
      pure (f r s, rest)
    match splitOn t ':' with
    | ["eps"] => some (.eps, ts)
    | ["dot"] => some (.dot, ts)
    | ["lit", n] => do pure (.lit (← n.toNat?), ts)
    | ["cls", l] => do pure (.cls false (← natList l '.'), ts)
    | ["ncls", l] => do pure (.cls true (← natList l '.'), ts)
    | ["alt"] => bin .alt
    | ["cat"] => bin .cat
    | ["star"] => un .star
    | ["plus"] => un Rx.plus
    | ["opt"] => un Rx.opt
    | ["rep", m, n] => do
      let m ← m.toNat?
      let n ← n.toNat?
      un (fun r => Rx.rep r m n)
    | _ => none

def parseAst (s : String) : Option Rx :=
  let ts := splitOn s ','
  match parseRx (ts.length + 1) ts with
  | some (r, []) => some r
  | _ => none

def parseChunks (s : String) : Option (List (List Sym)) :=
  if s = "-" then some [] else
  (splitOn s '/').mapM fun c => if c = "e" then some [] else natList c ','

/-- all strings of length exactly `k` over `sig` -/
def stringsOfLen (sig : List Sym) : Nat → List (List Sym)
  | 0 => [[]]
  | k + 1 => (stringsOfLen sig k).flatMap fun w => sig.map fun c => c :: w

def dedup (l : List Nat) : List Nat := l.foldl (fun acc x => if acc.contains x then acc else acc ++ [x]) []

def insertSorted (x : Nat) : List Nat → List Nat
  | [] => [x]
  | y :: ys => if x ≤ y then x :: y :: ys else y :: insertSorted x ys

def lexLt : List Nat → List Nat → Bool
  | [], [] => false
  | [], _ :: _ => true
  | _ :: _, [] => false
  | a :: as, b :: bs => a < b || (a == b && lexLt as bs)

/-- the shortest, then lexicographically least, string up to the bound on which the fsm and the
expression disagree (over the named symbols plus one unnamed symbol) -/
def langDiff (F : Fsm) (r : Rx) (bound : Nat) : Option (List Sym) :=
  let named := (dedup (fsmSyms F ++ r.syms)).foldr insertSorted []
  let fresh := named.foldl (fun a b => max a b) 0 + 1
  let sig := named ++ [fresh]
  (List.range (bound + 1)).firstM fun k =>
    let ds := (stringsOfLen sig k).filter fun w => F.accepts w != r.rmatch w
    match ds with
    | [] => none
    | d :: rest => some (rest.foldl (fun m w => if lexLt w m then w else m) d)

def showOutcome : Outcome → String
  | .ok => "ok" | .nonTerminal => "nonterminal" | .refused => "refused"

def handle : List String → Option String
  | ["rx.run", bytes, fixed, term, fsm, chunks] => do
    let F ← parseFsm fsm
    let chunks ← parseChunks chunks
    let v : Variant := match fixed with
      | "1" => .fixed | "0" => .old | "d" => ⟨true, false⟩ | _ => ⟨false, true⟩
    let r := rxRunChunks F (bytes == "1") v chunks
    let t := if term == "1" && r.outcome == .ok then "T" else "F"
    if r.outcome == .refused then pure "refused F 0 -"
    else pure s!"{showOutcome r.outcome} {t} {r.consumed.length} {showNats r.consumed}"
  | ["rx.lang", fsm, ast, bound, exact] => do
    let F ← parseFsm fsm
    let r ← parseAst ast
    let bound ← bound.toNat?
    if !F.wf then pure "illformed"
    else if !F.certLive then pure "nocert"
    else if isBisim F r (explore F r 150) then
      -- exact: a bisimulation certificate passes the verified checker `isBisim`
      pure "ok"
    else match langDiff F r bound with
      | some w => pure s!"diff:{showNats w}"
      | none => pure (if exact == "1" then "ok-bounded" else "ok")
  | ["rx.bisim", fsm, ast, fuel] => do
    let F ← parseFsm fsm
    let r ← parseAst ast
    let fuel ← fuel.toNat?
    let R := explore F r fuel
    pure s!"{if isBisim F r R then "cert" else "nocert"} {R.length}"
  | ["rx.spec", ast, w] => do
    let r ← parseAst ast
    let w ← natList w ','
    let s := r.specRun w
    pure s!"{if s.accepted then "ok" else "nonterminal"} {s.consumed.length} {showNats s.consumed}"
  | ["rx.utf8", w] => do
    let w ← natList w ','
    pure (showNats (w.flatMap utf8))
  | _ => none

end Cpppo.Driver.Regex
