import Cpppo.Model.Wire
import Cpppo.Model.Source
import Cpppo.Model.Engine
/-!
driver (property C10):

`echo <token>`         -> `<token>`
`src <hex> <ops>`      ops `,`-separated: `n` next, `k` peek, `u<x>` push x, `c<hex|->` chain a block
                       -> `<results> <sent> <remaining view hex>`
`eng <fuel> <top> <states> <chunks> <tape>`
   states `/`-separated, each `K:T:G:L:E`
     K  `n` null | `i` input | `d` drop | `D<init>.<repeat>.<store|->`
     T,G  `0`/`1` terminal, greedy;  L limit spec;  specs: `-` | `c<n>` | `f<k>` | `t`
     E  `-` or `|`-separated edges `<label>><targets>`; label `a` (True) | `e` (None) | `<symbol>`
        targets `,`-separated: `p<idx|->` state/None, `g<pred>.<idx|->` decide
        pred `T` | `q<k>=<v>` | `n<k>=<v>` | `v<k>` even | `o<k>` odd | `t` tape
   chunks `,`-separated hex blocks (`-` = empty block): the first is the initial source, the others are
   chained by the driver at non-transition events;  tape `,`-separated numbers or `-`
   -> `ok <sent> <peek|-> <terminal> <i=cur.cycle.final,…|->` | `reject:<class> <sent> <peek|->`
-/
namespace Cpppo.Driver.Engine
open Cpppo.Wire Cpppo.Source Cpppo.Engine

def splitOn (s : String) (sep : Char) : List String :=
  s.split (· == sep) |>.toList.map (·.toString)

def optIdx (s : String) : Option (Option Nat) := optNat s

def parseSpec (s : String) : Option Spec :=
  if s = "-" then some .none
  else if s = "t" then some .tape
  else match s.toList with
    | 'c' :: r => (String.ofList r).toNat?.map .const
    | 'f' :: r => (String.ofList r).toNat?.map .field
    | _ => none

def parseKV (s : String) : Option (Nat × Nat) :=
  match splitOn s '=' with
  | [a, b] => do pure (← a.toNat?, ← b.toNat?)
  | _ => none

def parsePred (s : String) : Option Pred :=
  match s.toList with
  | ['T'] => some .always
  | ['t'] => some .tape
  | 'q' :: r => (parseKV (String.ofList r)).map fun (k, v) => .eq k v
  | 'n' :: r => (parseKV (String.ofList r)).map fun (k, v) => .ne k v
  | 'v' :: r => (String.ofList r).toNat?.map .even
  | 'o' :: r => (String.ofList r).toNat?.map .odd
  | _ => none

def parseTarget (s : String) : Option Target :=
  match s.toList with
  | 'p' :: r => (optIdx (String.ofList r)).map .plain
  | 'g' :: r =>
    match splitOn (String.ofList r) '.' with
    | [p, t] => do pure (.guard (← parsePred p) (← optIdx t))
    | _ => none
  | _ => none

def parseLabel (s : String) : Option Label :=
  if s = "a" then some .any else if s = "e" then some .eps else s.toNat?.map .sym

def parseEdge (s : String) : Option (Label × List Target) :=
  match splitOn s '>' with
  | [l, ts] => do pure (← parseLabel l, ← (splitOn ts ',').mapM parseTarget)
  | _ => none

def parseKind (s : String) : Option Kind :=
  match s.toList with
  | ['n'] => some .null
  | ['i'] => some .input
  | ['d'] => some .drop
  | 'D' :: r =>
    match splitOn (String.ofList r) '.' with
    | [i, rep, st] => do pure (.dfa (← i.toNat?) (← parseSpec rep) (← optIdx st))
    | _ => none
  | _ => none

def parseBool (s : String) : Option Bool :=
  if s = "1" then some true else if s = "0" then some false else none

def parseState (s : String) : Option State :=
  match splitOn s ':' with
  | [k, t, g, l, e] => do
    let edges ← if e = "-" then pure [] else (splitOn e '|').mapM parseEdge
    pure { kind := ← parseKind k, term := ← parseBool t, greedy := ← parseBool g,
           limit := ← parseSpec l, edges := edges }
  | _ => none

def showOpt : Option Nat → String
  | none => "-"
  | some n => toString n

def showDfas (l : List (Nat × DfaSt)) : String :=
  if l.isEmpty then "-"
  else ",".intercalate (l.map fun (i, d) => s!"{i}={d.cur}.{d.cycle}.{d.final}")

def parseOp (s : String) : Option Op :=
  match s.toList with
  | ['n'] => some .next
  | ['k'] => some .peek
  | 'u' :: r => (String.ofList r).toNat?.map .push
  | 'c' :: r => (bytesOfHex (String.ofList r)).map .chain
  | _ => none

def commands : List String := ["src", "eng", "echo"]

def handle : List String → Option String
  | ["echo", x] => some x     -- runs whose data post-processing raised: outside the engine model
  | ["src", init, ops] => do
    let cur ← bytesOfHex init
    let ops ← (splitNonEmpty ops ',').mapM parseOp
    let s : Source := { cur := cur }
    let (rs, s') := s.steps ops
    let shown := if rs.isEmpty then "e" else ",".intercalate (rs.map showOpt)
    pure s!"{shown} {s'.sent} {hexOfBytes s'.view}"
  | ["eng", fuel, top, states, chunks, tape] => do
    let fuel ← fuel.toNat?
    let top ← top.toNat?
    let M ← (splitOn states '/').mapM parseState
    let blocks ← (splitOn chunks ',').mapM bytesOfHex
    let tape ← (splitNonEmpty tape ',').mapM (·.toNat?)
    let w : World := { src := { rest := blocks.headD [] }, pend := blocks.drop 1, tape := tape }
    match runTop M fuel top w with
    | .ok (w', t) =>
      pure s!"ok {w'.sent} {showOpt w'.peek} {if t then 1 else 0} {showDfas (dfaStates M w' M.length)}"
    | .error (.nonterminal, w') => pure s!"reject:NonTerminal {w'.sent} {showOpt w'.peek}"
    | .error (.assertion, w') => pure s!"reject:AssertionError {w'.sent} {showOpt w'.peek}"
    | .error (.fuel, _) => pure "reject:fuel"
  | _ => none

end Cpppo.Driver.Engine
