import Cpppo.Model.Wire
import Cpppo.Model.Logix
/-!
driver: `lgx <maxBytes> <tags> <reqs>`
  tags  = `<namehex>@<c>.<i>.<a>:<typecode>:<len>:<scalar 0|1>` joined by ','  (same address twice = alias)
  reqs  = requests joined by ';' :  rt|path|n   rf|path|n|off   wt|path|ty|n|hex   wf|path|ty|n|off|hex
          gs|path   ss|path|hex   ga|path   mu|path|member&member…
  path  = segments joined by '/': s<hex> c<n> i<n> a<n> e<n> o
answer: per request `<reply hex>@<dump>` joined by ';' ("X" = reply could not be produced), where the dump
lists every attribute after that request: `c.i.a=<hex of produce()>` joined by ','.
-/
namespace Cpppo.Driver.Logix
open Cpppo.Wire Cpppo.Logix

def commands : List String := ["lgx", "lgxb"]

def splitOn (s : String) (c : Char) : List String := (s.split (· == c)).toList.map (·.toString)

def strOfHex (h : String) : Option String := (bytesOfHex h).map fun bs => String.ofList (bs.map Char.ofNat)

def parseSeg (s : String) : Option Seg :=
  match s.toList with
  | 's' :: rest => (strOfHex (String.ofList rest)).map Seg.symbolic
  | 'c' :: rest => (String.ofList rest).toNat?.map Seg.cls
  | 'i' :: rest => (String.ofList rest).toNat?.map Seg.ins
  | 'a' :: rest => (String.ofList rest).toNat?.map Seg.attr
  | 'e' :: rest => (String.ofList rest).toNat?.map Seg.elem
  | ['o'] => some Seg.other
  | _ => none

def parsePath (s : String) : Option Path := (splitNonEmpty s '/').mapM parseSeg

def parseSimple (s : String) : Option Simple :=
  match splitOn s '|' with
  | ["rt", p, n] => do pure (.readTag (← parsePath p) (← n.toNat?))
  | ["rf", p, n, o] => do pure (.readFrag (← parsePath p) (← n.toNat?) (← o.toNat?))
  | ["wt", p, t, n, h] => do pure (.writeTag (← parsePath p) (← t.toNat?) (← n.toNat?) (← bytesOfHex h))
  | ["wf", p, t, n, o, h] => do
    pure (.writeFrag (← parsePath p) (← t.toNat?) (← n.toNat?) (← o.toNat?) (← bytesOfHex h))
  | ["gs", p] => do pure (.getAttrSingle (← parsePath p))
  | ["ss", p, h] => do pure (.setAttrSingle (← parsePath p) (← bytesOfHex h))
  | ["ga", p] => do pure (.getAttrAll (← parsePath p))
  | _ => none

def parseReq (s : String) : Option Req :=
  match splitOn s '|' with
  | "mu" :: p :: rest => do
    let ms ← (splitNonEmpty ("|".intercalate rest) '&').mapM parseSimple
    pure (.multiple (← parsePath p) ms)
  | _ => (parseSimple s).map .simple

structure TagSpec where
  name : String
  c : Nat
  i : Nat
  a : Nat
  ty : CipType
  len : Nat
  scalar : Bool

def parseTag (s : String) : Option TagSpec :=
  match splitOn s ':' with
  | [na, ty, len, sc] =>
    match splitOn na '@' with
    | [name, addr] =>
      match splitOn addr '.' with
      | [c, i, a] => do
        pure { name := ← strOfHex name, c := ← c.toNat?, i := ← i.toNat?, a := ← a.toNat?,
               ty := ← CipType.ofCode (← ty.toNat?), len := ← len.toNat?, scalar := sc == "1" }
      | _ => none
    | _ => none
  | _ => none

def addTag (d : Dev) (t : TagSpec) : Dev :=
  let d := { d with symbols := d.symbols ++ [(lower t.name, (t.c, t.i, t.a))] }
  let tag : Tag := { ty := t.ty, scalar := t.scalar, vals := List.replicate t.len (Val.zero t.ty) }
  match d.obj? t.c t.i with
  | none => { d with objs := d.objs ++ [{ cls := t.c, ins := t.i, attrs := [(t.a, tag)] }] }
  | some o =>
    if (o.attr? t.a).isSome then d
    else { d with objs := d.objs.map fun o' =>
            if o'.cls == t.c && o'.ins == t.i then { o' with attrs := o'.attrs ++ [(t.a, tag)] } else o' }

/-- the class-level instance (0) every CIP class in use gets, with its static attributes Revision (1) and
Optional Attributes (4), INT 0 (Max Instance / Num Instances depend on interpreter history: not modelled) -/
def addClassLevel (d : Dev) : Dev :=
  let classes := d.objs.foldl (fun acc o => if acc.contains o.cls then acc else acc ++ [o.cls]) ([] : List Nat)
  let clsAttr : Tag := { ty := .int, scalar := true, vals := [Val.zero .int] }
  { d with objs := d.objs ++ classes.map fun c => { cls := c, ins := 0, attrs := [(1, clsAttr), (4, clsAttr)] } }

def dump (d : Dev) : String :=
  let items := d.objs.flatMap fun o => o.attrs.map fun (a, t) =>
    s!"{o.cls}.{o.ins}.{a}=" ++ (match t.produce with | some bs => hexOfBytes bs | none => "X")
  if items.isEmpty then "-" else ",".intercalate items

def runAll (d : Dev) : List Req → Dev × List String
  | [] => (d, [])
  | r :: rest =>
    let (d1, out) := exec d r
    let (d2, outs) := runAll d1 rest
    (d2, ((match out with | some bs => hexOfBytes bs | none => "X") ++ "@" ++ dump d1) :: outs)

def handle : List String → Option String
  | ["lgx", maxb, tags, reqs] => do
    let maxb ← maxb.toNat?
    let specs ← (splitNonEmpty tags ',').mapM parseTag
    let d0 : Dev := { objs := [{ cls := router.1, ins := router.2, attrs := [] }], symbols := [], maxBytes := maxb }
    let d := addClassLevel (specs.foldl addTag d0)
    let rs ← (splitNonEmpty reqs ';').mapM parseReq
    let (_, outs) := runAll d rs
    pure (if outs.isEmpty then "-" else ";".intercalate outs)
  | ["lgxb", maxb, tags, pre, members] => do
    -- bundle vs singly, from the state reached by `pre`:  "<bundle reply>@<dump> | <r1>@<dump>;<r2>@<dump>…"
    let maxb ← maxb.toNat?
    let specs ← (splitNonEmpty tags ',').mapM parseTag
    let d0 : Dev := { objs := [{ cls := router.1, ins := router.2, attrs := [] }], symbols := [], maxBytes := maxb }
    let d := addClassLevel (specs.foldl addTag d0)
    let pre ← (splitNonEmpty pre ';').mapM parseReq
    let ms ← (splitNonEmpty members '&').mapM parseSimple
    let (d1, _) := runAll d pre
    let (_, a) := runAll d1 [.multiple [.cls router.1, .ins router.2] ms]
    let (_, b) := runAll d1 (ms.map .simple)
    pure (";".intercalate a ++ " | " ++ (if b.isEmpty then "-" else ";".intercalate b))
  | _ => none

end Cpppo.Driver.Logix
