import Cpppo.Model.Wire
import Cpppo.Model.Serve
import Cpppo.Driver.Logix
/-!
driver: `c08 <mode> <maxBytes> <tags> <pre> <chunks> <info>`        (tags / requests: the syntax of `lgx`)
  pre    = requests executed before the connection under test (by another session), joined by ';'
  mode   = `s`: the chunks are one connection's byte stream (frames are split off by the model)
           `p`: every chunk is handed to the frame parser on its own and processed independently
  chunks = hex strings joined by ','
  info   = per frame (in the order processed), joined by ';':  `<k|e><cp>`  with
           k/e  = what the implementation did after a frame that is not a well-formed tag request: session goes on / ends
           cp   = `-` or the request as parsed by the implementation's own parser (`!` in front: compare the effect only)
answer: per processed frame `<X>@<dump>` joined by ';', then `#<frames>`:
  D<reply frame hex>:<k|e>   the model decoded the frame (and the implementation's parser produced the same request)
  Q<CIP reply hex|X|~>        the model's grammar rejects it, the implementation parsed a request: effect of that request
  O                           no request: nothing changes
  I                           (mode p) the chunk is not a complete frame
  M                           the model decoded a request the implementation did not parse, or parsed differently
-/
namespace Cpppo.Driver.Serve
open Cpppo.Wire Cpppo.Logix Cpppo.Serve

def commands : List String := ["c08", "eng"]

/-- the implementation's parsed request is handed over with its data re-encoded from the parsed values
(BOOL bytes become 0/255, a signalling REAL NaN is quietened, a STRING pad byte becomes 0): compare values -/
def sameData (ty : Nat) (a b : Bytes) : Bool :=
  match CipType.ofCode ty with
  | some t => decodeVals t a == decodeVals t b
  | none => a == b

def sameSimple : Simple → Simple → Bool
  | .writeTag p ty n d, .writeTag p' ty' n' d' => p == p' && ty == ty' && n == n' && sameData ty d d'
  | .writeFrag p ty n off d, .writeFrag p' ty' n' off' d' =>
    p == p' && ty == ty' && n == n' && off == off' && sameData ty d d'
  | a, b => a == b

def sameList : List Simple → List Simple → Bool
  | [], [] => true
  | a :: as, b :: bs => sameSimple a b && sameList as bs
  | _, _ => false

def sameReq : Req → Req → Bool
  | .simple a, .simple b => sameSimple a b
  | .multiple p as, .multiple q bs => p == q && sameList as bs
  | _, _ => false

structure Info where
  cont : Bool
  effectOnly : Bool
  cp : Option Req

def parseInfo (s : String) : Option Info :=
  match s.toList with
  | f :: rest =>
    let cont := f == 'k'
    if f != 'k' && f != 'e' then none else
    match rest with
    | ['-'] => some ⟨cont, false, none⟩
    | '!' :: r => (Cpppo.Driver.Logix.parseReq (String.ofList r)).map fun q => ⟨cont, true, some q⟩
    | r => (Cpppo.Driver.Logix.parseReq (String.ofList r)).map fun q => ⟨cont, false, some q⟩
  | [] => none

def hexOpt : Option Bytes → String
  | some bs => hexOfBytes bs
  | none => "X"

/-- one frame: (new device, output token, session continues) -/
def stepFrame (d : Dev) (h : Header) (pl : Bytes) (info : Option Info) : Dev × String × Bool :=
  let cp := info.bind (·.cp)
  let fate := (info.map (·.cont)).getD false
  match decodeFrame d h pl with
  | some dec =>
    let same := match cp with
      | some c => sameReq dec.req c
      | none => false
    if !same then (d, "M", false)
    else
      let (d', cip) := exec d dec.req
      (d', "D" ++ hexOfBytes (encodeReplyFrame h dec cip) ++ ":" ++ (if cip.isSome then "k" else "e"), cip.isSome)
  | none =>
    match cp with
    | some c =>
      let (d', cip) := exec d c
      let eff := (info.map (·.effectOnly)).getD false
      (d', "Q" ++ (if eff then "~" else hexOpt cip), fate)
    | none => (d, "O", fate)

def runStream (infos : List Info) : Nat → Nat → Dev → Bytes → List String
  | 0, _, _, _ => []
  | fuel + 1, k, d, bs =>
    match splitFrame bs with
    | none => []
    | some (h, pl, rest) =>
      let (d1, tok, cont) := stepFrame d h pl infos[k]?
      let out := tok ++ "@" ++ Cpppo.Driver.Logix.dump d1
      if cont then out :: runStream infos fuel (k + 1) d1 rest else [out]

def runChunks (infos : List Info) : Nat → Dev → List Bytes → List String
  | _, _, [] => []
  | k, d, c :: rest =>
    match splitFrame c with
    | none => ("I@" ++ Cpppo.Driver.Logix.dump d) :: runChunks infos (k + 1) d rest
    | some (h, pl, _) =>
      let (d1, tok, _) := stepFrame d h pl infos[k]?
      (tok ++ "@" ++ Cpppo.Driver.Logix.dump d1) :: runChunks infos (k + 1) d1 rest

/-- `eng <nstates> <table> <input>`: the crumb loop on an explicit machine; table = entries `s.sym>s'.delta`
(sym `*` = any symbol, `-` = end of input; delta = symbols consumed (+) or pushed back (-) as `p1`/`m1`/`p0`) -/
def parseStep (tbl : List (Nat × Option (Option Nat) × Nat × Int)) (s pos : Nat) (sym : Option Nat) :
    Option (Nat × Nat) :=
  match tbl.find? (fun e => e.1 == s && (e.2.1 == some sym || (e.2.1 == none && sym.isSome))) with
  | some (_, _, s', dl) =>
    let p' : Int := (pos : Int) + dl
    if p' < 0 then none else some (s', p'.toNat)
  | none => none

def parseEntry (s : String) : Option (Nat × Option (Option Nat) × Nat × Int) :=
  match (s.split (· == '>')).toList.map (·.toString) with
  | [l, r] =>
    match (l.split (· == '.')).toList.map (·.toString), (r.split (· == '.')).toList.map (·.toString) with
    | [a, sym], [b, dl] => do
      let a ← a.toNat?
      let b ← b.toNat?
      let sym ← (if sym == "*" then some none else if sym == "-" then some (some none)
                 else sym.toNat?.map (fun v => some (some v)))
      let dl ← (match dl.toList with
        | 'p' :: r => (String.ofList r).toNat?.map (fun v => (v : Int))
        | 'm' :: r => (String.ofList r).toNat?.map (fun v => -(v : Int))
        | _ => none)
      pure (a, sym, b, dl)
    | _, _ => none
  | _ => none

def handle : List String → Option String
  | ["c08", mode, maxb, tags, pre, chunks, info] => do
    let maxb ← maxb.toNat?
    let specs ← (splitNonEmpty tags ',').mapM Cpppo.Driver.Logix.parseTag
    let d0 : Dev := { objs := [{ cls := router.1, ins := router.2, attrs := [] }], symbols := [], maxBytes := maxb }
    let d := specs.foldl Cpppo.Driver.Logix.addTag d0
    let pre ← (splitNonEmpty pre ';').mapM Cpppo.Driver.Logix.parseReq
    let d := pre.foldl (fun d r => (exec d r).1) d
    let cs ← (splitNonEmpty chunks ',').mapM bytesOfHex
    let infos ← (splitNonEmpty info ';').mapM parseInfo
    let outs ←
      if mode == "s" then
        let bs := cs.flatten
        some (runStream infos bs.length 0 d bs)
      else if mode == "p" then some (runChunks infos 0 d cs)
      else none
    pure ((if outs.isEmpty then "-" else ";".intercalate outs) ++ s!"#{outs.length}")
  | ["eng", ns, table, input] => do
    let ns ← ns.toNat?
    let tbl ← (splitNonEmpty table ',').mapM parseEntry
    let inp ← bytesOfHex input
    let m : Machine := { nstates := ns, step := parseStep tbl }
    let bound := ns * (inp.length + 1)
    let (n, st) := runCrumbs m inp (bound + 2) [(0, 0)] (0, 0)
    pure (s!"{n}:" ++ (match st with | .noTransition => "end" | .stasis => "stasis" | .fuel => "fuel"))
  | _ => none

end Cpppo.Driver.Serve
