import Cpppo.Model.Wire
import Cpppo.Model.Serve
import Cpppo.Driver.Logix
/-!
driver: `c08 <mode> <maxBytes> <tags> <pre> <chunks> <info>`        (tags / requests: the syntax of `lgx`)
  pre    = requests executed before the connection under test (by another session), joined by ';'
  mode   = `s`: the chunks are one connection's byte stream (frames are split off by the model)
           `p`: every chunk is handed to the frame parser on its own and processed independently
           `u`: the chunks are datagrams for the UDP loop (same rule: `serveDatagrams`)
           a number behind the letter (`s64`) = the configured size limit (`serveFrameSized`)
  chunks = hex strings joined by ','
  info   = per frame (in the order processed), joined by ';':  `<k|e><cp>`  with
           k/e  = what the implementation did after a frame that is not a well-formed tag request: session goes on / ends
           cp   = `-` or the request as parsed by the implementation's own parser (`!` in front: compare the effect only)
answer: per processed frame `<X>@<dump>` joined by ';', then `#<frames>`:
  D<reply frame hex>:<k|e>   the model decoded the frame (and the implementation's parser produced the same request)
  Q<CIP reply hex|X|~>        the model's grammar rejects it, the implementation parsed a request: effect of that request
  O                           no request: nothing changes
  I                           (mode p) the chunk is not a complete frame
  M                           the model decoded a request the implementation did not parse, or parsed differently
-/
namespace Cpppo.Driver.Serve
open Cpppo.Wire Cpppo.Logix Cpppo.Serve

def commands : List String := ["c08", "c08.eng", "c08.scan"]

/-- the implementation's parsed request is handed over with its data re-encoded from the parsed values
(BOOL bytes become 0/255, a signalling REAL NaN is quietened, a STRING pad byte becomes 0): compare values -/
def sameData (ty : Nat) (a b : Bytes) : Bool :=
  match CipType.ofCode ty with
  | some t => decodeVals t a == decodeVals t b
  | none => a == b

def sameSimple : Simple → Simple → Bool
  | .writeTag p ty n d, .writeTag p' ty' n' d' => p == p' && ty == ty' && n == n' && sameData ty d d'
  | .writeFrag p ty n off d, .writeFrag p' ty' n' off' d' =>
    p == p' && ty == ty' && n == n' && off == off' && sameData ty d d'
  | a, b => a == b

def sameList : List Simple → List Simple → Bool
  | [], [] => true
  | a :: as, b :: bs => sameSimple a b && sameList as bs
  | _, _ => false

def sameReq : Req → Req → Bool
  | .simple a, .simple b => sameSimple a b
  | .multiple p as, .multiple q bs => p == q && sameList as bs
  | _, _ => false

structure Info where
  cont : Bool
  effectOnly : Bool
  cp : Option Req

def parseInfo (s : String) : Option Info :=
  match s.toList with
  | f :: rest =>
    let cont := f == 'k'
    if f != 'k' && f != 'e' then none else
    match rest with
    | ['-'] => some ⟨cont, false, none⟩
    | '!' :: r => (Cpppo.Driver.Logix.parseReq (String.ofList r)).map fun q => ⟨cont, true, some q⟩
    | r => (Cpppo.Driver.Logix.parseReq (String.ofList r)).map fun q => ⟨cont, false, some q⟩
  | [] => none

def hexOpt : Option Bytes → String
  | some bs => hexOfBytes bs
  | none => "X"

/-- one frame: (new device, output token, session continues) -/
def stepFrame (limit : Option Nat) (d : Dev) (h : Header) (pl : Bytes) (info : Option Info) : Dev × String × Bool :=
  let cp := info.bind (·.cp)
  let fate := (info.map (·.cont)).getD false
  if limit.any (· < pl.length) then
    -- longer than the configured size limit (`serveFrameSized`): refused with status 0x65, never executed
    match (serveFrameSized limit d h pl).2 with
    | .reply f _ => (d, "D" ++ hexOfBytes f ++ ":e", false)
    | .other => (d, "O", fate)
  else
  match decodeFrame d h pl with
  | some dec =>
    let same := match cp with
      | some c => sameReq dec.req c
      | none => false
    if !same then (d, "M", false)
    else
      let (d', cip) := exec d dec.req
      (d', "D" ++ hexOfBytes (encodeReplyFrame h dec cip) ++ ":" ++ (if cip.isSome then "k" else "e"), cip.isSome)
  | none =>
    match cp with
    | some c =>
      let (d', cip) := exec d c
      let eff := (info.map (·.effectOnly)).getD false
      (d', "Q" ++ (if eff then "~" else hexOpt cip), fate)
    | none => (d, "O", fate)

def runStream (limit : Option Nat) (infos : List Info) : Nat → Nat → Dev → Bytes → List String
  | 0, _, _, _ => []
  | fuel + 1, k, d, bs =>
    match splitFrame bs with
    | none => []
    | some (h, pl, rest) =>
      let (d1, tok, cont) := stepFrame limit d h pl infos[k]?
      let out := tok ++ "@" ++ Cpppo.Driver.Logix.dump d1
      if cont then out :: runStream limit infos fuel (k + 1) d1 rest else [out]

def runChunks (limit : Option Nat) (infos : List Info) : Nat → Dev → List Bytes → List String
  | _, _, [] => []
  | k, d, c :: rest =>
    match splitFrame c with
    | none => ("I@" ++ Cpppo.Driver.Logix.dump d) :: runChunks limit infos (k + 1) d rest
    | some (h, pl, _) =>
      let (d1, tok, _) := stepFrame limit d h pl infos[k]?
      (tok ++ "@" ++ Cpppo.Driver.Logix.dump d1) :: runChunks limit infos (k + 1) d1 rest

/-- `eng <kinds> <terminal> <edges> <input hex>`: a `dfa` of plain states over the real engine's rules.
kinds: per state `p` (plain: consumes nothing) or `c` (consumes one symbol when it runs: `state_drop`);
terminal: per state `0`/`1`; edges `s.sym>t` joined by ',' with sym a number, `*` (any symbol: `True`) or
`-` (no-input transition: `None`).  One pass = one state run (`state.run` under `dfa_base.delegate`): the state
consumes if it is a consuming one (no symbol left: the engine's no-progress AssertionError), then the transition
for the next symbol is looked up (exact, then `*` if a symbol is there, then `-`). -/
structure Table where
  kinds : List Bool
  terminal : List Bool
  edges : List (Nat × Option (Option Nat) × Nat)     -- sym: none = `*`, some none = `-`, some (some v)

def Table.lookup (t : Table) (s : Nat) (sym : Option Nat) : Option Nat :=
  let find (k : Option (Option Nat)) := (t.edges.find? fun e => e.1 == s && e.2.1 == k).map (·.2.2)
  match sym with
  | some v => (find (some (some v))).orElse fun _ => (find none).orElse fun _ => find (some none)
  | none => find (some none)

def Table.machine (t : Table) (input : List Nat) : Machine :=
  { nstates := t.kinds.length
    step := fun s pos _ =>
      let cons := t.kinds.getD s false
      if cons && pos ≥ input.length then none
      else
        let pos' := if cons then pos + 1 else pos
        (t.lookup s input[pos']?).map fun s' => (s', pos') }

def parseEdge (s : String) : Option (Nat × Option (Option Nat) × Nat) :=
  match (s.split (· == '>')).toList.map (·.toString) with
  | [l, r] =>
    match (l.split (· == '.')).toList.map (·.toString) with
    | [a, sym] => do
      let a ← a.toNat?
      let b ← r.toNat?
      let sym ← (if sym == "*" then some none else if sym == "-" then some (some none)
                 else sym.toNat?.map (fun v => some (some v)))
      pure (a, sym, b)
    | _ => none
  | _ => none

def runTable (t : Table) (input : List Nat) : String :=
  let m := t.machine input
  let bound := m.nstates * (input.length + 1)
  let r := runCrumbs m input (bound + 2) [(0, 0)] (0, 0)
  let (s, pos) := r.last
  let cons := t.kinds.getD s false
  let starved := cons && pos ≥ input.length
  let sent := if cons && !starved then pos + 1 else pos
  let outcome :=
    match r.stop with
    | .fuel => "fuel"
    | _ => if starved then "assert" else if t.terminal.getD s false then "ok" else "nonterminal"
  s!"{r.passes}:{sent}:{outcome}"

def handle : List String → Option String
  | ["c08", mode, maxb, tags, pre, chunks, info] => do
    let maxb ← maxb.toNat?
    let specs ← (splitNonEmpty tags ',').mapM Cpppo.Driver.Logix.parseTag
    let d0 : Dev := { objs := [{ cls := router.1, ins := router.2, attrs := [] }], symbols := [], maxBytes := maxb }
    let d := specs.foldl Cpppo.Driver.Logix.addTag d0
    let pre ← (splitNonEmpty pre ';').mapM Cpppo.Driver.Logix.parseReq
    let d := pre.foldl (fun d r => (exec d r).1) d
    let cs ← (splitNonEmpty chunks ',').mapM bytesOfHex
    let infos ← (splitNonEmpty info ';').mapM parseInfo
    -- the mode letter may be followed by the configured size limit (`s64`)
    let limit ← (match mode.toList with
      | _ :: [] => some none
      | _ :: ds => (String.ofList ds).toNat?.map some
      | [] => none)
    let mode := String.ofList (mode.toList.take 1)
    let outs ←
      if mode == "s" then
        let bs := cs.flatten
        some (runStream limit infos bs.length 0 d bs)
      else if mode == "p" || mode == "u" then some (runChunks limit infos 0 d cs)   -- u: datagrams (`serveDatagrams`)
      else none
    pure ((if outs.isEmpty then "-" else ";".intercalate outs) ++ s!"#{outs.length}")
  | ["c08.scan", req] => do
    -- symbols consumed by the Multiple Service Packet parsers at all nesting levels (`scanCost`)
    let bs ← bytesOfHex req
    pure s!"{scanCost bs.length bs}"
  | ["c08.eng", kinds, terminal, edges, input] => do
    let edges ← (splitNonEmpty edges ',').mapM parseEdge
    let inp ← bytesOfHex input
    let t : Table := { kinds := kinds.toList.map (· == 'c'), terminal := terminal.toList.map (· == '1'), edges := edges }
    if t.kinds.isEmpty || t.kinds.length != t.terminal.length then none else
    pure (runTable t inp)
  | _ => none

end Cpppo.Driver.Serve
