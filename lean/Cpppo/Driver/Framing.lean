import Cpppo.Model.Wire
import Cpppo.Model.Framing
/-!
driver (property C02):

  `frm <chunk,chunk,…|->`                 the machine fed block by block, then end-of-stream
      -> `<frame;frame;…|-> <clean|abort:<pending>>`
         frame = `command:length:session:status:context:options:payload:sent`  (payload `~` when `.length` is 0:
         the code leaves `.input` absent; sent = cumulative `source.sent` after the frame)

  `srv <script> <chunk,chunk,…|-> [<script> <chunks> …]`   connections with a scripted request processor
      script = two letters per frame, `r|n|x` (reply / none / raised) then `c|s` (continue / stop), `-` = empty
      -> `acted=<n> replies=<i,i,…|-> closed=<n> end=<clean|abort:<pending>|stopped> prog=<a,a,…|->` joined by ` | `
         (prog = frames acted upon each time the connection comes back for more input, one entry per block;
          `srvq` = the same without `prog`)
-/
namespace Cpppo.Driver.Framing
open Cpppo.Wire Cpppo.Framing

def commands : List String := ["frm", "srv", "srvq"]

def showFrame (f : RawFrame) (sent : Nat) : String :=
  let pl := if f.length = 0 then "~" else hexOfBytes f.payload
  s!"{f.command}:{f.length}:{f.session}:{f.status}:{hexOfBytes f.context}:{f.options}:{pl}:{sent}"

def showEnd : Ending → String
  | .clean => "clean"
  | .aborted n => s!"abort:{n}"
  | .stopped => "stopped"

def parseChunks (s : String) : Option (List (List Nat)) :=
  (splitNonEmpty s ',').mapM bytesOfHex

/-- scripted processor: state = (frames acted upon, close calls).  Per frame a reply letter
`r` (reply sent) | `n` (none) | `x` (the processor raised: no reply, the cleanup call with empty data is made,
the session ends) and a continuation letter `c` | `s`. -/
inductive Beh where
  | reply | silent | raised
deriving DecidableEq

def parseScript : List Char → Option (List (Beh × Bool))
  | [] => some []
  | [_] => none
  | a :: b :: rest => do
    let r ← if a = 'r' then some Beh.reply else if a = 'n' then some Beh.silent
            else if a = 'x' then some Beh.raised else none
    let c ← if b = 'c' then some true else if b = 's' then some false else none
    let t ← parseScript rest
    pure ((r, c) :: t)

def scriptStep (script : List (Beh × Bool)) (s : Nat × Nat) (_ : RawFrame) : (Nat × Nat) × Option Nat × Bool :=
  match script[s.1]? with
  | some (Beh.reply, c) => ((s.1 + 1, s.2), some s.1, c)
  | some (Beh.silent, c) => ((s.1 + 1, s.2), none, c)
  | some (Beh.raised, _) => ((s.1 + 1, s.2 + 1), none, false)
  | none => ((s.1 + 1, s.2), none, false)

def scriptClose (s : Nat × Nat) : Nat × Nat := (s.1, s.2 + 1)

def showNats (l : List Nat) : String :=
  if l.isEmpty then "-" else ",".intercalate (l.map toString)

def serveOne (prog : Bool) (script cs : String) : Option String := do
  let script ← if script = "-" then some [] else parseScript script.toList
  let cs ← parseChunks cs
  let (s, replies, e) := serveChunks (scriptStep script) scriptClose (0, 0) cs
  let tr := (Conn.trace (R := Nat) (scriptStep script) (Conn.init (0, 0)) cs).map fun c => c.st.1
  let p := if prog then s!" prog={showNats tr}" else ""
  pure s!"acted={s.1} replies={showNats replies} closed={s.2} end={showEnd e}{p}"

/-- one or more connections, each `<script> <chunks>`; answers joined by ` | ` -/
def serveAll (prog : Bool) : List String → Option String
  | [script, cs] => serveOne prog script cs
  | script :: cs :: rest => do
    let a ← serveOne prog script cs
    let b ← serveAll prog rest
    pure (a ++ " | " ++ b)
  | _ => none

def handle : List String → Option String
  | ["frm", cs] => do
    let cs ← parseChunks cs
    let r := mrunAll [] cs
    let sents := sentAfter 0 r.1
    let fs := (r.1.zip sents).map fun (f, n) => showFrame f n
    let e := if r.2.isEmpty then Ending.clean else Ending.aborted r.2.length
    pure ((if fs.isEmpty then "-" else ";".intercalate fs) ++ " " ++ showEnd e)
  | "srv" :: rest => serveAll true rest
  | "srvq" :: rest => serveAll false rest
  | _ => none

end Cpppo.Driver.Framing
