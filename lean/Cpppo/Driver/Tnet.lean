import Cpppo.Model.Wire
import Cpppo.Model.Tnet
/-! driver for C20.

Values are written as prefix tokens: `i<int>` `f<hex>` `b0|b1` `n` `y<hex>` `t<cp.cp...>` (`t-` empty)
`L<n>` followed by n values, `D<n>` followed by n times `k<cp.cp...>` value.

    tn.rt <enc> <tailhex> <value tokens>  (enc: utf8|latin1|ascii|utf16)
                                      ->  reject | not-wf | <dumphex> reject | <dumphex> <value tokens> / <resthex>
    tn.parse <enc> <hex>              ->  reject | <value tokens> / <resthex>
    tn.stream <ignorehex> <hex,hex,...> ->  {<value tokens>@<sent> }(end@<sent> | reject)
-/
namespace Cpppo.Driver.Tnet
open Cpppo.Wire Cpppo.Tnet

def showCps (cps : List Nat) : String :=
  if cps.isEmpty then "-" else ".".intercalate (cps.map toString)

def readCps (s : String) : Option (List Nat) :=
  if s = "-" then some [] else (s.split (· == '.') |>.toList.map (·.toString)).mapM (·.toNat?)

mutual
def showVal : TVal → List String
  | .int i => [s!"i{i}"]
  | .float tok => ["f" ++ hexOfBytes tok]
  | .bool b => [if b then "b1" else "b0"]
  | .null => ["n"]
  | .bytes bs => ["y" ++ hexOfBytes bs]
  | .text cps => ["t" ++ showCps cps]
  | .list vs => let (n, ts) := showList vs; s!"L{n}" :: ts
  | .dict kvs => let (n, ts) := showDict kvs; s!"D{n}" :: ts
def showList : TList → Nat × List String
  | .nil => (0, [])
  | .cons v vs => let (n, ts) := showList vs; (n + 1, showVal v ++ ts)
def showDict : TDict → Nat × List String
  | .nil => (0, [])
  | .cons k v kvs => let (n, ts) := showDict kvs; (n + 1, ("k" ++ showCps k) :: (showVal v ++ ts))
end

def showV (v : TVal) : String := " ".intercalate (showVal v)

mutual
def readVal : Nat → List String → Option (TVal × List String)
  | 0, _ => none
  | _ + 1, [] => none
  | fuel + 1, tok :: rest =>
    match tok.toList with
    | 'i' :: cs => (String.ofList cs).toInt?.map fun i => (.int i, rest)
    | 'f' :: cs => (bytesOfHex (String.ofList cs)).map fun b => (.float b, rest)
    | ['b', '0'] => some (.bool false, rest)
    | ['b', '1'] => some (.bool true, rest)
    | ['n'] => some (.null, rest)
    | 'y' :: cs => (bytesOfHex (String.ofList cs)).map fun b => (.bytes b, rest)
    | 't' :: cs => (readCps (String.ofList cs)).map fun c => (.text c, rest)
    | 'L' :: cs => do
      let n ← (String.ofList cs).toNat?
      let (l, rest') ← readList fuel n rest
      pure (.list l, rest')
    | 'D' :: cs => do
      let n ← (String.ofList cs).toNat?
      let (d, rest') ← readDict fuel n rest
      pure (.dict d, rest')
    | _ => none
def readList : Nat → Nat → List String → Option (TList × List String)
  | 0, _, _ => none
  | _ + 1, 0, rest => some (.nil, rest)
  | fuel + 1, n + 1, rest => do
    let (v, rest') ← readVal fuel rest
    let (vs, rest'') ← readList fuel n rest'
    pure (.cons v vs, rest'')
def readDict : Nat → Nat → List String → Option (TDict × List String)
  | 0, _, _ => none
  | _ + 1, 0, rest => some (.nil, rest)
  | _ + 1, _ + 1, [] => none
  | fuel + 1, n + 1, ktok :: rest =>
    match ktok.toList with
    | 'k' :: cs => do
      let k ← readCps (String.ofList cs)
      let (v, rest') ← readVal fuel rest
      let (kvs, rest'') ← readDict fuel n rest'
      pure (.cons k v kvs, rest'')
    | _ => none
end

def readV (toks : List String) : Option TVal :=
  match readVal (2 * toks.length + 2) toks with
  | some (v, []) => some v
  | _ => none

def showParse : Option (TVal × Bytes) → String
  | none => "reject"
  | some (v, rest) => showV v ++ " / " ++ hexOfBytes rest

def showRun (r : Run) : String :=
  let msgs := r.out.map fun (v, n) => showV v ++ s!"@{n}"
  let fin := match r.st with
    | .failed => "reject"
    | _ => s!"end@{r.sent}"
  " ".intercalate (msgs ++ [fin])

def readEnc : String → Option Enc
  | "utf8" => some .utf8
  | "latin1" => some .latin1
  | "ascii" => some .ascii
  | "utf16" => some .utf16
  | _ => none

def commands : List String := ["tn.rt", "tn.parse", "tn.stream"]

def handle : List String → Option String
  | "tn.rt" :: enc :: tail :: toks => do
    let e ← readEnc enc
    let tail ← bytesOfHex tail
    let v ← readV toks
    match dump? e v with
    | none => pure "reject"
    | some bs =>
      -- a value the code serialises must satisfy the theorems' hypothesis (else the case is reported)
      if !(wf e v) then pure "not-wf" else
      pure (hexOfBytes bs ++ " " ++ showParse (parse e (bs ++ tail)))
  | ["tn.parse", enc, hex] => do
    let e ← readEnc enc
    let bs ← bytesOfHex hex
    pure (showParse (parse e bs))
  | ["tn.stream", ign, chunks] => do
    let ign ← bytesOfHex ign
    let cs ← (splitNonEmpty chunks ',').mapM bytesOfHex
    pure (showRun (feedChunks ign {} cs))
  | _ => none

end Cpppo.Driver.Tnet
