import Cpppo.Model.Wire
import Cpppo.Model.Concurrent
import Cpppo.Driver.Logix
/-!
driver: `conc <maxBytes> <tags> <programs> <trace>`
  tags      as for `lgx`
  programs  sessions joined by '^' ("-" = a session that sends nothing); a session = frames joined by ';';
            a frame = `<pid>.<pid>…~<request>` : the request as for `lgx` (a `mu|c2/i1|…` bundle or a single
            request) and, per member, the number of the shared parser that parses it
  trace     the observed interleaving: steps joined by ','; a step = `<sid><K>[<pid>]` with K one of
            F recv, A acquire, f feed, R release, P plan, X access, S send
The machine `Cpppo.Concurrent.runSched` (instance `execLgx`) is stepped along the trace; at every step the
label must be the step the model says that thread takes next (a blocked or finished thread must not appear).
answer: `<ok | bad@<index>:<model's kind>> <replies> <dump>`; replies = per session the reply frames sent (hex,
"X" = not producible) joined by ',' ("-" = none), sessions joined by '^'; dump as for `lgx`.
-/
namespace Cpppo.Driver.Concurrent
open Cpppo.Wire Cpppo.Logix Cpppo.Concurrent Cpppo.Driver.Logix

def commands : List String := ["conc"]

structure FrameSpec where
  bundle  : Bool
  members : Frame Simple

def routerPath : Path := [.cls router.1, .ins router.2]

def parseFrame (s : String) : Option FrameSpec :=
  match splitOn s '~' with
  | [pids, req] => do
    let pids ← (splitNonEmpty pids '.').mapM (·.toNat?)
    match ← parseReq req with
    | .simple r =>
      match pids with
      | [p] => pure { bundle := false, members := [(p, [r])] }
      | _ => none
    | .multiple path ms =>
      if path = routerPath ∧ pids.length = ms.length then
        pure { bundle := true, members := pids.zip (ms.map fun m => [m]) }
      else none
  | _ => none

def parseSession (s : String) : Option (List FrameSpec) := (splitNonEmpty s ';').mapM parseFrame

def kindChar : Kind → String
  | .recv => "F" | .plan => "P" | .acquire p => s!"A{p}" | .blocked p => s!"B{p}" | .feed p => s!"f{p}"
  | .release p => s!"R{p}" | .access => "X" | .send => "S" | .finished => "E"

/-- `<sid><label>` → (sid, label) -/
def parseStep (s : String) : Option (Sid × String) :=
  let cs := s.toList
  let ds := cs.takeWhile Char.isDigit
  let rest := cs.dropWhile Char.isDigit
  if ds.isEmpty ∨ rest.isEmpty then none else
  (String.ofList ds).toNat?.map fun sid => (sid, String.ofList rest)

/-- step along the labelled trace; `some i` = first step whose label is not the model's next step -/
def follow (st : State Dev Simple (Option Bytes)) (i : Nat) :
    List (Sid × String) → State Dev Simple (Option Bytes) × Option (Nat × String)
  | [] => (st, none)
  | (s, lab) :: rest =>
    let k := nextKind st s
    if kindChar k = lab then follow (step execLgx st s) (i + 1) rest
    else (st, some (i, kindChar k))

def frameReply (f : FrameSpec) (rs : List (Option Bytes)) : String :=
  if f.bundle then
    match rs.mapM id with
    | none => "X"
    | some ms =>
      match encodeReply { svc := svcMulti, status := 0, raw := encodeMultiple ms } with
      | some bs => hexOfBytes bs
      | none => "X"
  else
    match rs with
    | [some bs] => hexOfBytes bs
    | _ => "X"

def sessionReplies (fs : List FrameSpec) (sent : List (List (Option Bytes))) : String :=
  let outs := (fs.zip sent).map fun (f, rs) => frameReply f rs
  if outs.isEmpty then "-" else ",".intercalate outs

def handle : List String → Option String
  | ["conc", maxb, tags, progs, trace] => do
    let maxb ← maxb.toNat?
    let specs ← (splitNonEmpty tags ',').mapM parseTag
    let d0 : Dev := { objs := [{ cls := router.1, ins := router.2, attrs := [] }], symbols := [], maxBytes := maxb }
    let d := specs.foldl addTag d0
    let sessions ← (splitOn progs '^').mapM parseSession
    let steps ← (splitNonEmpty trace ',').mapM parseStep
    let prog : Sid → List (Frame Simple) := fun s => ((sessions[s]?).getD []).map (·.members)
    let (st, bad) := follow (init d prog) 0 steps
    let status := match bad with
      | none => "ok"
      | some (i, k) => s!"bad@{i}:{k}"
    let reps := (List.range sessions.length).map fun s =>
      sessionReplies ((sessions[s]?).getD []) (st.thr s).sent
    pure (status ++ " " ++ "^".intercalate reps ++ " " ++ dump st.mem)
  | _ => none

end Cpppo.Driver.Concurrent
