import Cpppo.Model.Wire
import Cpppo.Model.RefCodec
import Cpppo.Model.Server
import Cpppo.Model.IopClient
import Cpppo.Driver.Logix
/-!
driver for C14 (reference codec, server model, generic client model)

`c14.enc <session> <ctxhex> <msg>`                 -> frame hex | X          (reference encoder)
`c14.dec <framehex>`                               -> decoded reply | X      (reference decoder)
`c14.srv <fixed> <maxBytes> <tags> <steps>`        steps = `<session>:<otId>:<toId>:<framehex>` joined by ';'
      -> per step `R<hex>` | `F<hex>` | `C` | `D`, then `@<dump>#<forwards>`, joined by ';'   (server model)
`c14.run <fixed> <maxBytes> <tags> <steps>`        steps = `<session>:<otId>:<toId>:<ctxsession>:<ctxhex>:<msg>` joined by ';'
      -> per step `<out>|<decoded>@<dump>#<forwards>`: encode (reference) -> serve (model) -> decode (reference)
`c14.plx <maxBytes> <tags> <ops>`                  ops joined by ';' (see `parseOp`)
      -> per op the API-level results of the generic client model

msg   = reg~ver~opts | unreg | req~<transport>~<timeout>~<req as in lgx> | fo~timeout~<14 numbers ':'>~<ports>~<path>
        | fc~timeout~<5 numbers ':'>~<ports>~<path>
transport = d | w:prio:ticks:<ports> | c:connId:seq          ports = p.l,p.l… | -
-/
namespace Cpppo.Driver.Interop
open Cpppo.Wire Cpppo.Logix Cpppo

def commands : List String := ["c14.enc", "c14.dec", "c14.srv", "c14.run", "c14.plx"]

def splitOn (s : String) (c : Char) : List String := (s.split (· == c)).toList.map (·.toString)

def parsePorts (s : String) : Option (List (Nat × Nat)) :=
  (splitNonEmpty s ',').mapM fun x =>
    match splitOn x '.' with
    | [a, b] => do pure (← a.toNat?, ← b.toNat?)
    | _ => none

def parseTransport (s : String) : Option Ref.Transport :=
  match splitOn s ':' with
  | ["d"] => some .direct
  | ["w", p, t, ports] => do pure (.wrapped (← p.toNat?) (← t.toNat?) (← parsePorts ports))
  | ["c", id, seq] => do pure (.connected (← id.toNat?) (← seq.toNat?))
  | _ => none

def parseMsg (s : String) : Option Ref.Msg :=
  match splitOn s '~' with
  | ["reg", v, o] => do pure (.register (← v.toNat?) (← o.toNat?))
  | ["unreg"] => some .unregister
  | ["req", t, timeout, r] => do
    pure (.request (← parseTransport t) (← timeout.toNat?) (← Driver.Logix.parseReq r))
  | ["fo", timeout, nums, ports, path] => do
    match (← (splitOn nums ':').mapM (·.toNat?)) with
    | [large, prio, ticks, otId, toId, serial, vendor, oserial, mult, otRpi, otNcp, toRpi, toNcp, tct] =>
      pure (.fwdOpen (← timeout.toNat?)
        { large := large == 1, prio := prio, ticks := ticks, otId := otId, toId := toId, serial := serial,
          vendor := vendor, oserial := oserial, mult := mult, otRpi := otRpi, otNcp := otNcp, toRpi := toRpi,
          toNcp := toNcp, tct := tct, ports := ← parsePorts ports, target := ← Driver.Logix.parsePath path })
    | _ => none
  | ["fc", timeout, nums, ports, path] => do
    match (← (splitOn nums ':').mapM (·.toNat?)) with
    | [prio, ticks, serial, vendor, oserial] =>
      pure (.fwdClose (← timeout.toNat?)
        { prio := prio, ticks := ticks, serial := serial, vendor := vendor, oserial := oserial,
          ports := ← parsePorts ports, target := ← Driver.Logix.parsePath path })
    | _ => none
  | _ => none

def showVal : Val → String
  | .int i => s!"i{i}"
  | .bool b => if b then "b1" else "b0"
  | .f32 b => s!"f{b}"
  | .f64 b => s!"d{b}"
  | .str s => "s" ++ hexOfBytes s

def showList (l : List String) : String := if l.isEmpty then "-" else ",".intercalate l

def showReply (r : Reply) : String :=
  let base := s!"tag:{r.svc}:{r.status}:{showList (r.ext.map toString)}:" ++
    (match r.ty with | some t => toString t.code | none => "-") ++ ":" ++ showList (r.vals.map showVal) ++ ":" ++
    hexOfBytes r.raw
  match Ref.decBundle r with
  | some ms => base ++ "[" ++ "&".intercalate (ms.map fun m =>
      s!"{m.svc}:{m.status}:{showList (m.ext.map toString)}:" ++
      (match m.ty with | some t => toString t.code | none => "-") ++ ":" ++ showList (m.vals.map showVal) ++ ":" ++
      hexOfBytes m.raw) ++ "]"
  | none => if r.svc = 0x8A ∧ r.status = 0 then base ++ "[X]" else base

def showCip : Ref.CipReply → String
  | .tag r => showReply r
  | .fwdOpen r => s!"fo:{r.svc}:{r.status}:{showList (r.ext.map toString)}:{r.otId}:{r.toId}:{r.serial}:{r.vendor}:{r.oserial}:{r.otApi}:{r.toApi}:{hexOfBytes r.app}"
  | .fwdClose r => s!"fc:{r.status}:{showList (r.ext.map toString)}:{r.serial}:{r.vendor}:{r.oserial}:{hexOfBytes r.app}"

def showRMsg (h : Ref.Hdr) (m : Ref.RMsg) : String :=
  s!"h{h.command}:{h.session}:{h.status}:{hexOfBytes h.context}:{h.options}/" ++
  match m with
  | .registered v o => s!"reg:{v}:{o}"
  | .failed => "fail"
  | .cip conn iface timeout r =>
    "cip:" ++ (match conn with | some (id, seq) => s!"{id}.{seq}" | none => "-") ++ s!":{iface}:{timeout}:" ++ showCip r

def decodeText (bs : Bytes) : String :=
  match Ref.decReplyMsg bs with
  | some (h, m) => showRMsg h m
  | none => "X"

def mkDev (maxb tags : String) : Option Dev := do
  let maxb ← maxb.toNat?
  let specs ← (splitNonEmpty tags ',').mapM Driver.Logix.parseTag
  let d0 : Dev := { objs := [{ cls := router.1, ins := router.2, attrs := [] }], symbols := [], maxBytes := maxb }
  pure (specs.foldl Driver.Logix.addTag d0)

def showOut : Srv.Out → String
  | .reply bs => "R" ++ hexOfBytes bs
  | .fail bs => "F" ++ hexOfBytes bs
  | .closed => "C"
  | .drop => "D"

def outBytes : Srv.Out → Option Bytes
  | .reply bs => some bs
  | .fail bs => some bs
  | _ => none

def showSt (st : Srv.St) : String := "@" ++ Driver.Logix.dump st.dev ++ s!"#{st.fwds.length}"

/-- `session:otId:toId:framehex` -/
def parseSrvStep (s : String) : Option (Srv.Rnd × Bytes) :=
  match splitOn s ':' with
  | [a, b, c, h] => do pure ({ session := ← a.toNat?, otId := ← b.toNat?, toId := ← c.toNat? }, ← bytesOfHex h)
  | _ => none

def isReply : Srv.Out → Bool
  | .reply _ => true
  | _ => false

/-- frames of one session; after anything but a plain reply the session is over -/
def runSrv (fixed : Bool) : Srv.St → List (Srv.Rnd × Bytes) → List String
  | _, [] => []
  | st, (rnd, fr) :: rest =>
    let (st', out) := Srv.serveWith fixed st rnd fr
    (showOut out ++ showSt st') :: (if isReply out then runSrv fixed st' rest else [])

/-- `session:otId:toId:ctxsession:ctxhex:msg` -/
def parseRunStep (s : String) : Option (Srv.Rnd × Ref.Ctx × Ref.Msg) :=
  match splitOn s ':' with
  | a :: b :: c :: ses :: ctx :: rest => do
    pure ({ session := ← a.toNat?, otId := ← b.toNat?, toId := ← c.toNat? },
          { session := ← ses.toNat?, context := ← bytesOfHex ctx }, ← parseMsg (":".intercalate rest))
  | _ => none

def runE2E (fixed : Bool) : Srv.St → List (Srv.Rnd × Ref.Ctx × Ref.Msg) → List String
  | st, [] => ["end" ++ showSt (Srv.endSession st)]
  | st, (rnd, ctx, msg) :: rest =>
    match Ref.encMsg ctx msg with
    | none => ("E|X" ++ showSt st) :: runE2E fixed st rest
    | some fr =>
      let (st', out) := Srv.serveWith fixed st rnd fr
      let dec := match outBytes out with
        | some bs => decodeText bs
        | none => "-"
      (showOut out ++ "|" ++ dec ++ showSt st') ::
        (if isReply out then runE2E fixed st' rest
         -- only an exception (drop) makes the server purge the peer's forwards; Unregister / a failure status do not
         else ["end" ++ showSt (if out = .drop then Srv.endSession st' else st')])

/-! generic client operations (what a Logix client library offers) -/

/-- `r|path|count`  `w|path|ty|count|hex,hex…`  `mr|path&path…`  `mw|path=ty=hex&…` -/
def parseOp (s : String) : Option IopClient.Op :=
  match splitOn s '|' with
  | ["r", p, n] => do pure (.read (← Driver.Logix.parsePath p) (← n.toNat?))
  | ["w", p, ty, n, hs] => do
    pure (.write (← Driver.Logix.parsePath p) (← ty.toNat?) (← n.toNat?) (← (splitNonEmpty hs ',').mapM bytesOfHex))
  | ["mr", ps] => do pure (.multiRead (← (splitNonEmpty ps '&').mapM Driver.Logix.parsePath))
  | ["mw", ws] => do
    pure (.multiWrite (← (splitNonEmpty ws '&').mapM fun w =>
      match splitOn w '=' with
      | [p, ty, h] => do pure (← Driver.Logix.parsePath p, ← ty.toNat?, ← bytesOfHex h)
      | _ => none))
  | _ => none

def showRes (r : IopClient.Res) : String :=
  s!"{r.status}:" ++ (match r.ty with | some t => toString t.code | none => "-") ++ ":" ++ showList (r.vals.map showVal)

def runOps : Dev → List IopClient.Op → List String
  | _, [] => []
  | d, op :: rest =>
    let (d', rs) := IopClient.run d op
    ("&".intercalate (rs.map showRes) ++ "@" ++ Driver.Logix.dump d') :: runOps d' rest

def join (l : List String) : String := if l.isEmpty then "-" else ";".intercalate l

def handle : List String → Option String
  | ["c14.enc", ses, ctx, msg] => do
    let c : Ref.Ctx := { session := ← ses.toNat?, context := ← bytesOfHex ctx }
    let m ← parseMsg msg
    pure (match Ref.encMsg c m with | some bs => hexOfBytes bs | none => "X")
  | ["c14.dec", h] => do
    let bs ← bytesOfHex h
    pure (decodeText bs)
  | ["c14.srv", fixed, maxb, tags, steps] => do
    let d ← mkDev maxb tags
    let ss ← (splitNonEmpty steps ';').mapM parseSrvStep
    pure (join (runSrv (fixed == "1") { dev := d } ss))
  | ["c14.run", fixed, maxb, tags, steps] => do
    let d ← mkDev maxb tags
    let ss ← (splitNonEmpty steps ';').mapM parseRunStep
    pure (join (runE2E (fixed == "1") { dev := d } ss))
  | ["c14.plx", maxb, tags, ops] => do
    let d ← mkDev maxb tags
    let os ← (splitNonEmpty ops ';').mapM parseOp
    pure (join (runOps d os ++ ["closed#0", "wire=ok"]))
  | _ => none

end Cpppo.Driver.Interop
