import Cpppo.Model.Wire
import Cpppo.Model.Session
import Cpppo.Driver.Logix
/-!
driver: `sess <fixed 0|1> <route> <routes> <size|-> <refusing> <maxBytes> <tags> <rand> <sessions>`
  refusing = addresses `c.i.a,…` of the Attributes whose store raises ("-" = none)
  route  = `*` (UCMM.route_path None) | `-` (falsy) | `port:link,…`
  routes = routing table keys `port:link,…` ("-" = none)
  sessions = connections joined by '!', each a list of frames
  tags   = as for `lgx`
  rand   = the values `random.randint` will deliver, joined by ',' ("-" = none)
  frames = frames joined by ';' ("-" = none); frame = `<session>~<status>~<context hex>~<options>~<payload length>~<body>`
  body   = R^proto^opts^<extra hex> | Rs^<hex> | U^<hex> | LS | LI | LF | LG | X^<cmd>^<hex>
         | S^<unit 0|1>^<iface>^<timeout>^<wrap>^q^<raw hex>^<request as for lgx>
         | S^<unit 0|1>^<iface>^<timeout>^<wrap>^k^<code>^<path>^<raw hex>
         | S^<unit 0|1>^<iface>^<timeout>^<wrap>^c^<raw hex>^fo,<large>,<14 numbers>,<connection path> | …^fc,<5 numbers>,<path>
         | B^<unit 0|1>^<iface>^<timeout>^<type>:<hex>,…
  wrap   = d | u_<cls>_<ins>_<prio>_<ticks>_<route>
answer: `<run> || <run>`: the stream served at once, and one frame per batch;
  run = `<reply frames hex joined by ','> n=<frames consumed> e=<open|closed|aborted> s=<sessions[addr]> d=<dump>`
-/
namespace Cpppo.Driver.Session
open Cpppo.Wire Cpppo.Logix Cpppo.Session
open Cpppo.Driver.Logix (splitOn parsePath parseReq parseTag addTag dump)

def commands : List String := ["sess"]

def parseRoute (s : String) : Option (List RouteSeg) := (splitNonEmpty s ',').mapM natPair

def parseRouteCfg (s : String) : Option RouteCfg :=
  if s = "*" then some .any else (parseRoute s).map .only

def parseWrap (s : String) : Option Wrap :=
  match splitOn s '_' with
  | ["d"] => some .direct
  | ["u", c, i, p, t, r] => do
    pure (.usend (← c.toNat?) (← i.toNat?) (← p.toNat?) (← t.toNat?) (← parseRoute r))
  | _ => none

def parseBool (s : String) : Option Bool :=
  if s = "1" then some true else if s = "0" then some false else none

def parseItem (s : String) : Option (Nat × Bytes) :=
  match splitOn s ':' with
  | [t, h] => do pure (← t.toNat?, ← bytesOfHex h)
  | _ => none

def parseCm (s : String) : Option CmReq :=
  match splitOn s ',' with
  | ["fo", lg, a, b, c, d, e, f, g, h, i, j, k, l, m, p] => do
    pure (.fwdOpen (← parseBool lg) (← a.toNat?) (← b.toNat?) (← c.toNat?) (← d.toNat?) (← e.toNat?) (← f.toNat?)
      (← g.toNat?) (← h.toNat?) (← i.toNat?) (← j.toNat?) (← k.toNat?) (← l.toNat?) (← m.toNat?) (← parsePath p))
  | ["fc", a, b, c, d, e, p] => do
    pure (.fwdClose (← a.toNat?) (← b.toNat?) (← c.toNat?) (← d.toNat?) (← e.toNat?) (← parsePath p))
  | _ => none

def parseBody (s : String) : Option Body :=
  match splitOn s '^' with
  | ["R", p, o, x] => do pure (.register (← p.toNat?) (← o.toNat?) (← bytesOfHex x))
  | ["Rs", h] => (bytesOfHex h).map .registerShort
  | ["U", h] => (bytesOfHex h).map .unregister
  | ["LS"] => some .listServices
  | ["LI"] => some .listIdentity
  | ["LF"] => some .listInterfaces
  | ["LG"] => some .legacy
  | ["X", c, h] => do pure (.unknownCmd (← c.toNat?) (← bytesOfHex h))
  | ["S", u, i, t, w, "q", raw, r] => do
    pure (.send (← parseBool u) (← i.toNat?) (← t.toNat?) (← parseWrap w) (.req (← parseReq r) (← bytesOfHex raw)))
  | ["S", u, i, t, w, "c", raw, r] => do
    pure (.send (← parseBool u) (← i.toNat?) (← t.toNat?) (← parseWrap w) (.cm (← parseCm r) (← bytesOfHex raw)))
  | ["S", u, i, t, w, "k", code, p, raw] => do
    pure (.send (← parseBool u) (← i.toNat?) (← t.toNat?) (← parseWrap w)
            (.unknown (← code.toNat?) (← parsePath p) (← bytesOfHex raw)))
  | ["B", u, i, t, items] => do
    pure (.sendItems (← parseBool u) (← i.toNat?) (← t.toNat?) (← (splitNonEmpty items ',').mapM parseItem))
  | _ => none

def parseFrame (s : String) : Option Frame :=
  match splitOn s '~' with
  | [se, st, ctx, op, ln, body] => do
    pure { hdr := { session := ← se.toNat?, status := ← st.toNat?, context := ← bytesOfHex ctx, options := ← op.toNat?,
                    length := ← ln.toNat? },
           body := ← parseBody body }
  | _ => none

def showEnd : End → String
  | .open => "open" | .closed => "closed" | .aborted => "aborted"

def showRun (r : Run) : String :=
  let reps := if r.replies.isEmpty then "-" else ",".intercalate (r.replies.map fun x => hexOfBytes x.encode)
  let sess := match r.srv.session with | some h => toString h | none => "-"
  s!"{reps} n={r.consumed} e={showEnd r.end} s={sess} d={dump r.srv.dev}"

/-- sessions one after the other, each one frame per batch -/
def serveSessionsSingly (cfg : Cfg) : Srv → List (List Frame) → List Run
  | _, [] => []
  | s, fs :: rest =>
    let r := serveBatches cfg s (fs.map fun f => [f])
    let s' := if r.end == .closed then r.srv else { r.srv with forwards := [] }
    r :: serveSessionsSingly cfg s' rest

def showRuns (rs : List Run) : String := " // ".intercalate (rs.map showRun)

def handle : List String → Option String
  | ["sess", fixed, route, routes, size, refusing, maxb, tags, rand, sessions] => do
    let fixed ← parseBool fixed
    let cfg : Cfg := { route := ← parseRouteCfg route, routes := ← parseRoute routes, size := ← optNat size }
    let maxb ← maxb.toNat?
    let specs ← (splitNonEmpty tags ',').mapM parseTag
    let d0 : Dev := { objs := [{ cls := router.1, ins := router.2, attrs := [] }], symbols := [], maxBytes := maxb }
    let d := specs.foldl addTag d0
    let rand ← (splitNonEmpty rand ',').mapM (·.toNat?)
    let ss ← (splitOn sessions '!').mapM fun x => (splitNonEmpty x ';').mapM parseFrame
    let refusing ← (splitNonEmpty refusing ',').mapM fun x =>
      match splitOn x '.' with
      | [c, i, a] => do pure (← c.toNat?, ← i.toNat?, ← a.toNat?)
      | _ => none
    let s : Srv := { dev := d, rand := rand, refusing := refusing }
    if !ss.all (·.all (·.inScope cfg d refusing)) then pure "out-of-scope" else
    if fixed then
      pure (showRuns (serveSessions cfg s ss) ++ " || " ++ showRuns (serveSessionsSingly cfg s ss) ++ " || same")
    else
      match ss with
      | [fs] => pure (showRun (serveOld cfg s fs) ++ " || " ++ showRun (serveOld cfg s fs) ++ " || same")
      | _ => none
  | _ => none

end Cpppo.Driver.Session
