import Cpppo.Model.Wire
import Cpppo.Model.Forwards
/-! driver: `fwd <op;op;…>` (Connection Manager level) / `fwdwire <op;op;…>` (frames through `logix.process`)
   — one answer per op joined by `;`, then `|` and the final table in dict order
  o:<host>:<port>:<cid>:<serial>:<p|r>[:t] Forward Open (target PCCC @0xA6/1 | Message Router @2/1; `:t` = O->T Point-to-Point,
                                         the ID is the one the target picked)
  c:<host>:<port>:<serial>               Forward Close
  e:<host>:<port>                        the session's connection ended
  s:<host>:<port>:<cid>:<d|g>            Connected request (DF1 command | CIP Get Attributes All)
-/
namespace Cpppo.Driver.Forwards
open Cpppo.Wire Cpppo.Forwards

def commands : List String := ["fwd", "fwdwire"]

def parseOp (s : String) : Option Op :=
  match s.split (· == ':') |>.toList.map (·.toString) with
  | ["o", h, p, c, sr, t] => do
    let tgt ← (if t = "p" then some Target.pccc else if t = "r" then some Target.router else none)
    pure (.fopen ⟨← h.toNat?, ← p.toNat?⟩ (← c.toNat?) (← sr.toNat?) tgt)
  | ["o", h, p, c, sr, t, _pick] => do   -- the O->T ID was picked by the target (Point-to-Point): `c` is the ID it picked
    let tgt ← (if t = "p" then some Target.pccc else if t = "r" then some Target.router else none)
    pure (.fopen ⟨← h.toNat?, ← p.toNat?⟩ (← c.toNat?) (← sr.toNat?) tgt)
  | ["c", h, p, sr] => do pure (.fclose ⟨← h.toNat?, ← p.toNat?⟩ (← sr.toNat?))
  | ["e", h, p] => do pure (.fin ⟨← h.toNat?, ← p.toNat?⟩)
  | ["s", h, p, c, k] => do
    let pl ← (if k = "d" then some Payload.df1 else if k = "g" then some Payload.cip else none)
    pure (.send ⟨← h.toNat?, ← p.toNat?⟩ (← c.toNat?) pl)
  | _ => none

def showOut : Out → String
  | .opened => "opened" | .refused => "refused" | .closed => "closed" | .ended => "ended"
  | .viaPccc => "df1" | .viaRouter => "cip" | .failed => "failed"

def showTable (t : Table) : String :=
  if t.isEmpty then "-" else
    ",".intercalate (t.map fun kv => s!"{kv.1.peer.host}:{kv.1.peer.port}:{kv.1.cid}:{kv.2.serial}:{match kv.2.target with | .pccc => "p" | .router => "r"}")

def handle : List String → Option String
  | ["fwd", ops] => do
    let ops ← (splitNonEmpty ops ';').mapM parseOp
    let (t, outs) := run [] ops
    pure (";".intercalate (outs.map showOut) ++ "|" ++ showTable t)
  | ["fwdwire", ops] => do
    let ops ← (splitNonEmpty ops ';').mapM parseOp
    let (t, outs) := runWire [] ops
    pure (";".intercalate (outs.map showOut) ++ "|" ++ showTable t)
  | _ => none

end Cpppo.Driver.Forwards
