import Cpppo.Model.Wire
import Cpppo.Model.Types
import Cpppo.Model.Codec.Service
import Cpppo.Model.Codec.Encap
/-!
driver for the wire codec:
  `codec.svc <hex>`   decode a CIP service request/reply; answer `<k=v;…>|<re-encoded hex>` or `reject`
  `codec.msg <hex>`   decode a whole EtherNet/IP frame (header, command, CPF, Unconnected Send)
  `codec.vals <type code> <hex>`  typed data: decode the elements, re-encode each (`reject` if undecodable)
Field names are the ones cpppo's parsers use, so that the harness can compare key by key.
-/
namespace Cpppo.Driver.Codec
open Cpppo.Wire Cpppo.Codec Cpppo

def commands : List String := ["codec.svc", "codec.msg", "codec.vals"]

abbrev Fields := List (String × String)

def natList (l : List Nat) : String := if l.isEmpty then "-" else ",".intercalate (l.map toString)

def segFields (pre : String) (segs : List Seg) : Fields :=
  (segs.zipIdx.flatMap fun (s, i) =>
    let p := s!"{pre}.segment[{i}]."
    match s with
    | .cls n => [(p ++ "class", toString n)]
    | .ins n => [(p ++ "instance", toString n)]
    | .conn n => [(p ++ "connection", toString n)]
    | .attr n => [(p ++ "attribute", toString n)]
    | .elem n => [(p ++ "element", toString n)]
    | .sym b => [(p ++ "symbolic", hexOfBytes b)]
    | .port q (.num l) => [(p ++ "port", toString q), (p ++ "link", toString l)]
    | .port q (.addr a) => [(p ++ "port", toString q), (p ++ "link", "s" ++ hexOfBytes a)])
  ++ [(pre ++ ".size", toString ((encodeSegs segs).length / 2))]

def statusFields (st : Status) : Fields :=
  [("status", toString st.code), ("status_ext.size", toString st.ext.length)]
    ++ (if st.ext.isEmpty then [] else [("status_ext.data", natList st.ext)])

def typedFields (ctx : String) (t : Typed) : Fields :=
  [(ctx ++ ".type", toString t.ty), (ctx ++ ".data", hexOfBytes t.data)]
    ++ (match t.handle with | some h => [(ctx ++ ".structure_tag", toString h)] | none => [])

def ncpFields (pre : String) (large : Bool) (n : Nat) : Fields :=
  -- the service code (0x54 / 0x5B) says which layout both directions use (repo fix dc32001)
  let p := decodeNcp large n
  [(pre ++ ".NCP", toString n), (pre ++ ".large", if large then "1" else "0"), (pre ++ ".size", toString p.size),
   (pre ++ ".variable", toString p.var), (pre ++ ".priority", toString p.prio), (pre ++ ".type", toString p.kind),
   (pre ++ ".redundant", toString p.redundant)]

def membersFields (ms : List Bytes) : Fields :=
  [("multiple.number", toString ms.length), ("multiple.offsets", natList (msOffsets ms))]
    ++ ms.zipIdx.map fun (m, i) => (s!"multiple.request[{i}].input", hexOfBytes m)

def svcFields : Svc → Fields
  | .readTagReq p n => [("service", "76"), ("read_tag.elements", toString n)] ++ segFields "path" p
  | .readFragReq p n off =>
    [("service", "82"), ("read_frag.elements", toString n), ("read_frag.offset", toString off)] ++ segFields "path" p
  | .writeTagReq p t n => [("service", "77"), ("write_tag.elements", toString n)] ++ typedFields "write_tag" t ++ segFields "path" p
  | .writeFragReq p t n off =>
    [("service", "83"), ("write_frag.elements", toString n), ("write_frag.offset", toString off)]
      ++ typedFields "write_frag" t ++ segFields "path" p
  | .readReply frag st t =>
    [("service", if frag then "210" else "204")] ++ statusFields st
      ++ (match t with | some t => typedFields (if frag then "read_frag" else "read_tag") t | none => [])
  | .writeReply frag st => [("service", if frag then "211" else "205")] ++ statusFields st
  | .gaAllReq p => [("service", "1")] ++ segFields "path" p
  | .gaSngReq p => [("service", "14")] ++ segFields "path" p
  | .gaLstReq p attrs => [("service", "3"), ("get_attribute_list", natList attrs)] ++ segFields "path" p
  | .saSngReq p data => [("service", "16"), ("set_attribute_single.data", hexOfBytes data)] ++ segFields "path" p
  | .dataReply svc st data => [("service", toString svc), ("data", hexOfBytes data)] ++ statusFields st
  | .saSngReply st => [("service", "144")] ++ statusFields st
  | .multipleReq p ms => [("service", "10")] ++ membersFields ms ++ segFields "path" p
  | .multipleReply st ms =>
    [("service", "138")] ++ statusFields st ++ (match ms with | some ms => membersFields ms | none => [])
  | .fwdOpenReq large p fo =>
    [("service", if large then "91" else "84"),
     ("forward_open.priority_time_tick", toString fo.priority), ("forward_open.timeout_ticks", toString fo.ticks),
     ("forward_open.O_T.connection_ID", toString fo.otId), ("forward_open.T_O.connection_ID", toString fo.toId),
     ("forward_open.connection_serial", toString fo.connSerial), ("forward_open.O_vendor", toString fo.vendor),
     ("forward_open.O_serial", toString fo.serial),
     ("forward_open.connection_timeout_multiplier", toString fo.multiplier),
     ("forward_open.O_T.RPI", toString fo.otRpi), ("forward_open.T_O.RPI", toString fo.toRpi),
     ("forward_open.transport_class_triggers", toString fo.trigger)]
      ++ ncpFields "forward_open.O_T" large fo.otNcp ++ ncpFields "forward_open.T_O" large fo.toNcp
      ++ segFields "forward_open.connection_path" fo.connPath ++ segFields "path" p
  | .fwdOpenOk large otId toId cs v s otApi toApi app =>
    [("service", if large then "219" else "212"), ("status", "0"), ("status_ext.size", "0"),
     ("forward_open.O_T.connection_ID", toString otId), ("forward_open.T_O.connection_ID", toString toId),
     ("forward_open.connection_serial", toString cs), ("forward_open.O_vendor", toString v),
     ("forward_open.O_serial", toString s), ("forward_open.O_T.API", toString otApi),
     ("forward_open.T_O.API", toString toApi), ("forward_open.application.size", toString (app.length / 2)),
     ("forward_open.application.data", hexOfBytes app)]
  | .fwdOpenFail large st cs v s rem =>
    [("service", if large then "219" else "212"), ("forward_open.connection_serial", toString cs),
     ("forward_open.O_vendor", toString v), ("forward_open.O_serial", toString s)] ++ statusFields st
      ++ (match rem with | some r => [("forward_open.remaining_path_size", toString r)] | none => [])
  | .fwdCloseReq p fc =>
    [("service", "78"), ("forward_close.priority_time_tick", toString fc.priority),
     ("forward_close.timeout_ticks", toString fc.ticks), ("forward_close.connection_serial", toString fc.connSerial),
     ("forward_close.O_vendor", toString fc.vendor), ("forward_close.O_serial", toString fc.serial)]
      ++ segFields "forward_close.connection_path" fc.connPath ++ segFields "path" p
  | .fwdCloseReply st cs v s app =>
    [("service", "206"), ("forward_close.connection_serial", toString cs), ("forward_close.O_vendor", toString v),
     ("forward_close.O_serial", toString s), ("forward_close.application.size", toString (app.length / 2)),
     ("forward_close.application.data", hexOfBytes app)] ++ statusFields st

def dotted (n : Nat) : String :=
  s!"{n / 2 ^ 24 % 256}.{n / 2 ^ 16 % 256}.{n / 2 ^ 8 % 256}.{n % 256}"

def signed16 (n : Nat) : String := if n < 32768 then toString n else "-" ++ toString (65536 - n)

def usendFields (pre : String) : USend → Fields
  | .send path prio ticks req route =>
    [(pre ++ ".service", "82"), (pre ++ ".priority", toString prio), (pre ++ ".timeout_ticks", toString ticks),
     (pre ++ ".length", toString req.length), (pre ++ ".request.input", hexOfBytes req)]
      ++ segFields (pre ++ ".path") path ++ segFields (pre ++ ".route_path") route
  | .error st =>
    [(pre ++ ".service", "210"), (pre ++ ".status", toString st.code), (pre ++ ".status_ext.size", "0")]
  | .other req => [(pre ++ ".request.input", hexOfBytes req)]

def itemFields (i : Nat) (it : Item) : Fields :=
  let p := s!"CPF.item[{i}]"
  [(p ++ ".type_id", toString it.typeId), (p ++ ".length", toString (encodeItemBody it.body).length)]
    ++ match it.body with
      | .empty => []
      | .usend u => usendFields (p ++ ".unconnected_send") u
      | .connId n => [(p ++ ".connection_ID.connection", toString n)]
      | .connData seq req =>
        [(p ++ ".connection_data.sequence", toString seq), (p ++ ".connection_data.request.input", hexOfBytes req)]
      | .commSvc v c name =>
        [(p ++ ".communications_service.version", toString v), (p ++ ".communications_service.capability", toString c),
         (p ++ ".communications_service.service_name", hexOfBytes name)]
      | .identity x =>
        let q := p ++ ".identity_object."
        [(q ++ "version", toString x.version), (q ++ "sin_family", signed16 x.family), (q ++ "sin_port", toString x.port),
         (q ++ "sin_addr", dotted x.addr), (q ++ "vendor_id", toString x.vendor), (q ++ "device_type", toString x.devType),
         (q ++ "product_code", toString x.product), (q ++ "product_revision", toString x.revision),
         (q ++ "status_word", toString x.statusWord), (q ++ "serial_number", toString x.serial),
         (q ++ "product_name", hexOfBytes x.name)]
          ++ (match x.state with | some s => [(q ++ "state", toString s)] | none => [])
          ++ (if x.extra.isEmpty then [] else [(q ++ "extra", hexOfBytes x.extra)])
      | .legacy1 l =>
        let q := p ++ ".legacy_CPF_0x0001."
        [(q ++ "version", toString l.version), (q ++ "unknown_1", toString l.unknown1),
         (q ++ "sin_family", signed16 l.family), (q ++ "sin_port", toString l.port), (q ++ "sin_addr", dotted l.addr),
         (q ++ "ip_address", hexOfBytes l.ip)]
      | .raw bs => [(p ++ ".input", hexOfBytes bs)]

def cpfFields : Option (List Item) → Fields
  | none => []
  | some items => [("CPF.count", toString items.length)] ++ items.zipIdx.flatMap fun (it, i) => itemFields i it

def withPrefix (pre : String) (fs : Fields) : Fields := fs.map fun (k, v) => (pre ++ k, v)

def cmdName (command : Nat) : String :=
  if command = 0x0001 then "legacy" else if command = 0x0004 then "list_services"
  else if command = 0x0063 then "list_identity" else if command = 0x0064 then "list_interfaces" else "?"

def msgFields (m : Message) : Fields :=
  [("enip.command", toString m.hdr.command), ("enip.length", toString (encodeCmd m.cmd).length),
   ("enip.session_handle", toString m.hdr.session), ("enip.status", toString m.hdr.status),
   ("enip.sender_context.input", hexOfBytes m.hdr.context), ("enip.options", toString m.hdr.options)]
    ++ match m.cmd with
      | .register v o => [("enip.CIP.register.protocol_version", toString v), ("enip.CIP.register.options", toString o)]
      | .unregister => []
      | .sendData i t cpf =>
        [("enip.CIP.send_data.interface", toString i), ("enip.CIP.send_data.timeout", toString t)]
          ++ withPrefix "enip.CIP.send_data." (cpfFields cpf)
      | .cpfService cpf => withPrefix ("enip.CIP." ++ cmdName m.hdr.command ++ ".") (cpfFields cpf)

def render (fs : Fields) : String := if fs.isEmpty then "-" else ";".intercalate (fs.map fun (k, v) => k ++ "=" ++ v)

def handle : List String → Option String
  | ["codec.svc", h] => do
    let bs ← bytesOfHex h
    match decodeSvc bs with
    | none => pure "reject"
    | some s => pure (render (svcFields s) ++ "|" ++ hexOfBytes (encodeSvc s))
  | ["codec.msg", h] => do
    let bs ← bytesOfHex h
    match decodeMessage bs with
    | some (m, rest) => pure (render (msgFields m) ++ "|" ++ hexOfBytes (encodeMessage m) ++ "|" ++ hexOfBytes rest)
    | none => pure "reject"
  | ["codec.vals", ty, h] => do
    let bs ← bytesOfHex h
    let t ← CipType.ofCode (← ty.toNat?)
    match decodeVals t bs with
    | none => pure "reject"
    | some vs =>
      -- request-type encoding of each element (BOOL canonical 0x00/0xFF)
      match vs.mapM (fun v => (Val.conv t v).bind (Val.encode t)) with
      | none => pure "reject"
      | some ebs => pure (toString vs.length ++ " " ++ hexOfBytes ebs.flatten)
  | _ => none

end Cpppo.Driver.Codec
