import Cpppo.Model.Wire
import Cpppo.Model.History
/-!
driver for the history model

`hist <fix:acd bits> <la> <hist> <fd> <files> <loads>`
  files  = `-` | file;file;…        file = `<hex suffix>=<line>,<line>…` (listing order; sorted here)
  line   = `c` | `x` | `r<ts>:<payload>`      payload = `s` | `b` | `e` | `reg/val+reg/val…`
  loads  = `<w>:<limit|->:<upcoming|->,…`     (`w` = wall-clock offset from basis in 1/fn ticks)
answer: per load `ret st until events values future`, joined by ` | `; `hang` ends the answer.

`natsort <hex>,<hex>,…` answers the names sorted by `natural` (stable).
-/
namespace Cpppo.Driver.History
open Cpppo.Wire Cpppo.History

def commands : List String := ["hist", "natsort"]

def splitOn (s : String) (sep : Char) : List String :=
  s.split (· == sep) |>.toList.map (·.toString)

def parsePayload (s : String) : Option Payload :=
  if s = "s" then some .skip
  else if s = "b" then some .bad
  else if s = "e" then some (.regs [])
  else do
    let kvs ← (splitOn s '+').mapM fun kv =>
      match splitOn kv '/' with
      | [k, v] => do pure (← k.toNat?, ← v.toInt?)
      | _ => none
    pure (.regs kvs)

def parseLine (s : String) : Option Line :=
  if s = "c" then some .comment
  else if s = "x" then some .corrupt
  else if s.startsWith "r" then
    match splitOn (s.drop 1).toString ':' with
    | [ts, p] => do pure (.recd (← ts.toNat?) (← parsePayload p))
    | _ => none
  else none

def parseFile (s : String) : Option (List Nat × File) :=
  match splitOn s '=' with
  | [ext, ls] => do
    let e ← bytesOfHex ext
    let lines ← (if ls = "" then some [] else (splitOn ls ',').mapM parseLine)
    pure (e, lines)
  | _ => none

def parseLoad (fd : Nat) (hist : Int) (s : String) : Option LoadArgs :=
  match splitOn s ':' with
  | [w, l, u] => do
    let w ← w.toInt?
    let c := advance hist fd w
    if c < 0 then none else
    pure { clock := c.toNat, limit := ← optNat l, upcoming := ← optNat u }
  | _ => none

def showOT : Option Time → String
  | none => "-"
  | some t => toString t

def showSt : St → String
  | .initial => "I" | .switching => "W" | .streaming => "S" | .exhausted => "X"
  | .awaiting => "A" | .complete => "C" | .failed => "F"

def showRegs (kv : Regs) : String := ",".intercalate (kv.map fun (k, v) => s!"{k}={v}")

def showEvents (evs : List Event) : String :=
  if evs.isEmpty then "-" else ";".intercalate (evs.map fun (t, kv) => s!"{t}:{showRegs kv}")

def showValues (hist : Int) (fd : Nat) (vs : List (Nat × Time × Int)) : String :=
  if vs.isEmpty then "-" else
    ",".intercalate (vs.map fun (r, t, v) => s!"{r}={realtime hist fd t}/{v}")

def showFuture (f : List Event) : String :=
  if f.isEmpty then "-" else ",".intercalate (f.map fun (t, _) => toString t)

def showOut (hist : Int) (fd : Nat) : LoadOut → String
  | .hang => "hang"
  | .done t s evs =>
    s!"{showOT t} {showSt s.st} {showOT s.until_} {showEvents evs} {showValues hist fd s.values} {showFuture s.future}"

def bit (c : Char) : Option Bool := if c = '1' then some true else if c = '0' then some false else none

def handle : List String → Option String
  | ["hist", fix, la, hist, fd, files, loads] => do
    let fx ← match fix.toList with
      | [a, c, d] => do pure ({ a := ← bit a, c := ← bit c, d := ← bit d } : Fix)
      | _ => none
    let la ← la.toNat?
    let hist ← hist.toInt?
    let fd ← fd.toNat?
    if fd = 0 then none else
    let dir ← (if files = "-" then some [] else (splitOn files ';').mapM parseFile)
    let ls ← (splitOn loads ',').mapM (parseLoad fd hist)
    let outs := runLoads (scanOrder dir) { la := la, fix := fx } ls {}
    pure (" | ".intercalate (outs.map (showOut hist fd)))
  | ["natsort", names] => do
    let ns ← (splitNonEmpty names ',').mapM bytesOfHex
    pure (",".intercalate ((sortByLt naturalLt ns).map hexOfBytes))
  | _ => none

end Cpppo.Driver.History
