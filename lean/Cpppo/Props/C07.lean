import Cpppo.Props.C05

/-!
# C07 — A Multiple Service Packet is equivalent to its requests issued one by one

About `Cpppo.Logix.execMultiple` / `execMembers` (model of `Message_Router.request` looping over the
bundle members and of the reply side of `Message_Router.produce`).
-/
namespace Cpppo.Logix

/-- the same requests issued individually, in order, to the Message Router -/
def runSingly (d : Dev) : List Simple → Dev × List Reply
  | [] => (d, [])
  | s :: rest =>
    let (d1, r) := execSimple d s
    let (d2, rs) := runSingly d1 rest
    (d2, r :: rs)

/-- `execMembers` at the Message Router *is* the one-by-one execution -/
theorem execMembers_eq_runSingly (d : Dev) (ss : List Simple) : execMembers d router ss = runSingly d ss := by
  induction ss generalizing d with
  | nil => rfl
  | cons s rest ih => simp only [execMembers, runSingly, execSimple, ih]

/-- **Bundling any list of requests produces exactly the individual replies, in order, and leaves the
tags in exactly the state that issuing them one by one does.**  (bundle addressed to the Message Router,
as clients do; `rs.mapM encodeReply` are the reply bytes of the individually issued requests) -/
theorem bundle_equiv (d : Dev) (p : Path) (ss : List Simple)
    (hp : resolve d.symbols .no p = some (router.1, router.2, none)) :
    execMultiple d p ss =
      ((runSingly d ss).1,
       ((runSingly d ss).2.mapM encodeReply).map fun ms =>
          { svc := svcMulti, status := 0, raw := encodeMultiple ms }) := by
  unfold execMultiple
  have hrt : routeTarget d router p = none := by
    unfold routeTarget; rw [hp]; simp
  rw [hrt, hp]
  simp only [Option.getD_none, execMembers_eq_runSingly]
  cases (runSingly d ss).2.mapM encodeReply <;> rfl

/-- one-by-one execution keeps the device well-formed and every reply producible -/
theorem execSimple_preserves_wf_tag (d : Dev) (hwf : d.WF) (s : Simple)
    (hs : match s with
      | .readTag .. | .readFrag .. | .writeTag .. | .writeFrag .. => True
      | _ => False) :
    (execSimple d s).1.WF ∧ ∃ bs, encodeReply (execSimple d s).2 = some bs := by
  unfold execSimple execSimpleAt
  cases s <;> simp only at hs ⊢
  all_goals exact ⟨execTag_preserves_wf _ hwf _ _ _ _ _ _ _ _ _, execTag_reply_producible _ hwf _ _ _ _ _ _ _ _ _⟩

def isTagService : Simple → Bool
  | .readTag .. | .readFrag .. | .writeTag .. | .writeFrag .. => true
  | _ => false

theorem runSingly_producible (d : Dev) (hwf : d.WF) (ss : List Simple) (hs : ∀ s ∈ ss, isTagService s = true) :
    (runSingly d ss).1.WF ∧ ∃ ms, (runSingly d ss).2.mapM encodeReply = some ms ∧ ms.length = ss.length := by
  induction ss generalizing d with
  | nil => exact ⟨hwf, [], rfl, rfl⟩
  | cons s rest ih =>
    have hs1 : isTagService s = true := hs s (by simp)
    have h1 := execSimple_preserves_wf_tag d hwf s (by cases s <;> simp_all [isTagService])
    obtain ⟨hwf1, b, hb⟩ := h1
    obtain ⟨hwf2, ms, hms, hlen⟩ := ih (execSimple d s).1 hwf1 (fun x hx => hs x (by simp [hx]))
    refine ⟨hwf2, b :: ms, ?_, by simp [hlen]⟩
    simp only [runSingly, List.mapM_cons, hb, hms]
    rfl

/-- **A failing request inside the bundle affects neither its neighbours nor the bundle's own framing:**
whatever the members' statuses, the bundle reply has status 0 and carries one reply per member
(Read/Write Tag [Fragmented] members on a well-formed device). -/
theorem bundle_framing (d : Dev) (hwf : d.WF) (p : Path) (ss : List Simple)
    (hp : resolve d.symbols .no p = some (router.1, router.2, none))
    (hs : ∀ s ∈ ss, isTagService s = true) :
    ∃ ms, (execMultiple d p ss).2 = some { svc := svcMulti, status := 0, raw := encodeMultiple ms }
      ∧ ms.length = ss.length := by
  obtain ⟨_, ms, hms, hlen⟩ := runSingly_producible d hwf ss hs
  exact ⟨ms, by rw [bundle_equiv d p ss hp]; simp [hms], hlen⟩

/-! ### the offset table -/

theorem offsetsOf_go_length (o : Nat) (ms : List Bytes) : (offsetsOf.go o ms).length = ms.length := by
  induction ms generalizing o with
  | nil => rfl
  | cons m rest ih => simp [offsetsOf.go, ih]

theorem offsets_go_step (o : Nat) (ms : List Bytes) (k : Nat) (h1 : k + 1 < (offsetsOf.go o ms).length)
    (h2 : k < ms.length) :
    (offsetsOf.go o ms)[k + 1] = (offsetsOf.go o ms)[k]'(by omega) + ms[k].length := by
  induction ms generalizing o k with
  | nil => simp [offsetsOf.go] at h1
  | cons m rest ih =>
    cases k with
    | zero =>
      cases rest with
      | nil => simp [offsetsOf.go] at h1
      | cons m2 rest2 => simp [offsetsOf.go]
    | succ k =>
      simp only [offsetsOf.go, List.getElem_cons_succ]
      exact ih (o + m.length) k (by simpa [offsetsOf.go] using h1) (by simpa using h2)

/-- **first offset 2+2N, each next one advanced by the previous message's length** -/
theorem offsets_exact (ms : List Bytes) :
    (offsetsOf ms).length = ms.length
    ∧ (∀ m rest, ms = m :: rest → (offsetsOf ms).head? = some (2 + 2 * ms.length))
    ∧ (∀ k (h1 : k + 1 < (offsetsOf ms).length) (h2 : k < ms.length),
        (offsetsOf ms)[k + 1] = (offsetsOf ms)[k]'(by omega) + ms[k].length) := by
  refine ⟨offsetsOf_go_length _ ms, ?_, ?_⟩
  · intro m rest h; subst h; simp [offsetsOf, offsetsOf.go]
  · intro k h1 h2
    exact offsets_go_step _ ms k h1 h2

theorem le_length (k n : Nat) : (Bytes.le k n).length = k := by
  induction k generalizing n with
  | zero => rfl
  | succ k ih => simp [Bytes.le, ih]

theorem offsetTable_length (os : List Nat) : ((os.map (Bytes.le 2)).flatten).length = 2 * os.length := by
  induction os with
  | nil => rfl
  | cons o rest ih => simp [List.flatten_cons, le_length, ih]; omega

theorem locate_go (o : Nat) (ms : List Bytes) (k : Nat) (hk : k < ms.length) (pre : Bytes) (ho : pre.length = o) :
    ∃ hk' : k < (offsetsOf.go o ms).length,
      ((pre ++ ms.flatten).drop ((offsetsOf.go o ms)[k]'hk')).take ms[k].length = ms[k] := by
  induction ms generalizing o k pre with
  | nil => simp at hk
  | cons m rest ih =>
    cases k with
    | zero =>
      refine ⟨by simp [offsetsOf.go], ?_⟩
      simp only [offsetsOf.go, List.getElem_cons_zero, List.flatten_cons]
      rw [← ho, List.drop_left, List.take_left]
    | succ k =>
      have hk2 : k < rest.length := by simpa using hk
      obtain ⟨hk', h⟩ := ih (o + m.length) k hk2 (pre ++ m) (by simp [ho])
      refine ⟨by simpa [offsetsOf.go] using hk', ?_⟩
      simp only [offsetsOf.go, List.getElem_cons_succ, List.flatten_cons]
      rw [← List.append_assoc]
      exact h

/-- **The offset table locates each embedded message exactly.** -/
theorem offsets_locate (ms : List Bytes) (k : Nat) (hk : k < ms.length) :
    ∃ hk' : k < (offsetsOf ms).length,
      ((encodeMultiple ms).drop ((offsetsOf ms)[k]'hk')).take ms[k].length = ms[k] := by
  unfold encodeMultiple offsetsOf
  apply locate_go
  simp only [List.length_append, le_length, offsetTable_length, offsetsOf_go_length]

/-! ### non-vacuity -/

/-- a bundle with a failing member in the middle: neighbours answered normally, bundle status 0 -/
example :
    let r := (execMultiple demoDev [.cls 2, .ins 1]
      [.readTag [.symbolic "a"] 1, .readTag [.symbolic "nosuch"] 1, .writeTag [.symbolic "a", .elem 2] 194 1 [9]])
    r.2.map (·.status) = some 0 ∧ (r.1.attr? 2 1 1).map (·.vals) = some [.int 1, .int 2, .int 9] := by
  decide +kernel

example : offsetsOf [[1, 2, 3], [], [4]] = [8, 11, 11] := by decide

end Cpppo.Logix
