import Cpppo.Proofs.Times
import Cpppo.Generated.Tables

/-!
# C17 — Timestamps and durations survive render/parse; ordering matches the rendering

Theorems about the model `Cpppo.Times` (the code after the two `fix:` patches, see the model file).
Instants are integer microseconds `μ` plus the sign `bias` of the binary64 representation error;
every theorem quantifies over all `μ`, all `bias`, all precisions `p ≤ 6` and all zone tables.
-/
namespace Cpppo.Times

/-- the instant that a rendering with `p` sub-second digits denotes: `ms=False` truncates to the
second, `p ≥ 1` rounds to `10^-p` s (carrying into the next second / day / year when it must) -/
def renderedInstant (p : Nat) (μ bias : Int) : Int :=
  if p = 0 then μ / 1000000 * 1000000 else roundTo p μ bias

/-- the suffix `render` appends -/
def suffixOf (zone : Option Zone) (detail : Detail) (per : Period) : List Char :=
  match detail, zone with
  | .dflt, none => []
  | .dflt, some _ => ' ' :: per.abbr
  | .full, _ => ' ' :: (zone.getD utcZone).name
  | .numeric, _ => numericOffset per.off

/-- what a successful `render` has computed -/
theorem render_eq (p : Nat) (hp : p ≤ 6) (μ bias : Int) (zone : Option Zone) (detail : Detail)
    (text : List Char) (h : render p μ bias zone detail = some text) :
    let v := renderInstant p μ bias
    let us := v / 1000000
    let per := periodAt (zone.getD utcZone) us
    let c := civilOfSecs (us + per.off)
    let frac := (v % 1000000).toNat / pow10 (6 - p)
    InRange us ∧ c.valid = true ∧ frac < pow10 p ∧
      text = formatCivil c p frac ++ suffixOf zone detail per := by
  unfold render renderWith at h
  simp only [] at h
  split at h
  · exact absurd h (by simp)
  · rename_i hr
    simp only [Bool.or_eq_true, decide_eq_true_eq, not_or, Int.not_lt, gt_iff_lt] at hr
    simp only [if_true, Option.some.injEq] at h
    refine ⟨⟨hr.1.1.1, hr.1.1.2⟩, civilOfSecs_valid _ hr.1.2 hr.2, ?_, ?_⟩
    · exact frac_lt p hp _ (by omega)
    · rw [← h]
      unfold suffixOf
      cases detail <;> cases zone <;> rfl

/-- a rendering denotes `renderedInstant`: seconds and fraction digits recombine to it -/
theorem recombine (p : Nat) (hp : p ≤ 6) (μ bias : Int) :
    renderInstant p μ bias / 1000000 * 1000000
      + microOf p ((renderInstant p μ bias % 1000000).toNat / pow10 (6 - p)) = renderedInstant p μ bias := by
  unfold renderInstant renderedInstant
  by_cases h0 : p = 0
  · simp only [h0, if_true, microOf]; omega
  · simp only [h0, if_false]
    rw [micro_of_rounded p μ bias (by omega) hp]
    omega

/-- **Render/parse round trip in UTC**, for every instant and every precision 0..6: the plain UTC
rendering parses back to the rendered instant (truncated to the second for `p = 0`, rounded to
`10^-p` s otherwise — including the carry into the next second, day, month and year). -/
theorem render_parse_utc (p : Nat) (hp : p ≤ 6) (μ bias : Int) (db : TzDb) (text : List Char)
    (h : render p μ bias none .dflt = some text) :
    parse db text = .ok (renderedInstant p μ bias) := by
  obtain ⟨hr, hv, hf, ht⟩ := render_eq p hp μ bias none .dflt text h
  simp only [Option.getD_none] at hr hv hf ht
  have hper : ∀ u, periodAt utcZone u = utcPeriod := fun _ => rfl
  rw [hper] at hv ht
  simp only [suffixOf, List.append_nil] at ht
  rw [ht, parse_format_plain db _ p _ hv hp hf]
  unfold instantOf
  rw [secsOfCivil_civilOfSecs]
  have hloc := localize_unique_case utcZone (renderInstant p μ bias / 1000000 + utcPeriod.off) utcPeriod rfl rfl
    (by show _ + (periodAt utcZone _).off = _; rw [hper]; simp [utcPeriod])
    (by simpa [utcPeriod] using hr) none
  rw [hloc]
  simp only [utcPeriod, Int.add_zero, Int.sub_zero]
  rw [if_neg (by rw [Bool.not_eq_true]; exact (inRange_iff _).2 hr)]
  rw [recombine p hp μ bias]

/-- the same with `tzdetail=True` (the rendering ends in ` UTC`), when the data base resolves `UTC`
to the UTC zone (as `pytz.timezone('UTC')` does) -/
theorem render_parse_utc_named (p : Nat) (hp : p ≤ 6) (μ bias : Int) (db : TzDb)
    (hdb : db.info utcZone.name = .ok (utcZone, none)) (text : List Char)
    (h : render p μ bias none .full = some text) :
    parse db text = .ok (renderedInstant p μ bias) := by
  obtain ⟨hr, hv, hf, ht⟩ := render_eq p hp μ bias none .full text h
  simp only [Option.getD_none] at hr hv hf ht
  have hper : ∀ u, periodAt utcZone u = utcPeriod := fun _ => rfl
  rw [hper] at hv ht
  simp only [suffixOf, Option.getD_none] at ht
  have hword : ZoneWord utcZone.name := ⟨by decide, 'U', _, rfl, by decide⟩
  rw [ht, parse_format_zone db _ p _ hv hp hf utcZone.name hword utcZone none hdb]
  unfold instantOf
  rw [secsOfCivil_civilOfSecs]
  have hloc := localize_unique_case utcZone (renderInstant p μ bias / 1000000 + utcPeriod.off) utcPeriod rfl rfl
    (by show _ + (periodAt utcZone _).off = _; rw [hper]; simp [utcPeriod])
    (by simpa [utcPeriod] using hr) none
  rw [hloc]
  simp only [utcPeriod, Int.add_zero, Int.sub_zero]
  rw [if_neg (by rw [Bool.not_eq_true]; exact (inRange_iff _).2 hr)]
  rw [recombine p hp μ bias]

/-! ### zones -/

/-- **`localize` accepts exactly the wall-clock times with one preimage** (zone given without
daylight-saving designation, well-formed table, candidate instant within years 1..9999):
it answers `nonexistent` iff no UTC second has that local time, `ambiguous` iff at least two have,
and otherwise returns the unique one. -/
theorem localize_reject_iff (z : Zone) (hwf : z.wf = true) (w : Int)
    (hr : InRange (w - (wallPeriod false z w).off)) :
    (localize z none w = .error .nonexistent ↔ ∀ u, ¬ IsPre z w u) ∧
    (localize z none w = .error .ambiguous ↔ ∃ u1 u2, u1 ≠ u2 ∧ IsPre z w u1 ∧ IsPre z w u2) ∧
    (∀ u, localize z none w = .ok u ↔ (IsPre z w u ∧ ∀ u', IsPre z w u' → u' = u)) := by
  rcases zone_situation z hwf w with ⟨P, h0, h1, hper, huniq⟩ | ⟨hoff, hnone⟩ | ⟨hoff, hper0, hper1, hall⟩
  · have hpre : IsPre z w (w - P.off) := by unfold IsPre periodAt; rw [hper]; omega
    have hloc := localize_unique_case z w P h0 h1 hpre (by rw [← h0]; exact hr) none
    rw [hloc]
    refine ⟨⟨fun h => by simp at h, fun h => absurd hpre (h _)⟩, ⟨fun h => by simp at h, ?_⟩, ?_⟩
    · rintro ⟨u1, u2, hne, h1', h2'⟩
      exact absurd ((huniq u1 h1').trans (huniq u2 h2').symm) hne
    · intro u
      constructor
      · intro h; simp only [Except.ok.injEq] at h; subst h; exact ⟨hpre, huniq⟩
      · rintro ⟨hu, _⟩; rw [huniq u hu]
  · have hloc := localize_gap_case z w (fun u hu => hnone u hu) hr
    rw [hloc]
    refine ⟨⟨fun _ u hu => hnone u hu, fun _ => rfl⟩, ⟨fun h => by simp at h, ?_⟩, ?_⟩
    · rintro ⟨u1, _, _, h1', _⟩; exact absurd h1' (hnone u1)
    · intro u
      constructor
      · intro h; simp at h
      · rintro ⟨hu, _⟩; exact absurd hu (hnone u)
  · have hoff : (wallPeriod true z w).off < (wallPeriod false z w).off := hoff
    have hper0 : periodAt z (w - (wallPeriod false z w).off) = wallPeriod false z w := hper0
    have hper1 : periodAt z (w - (wallPeriod true z w).off) = wallPeriod true z w := hper1
    have hpre0 : IsPre z w (w - (wallPeriod false z w).off) := by unfold IsPre; rw [hper0]; omega
    have hpre1 : IsPre z w (w - (wallPeriod true z w).off) := by unfold IsPre; rw [hper1]; omega
    have hloc := localize_overlap_case z w hoff hpre0 hr
    rw [hloc]
    refine ⟨⟨fun h => by simp at h, fun h => absurd hpre0 (h _)⟩, ⟨fun _ => ?_, fun _ => rfl⟩, ?_⟩
    · exact ⟨_, _, by omega, hpre0, hpre1⟩
    · intro u
      constructor
      · intro h; simp at h
      · rintro ⟨hu, hall⟩
        have e0 := hall _ hpre0
        have e1 := hall _ hpre1
        omega

/-- **Zone round trip** (rendering with the zone key, `tzdetail=True`): for every instant, every
precision and every well-formed zone table whose key the parser resolves to that table, parsing
the rendering either returns the rendered instant (and its wall-clock time has that instant as its
only preimage), or is refused as ambiguous (and the wall-clock time has two different preimages),
or — only at the edge of year 1 — is refused because the other candidate instant is outside
years 1..9999.  In particular it never returns a different instant, and is never refused as
nonexistent. -/
theorem zone_roundtrip (p : Nat) (hp : p ≤ 6) (μ bias : Int) (z : Zone) (hwf : z.wf = true)
    (hname : ZoneWord z.name) (db : TzDb) (hdb : db.info z.name = .ok (z, none)) (text : List Char)
    (h : render p μ bias (some z) .full = some text) :
    let us := renderInstant p μ bias / 1000000
    let w := us + (periodAt z us).off
    (parse db text = .ok (renderedInstant p μ bias) ∧ ∀ u, IsPre z w u → u = us) ∨
    (parse db text = .error .ambiguous ∧ ∃ u1 u2, u1 ≠ u2 ∧ IsPre z w u1 ∧ IsPre z w u2) ∨
    (parse db text = .error .value ∧ ¬ InRange (w - (wallPeriod false z w).off)) := by
  obtain ⟨hr, hv, hf, ht⟩ := render_eq p hp μ bias (some z) .full text h
  simp only [Option.getD_some] at hr hv hf ht
  simp only [suffixOf, Option.getD_some] at ht
  intro us w
  have hparse : parse db text = instantOf z none (civilOfSecs w)
      (microOf p ((renderInstant p μ bias % 1000000).toNat / pow10 (6 - p))) := by
    rw [ht]; exact parse_format_zone db _ p _ hv hp hf z.name hname z none hdb
  rw [hparse]
  unfold instantOf
  rw [secsOfCivil_civilOfSecs]
  have hus : IsPre z w us := rfl
  by_cases hrange : InRange (w - (wallPeriod false z w).off)
  · rcases zone_situation z hwf w with ⟨P, h0, h1, hper, huniq⟩ | ⟨hoff, hnone⟩ | ⟨hoff, hper0, hper1, hall⟩
    · left
      have hpre : IsPre z w (w - P.off) := by unfold IsPre periodAt; rw [hper]; omega
      have hloc := localize_unique_case z w P h0 h1 hpre (by rw [← h0]; exact hrange) none
      have hP : us = w - P.off := huniq us hus
      rw [hloc, ← hP]
      simp only []
      rw [if_neg (by rw [Bool.not_eq_true]; exact (inRange_iff _).2 hr)]
      refine ⟨by rw [recombine p hp μ bias], fun u hu => ?_⟩
      rw [huniq u hu, hP]
    · exact absurd hus (hnone us)
    · right; left
      have hoff : (wallPeriod true z w).off < (wallPeriod false z w).off := hoff
      have hper0 : periodAt z (w - (wallPeriod false z w).off) = wallPeriod false z w := hper0
      have hper1 : periodAt z (w - (wallPeriod true z w).off) = wallPeriod true z w := hper1
      have hpre0 : IsPre z w (w - (wallPeriod false z w).off) := by unfold IsPre; rw [hper0]; omega
      have hpre1 : IsPre z w (w - (wallPeriod true z w).off) := by unfold IsPre; rw [hper1]; omega
      rw [localize_overlap_case z w hoff hpre0 hrange]
      exact ⟨rfl, _, _, by omega, hpre0, hpre1⟩
  · right; right
    rw [localize_out_of_range z none w hrange]
    exact ⟨rfl, hrange⟩

/-- the zone-key rendering **never parses to a different instant** -/
theorem zone_never_different (p : Nat) (hp : p ≤ 6) (μ bias : Int) (z : Zone) (hwf : z.wf = true)
    (hname : ZoneWord z.name) (db : TzDb) (hdb : db.info z.name = .ok (z, none)) (text : List Char)
    (h : render p μ bias (some z) .full = some text) (v : Int) (hparse : parse db text = .ok v) :
    v = renderedInstant p μ bias := by
  rcases zone_roundtrip p hp μ bias z hwf hname db hdb text h with ⟨h1, _⟩ | ⟨h1, _⟩ | ⟨h1, _⟩
  · rw [h1] at hparse; exact (Except.ok.inj hparse).symm
  · rw [h1] at hparse; exact absurd hparse (by simp)
  · rw [h1] at hparse; exact absurd hparse (by simp)

/-- **Round trip with a daylight-saving designation** (default rendering: the zone's abbreviation,
which `timestamp._tzabbrev` maps back to the zone and the daylight-saving flag of the period): the
rendering parses back to the rendered instant *also inside the repeated hour*, provided the two
periods that overlap there differ in their daylight-saving flag (a true DST change). -/
theorem designated_roundtrip (p : Nat) (hp : p ≤ 6) (μ bias : Int) (z : Zone) (hwf : z.wf = true)
    (db : TzDb) (text : List Char) (h : render p μ bias (some z) .dflt = some text) :
    let us := renderInstant p μ bias / 1000000
    let per := periodAt z us
    let w := us + per.off
    ZoneWord per.abbr → db.info per.abbr = .ok (z, some per.dst) →
    ((wallPeriod false z w).off ≠ (wallPeriod true z w).off →
      (wallPeriod false z w).dst ≠ (wallPeriod true z w).dst) →
    InRange (w - (wallPeriod false z w).off) →
    parse db text = .ok (renderedInstant p μ bias) := by
  obtain ⟨hr, hv, hf, ht⟩ := render_eq p hp μ bias (some z) .dflt text h
  simp only [Option.getD_some] at hr hv hf ht
  simp only [suffixOf] at ht
  intro us per w hword hdb hdst hrange
  have hparse : parse db text = instantOf z (some per.dst) (civilOfSecs w)
      (microOf p ((renderInstant p μ bias % 1000000).toNat / pow10 (6 - p))) := by
    rw [ht]; exact parse_format_zone db _ p _ hv hp hf per.abbr hword z (some per.dst) hdb
  rw [hparse]
  unfold instantOf
  rw [secsOfCivil_civilOfSecs]
  have hus : IsPre z w us := rfl
  have hfin : ∀ u, u = us → (match (Except.ok u : Except Reject Int) with
      | .error e => (Except.error e : Except Reject Int)
      | .ok u => if (civilOfSecs u).y < 1 || (civilOfSecs u).y > 9999 then .error .overflow
                 else .ok (u * 1000000 + microOf p ((renderInstant p μ bias % 1000000).toNat / pow10 (6 - p))))
      = .ok (renderedInstant p μ bias) := by
    intro u hu
    subst hu
    simp only []
    rw [if_neg (by rw [Bool.not_eq_true]; exact (inRange_iff _).2 hr), recombine p hp μ bias]
  rcases zone_situation z hwf w with ⟨P, h0, h1, hper, huniq⟩ | ⟨hoff, hnone⟩ | ⟨hoff, hper0, hper1, hall⟩
  · have hpre : IsPre z w (w - P.off) := by unfold IsPre periodAt; rw [hper]; omega
    rw [localize_unique_case z w P h0 h1 hpre (by rw [← h0]; exact hrange) (some per.dst)]
    exact hfin _ (huniq us hus).symm
  · exact absurd hus (hnone us)
  · have hoff : (wallPeriod true z w).off < (wallPeriod false z w).off := hoff
    have hper0 : periodAt z (w - (wallPeriod false z w).off) = wallPeriod false z w := hper0
    have hper1 : periodAt z (w - (wallPeriod true z w).off) = wallPeriod true z w := hper1
    have hpre0 : IsPre z w (w - (wallPeriod false z w).off) := by unfold IsPre; rw [hper0]; omega
    rw [localize_overlap_flag z w per.dst hoff hpre0 hrange]
    have hne := hdst (by omega)
    apply hfin
    rcases hall us hus with hu | hu
    · have hu : us = w - (wallPeriod false z w).off := hu
      have hp0 : per = wallPeriod false z w := by show periodAt z us = _; rw [hu]; exact hper0
      rw [hp0]
      simp [hne]
      exact hu.symm
    · have hu : us = w - (wallPeriod true z w).off := hu
      have hp1 : per = wallPeriod true z w := by show periodAt z us = _; rw [hu]; exact hper1
      rw [hp1]
      simp [hne]
      exact hu.symm

/-! ### comparison -/

/-- the comparison tolerance is one unit of the default rendering precision
(`_epsilon = 10**-_precision`); discharged for the extracted constants at the end of the file -/
def CmpCfg.WF (cfg : CmpCfg) : Prop := 1 ≤ cfg.prec ∧ cfg.prec ≤ 6 ∧ cfg.eps = (pow10 (6 - cfg.prec) : Nat)

instance (cfg : CmpCfg) : Decidable cfg.WF := by unfold CmpCfg.WF; infer_instance

/-- **`<` never contradicts the order of the default (millisecond) renderings**: if `a < b` as
timestamps then the instant rendered for `a` is strictly before the one rendered for `b`
(whatever the float representation errors), and likewise for `>`. -/
theorem cmp_consistent (cfg : CmpCfg) (h : cfg.WF) (a b ba bb : Int) :
    (tsLt cfg a b = true → roundTo cfg.prec a ba < roundTo cfg.prec b bb) ∧
    (tsGt cfg a b = true → roundTo cfg.prec a ba > roundTo cfg.prec b bb) := by
  obtain ⟨h1, h6, he⟩ := h
  obtain ⟨_, _, a1, a2⟩ := roundTo_spec cfg.prec a ba h6
  obtain ⟨_, _, b1, b2⟩ := roundTo_spec cfg.prec b bb h6
  simp only [tsLt, tsGt, decide_eq_true_eq]
  constructor <;> intro hlt <;> omega

/-- the six operators are consistent with each other (`<=` is not `>`, `==` is neither `<` nor `>`) -/
theorem cmp_operators (cfg : CmpCfg) (a b : Int) :
    tsLe cfg a b = !tsGt cfg a b ∧ tsGe cfg a b = !tsLt cfg a b ∧
    tsEq cfg a b = (!tsLt cfg a b && !tsGt cfg a b) ∧ tsNe cfg a b = !tsEq cfg a b ∧
    (0 ≤ cfg.eps → ¬ (tsLt cfg a b = true ∧ tsGt cfg a b = true)) := by
  refine ⟨rfl, rfl, by simp [tsEq, tsNe], by simp [tsEq], ?_⟩
  intro he
  simp only [tsLt, tsGt, decide_eq_true_eq]
  omega

/-- **Equal renderings compare equal**: two instants whose default-precision UTC renderings are
the same text are `==`, `<=`, `>=` and neither `<` nor `>` nor `!=`. -/
theorem equal_renderings_compare_equal (cfg : CmpCfg) (h : cfg.WF) (a b ba bb : Int)
    (text : List Char) (ha : render cfg.prec a ba none .dflt = some text)
    (hb : render cfg.prec b bb none .dflt = some text) :
    tsEq cfg a b = true ∧ tsLt cfg a b = false ∧ tsGt cfg a b = false ∧ tsNe cfg a b = false ∧
    tsLe cfg a b = true ∧ tsGe cfg a b = true := by
  obtain ⟨h1, h6, he⟩ := h
  have pa := render_parse_utc cfg.prec h6 a ba ⟨[], []⟩ text ha
  have pb := render_parse_utc cfg.prec h6 b bb ⟨[], []⟩ text hb
  rw [pa] at pb
  have heq : roundTo cfg.prec a ba = roundTo cfg.prec b bb := by
    have := Except.ok.inj pb
    simpa [renderedInstant, show cfg.prec ≠ 0 by omega] using this
  obtain ⟨_, _, a1, a2⟩ := roundTo_spec cfg.prec a ba h6
  obtain ⟨_, _, b1, b2⟩ := roundTo_spec cfg.prec b bb h6
  have hlt : tsLt cfg a b = false := by simp only [tsLt, decide_eq_false_iff_not]; omega
  have hgt : tsGt cfg a b = false := by simp only [tsGt, decide_eq_false_iff_not]; omega
  simp [tsEq, tsNe, tsLe, tsGe, hlt, hgt]

/-- consequently `<` implies *different* renderings -/
theorem lt_renderings_differ (cfg : CmpCfg) (h : cfg.WF) (a b ba bb : Int) (ta tb : List Char)
    (ha : render cfg.prec a ba none .dflt = some ta) (hb : render cfg.prec b bb none .dflt = some tb)
    (hlt : tsLt cfg a b = true) : ta ≠ tb := by
  intro heq
  subst heq
  have := (equal_renderings_compare_equal cfg h a b ba bb ta ha hb).2.1
  rw [hlt] at this
  exact absurd this (by simp)

/-- **The text order of two UTC renderings is the order of the rendered instants** (years
1000..9999, where `%Y` has four digits; `<` on `List Char` is the lexicographic code-point order
that Python uses for `str`). -/
theorem render_order (p : Nat) (hp1 : 1 ≤ p) (hp : p ≤ 6) (a b ba bb : Int) (ta tb : List Char)
    (ha : render p a ba none .dflt = some ta) (hb : render p b bb none .dflt = some tb)
    (hya : 1000 ≤ (civilOfSecs (roundTo p a ba / 1000000)).y)
    (hyb : 1000 ≤ (civilOfSecs (roundTo p b bb / 1000000)).y)
    (hlt : roundTo p a ba < roundTo p b bb) : ta < tb := by
  obtain ⟨_, hva, _, hta⟩ := render_eq p hp a ba none .dflt ta ha
  obtain ⟨_, hvb, hfb, htb⟩ := render_eq p hp b bb none .dflt tb hb
  have hper : ∀ u, periodAt utcZone u = utcPeriod := fun _ => rfl
  have hri : ∀ x bx, renderInstant p x bx = roundTo p x bx := by
    intro x bx; unfold renderInstant; rw [if_neg (by omega)]
  simp only [Option.getD_none, hper, suffixOf, List.append_nil, utcPeriod, Int.add_zero, hri] at hva hta hvb hfb htb
  rw [hta, htb]
  apply formatCivil_lt _ _ p _ _ hp1 hva hvb hya hyb hfb
  apply civilOfSecs_key
  by_cases hs : roundTo p a ba / 1000000 = roundTo p b bb / 1000000
  · right; exact ⟨hs, frac_lt_of p hp1 hp a b ba bb hlt hs⟩
  · left; omega

/-- **`<` on timestamps implies `<` on their default renderings as strings** (and `>` implies
`>`), for instants rendered with four-digit years: comparison never contradicts the order of the
millisecond UTC renderings. -/
theorem lt_string_order (cfg : CmpCfg) (h : cfg.WF) (a b ba bb : Int) (ta tb : List Char)
    (ha : render cfg.prec a ba none .dflt = some ta) (hb : render cfg.prec b bb none .dflt = some tb)
    (hya : 1000 ≤ (civilOfSecs (roundTo cfg.prec a ba / 1000000)).y)
    (hyb : 1000 ≤ (civilOfSecs (roundTo cfg.prec b bb / 1000000)).y) :
    (tsLt cfg a b = true → ta < tb) ∧ (tsGt cfg a b = true → tb < ta) := by
  have hc := cmp_consistent cfg h a b ba bb
  exact ⟨fun hlt => render_order cfg.prec h.1 h.2.1 a b ba bb ta tb ha hb hya hyb (hc.1 hlt),
    fun hgt => render_order cfg.prec h.1 h.2.1 b a bb ba tb ta hb ha hyb hya (hc.2 hgt)⟩

/-! ### one timestamp object through its mutating API (`+=`, `-=`, `+`, `-`, the `.utc`/`.local` setters) -/

/-- the invariant of the lazily cached rendering `_str`: when present it is the rendering of the
value the object holds *now* -/
def TsObj.CacheOk (prec : Nat) (o : TsObj) : Prop :=
  ∀ t, o.cache = some t → render prec o.μ o.bias none .dflt = some t

theorem fresh_cacheOk (prec : Nat) (μ bias : Int) : ({ μ := μ, bias := bias } : TsObj).CacheOk prec := by
  intro t h; simp at h

/-- with the invariant, `str(ts)` is the rendering of the current value, and keeps the invariant -/
theorem str_is_render (prec : Nat) (o : TsObj) (h : o.CacheOk prec) :
    (o.str prec).1 = render prec o.μ o.bias none .dflt ∧ (o.str prec).2.CacheOk prec ∧
    (o.str prec).2.μ = o.μ ∧ (o.str prec).2.bias = o.bias := by
  unfold TsObj.str
  cases hc : o.cache with
  | some t => exact ⟨(h t hc).symm, h, rfl, rfl⟩
  | none =>
    cases hr : render prec o.μ o.bias none .dflt with
    | none => exact ⟨rfl, h, rfl, rfl⟩
    | some t =>
      refine ⟨rfl, ?_, rfl, rfl⟩
      intro t' ht'
      simp only [Option.some.injEq] at ht'
      rw [← ht']; exact hr

/-- **every operation of the mutating API keeps the cached rendering in step with the value** -/
theorem step_cacheOk (prec : Nat) (db : TzDb) (o : TsObj) (op : ObjOp) (h : o.CacheOk prec) :
    (o.step prec db op).CacheOk prec := by
  cases op with
  | str => exact (str_is_render prec o h).2.1
  | render p => exact h
  | localGet => exact h
  | inplace nz μ b =>
    simp only [TsObj.step, TsObj.inplace]
    split
    · exact fresh_cacheOk prec μ b
    · exact h
  | arith nz μ b =>
    simp only [TsObj.step, TsObj.arith]
    split
    · exact fresh_cacheOk prec μ b
    · exact h
  | copy => exact h
  | assign t =>
    simp only [TsObj.step, TsObj.assign]
    cases parse db t with
    | ok v => exact fresh_cacheOk prec v 0
    | error e => exact h
  | cmp μ b => exact (str_is_render prec o h).2.1

/-- ... hence after **any sequence** of operations on a freshly made timestamp -/
theorem steps_cacheOk (prec : Nat) (db : TzDb) (ops : List ObjOp) (o : TsObj) (h : o.CacheOk prec) :
    (ops.foldl (TsObj.step prec db) o).CacheOk prec := by
  induction ops generalizing o with
  | nil => exact h
  | cons op ops ih => exact ih _ (step_cacheOk prec db o op h)

/-- **Object-level round trip**: whatever was done to a timestamp object before, the text `str(ts)`
gives parses back to the instant the object holds now (rounded to the default precision). -/
theorem obj_str_roundtrip (prec : Nat) (hp : prec ≤ 6) (db db' : TzDb) (μ bias : Int) (ops : List ObjOp)
    (t : List Char) :
    let o := ops.foldl (TsObj.step prec db) { μ := μ, bias := bias }
    (o.str prec).1 = some t → parse db' t = .ok (renderedInstant prec o.μ o.bias) := by
  intro o ht
  have hok := steps_cacheOk prec db ops _ (fresh_cacheOk prec μ bias)
  rw [(str_is_render prec o hok).1] at ht
  exact render_parse_utc prec hp o.μ o.bias db' t ht

/-- **Object-level comparison**: two timestamp objects, each after any sequence of operations,
whose `str()` are equal compare `==`; if one compares `<` the other its `str()` is the smaller
string (four-digit years). -/
theorem obj_compare_consistent (cfg : CmpCfg) (h : cfg.WF) (db : TzDb) (μa ba μb bb : Int)
    (opsA opsB : List ObjOp) (ta tb : List Char) :
    let a := opsA.foldl (TsObj.step cfg.prec db) { μ := μa, bias := ba }
    let b := opsB.foldl (TsObj.step cfg.prec db) { μ := μb, bias := bb }
    (a.str cfg.prec).1 = some ta → (b.str cfg.prec).1 = some tb →
    (ta = tb → tsEq cfg a.μ b.μ = true ∧ tsLt cfg a.μ b.μ = false ∧ tsGt cfg a.μ b.μ = false) ∧
    (1000 ≤ (civilOfSecs (roundTo cfg.prec a.μ a.bias / 1000000)).y →
     1000 ≤ (civilOfSecs (roundTo cfg.prec b.μ b.bias / 1000000)).y →
     (tsLt cfg a.μ b.μ = true → ta < tb) ∧ (tsGt cfg a.μ b.μ = true → tb < ta)) := by
  intro a b hta htb
  have hoa := steps_cacheOk cfg.prec db opsA _ (fresh_cacheOk cfg.prec μa ba)
  have hob := steps_cacheOk cfg.prec db opsB _ (fresh_cacheOk cfg.prec μb bb)
  rw [(str_is_render cfg.prec a hoa).1] at hta
  rw [(str_is_render cfg.prec b hob).1] at htb
  refine ⟨fun heq => ?_, fun hya hyb => lt_string_order cfg h a.μ b.μ a.bias b.bias ta tb hta htb hya hyb⟩
  subst heq
  have := equal_renderings_compare_equal cfg h a.μ b.μ a.bias b.bias ta hta htb
  exact ⟨this.1, this.2.1, this.2.2.1⟩

/-- non-vacuity: render, advance in place by 61 s, render again -/
example : (([ObjOp.str, .inplace true 1399326202000000 0].foldl (TsObj.step 3 ⟨[], []⟩)
      ({ μ := 1399326141000000, bias := 0 } : TsObj)).str 3).1
    = some "2014-05-05 21:43:22.000".toList := by decide +kernel

/-- a sample of why the invalidation matters (a *seeded change*, not the code): an in-place add
that keeps the cache breaks the invariant on the first sequence render / `+=` / render -/
example : let keep (o : TsObj) (μ' : Int) : TsObj := { o with μ := μ' }
    let o := keep (({ μ := 1399326141000000, bias := 0 } : TsObj).str 3).2 1399326141001000;
    (o.str 3).1 = some "2014-05-05 21:42:21.000".toList ∧
    render 3 o.μ o.bias none .dflt = some "2014-05-05 21:42:21.001".toList := by
  constructor <;> decide +kernel

/-! ### durations -/

/-- **A duration formatted to text parses back to exactly the same duration**, for every
non-negative count of microseconds that a `timedelta` can hold (every combination of
y/w/d/h/m/s and of the fractional, `ms` and `us` sub-second forms), for any unit lengths and any
unit-word table in which the eight words that `_format` writes close the right groups. -/
theorem duration_roundtrip (cfg : DurCfg) (tbl : UnitTable) (hU : UnitsOk tbl) (d : Nat)
    (hrange : d / 86400000000 ≤ 999999999) :
    durParse cfg tbl (durFormat cfg (d : Int)) = .ok (d : Int) := by
  obtain ⟨r, hr, hsum⟩ := durItems_format cfg tbl hU d
  unfold durParse
  rw [hr]
  simp only []
  rw [hsum, if_neg (by omega)]

/-- a negative duration formats with a leading `-` (Python's floor division makes the years
negative) which the expression does not accept: it is refused, not misread -/
theorem negative_duration_rejected (cfg : DurCfg) (tbl : UnitTable) (hyr : 0 < cfg.yr) (d : Int)
    (hd : d < 0) : durParse cfg tbl (durFormat cfg d) = .error .syntax := by
  have hs : d / 1000000 < 0 := by omega
  have hy : d / 1000000 / (cfg.yr : Int) < 0 :=
    Int.ediv_neg_of_neg_of_pos hs (by omega)
  have hform : ∃ rest, durFormat cfg d = '-' :: rest := by
    unfold durFormat
    simp only [unitText, intDigits]
    rw [if_neg (by omega), if_pos hy]
    exact ⟨_, by simp only [List.cons_append, List.append_assoc]; rfl⟩
  obtain ⟨rest, hrest⟩ := hform
  unfold durParse
  rw [hrest]
  simp [durItems, dropWs, isWs, spanDigits, isDigit, digitVal, isDecPoint]

/-! ### the calendar (used by all of the above; stated here as a property of its own) -/

/-- **Days ↔ civil date round trip for every day number**, with the civil fields in range
(month 1..12, day 1..length of that month in that year, leap years included). -/
theorem days_civil_roundtrip (n : Int) :
    daysFromCivil (civilFromDays n).1 (civilFromDays n).2.1 (civilFromDays n).2.2 = n ∧
    1 ≤ (civilFromDays n).2.1 ∧ (civilFromDays n).2.1 ≤ 12 ∧ 1 ≤ (civilFromDays n).2.2 ∧
    (civilFromDays n).2.2 ≤ daysInMonth (civilFromDays n).1 (civilFromDays n).2.1 :=
  ⟨daysFromCivil_civilFromDays n, civilFromDays_valid n⟩

/-- the rendered instant is within half a unit of the last digit of the instant, and to the
millisecond (±0.5 ms) for `p ≥ 3`; for `p = 0` it is the instant truncated to the second -/
theorem renderedInstant_close (p : Nat) (hp : p ≤ 6) (μ bias : Int) :
    (p = 0 → renderedInstant p μ bias ≤ μ ∧ μ < renderedInstant p μ bias + 1000000) ∧
    (1 ≤ p → 2 * (renderedInstant p μ bias - μ) ≤ (pow10 (6 - p) : Nat) ∧
             2 * (μ - renderedInstant p μ bias) ≤ (pow10 (6 - p) : Nat)) ∧
    (3 ≤ p → 2 * (renderedInstant p μ bias - μ) ≤ 1000 ∧ 2 * (μ - renderedInstant p μ bias) ≤ 1000) := by
  unfold renderedInstant
  obtain ⟨_, _, h1, h2⟩ := roundTo_spec p μ bias hp
  refine ⟨fun h0 => by simp only [h0, if_true]; omega, fun h1p => ?_, fun h3 => ?_⟩
  · rw [if_neg (by omega)]; exact ⟨h1, h2⟩
  · rw [if_neg (by omega)]
    have : ((pow10 (6 - p) : Nat) : Int) ≤ 1000 := by
      have : p = 3 ∨ p = 4 ∨ p = 5 ∨ p = 6 := by omega
      rcases this with rfl | rfl | rfl | rfl <;> decide
    omega

/-! ### non-vacuity, witnesses, and the tie to the extracted constants -/

def edmonton : Zone :=
  { name := "America/Edmonton".toList, first := ⟨-25200, false, "MST".toList⟩,
    trans := [(1394355600, ⟨-21600, true, "MDT".toList⟩), (1414915200, ⟨-25200, false, "MST".toList⟩)] }

def edmontonDb : TzDb := { zones := [edmonton], abbrevs := [] }

example : edmonton.wf = true := by decide
example : ZoneWord edmonton.name := ⟨by decide, 'A', _, rfl, by decide⟩
example : edmontonDb.info edmonton.name = .ok (edmonton, none) := by decide

/-- carry into the next second / minute / hour / day / month / year (the instant of `history_test`,
and 1999-12-31 23:59:59.9996) -/
example : render 3 1399326141999836 0 none .dflt = some "2014-05-05 21:42:22.000".toList := by decide +kernel
example : render 3 946684799999600 0 none .dflt = some "2000-01-01 00:00:00.000".toList := by decide +kernel
example : parse ⟨[], []⟩ "2000-01-01 00:00:00.000".toList = .ok 946684800000000 := by decide +kernel

/-- an instant in the repeated hour of 2014-11-02 is refused as ambiguous, the hour before parses -/
example : render 3 1414915200500000 0 (some edmonton) .full
    = some "2014-11-02 01:00:00.500 America/Edmonton".toList := by decide +kernel
example : parse edmontonDb "2014-11-02 01:00:00.500 America/Edmonton".toList = .error .ambiguous := by
  decide +kernel
example : parse edmontonDb "2014-11-02 00:59:59.999 America/Edmonton".toList = .ok 1414911599999000 := by
  decide +kernel
/-- a wall-clock time in the skipped hour of 2014-03-09 is refused as nonexistent -/
example : parse edmontonDb "2014-03-09 02:30:00 America/Edmonton".toList = .error .nonexistent := by
  decide +kernel

/-- the daylight-saving designated form: both instants 01:59:59.5 of the repeated hour parse back
to themselves (`MDT` ↦ is_dst, `MST` ↦ not), as `designated_roundtrip` states -/
def edmontonAbbrevDb : TzDb :=
  { zones := [edmonton], abbrevs := [("MDT".toList, edmonton.name, some true), ("MST".toList, edmonton.name, some false)] }

example : render 3 1414915199500000 0 (some edmonton) .dflt = some "2014-11-02 01:59:59.500 MDT".toList := by
  decide +kernel
example : parse edmontonAbbrevDb "2014-11-02 01:59:59.500 MDT".toList = .ok 1414915199500000 := by decide +kernel
example : parse edmontonAbbrevDb "2014-11-02 01:59:59.500 MST".toList = .ok 1414918799500000 := by decide +kernel
example : ZoneWord "MDT".toList := ⟨by decide, 'M', _, rfl, by decide⟩
example : edmontonAbbrevDb.info "MDT".toList = .ok (edmonton, some true) := by decide

/-- comparison: 1.001 ms apart is `<`, exactly 1 ms apart is `==`; the renderings agree -/
example : tsLt {} 1399326141000000 1399326141001001 = true ∧ tsLt {} 1399326141000000 1399326141001000 = false ∧
    tsEq {} 1399326141000000 1399326141001000 = true := by decide
example : ({} : CmpCfg).WF := by decide
example : render 3 1399326141000400 0 none .dflt = some "2014-05-05 21:42:21.000".toList ∧
    render 3 1399326141000499 1 none .dflt = some "2014-05-05 21:42:21.000".toList := by
  constructor <;> decide +kernel
example : "2014-05-05 21:42:21.000".toList < "2014-05-05 21:42:21.001".toList := by decide
/-- a tie at the third digit goes where the float's representation error points, and to the even
millisecond when the float is exact -/
example : roundTo 3 62500 0 = 62000 ∧ roundTo 3 62500 1 = 63000 ∧ roundTo 3 187500 0 = 188000 ∧
    roundTo 3 (-62500) 0 = -62000 ∧ roundTo 3 (-500) (-1) = -1000 := by decide

/-- **Witness 1 (code before the fix).**  For instants before 1970 with a sub-second part the
fraction digits were taken from the text of the negative float: -0.25 s was rendered as
`23:59:59.250`, which parses to -0.75 s — a different instant.  (`renderOld` is that code.) -/
theorem renderOld_wrong_instant :
    renderOld 3 (-250000) 0 none .dflt = some "1969-12-31 23:59:59.250".toList ∧
    parse ⟨[], []⟩ "1969-12-31 23:59:59.250".toList = .ok (-750000) ∧
    render 3 (-250000) 0 none .dflt = some "1969-12-31 23:59:59.750".toList := by
  refine ⟨by decide +kernel, by decide +kernel, by decide +kernel⟩

def portAuPrince : Zone :=
  { name := "America/Port-au-Prince".toList, first := ⟨-18000, false, "EST".toList⟩, trans := [] }

/-- **Witness 2 (code before the fix).**  A rendering with the key of a zone whose name contains
`-` was refused (`'America/Port-au-Prince'` was cut down to the zone `'Prince'`), for every
instant; the repaired parser takes the whole last word. -/
theorem parseOld_rejects_hyphenated_zone :
    render 0 946080000000000 0 (some portAuPrince) .full
      = some "1999-12-24 19:00:00 America/Port-au-Prince".toList ∧
    parseOld ⟨[portAuPrince], []⟩ "1999-12-24 19:00:00 America/Port-au-Prince".toList = .error .zone ∧
    parse ⟨[portAuPrince], []⟩ "1999-12-24 19:00:00 America/Port-au-Prince".toList = .ok 946080000000000 := by
  refine ⟨by decide +kernel, by decide +kernel, by decide +kernel⟩

/-- durations: the three sub-second forms and a full decomposition -/
example : durFormat {} 90061000001 = "1d1h1m1s1us".toList := by decide +kernel
example : durFormat {} 60250000 = "1m250ms".toList := by decide +kernel
example : durFormat {} 10500000 = "10.5s".toList := by decide +kernel
example : durParse {} Generated.durUnits "10.5s".toList = .ok 10500000 := by decide +kernel

/-- the extracted constants satisfy the hypotheses of the theorems -/
theorem generated_cmp_wf :
    ({ eps := Generated.tsEpsilonUs, prec := Generated.tsPrecision } : CmpCfg).WF := by decide

theorem generated_units_ok : UnitsOk Generated.durUnits :=
  ⟨by decide, by decide, by decide, by decide, by decide, by decide, by decide, by decide⟩

/-- the separators blanked by the parser and the date format are the ones the model assumes -/
theorem generated_format :
    (∀ c, c ∈ Generated.tsSeps ↔ isSep c = true) ∧ Generated.tsFmt = "%Y-%m-%d %H:%M:%S" := by
  refine ⟨fun c => ?_, by decide⟩
  simp only [Generated.tsSeps, isSep, List.mem_cons, List.not_mem_nil, or_false, Bool.or_eq_true, beq_iff_eq]
  constructor
  · rintro (h | h | h) <;> subst h <;> decide
  · rintro ((h | h) | h) <;> subst h <;> decide

end Cpppo.Times
