import Cpppo.Proofs.Times
import Cpppo.Generated.Tables

/-!
# C17 — Timestamps and durations survive render/parse; ordering matches the rendering

Theorems about the model `Cpppo.Times` (the code after the two `fix:` patches, see the model file).
Instants are integer microseconds `μ` plus the sign `bias` of the binary64 representation error;
every theorem quantifies over all `μ`, all `bias`, all precisions `p ≤ 6` and all zone tables.
-/
namespace Cpppo.Times

/-- the instant that a rendering with `p` sub-second digits denotes: `ms=False` truncates to the
second, `p ≥ 1` rounds to `10^-p` s (carrying into the next second / day / year when it must) -/
def renderedInstant (p : Nat) (μ bias : Int) : Int :=
  if p = 0 then μ / 1000000 * 1000000 else roundTo p μ bias

/-- the suffix `render` appends -/
def suffixOf (zone : Option Zone) (detail : Detail) (per : Period) : List Char :=
  match detail, zone with
  | .dflt, none => []
  | .dflt, some _ => ' ' :: per.abbr
  | .full, _ => ' ' :: (zone.getD utcZone).name
  | .numeric, _ => numericOffset per.off

/-- what a successful `render` has computed -/
theorem render_eq (p : Nat) (hp : p ≤ 6) (μ bias : Int) (zone : Option Zone) (detail : Detail)
    (text : List Char) (h : render p μ bias zone detail = some text) :
    let v := renderInstant p μ bias
    let us := v / 1000000
    let per := periodAt (zone.getD utcZone) us
    let c := civilOfSecs (us + per.off)
    let frac := (v % 1000000).toNat / pow10 (6 - p)
    InRange us ∧ c.valid = true ∧ frac < pow10 p ∧
      text = formatCivil c p frac ++ suffixOf zone detail per := by
  unfold render renderWith at h
  simp only [] at h
  split at h
  · exact absurd h (by simp)
  · rename_i hr
    simp only [Bool.or_eq_true, decide_eq_true_eq, not_or, Int.not_lt, gt_iff_lt] at hr
    simp only [if_true, Option.some.injEq] at h
    refine ⟨⟨hr.1.1.1, hr.1.1.2⟩, civilOfSecs_valid _ hr.1.2 hr.2, ?_, ?_⟩
    · exact frac_lt p hp _ (by omega)
    · rw [← h]
      unfold suffixOf
      cases detail <;> cases zone <;> rfl

/-- a rendering denotes `renderedInstant`: seconds and fraction digits recombine to it -/
theorem recombine (p : Nat) (hp : p ≤ 6) (μ bias : Int) :
    renderInstant p μ bias / 1000000 * 1000000
      + microOf p ((renderInstant p μ bias % 1000000).toNat / pow10 (6 - p)) = renderedInstant p μ bias := by
  unfold renderInstant renderedInstant
  by_cases h0 : p = 0
  · simp only [h0, if_true, microOf]; omega
  · simp only [h0, if_false]
    rw [micro_of_rounded p μ bias (by omega) hp]
    omega

/-- **Render/parse round trip in UTC**, for every instant and every precision 0..6: the plain UTC
rendering parses back to the rendered instant (truncated to the second for `p = 0`, rounded to
`10^-p` s otherwise — including the carry into the next second, day, month and year). -/
theorem render_parse_utc (p : Nat) (hp : p ≤ 6) (μ bias : Int) (db : TzDb) (text : List Char)
    (h : render p μ bias none .dflt = some text) :
    parse db text = .ok (renderedInstant p μ bias) := by
  obtain ⟨hr, hv, hf, ht⟩ := render_eq p hp μ bias none .dflt text h
  simp only [Option.getD_none] at hr hv hf ht
  have hper : ∀ u, periodAt utcZone u = utcPeriod := fun _ => rfl
  rw [hper] at hv ht
  simp only [suffixOf, List.append_nil] at ht
  rw [ht, parse_format_plain db _ p _ hv hp hf]
  unfold instantOf
  rw [secsOfCivil_civilOfSecs]
  have hloc := localize_unique_case utcZone (renderInstant p μ bias / 1000000 + utcPeriod.off) utcPeriod rfl rfl
    (by show _ + (periodAt utcZone _).off = _; rw [hper]; simp [utcPeriod])
    (by simpa [utcPeriod] using hr) none
  rw [hloc]
  simp only [utcPeriod, Int.add_zero, Int.sub_zero]
  rw [if_neg (by rw [Bool.not_eq_true]; exact (inRange_iff _).2 hr)]
  rw [recombine p hp μ bias]

/-! ### zones -/

/-- **`localize` accepts exactly the wall-clock times with one preimage** (zone given without
daylight-saving designation, well-formed table, candidate instant within years 1..9999):
it answers `nonexistent` iff no UTC second has that local time, `ambiguous` iff at least two have,
and otherwise returns the unique one. -/
theorem localize_reject_iff (z : Zone) (hwf : z.wf = true) (w : Int)
    (hr : InRange (w - (wallPeriod false z w).off)) :
    (localize z none w = .error .nonexistent ↔ ∀ u, ¬ IsPre z w u) ∧
    (localize z none w = .error .ambiguous ↔ ∃ u1 u2, u1 ≠ u2 ∧ IsPre z w u1 ∧ IsPre z w u2) ∧
    (∀ u, localize z none w = .ok u ↔ (IsPre z w u ∧ ∀ u', IsPre z w u' → u' = u)) := by
  rcases zone_situation z hwf w with ⟨P, h0, h1, hpre, huniq⟩ | ⟨hoff, hnone⟩ | ⟨hoff, hpre0, hpre1⟩
  · have hloc := localize_unique_case z w P h0 h1 hpre (by rw [← h0]; exact hr) none
    rw [hloc]
    refine ⟨⟨fun h => by simp at h, fun h => absurd hpre (h _)⟩, ⟨fun h => by simp at h, ?_⟩, ?_⟩
    · rintro ⟨u1, u2, hne, h1', h2'⟩
      exact absurd ((huniq u1 h1').trans (huniq u2 h2').symm) hne
    · intro u
      constructor
      · intro h; simp only [Except.ok.injEq] at h; subst h; exact ⟨hpre, huniq⟩
      · rintro ⟨hu, _⟩; rw [huniq u hu]
  · have hloc := localize_gap_case z w (fun u hu => hnone u hu) hr
    rw [hloc]
    refine ⟨⟨fun _ u hu => hnone u hu, fun _ => rfl⟩, ⟨fun h => by simp at h, ?_⟩, ?_⟩
    · rintro ⟨u1, _, _, h1', _⟩; exact absurd h1' (hnone u1)
    · intro u
      constructor
      · intro h; simp at h
      · rintro ⟨hu, _⟩; exact absurd hu (hnone u)
  · have hloc := localize_overlap_case z w hoff hpre0 hr
    rw [hloc]
    refine ⟨⟨fun h => by simp at h, fun h => absurd hpre0 (h _)⟩, ⟨fun _ => ?_, fun _ => rfl⟩, ?_⟩
    · exact ⟨_, _, by omega, hpre0, hpre1⟩
    · intro u
      constructor
      · intro h; simp at h
      · rintro ⟨hu, hall⟩
        have e0 := hall _ hpre0
        have e1 := hall _ hpre1
        omega

/-- **Zone round trip** (rendering with the zone key, `tzdetail=True`): for every instant, every
precision and every well-formed zone table whose key the parser resolves to that table, parsing
the rendering either returns the rendered instant (and its wall-clock time has that instant as its
only preimage), or is refused as ambiguous (and the wall-clock time has two different preimages),
or — only at the edge of year 1 — is refused because the other candidate instant is outside
years 1..9999.  In particular it never returns a different instant, and is never refused as
nonexistent. -/
theorem zone_roundtrip (p : Nat) (hp : p ≤ 6) (μ bias : Int) (z : Zone) (hwf : z.wf = true)
    (hname : ZoneWord z.name) (db : TzDb) (hdb : db.info z.name = .ok (z, none)) (text : List Char)
    (h : render p μ bias (some z) .full = some text) :
    let us := renderInstant p μ bias / 1000000
    let w := us + (periodAt z us).off
    (parse db text = .ok (renderedInstant p μ bias) ∧ ∀ u, IsPre z w u → u = us) ∨
    (parse db text = .error .ambiguous ∧ ∃ u1 u2, u1 ≠ u2 ∧ IsPre z w u1 ∧ IsPre z w u2) ∨
    (parse db text = .error .value ∧ ¬ InRange (w - (wallPeriod false z w).off)) := by
  obtain ⟨hr, hv, hf, ht⟩ := render_eq p hp μ bias (some z) .full text h
  simp only [Option.getD_some] at hr hv hf ht
  simp only [suffixOf, Option.getD_some] at ht
  intro us w
  have hparse : parse db text = instantOf z none (civilOfSecs w)
      (microOf p ((renderInstant p μ bias % 1000000).toNat / pow10 (6 - p))) := by
    rw [ht]; exact parse_format_zone db _ p _ hv hp hf z.name hname z none hdb
  rw [hparse]
  unfold instantOf
  rw [secsOfCivil_civilOfSecs]
  have hus : IsPre z w us := rfl
  by_cases hrange : InRange (w - (wallPeriod false z w).off)
  · rcases zone_situation z hwf w with ⟨P, h0, h1, hpre, huniq⟩ | ⟨hoff, hnone⟩ | ⟨hoff, hpre0, hpre1⟩
    · left
      have hloc := localize_unique_case z w P h0 h1 hpre (by rw [← h0]; exact hrange) none
      have hP : us = w - P.off := huniq us hus
      rw [hloc, ← hP]
      simp only []
      rw [if_neg (by rw [Bool.not_eq_true]; exact (inRange_iff _).2 hr)]
      refine ⟨by rw [recombine p hp μ bias], fun u hu => ?_⟩
      rw [huniq u hu, hP]
    · exact absurd hus (hnone us)
    · right; left
      rw [localize_overlap_case z w hoff hpre0 hrange]
      exact ⟨rfl, _, _, by omega, hpre0, hpre1⟩
  · right; right
    rw [localize_out_of_range z none w hrange]
    exact ⟨rfl, hrange⟩

/-- the zone-key rendering **never parses to a different instant** -/
theorem zone_never_different (p : Nat) (hp : p ≤ 6) (μ bias : Int) (z : Zone) (hwf : z.wf = true)
    (hname : ZoneWord z.name) (db : TzDb) (hdb : db.info z.name = .ok (z, none)) (text : List Char)
    (h : render p μ bias (some z) .full = some text) (v : Int) (hparse : parse db text = .ok v) :
    v = renderedInstant p μ bias := by
  rcases zone_roundtrip p hp μ bias z hwf hname db hdb text h with ⟨h1, _⟩ | ⟨h1, _⟩ | ⟨h1, _⟩
  · rw [h1] at hparse; exact (Except.ok.inj hparse).symm
  · rw [h1] at hparse; exact absurd hparse (by simp)
  · rw [h1] at hparse; exact absurd hparse (by simp)

end Cpppo.Times
