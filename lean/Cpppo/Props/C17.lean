import Cpppo.Model.Times
import Cpppo.Generated.Tables
namespace Cpppo.Times
theorem stub : pow10 0 = 1 := rfl
end Cpppo.Times
