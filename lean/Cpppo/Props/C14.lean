import Cpppo.Proofs.Glue

/-!
# C14 — Independent Logix clients interoperate with the simulator

Three models meet here:

* `Cpppo.Ref`  — the reference codec of the *client* side, written from the CIP / EtherNet/IP layout tables
  (it shares no code with the library; its service codes, segment and item type bytes are literals);
* `Cpppo.Srv`  — the simulator from a complete frame to the reply frame (`enip_machine`, `CIP`, `CPF`,
  `UCMM.request`, `Connection_Manager.request / forward_open / forward_close`, the object parsers, the reply
  `produce`), its constants extracted from the live library;
* `Cpppo.Logix.exec` — the tag-serving core (C03–C07), whose replies are the array model's values.

PARTIAL (see `notes/C14.md`): the theorems are about these models.  That pylogix sends what the reference
encoder would, reads replies the way the reference decoder does, and that the socket layer delivers frames
whole, is *observed* on every run by the correspondence, not proved.
-/
namespace Cpppo.Interop
open Cpppo Cpppo.Logix Cpppo.Fields

/-! ## the tables of the library are the tables of the specification -/

/-- the constants the server model takes from the live library equal the literals of the reference codec:
a change of a service code, item id, segment type byte or header field in the source breaks this (and the
round-trip proofs that unfold them) -/
theorem tables_agree :
    Generated.svcReadTag = 0x4C ∧ Generated.svcReadFrag = 0x52 ∧ Generated.svcWriteTag = 0x4D
    ∧ Generated.svcWriteFrag = 0x53 ∧ Generated.svcMultiple = 0x0A
    ∧ Generated.iopSvcFwdOpen = 0x54 ∧ Generated.iopSvcFwdOpenLarge = 0x5B ∧ Generated.iopSvcFwdClose = 0x4E
    ∧ Generated.iopUnconnectedSend = 0x52 ∧ Generated.iopCmClass = 6 ∧ Generated.routerClass = 2
    ∧ Generated.iopCmdRegister = 0x65 ∧ Generated.iopCmdUnregister = 0x66 ∧ Generated.iopCmdSendData = [0x6F, 0x70]
    ∧ Generated.iopCpfConnectionId = 0xA1 ∧ Generated.iopCpfConnectionData = 0xB1 ∧ Generated.iopCpfUnconnected = 0xB2
    ∧ Generated.iopSegSymbolic = 0x91 ∧ Generated.iopSegClass = 0x20 ∧ Generated.iopSegInstance = 0x24
    ∧ Generated.iopSegAttribute = 0x30 ∧ Generated.iopSegElement = 0x28 ∧ Generated.iopSegConnection = 0x2C
    ∧ Generated.iopHeaderFields = [2, 2, 4, 4, 8, 4] := by decide

/-! ## round trips of the reference codec against the server's parsers / producers -/

/-- **EPATH**: 8/16-bit class / instance / attribute, 8/16/32-bit element and ANSI symbolic segments (with
pad) written by the reference encoder are read back by the server, which leaves the rest of the buffer alone -/
theorem epath_round_trip (p : Path) (e rest : Bytes) (h : Ref.encEpath p = some e) :
    ∃ segs, Srv.parseEpath false (e ++ rest) = some (segs, rest) ∧ Srv.toPath segs = p :=
  parseEpath_encEpath p e rest h

/-- **Requests**: Read Tag, Read Tag Fragmented, Write Tag, Write Tag Fragmented and Multiple Service Packets
(count, offset table, members) -/
theorem request_round_trip (r : Req) (b : Bytes) (h : Ref.encReq r = some b) (hw : WFReq r = true) :
    Srv.parseCip b = some r :=
  parseCip_encReq r b h hw

/-- **Replies**: reply service, status, extended status, CIP type and elements -/
theorem reply_round_trip (r : Reply) (bs : Bytes) (h : encodeReply r = some bs) (hok : ReplyOk r) :
    Ref.decReply bs = some r :=
  decReply_encodeReply r bs h hok

/-- **Encapsulation frames**, client to server and server to client -/
theorem frame_round_trip (h : Ref.Hdr) (payload : Bytes) (hok : h.ok = true) (hl : payload.length < 65536) :
    Srv.parseEnip (Ref.encFrame h payload) =
      some { command := h.command, session := h.session, status := h.status, context := h.context,
             options := h.options, input := payload }
    ∧ Ref.decFrame (Srv.produceEnip { command := h.command, session := h.session, status := h.status,
                                      context := h.context, options := h.options, input := payload })
      = some (h, payload) := by
  refine ⟨parseEnip_encFrame h payload hok hl, ?_⟩
  simp only [Ref.Hdr.ok, Bool.and_eq_true, decide_eq_true_eq] at hok
  obtain ⟨⟨⟨⟨⟨h1, h2⟩, h3⟩, h4⟩, _⟩, h6⟩ := hok
  exact decFrame_produceEnip _ ⟨h1, h2, h3, h4, h6, hl⟩

/-- the elements a reply carries survive the wire whenever each of them does; canonical stored elements of
the integer, BOOL and string types always do -/
theorem values_round_trip (t : CipType) (vs : List Val) (h : ∀ v ∈ vs, wireOk t v = true) : ValsOk t vs :=
  valsOk_of_wireOk t vs h

theorem stored_values_survive (t : Tag) (hwf : t.WF) (hf : t.ty ≠ .real ∧ t.ty ≠ .lreal) : tagWireOk t = true :=
  tagWireOk_of_wf t hwf hf

/-- **the reference encoder emits bytes**: every element of a frame it produces is below 256 (so the
round trips above are statements about byte strings, not about lists of arbitrary naturals) -/
theorem encoder_emits_bytes (c : Ref.Ctx) (m : Ref.Msg) (fr : Bytes) (hc : CtxOk c = true)
    (h : Ref.encMsg c m = some fr) : fr.wf = true :=
  encMsg_wf c m fr hc h

/-! ## end to end: reference encoder → server → reference decoder -/

/-- **`end_to_end`.**  A Read/Write Tag [Fragmented] request written by the reference encoder — bare in a
SendRRData frame, or inside an Unconnected Send to the Connection Manager with any priority, ticks and route
path — is executed by the simulator exactly as `exec` (the array model of C03–C05) prescribes, the session
continues, and the reply frame is accepted by the reference decoder, which recovers *the very reply* of the
array model: service, status, extended status, the tag's CIP type and the elements.

Hypotheses (all decidable): the session handle / sender context are in range; write data are whole elements
of a known type; the request is not addressed to the Connection Manager object; the device has its Message
Router, is well-formed (C05 invariant) and its elements survive the wire (automatic for every type but
REAL / LREAL, `stored_values_survive`); the reply fits one frame. -/
theorem end_to_end (st : Srv.St) (rnd : Srv.Rnd) (c : Ref.Ctx) (t : Ref.Transport) (timeout : Nat)
    (s : Simple) (fr : Bytes) (hun : Unconnected t = true) (hc : CtxOk c = true)
    (henc : Ref.encMsg c (.request t timeout (.simple s)) = some fr)
    (hs : isTagSvc s = true) (hw : WFSimple s = true) (hcm : notCM st.dev (.simple s) = true)
    (hro : hasRouter st.dev = true) (hwf : st.dev.WF) (hwire : devWireOk st.dev = true)
    (hsize : ∀ rep, encodeReply (execSimple st.dev s).2 = some rep → rep.length < 65000) :
    ∃ out, Srv.serve st rnd fr = ({ st with dev := (execSimple st.dev s).1 }, .reply out)
      ∧ Ref.decReplyMsg out = some (c.hdr 0x6F, .cip none 0 timeout (.tag (execSimple st.dev s).2)) := by
  obtain ⟨_, rep, hrep⟩ := execSimple_preserves_wf_tag st.dev hwf s (by cases s <;> simp_all [isTagSvc])
  have hexec : (exec st.dev (.simple s)).2 = some rep := by simp [exec, hrep]
  have hserve := serve_unconnected st rnd c t timeout (.simple s) fr hun hc henc hw hcm hro rep hexec
  have htimeout : timeout < 65536 := by
    cases t with
    | connected _ _ => simp [Unconnected] at hun
    | direct =>
      simp only [Ref.encMsg] at henc
      split at henc
      · split at henc
        · simp at henc
        · unfold Ref.encRR at henc; split at henc
          · rename_i h; exact h.1
          · simp at henc
      · simp at henc
    | wrapped _ _ _ =>
      simp only [Ref.encMsg] at henc
      split at henc
      · split at henc
        · unfold Ref.encRR at henc; split at henc
          · rename_i h; exact h.1
          · simp at henc
        · simp at henc
      · simp at henc
  refine ⟨rrFrame c timeout rep, ?_, ?_⟩
  · simpa [exec] using hserve
  · rw [decReplyMsg_rrFrame c timeout rep hc htimeout (hsize rep hrep),
      decCip_tag _ rep hrep (execSimple_replyOk st.dev s hs hwire) (isTagSvc_svc st.dev s hs)]
    rfl

/-- **The decoded values are the stored values** (composition with C03 `read_returns_stored`): a valid Read
Tag of `n` elements at element `e` of a vector tag is answered, through encoder, server and decoder, with the
tag's own type and the stored elements `e, e+1, …` (as many as fit the reply; status 6 if more remain). -/
theorem end_to_end_read (st : Srv.St) (rnd : Srv.Rnd) (c : Ref.Ctx) (t : Ref.Transport) (timeout : Nat)
    (p : Path) (n : Nat) (fr : Bytes) (hun : Unconnected t = true) (hc : CtxOk c = true)
    (henc : Ref.encMsg c (.request t timeout (.simple (.readTag p n))) = some fr)
    (hcm : notCM st.dev (.simple (.readTag p n)) = true)
    (hro : hasRouter st.dev = true) (hwf : st.dev.WF) (hwire : devWireOk st.dev = true)
    (ci ii ai : Nat) (tag : Tag)
    (hr : resolveTag st.dev ((routeTarget st.dev router p).getD router) p = some (ci, ii, ai, tag))
    (hv : tag.Vector) (hsz : 0 < tag.ty.size) (hfit : resolveElement p + n ≤ tag.vals.length) (hn : 0 < n)
    (hsize : ∀ rep, encodeReply (execSimple st.dev (.readTag p n)).2 = some rep → rep.length < 65000) :
    ∃ out, Srv.serve st rnd fr = (st, .reply out)
      ∧ Ref.decReplyMsg out = some (c.hdr 0x6F, .cip none 0 timeout (.tag
          { svc := 0xCC
            status := if n ≤ fragCount st.dev.maxBytes tag.ty.size then 0 else 6
            ty := some tag.ty
            vals := (tag.vals.drop (resolveElement p)).take (min n (fragCount st.dev.maxBytes tag.ty.size)) })) := by
  obtain ⟨out, h1, h2⟩ := end_to_end st rnd c t timeout (.readTag p n) fr hun hc henc rfl rfl hcm hro hwf hwire hsize
  have hx : execSimple st.dev (.readTag p n) =
      (st.dev, { svc := svcRdTag
                 status := if n - 0 ≤ fragCount st.dev.maxBytes tag.ty.size then 0 else 6
                 ty := some tag.ty
                 vals := (tag.vals.drop (resolveElement p + 0)).take (min (n - 0) (fragCount st.dev.maxBytes tag.ty.size)) }) := by
    simp only [execSimple, execSimpleAt]
    exact read_returns_stored st.dev _ svcRdTag false p n 0 ci ii ai tag hr hv hsz 0 (by simp) hfit hn
  rw [hx] at h1 h2
  exact ⟨out, by simpa using h1, by simpa [svcRdTag, Generated.svcReadTag] using h2⟩

/-- **Multi-reads / multi-writes.**  A Multiple Service Packet of tag-service requests addressed to the
Message Router, written by the reference encoder and sent unconnected, is answered with a bundle that the
reference decoder takes apart into exactly the replies the members get when issued *one by one*
(`runSingly`, C07), and the tags end up in the same state. -/
theorem end_to_end_bundle (st : Srv.St) (rnd : Srv.Rnd) (c : Ref.Ctx) (t : Ref.Transport) (timeout : Nat)
    (p : Path) (ss : List Simple) (fr : Bytes) (hun : Unconnected t = true) (hc : CtxOk c = true)
    (henc : Ref.encMsg c (.request t timeout (.multiple p ss)) = some fr)
    (hp : resolve st.dev.symbols .no p = some (router.1, router.2, none))
    (hs : ∀ s ∈ ss, isTagService s = true) (hw : WFSimples ss = true)
    (hro : hasRouter st.dev = true) (hwf : st.dev.WF)
    (hok : ∀ r ∈ (runSingly st.dev ss).2, ReplyOk r)
    (hsize : ∀ ms, (runSingly st.dev ss).2.mapM encodeReply = some ms → Ref.tableLen ms < 60000) :
    ∃ out R, Srv.serve st rnd fr = ({ st with dev := (runSingly st.dev ss).1 }, .reply out)
      ∧ Ref.decReplyMsg out = some (c.hdr 0x6F, .cip none 0 timeout (.tag R))
      ∧ Ref.decBundle R = some (runSingly st.dev ss).2 := by
  obtain ⟨_, ms, hms, _⟩ := runSingly_producible st.dev hwf ss
  have hlen := hsize ms hms
  have hcm : notCM st.dev (.multiple p ss) = true := by
    simp [notCM, reqPath, hp, Srv.cm, router, Generated.iopCmClass, Generated.routerClass]
  let R : Reply := { svc := svcMulti, status := 0, raw := encodeMultiple ms }
  have hbe := bundle_equiv st.dev p ss hp
  have hRenc : encodeReply R = some ([svcMulti, 0, 0, 0] ++ encodeMultiple ms) := by
    simp [R, encodeReply, encodeStatus]
  have hexec : exec st.dev (.multiple p ss) = ((runSingly st.dev ss).1, some ([svcMulti, 0, 0, 0] ++ encodeMultiple ms)) := by
    simp only [exec, hbe, hms, Option.map_some, Option.bind_some]
    exact congrArg _ hRenc
  have hserve := serve_unconnected st rnd c t timeout (.multiple p ss) fr hun hc henc hw hcm hro _
    (by rw [hexec])
  rw [hexec] at hserve
  have hROk : ReplyOk R := by
    refine ⟨by simp [R, svcMulti, Generated.svcMultiple], by simp [R, svcMulti, Generated.svcMultiple], by simp [R],
      by simp [R], by simp [R], by simp [R], ?_⟩
    simp [R, isReadSvc, svcMulti, Generated.svcMultiple]
  have htimeout : timeout < 65536 := by
    cases t with
    | connected _ _ => simp [Unconnected] at hun
    | direct =>
      simp only [Ref.encMsg] at henc
      split at henc
      · split at henc
        · simp at henc
        · unfold Ref.encRR at henc; split at henc
          · rename_i h; exact h.1
          · simp at henc
      · simp at henc
    | wrapped _ _ _ =>
      simp only [Ref.encMsg] at henc
      split at henc
      · split at henc
        · unfold Ref.encRR at henc; split at henc
          · rename_i h; exact h.1
          · simp at henc
        · simp at henc
      · simp at henc
  have hreplen : ([svcMulti, 0, 0, 0] ++ encodeMultiple ms).length < 65000 := by
    rw [encodeMultiple_eq]
    simp only [List.cons_append, List.nil_append, List.length_cons, encTable_length]
    omega
  refine ⟨_, R, hserve, ?_, decBundle_members _ ms hms hok (by omega)⟩
  rw [decReplyMsg_rrFrame c timeout _ hc htimeout hreplen,
    decCip_tag R _ hRenc hROk (by simp [R, svcMulti, Generated.svcMultiple])]
  rfl

/-! ## connected messaging -/

/-- **`connected_session`.**  Register aside, a connected session is: Forward Open, requests in SendUnitData
frames, Forward Close.  On the model:

1. a Forward Open written by the reference encoder (small or large, any parameters with non-zero connection
   sizes, any port segments before the target) whose connection id is fresh is accepted: the reply decodes
   to status 0 carrying the O→T id the target picked, and `forwards` gains exactly one entry;
2. on a connection to the Message Router every connected request is executed by `exec` — *answered like the
   unconnected one* — the reply echoes connection id and sequence count, and the connection stays usable;
3. the matching Forward Close is acknowledged (decoded status 0, serial / vendor / originator echoed) and
   removes what the Forward Open added: `forwards` is as before. -/
theorem connected_session (st : Srv.St) (rnd : Srv.Rnd) (c : Ref.Ctx) (hc : CtxOk c = true) (hr : RndOk rnd) :
    -- 1. Forward Open
    (∀ timeout fo fr, Ref.encMsg c (.fwdOpen timeout fo) = some fr → FoAccepted st rnd fo → timeout < 65536 →
      ∃ out, Srv.serve st rnd fr = ({ st with fwds := st.fwds ++ [fwdEntry fo (foOtId fo rnd)] }, .reply out)
        ∧ Ref.decReplyMsg out = some (c.hdr 0x6F, .cip none 0 timeout (.fwdOpen
            { svc := (if fo.large then 0x5B else 0x54) + 128, status := 0, otId := foOtId fo rnd,
              toId := foToId fo rnd, serial := fo.serial, vendor := fo.vendor, oserial := fo.oserial,
              otApi := fo.otRpi, toApi := fo.toRpi }))
        ∧ (fo.target = [.cls 2, .ins 1] → (∀ f ∈ st.fwds, f.connId ≠ foOtId fo rnd) →
            ConnRouter { st with fwds := st.fwds ++ [fwdEntry fo (foOtId fo rnd)] } (foOtId fo rnd)))
    -- 2. connected requests
    ∧ (∀ id seq timeout s fr, Ref.encMsg c (.request (.connected id seq) timeout (.simple s)) = some fr →
        isTagSvc s = true → WFSimple s = true → hasRouter st.dev = true → st.dev.WF → devWireOk st.dev = true →
        ConnRouter st id →
        (∀ rep, encodeReply (execSimple st.dev s).2 = some rep → rep.length < 65000) →
        ∃ out, Srv.serve st rnd fr = ({ dev := (execSimple st.dev s).1, fwds := popPorts st.fwds id }, .reply out)
          ∧ Ref.decReplyMsg out = some (c.hdr 0x70, .cip (some (id, seq)) 0 timeout (.tag (execSimple st.dev s).2))
          ∧ ConnRouter { dev := (execSimple st.dev s).1, fwds := popPorts st.fwds id } id)
    -- 3. Forward Close
    ∧ (∀ timeout fc fr, Ref.encMsg c (.fwdClose timeout fc) = some fr → timeout < 65536 →
        ∃ out, Srv.serve st rnd fr = ({ st with fwds := st.fwds.filter (fun f => f.serial != fc.serial) }, .reply out)
          ∧ Ref.decReplyMsg out = some (c.hdr 0x6F, .cip none 0 timeout (.fwdClose
              { status := 0, serial := fc.serial, vendor := fc.vendor, oserial := fc.oserial }))) := by
  refine ⟨?_, ?_, ?_⟩
  · intro timeout fo fr henc hacc htimeout
    have hb : ∃ b, Ref.encFwdOpen fo = some b := by
      simp only [Ref.encMsg] at henc
      split at henc
      · exact ⟨_, by assumption⟩
      · simp at henc
    obtain ⟨b, hb⟩ := hb
    refine ⟨_, serve_fwdOpen st rnd c timeout fo fr hc henc hacc, ?_, ?_⟩
    · have hl : (foOkBytes fo rnd).length < 65000 := by simp [foOkBytes, Fields.le_length]
      rw [decReplyMsg_rrFrame c timeout _ hc htimeout hl, decCip_foOk fo rnd b hb hr]
      rfl
    · intro htgt hfresh
      refine ⟨fwdEntry fo (foOtId fo rnd), ?_, ?_⟩
      · rw [List.find?_append]
        have : st.fwds.find? (fun g => g.connId == foOtId fo rnd) = none := by
          rw [List.find?_eq_none]; intro f hf; simpa using hfresh f hf
        simp [this, fwdEntry]
      · simp only [fwdEntry, htgt, portSegs]
        have : ∀ l : List (Nat × Nat),
            (l.map (fun x => Srv.PSeg.port x.1 x.2) ++ [Seg.cls 2, Seg.ins 1].map segOf).dropWhile Srv.PSeg.isPort
              = routerPath := by
          intro l
          induction l with
          | nil => rfl
          | cons x rest ih => simpa [List.dropWhile_cons, Srv.PSeg.isPort] using ih
        exact this _
  · intro id seq timeout s fr henc hs hw hro hwf hwire hconn hsize
    obtain ⟨_, rep, hrep⟩ := execSimple_preserves_wf_tag st.dev hwf s (by cases s <;> simp_all [isTagSvc])
    have hexec : (exec st.dev (.simple s)).2 = some rep := by simp [exec, hrep]
    have hserve := serve_connected st rnd c id seq timeout (.simple s) fr hc henc hw hro hconn rep hexec
    have hcond : timeout < 65536 ∧ id < 4294967296 ∧ seq < 65536 := by
      simp only [Ref.encMsg] at henc
      split at henc
      · split at henc
        · rename_i h; exact ⟨h.1, h.2.2.1, h.2.2.2⟩
        · simp at henc
      · simp at henc
    refine ⟨unitFrame c timeout id seq rep, by simpa [exec] using hserve, ?_, connRouter_popPorts st id id hconn _⟩
    rw [decReplyMsg_unitFrame c timeout id seq rep hc hcond.1 hcond.2.1 hcond.2.2 (hsize rep hrep),
      decCip_tag _ rep hrep (execSimple_replyOk st.dev s hs hwire) (isTagSvc_svc st.dev s hs)]
    rfl
  · intro timeout fc fr henc htimeout
    have hb : ∃ b, Ref.encFwdClose fc = some b := by
      simp only [Ref.encMsg] at henc
      split at henc
      · exact ⟨_, by assumption⟩
      · simp at henc
    obtain ⟨b, hb⟩ := hb
    refine ⟨_, serve_fwdClose st rnd c timeout fc fr hc henc, ?_⟩
    have hl : (fcOkBytes fc).length < 65000 := by simp [fcOkBytes, Fields.le_length]
    rw [decReplyMsg_rrFrame c timeout _ hc htimeout hl, decCip_fcOk fc b hb]
    rfl

/-- Forward Open then Forward Close with the same connection serial leaves `forwards` as it was (also after
connected requests popped the port segments of the stored path) -/
theorem open_close_restores (fwds : List Srv.Fwd) (fo : Ref.FwdOpen) (otId id : Nat)
    (h : ∀ f ∈ fwds, f.serial ≠ fo.serial) :
    (popPorts (fwds ++ [fwdEntry fo otId]) id).filter (fun f => f.serial != fo.serial) = popPorts fwds id := by
  have := filter_after_open fwds (fwdEntry fo otId) (by simpa [fwdEntry] using h)
  simp only [fwdEntry] at this
  rw [filter_popPorts]
  simp only [fwdEntry, this]

/-! ## the generic client (what `pylogix`-style APIs do with the services) -/

/-- **A multi-read returns, tag by tag, what the single reads return** (the bundle is a Multiple Service
Packet; by C07 its members execute one by one, and reads change nothing) -/
theorem client_multiRead (d : Dev) (ps : List Path) :
    IopClient.run d (.multiRead ps) = (d, ps.map fun p => IopClient.resOf (execSimple d (.readTag p 1)).2) := by
  simp only [IopClient.run, execMembers_eq_runSingly, runSingly_reads, List.map_map]
  rfl

/-! ## the defect that was repaired: unresolvable *unconnected* request paths -/

def demoSt : Srv.St := { dev := demoDev }
def demoCtx : Ref.Ctx := { session := 0x11223344, context := [1, 2, 3, 4, 5, 6, 7, 8] }

/-- Read Tag of the unknown tag `nosuch`, bare in a SendRRData frame, as the reference encoder writes it -/
def unknownTagFrame : Bytes :=
  (Ref.encMsg demoCtx (.request .direct 5 (.simple (.readTag [.symbolic "nosuch"] 1)))).getD []

/-- the code before the `fix:` commit: `Connection_Manager.request` cannot resolve the path, the exception
reaches `UCMM.request`, the client gets an empty frame with encapsulation status 0x08 and the session ends -/
theorem old_unknown_tag_ends_session :
    (Srv.serveOld demoSt {} unknownTagFrame).2 =
      .fail (Srv.produceEnip { command := 0x6F, session := 0x11223344, status := 8, context := [1, 2, 3, 4, 5, 6, 7, 8],
                               options := 0, input := [] }) := by decide +kernel

/-- repaired: the Message Router answers with CIP status 0x05 (extended 0x0000) and the session continues -/
theorem new_unknown_tag_status_5 :
    ∃ out, (Srv.serve demoSt {} unknownTagFrame).2 = .reply out
      ∧ Ref.decReplyMsg out = some (demoCtx.hdr 0x6F, .cip none 0 5 (.tag { svc := 0xCC, status := 5, ext := [0] })) := by
  refine ⟨_, rfl, ?_⟩
  decide +kernel

/-- the same request over a connection, or inside a Multiple Service Packet, was always answered with 0x05 -/
example : (exec demoDev (.multiple [.cls 2, .ins 1] [.readTag [.symbolic "nosuch"] 1])).2 =
    some ([0x8A, 0, 0, 0] ++ [1, 0, 4, 0] ++ [0xCC, 0, 5, 1, 0, 0]) := by decide +kernel

/-! ## known finding (not repaired): string arrays larger than one reply -/

def strDev : Dev :=
  { objs := [{ cls := 2, ins := 1, attrs := [(1, { ty := .sstring, scalar := false, vals := List.replicate 10 (.str []) })] }],
    symbols := [("zz", (2, 1, 1))] }

/-- the full statement "a client following the services' definition can fragment-read any tag" fails on the
model for a 10-element SSTRING tag at the default `MAX_BYTES`: the first reply carries 7 elements with status
6, the continuation at the byte offset received (7) is refused with 0xFF — `reply_elements` counts a string
element as 80 bytes.  (`end_to_end_read` holds per request; the defect is in what offsets are acceptable.) -/
theorem client_string_array_read_fails :
    (execSimple strDev (.readTag [.symbolic "zz", .elem 0] 10)).2.status = 6
    ∧ ((execSimple strDev (.readTag [.symbolic "zz", .elem 0] 10)).2.vals).length = 7
    ∧ (IopClient.read strDev [.symbolic "zz", .elem 0] 10).status = 255 := by decide +kernel

/-- … while for fixed-size element types the generic client's read does complete (here: the 3 SINTs of `a`
in fragments of one element, `MAX_BYTES = 1`) -/
example : IopClient.read { demoDev with maxBytes := 1 } [.symbolic "a"] 3
    = { status := 0, ty := some .sint, vals := [.int 1, .int 2, .int 3] } := by decide +kernel

/-! ## non-vacuity: the hypotheses hold on a device with contents, and the pipeline computes -/

example : CtxOk demoCtx = true ∧ hasRouter demoDev = true ∧ devWireOk demoDev = true
    ∧ notCM demoDev (.simple (.readTag [.symbolic "A", .elem 1] 2)) = true
    ∧ WFSimple (.writeTag [.symbolic "a"] 194 2 [5, 251]) = true := by decide +kernel

/-- Read Tag A[1] ×2 inside an Unconnected Send with a route path, through encoder, server, decoder -/
example :
    (Ref.encMsg demoCtx (.request (.wrapped 5 157 [(1, 0)]) 5 (.simple (.readTag [.symbolic "A", .elem 1] 2)))).bind
      (fun fr => match (Srv.serve demoSt {} fr).2 with
        | .reply out => Ref.decReplyMsg out
        | _ => none)
    = some (demoCtx.hdr 0x6F, .cip none 0 5 (.tag { svc := 0xCC, status := 0, ty := some .sint, vals := [.int 2, .int 3] })) := by
  decide +kernel

/-- a whole connected session on the model: Forward Open (large, through port 1 link 0), a connected write, a
connected read that sees it, Forward Close; `forwards` ends empty -/
def demoFo : Ref.FwdOpen :=
  { large := true, prio := 10, ticks := 14, otId := 0x20000002, toId := 7, serial := 9, vendor := 0x1337, oserial := 42,
    mult := 3, otRpi := 0x201234, otNcp := 0x42000FA2, toRpi := 0x204001, toNcp := 0x42000FA2, tct := 0xA3,
    ports := [(1, 0)], target := [.cls 2, .ins 1] }

def demoSession : List (Srv.Rnd × Ref.Msg) :=
  [ ({ session := 77 }, .register 1 0),
    ({ otId := 0xC0FFEE }, .fwdOpen 0 demoFo),
    ({}, .request (.connected 0xC0FFEE 1) 0 (.simple (.writeTag [.symbolic "a", .elem 1] 194 1 [251]))),
    ({}, .request (.connected 0xC0FFEE 2) 0 (.simple (.readTag [.symbolic "A"] 3))),
    ({}, .fwdClose 0 { prio := 10, ticks := 14, serial := 9, vendor := 0x1337, oserial := 42, ports := [(1, 0)],
                       target := [.cls 2, .ins 1] }) ]

def runDemo : Srv.St → List (Srv.Rnd × Ref.Msg) → List (Option Ref.RMsg) × Nat
  | st, [] => ([], st.fwds.length)
  | st, (rnd, m) :: rest =>
    match Ref.encMsg demoCtx m with
    | none => ([none], st.fwds.length)
    | some fr =>
      let (st', out) := Srv.serve st rnd fr
      let dec := match out with
        | .reply bs => (Ref.decReplyMsg bs).map (·.2)
        | _ => none
      let (ds, n) := runDemo st' rest
      (dec :: ds, n)

example : runDemo demoSt demoSession =
    ([ some (.registered 1 0),
       some (.cip none 0 0 (.fwdOpen { svc := 0xDB, status := 0, otId := 0xC0FFEE, toId := 7, serial := 9, vendor := 0x1337,
                                       oserial := 42, otApi := 0x201234, toApi := 0x204001 })),
       some (.cip (some (0xC0FFEE, 1)) 0 0 (.tag { svc := 0xCD, status := 0 })),
       some (.cip (some (0xC0FFEE, 2)) 0 0 (.tag { svc := 0xCC, status := 0, ty := some .sint,
                                                    vals := [.int 1, .int (-5), .int 3] })),
       some (.cip none 0 0 (.fwdClose { status := 0, serial := 9, vendor := 0x1337, oserial := 42 })) ], 0) := by
  decide +kernel

end Cpppo.Interop
