import Cpppo.Model.RefCodec
import Cpppo.Model.Server
import Cpppo.Model.Client
/-! placeholder: theorems follow once the correspondence is stable -/
namespace Cpppo.C14
theorem placeholder : True := trivial
end Cpppo.C14
