import Cpppo.Proofs.ClientRx
import Cpppo.Generated.Tables

/-!
# C13 — Under any connection fault the client never pairs a reply with the wrong request

Property theorems about the model `Cpppo.ClientRx` of `client.__next__` / `await_response` /
`connector.collect` / `harvest` / `pipeline` / `synchronous` / `connector.__init__` and of the gateway
handling of `get_attribute.proxy`.

The reply stream of the peer is a list of encapsulation frames `reg :: fs` (the Register reply, then
the replies), delivered up to byte offset `k` in blocks of any sizes, and then either closed (EOF) or
silent beyond the client's timeout.  `P : Frame → Resp` is the reply parser (`enip_replies`), arbitrary.

* `never_mispaired`, `never_short_silently`, `segmentation_irrelevant`, `depth_irrelevant`: for **every**
  input (any bytes, any events, any parser): whatever is yielded passed the context/service assertion
  against the request it is yielded for, the `n`-th record is for the `n`-th request, and fewer records
  than requests come only together with an error.
* `cut_yields_zip`, `lost_reply_detected`: for any well-formed frames (lost, duplicated, overtaken replies):
  pairing stops with `mismatch` at the first reply that is not the next request's.
* `cut_yields_prefix`, `no_success_on_partial`, `exchange_cut`: for a peer that answers in order: the
  records are exactly the replies of the frames lying wholly inside the first `k` bytes, each paired
  with its own request; a frame that was not completely received yields nothing; unless that covers all
  requests the stream ends with an error (which one is stated).
* `proxy_failure_discards`, `proxy_reconnects`, `proxy_recovers`, `proxy_conn_fresh`, `open_fault_fails`,
  `proxy_next_use_correct`, `fault_anywhere_then_recovers`: the gateway automaton including the open phase
  (Register + List Identity): whatever made a use fail, the next use on a healthy device returns correct data.
* `synchronousOld_short_silently`: the code before the `fix:` commit violates the property (witness).

PARTIAL: what "silent beyond the timeout" means in wall-clock terms, `select`, half-open sockets, and
thread interleavings inside the proxy are not in the model (sampled by the fault-injecting relay).
-/
namespace Cpppo.ClientRx

/-! ### for every input whatsoever -/

/-- **The result stream of `pipeline` does not depend on the depth** (nor on the starting index), and is
that of the repaired `synchronous`. -/
theorem depth_irrelevant (P : Frame → Resp) (depth depth' index index' : Nat) (issued : List Iss) (st : CSt) :
    pipeline P depth index issued st = pipeline P depth' index' issued st ∧
    pipeline P depth index issued st = synchronous P issued st := by
  simp [pipeline_eq]

/-- **Never mispaired**: every record yielded — on any byte stream, cut anywhere or not at all, well-formed
or not — carries a reply whose sender context equals the context of the request it is yielded for and
whose service is that request's service with the reply bit; and the `n`-th record is for the `n`-th
request issued. -/
theorem never_mispaired (P : Frame → Resp) (depth index : Nat) (issued : List Iss) (st : CSt) :
    (∀ r ∈ (pipeline P depth index issued st).1, r.ctx = r.iss.ctx ∧ r.rpy.svc = rpySvc r.iss.svc) ∧
    (pipeline P depth index issued st).1.map (·.iss) =
      issued.take (pipeline P depth index issued st).1.length := by
  rw [pipeline_eq, synchronous_fst]
  exact ⟨harvestAll_matches P issued st, harvestAll_own P issued st⟩

/-- **Never short silently**: the stream of records ends without an error exactly when there is one
record per request; otherwise there are fewer, and it ends with an error. -/
theorem never_short_silently (P : Frame → Resp) (depth index : Nat) (issued : List Iss) (st : CSt) :
    (pipeline P depth index issued st).1.length ≤ issued.length ∧
    ((pipeline P depth index issued st).2.1 = .ok ↔
      (pipeline P depth index issued st).1.length = issued.length) := by
  rw [pipeline_eq, synchronous_fst, synchronous_end]
  refine ⟨harvestAll_length_le P issued st, ?_⟩
  rw [← harvestAll_exhausted_iff P issued st]
  cases (harvestAll P issued st).2.1 <;> simp [endOfH]

/-- corollary in the words of the property: fewer results than operations ⇒ an error ends the stream -/
theorem short_implies_error (P : Frame → Resp) (depth index : Nat) (issued : List Iss) (st : CSt)
    (h : (pipeline P depth index issued st).1.length < issued.length) :
    ∃ e, (pipeline P depth index issued st).2.1 = .error e := by
  have := (never_short_silently P depth index issued st).2
  cases he : (pipeline P depth index issued st).2.1 with
  | ok => rw [he] at this; have := this.mp rfl; omega
  | error e => exact ⟨e, rfl⟩

/-- **Segmentation is irrelevant**: records and end depend only on the bytes that arrive before each
EOF / silence, not on the blocks they arrive in. -/
theorem segmentation_irrelevant (P : Frame → Resp) (depth index : Nat) (issued : List Iss) (st st' : CSt)
    (h : flat st = flat st') :
    (pipeline P depth index issued st).1 = (pipeline P depth index issued st').1 ∧
    (pipeline P depth index issued st).2.1 = (pipeline P depth index issued st').2.1 := by
  rw [pipeline_eq, pipeline_eq, synchronous_fst, synchronous_fst, synchronous_end, synchronous_end]
  obtain ⟨h1, h2⟩ := harvestAll_congr P issued st st' h
  rw [h1, h2]; exact ⟨rfl, rfl⟩

/-! ### a peer that answers in order, cut at byte offset `k` -/

/-- **Cut yields prefix**: the replies `fs` answer the issued requests in order; the first `k` bytes of
the stream arrive (in any blocks: `flat st = …`), then EOF (`closed`) or silence.  Then the records are
exactly the replies of the frames wholly inside the first `k` bytes, each paired with its own request,
and the stream ends without error iff these cover all requests; else with `rxerror` (EOF inside a
frame) or `incomplete` (EOF between frames, or silence). -/
theorem cut_yields_prefix (P : Frame → Resp) (depth index : Nat) (issued : List Iss) (fs : List Frame)
    (k : Nat) (closed : Bool) (st : CSt)
    (hst : flat st = flat (cutState fs k closed)) (hs : Served P fs)
    (hm : AllMatch issued (fs.flatMap (colsOf P))) :
    (pipeline P depth index issued st).1 =
      (issued.zip ((fs.take (whole k fs)).flatMap (colsOf P))).map mkRes ∧
    (pipeline P depth index issued st).2.1 =
      if issued.length ≤ ((fs.take (whole k fs)).flatMap (colsOf P)).length then .ok
      else .error (cutErr closed (leftover k fs)) := by
  rw [pipeline_eq]; exact synchronous_cut P closed issued fs k st hst hs hm

/-- **Cut yields the checked zip** — the same without assuming that the replies answer the requests (frames
lost, duplicated, overtaken, from another exchange): the records are the pairs of `zipSpec` over the replies of
the wholly received frames — pairing stops with `mismatch` at the first reply that does not carry the next
request's context and service. -/
theorem cut_yields_zip (P : Frame → Resp) (depth index : Nat) (issued : List Iss) (fs : List Frame)
    (k : Nat) (closed : Bool) (st : CSt)
    (hst : flat st = flat (cutState fs k closed)) (hs : Served P fs) :
    (pipeline P depth index issued st).1 =
      (zipSpec issued ((fs.take (whole k fs)).flatMap (colsOf P)) (cutEnd closed (leftover k fs))).1 ∧
    (pipeline P depth index issued st).2.1 =
      endOfH (zipSpec issued ((fs.take (whole k fs)).flatMap (colsOf P)) (cutEnd closed (leftover k fs))).2 := by
  rw [pipeline_eq]; exact synchronous_cut_zip P closed issued fs k st hst hs

/-- **A reply lost entirely is detected, not mispaired**: the frames delivered (all of them, then silence or
EOF) answer the first requests `is₁` one by one, but the reply to the next request `i` is missing, so that
the next reply `c` (if any) belongs to a later request: the records are exactly those of `is₁`, and the stream
ends with `mismatch` — or, when nothing follows, with `incomplete`. -/
theorem lost_reply_detected (P : Frame → Resp) (depth index : Nat) (is₁ : List Iss) (i : Iss) (is₂ : List Iss)
    (fs : List Frame) (cs₁ cs₂ : List Col) (closed : Bool) (st : CSt)
    (hst : flat st = flat (cutState fs (stream fs).length closed)) (hs : Served P fs)
    (hcols : fs.flatMap (colsOf P) = cs₁ ++ cs₂)
    (h₁ : AllMatch is₁ cs₁) (hl : is₁.length = cs₁.length)
    (hnext : ∀ c, cs₂.head? = some c → ¬ Matches i c) :
    (pipeline P depth index (is₁ ++ i :: is₂) st).1 = (is₁.zip cs₁).map mkRes ∧
    (pipeline P depth index (is₁ ++ i :: is₂) st).2.1 =
      .error (if cs₂.isEmpty then .incomplete else .mismatch) := by
  obtain ⟨h1, h2⟩ := cut_yields_zip P depth index (is₁ ++ i :: is₂) fs (stream fs).length closed st hst hs
  rw [whole_total fs _ (Nat.le_refl _), leftover_total fs _ (Nat.le_refl _), List.take_length, hcols] at h1 h2
  cases cs₂ with
  | nil =>
    rw [List.append_nil, zipSpec_short is₁ cs₁ i is₂ _ h₁ hl] at h1 h2
    exact ⟨h1, by rw [h2]; simp [cutEnd, endOfH]⟩
  | cons c cs =>
    rw [zipSpec_first_mismatch is₁ cs₁ i c is₂ cs _ h₁ hl (hnext c rfl)] at h1 h2
    exact ⟨h1, by rw [h2]; simp [endOfH]⟩

/-- **No success on a partial reply**: the number of records is the number of replies in wholly received
frames (capped by the number of requests): the frame the cut falls into, and everything behind it,
yields nothing. -/
theorem no_success_on_partial (P : Frame → Resp) (depth index : Nat) (issued : List Iss) (fs : List Frame)
    (k : Nat) (closed : Bool) (st : CSt)
    (hst : flat st = flat (cutState fs k closed)) (hs : Served P fs)
    (hm : AllMatch issued (fs.flatMap (colsOf P))) :
    (pipeline P depth index issued st).1.length =
      min issued.length ((fs.take (whole k fs)).flatMap (colsOf P)).length := by
  rw [(cut_yields_prefix P depth index issued fs k closed st hst hs hm).1]
  simp

/-- the whole stream delivered and enough replies: every request gets its own reply, no error -/
theorem complete_exchange (P : Frame → Resp) (depth index : Nat) (issued : List Iss) (fs : List Frame)
    (k : Nat) (closed : Bool) (st : CSt)
    (hst : flat st = flat (cutState fs k closed)) (hs : Served P fs)
    (hm : AllMatch issued (fs.flatMap (colsOf P)))
    (hk : (stream fs).length ≤ k) (hn : issued.length ≤ (fs.flatMap (colsOf P)).length) :
    (pipeline P depth index issued st).1 = (issued.zip (fs.flatMap (colsOf P))).map mkRes ∧
    (pipeline P depth index issued st).2.1 = .ok := by
  obtain ⟨h1, h2⟩ := cut_yields_prefix P depth index issued fs k closed st hst hs hm
  rw [whole_total fs k hk, List.take_length] at h1 h2
  exact ⟨h1, by rw [h2, if_pos hn]⟩

/-! ### the whole exchange, Register included -/

/-- **Every cut position of the server-to-client stream** `reg :: fs`, delivered in one block: inside the
Register reply the connector is not created (and which exception says so); behind it the operations see
the rest of the prefix and `cut_yields_prefix` applies. -/
theorem exchange_cut (P : Frame → Resp) (depth : Nat) (issued : List Iss) (reg : Frame) (fs : List Frame)
    (k : Nat) (closed : Bool) (hr : IsRegister reg) (hs : Served P fs)
    (hm : AllMatch issued (fs.flatMap (colsOf P))) :
    exchange P depth issued [.data ((stream (reg :: fs)).take k), termEv closed] =
      exchangeCutSpec P issued reg fs k closed := by
  unfold exchange exchangeCutSpec
  rw [connect_cut reg fs k closed hr]
  by_cases hk : (encodeFrame reg).length ≤ k
  · simp only [hk, if_true]
    obtain ⟨h1, h2⟩ := cut_yields_prefix P depth 0 issued fs (k - (encodeFrame reg).length) closed
      (cutState fs (k - (encodeFrame reg).length) closed) rfl hs hm
    unfold cutState at h1 h2
    rw [h1, h2]
  · simp only [hk, if_false]

/-- … and delivered in blocks of any sizes: the statement the check evaluates on every unmutated exchange
(`IsRegister`, `Served`, `AllMatch` are decided by the driver on the real byte streams). -/
theorem exchange_cut_segmented (P : Frame → Resp) (depth : Nat) (issued : List Iss) (reg : Frame)
    (fs : List Frame) (k : Nat) (closed : Bool) (evs : List Ev)
    (hj : joinData evs = (stream (reg :: fs)).take k) (ha : afterData evs = [termEv closed])
    (hr : IsRegister reg) (hs : Served P fs) (hm : AllMatch issued (fs.flatMap (colsOf P))) :
    exchange P depth issued evs = exchangeCutSpec P issued reg fs k closed := by
  rw [← exchange_cut P depth issued reg fs k closed hr hs hm]
  apply exchange_congr
  · simp [joinData, hj, termEv]; cases closed <;> simp [joinData]
  · simp [afterData, ha, termEv]; cases closed <;> simp [afterData]

/-- the general form, for any well-formed frames: what the check evaluates on every exchange whose frames
parse (mutated streams included) -/
theorem exchange_zip_segmented (P : Frame → Resp) (depth : Nat) (issued : List Iss) (reg : Frame)
    (fs : List Frame) (k : Nat) (closed : Bool) (evs : List Ev)
    (hj : joinData evs = (stream (reg :: fs)).take k) (ha : afterData evs = [termEv closed])
    (hr : IsRegister reg) (hs : Served P fs) :
    exchange P depth issued evs = exchangeZipSpec P issued reg fs k closed := by
  have hx : exchange P depth issued evs =
      exchange P depth issued [.data ((stream (reg :: fs)).take k), termEv closed] := by
    apply exchange_congr
    · simp [joinData, hj, termEv]; cases closed <;> simp [joinData]
    · simp [afterData, ha, termEv]; cases closed <;> simp [afterData]
  rw [hx]
  unfold exchange exchangeZipSpec
  rw [connect_cut reg fs k closed hr]
  by_cases hk : (encodeFrame reg).length ≤ k
  · simp only [hk, if_true]
    obtain ⟨h1, h2⟩ := cut_yields_zip P depth 0 issued fs (k - (encodeFrame reg).length) closed
      (cutState fs (k - (encodeFrame reg).length) closed) rfl hs
    unfold cutState at h1 h2
    rw [h1, h2]
  · simp only [hk, if_false]

/-! ### the proxy's gateway -/

/-- a use failed: `open_gateway` raised out of `__enter__`, or the operations raised inside the `with` -/
def UseOut.Failed : UseOut → Prop
  | .openfail _ _ => True
  | .ran _ _ (.error _) => True
  | .identified _ (some _) => True
  | _ => False

/-- what a use reports, as a value comparable across uses -/
def UseOut.conn : UseOut → Option Nat
  | .openfail n _ => some n
  | .ran n _ _ => some n
  | .identified n _ => some n
  | .refused => none

/-- **Any failure discards the gateway**: after a use that failed — while connecting, while identifying the
device (the exception then leaves `proxy.__enter__`, so `__exit__` never sees it: `open_gateway` itself must
discard the connector), or while operating — `proxy.gateway` is `None`. -/
theorem proxy_failure_discards (P : Frame → Resp) (ident : Bool) (depth : Nat) (conns : List (List Ev))
    (p : Proxy) (issued : List Iss) (h : (proxyUse P ident depth conns p issued).2.Failed) :
    (proxyUse P ident depth conns p issued).1.gateway = none := by
  unfold proxyUse at h ⊢
  cases hg : p.gateway with
  | some g =>
    obtain ⟨m, st⟩ := g
    rw [hg] at h
    dsimp only at h ⊢
    revert h
    by_cases hsf : (!issued.isEmpty && sendFails st) = true
    · simp [hsf]
    · simp only [hsf]
      rcases pipeline P depth 0 issued st with ⟨rs', e', st'⟩
      cases e' <;> simp [UseOut.Failed]
  | none =>
    rw [hg] at h
    dsimp only at h ⊢
    cases hc : conns[p.opened]? with
    | none => rw [hc] at h; simp [UseOut.Failed] at h
    | some evs =>
      rw [hc] at h
      dsimp only at h ⊢
      cases ho : openGateway ident evs with
      | error e => rfl
      | ok st =>
        rw [ho] at h
        dsimp only at h ⊢
        revert h
        rcases pipeline P depth 0 issued st with ⟨rs', e', st'⟩
        cases e' <;> simp [UseOut.Failed]

/-- the same for `proxy.list_identity()` (run by `@maintain_gateway` inside `with proxy:`): when its List Identity
exchange fails — on an established gateway or on one it had to open — no gateway is kept -/
theorem proxy_identity_failure_discards (ident : Bool) (conns : List (List Ev)) (p : Proxy)
    (h : (proxyIdentify ident conns p).2.Failed) : (proxyIdentify ident conns p).1.gateway = none := by
  unfold proxyIdentify at h ⊢
  cases hg : p.gateway with
  | some g =>
    obtain ⟨m, st⟩ := g
    rw [hg] at h
    dsimp only at h ⊢
    revert h
    cases identify st <;> simp [UseOut.Failed]
  | none =>
    rw [hg] at h
    dsimp only at h ⊢
    cases hc : conns[p.opened]? with
    | none => rw [hc] at h; simp [UseOut.Failed] at h
    | some evs =>
      rw [hc] at h
      dsimp only at h ⊢
      cases ho : openGateway ident evs with
      | error e => rfl
      | ok st =>
        rw [ho] at h
        dsimp only at h ⊢
        revert h
        cases identify st <;> simp [UseOut.Failed]

/-- a failed `list_identity()` never moves the connection count backwards, so the connection the next use opens
is a new one -/
theorem proxy_identity_opened_mono (ident : Bool) (conns : List (List Ev)) (p : Proxy) :
    p.opened ≤ (proxyIdentify ident conns p).1.opened := by
  unfold proxyIdentify
  cases p.gateway with
  | some g => obtain ⟨m, st⟩ := g; dsimp only; cases identify st <;> simp
  | none =>
    dsimp only
    cases conns[p.opened]? with
    | none => simp
    | some evs =>
      dsimp only
      cases openGateway ident evs with
      | error e => simp
      | ok st => dsimp only; cases identify st <;> simp

/-- **The next use reconnects**: with no gateway, a use opens the next connection — one never used
before — and its outcome is that of a whole fresh `open_gateway` + operations on it. -/
theorem proxy_reconnects (P : Frame → Resp) (ident : Bool) (depth : Nat) (conns : List (List Ev)) (p : Proxy)
    (issued : List Iss) (evs : List Ev) (hg : p.gateway = none) (hc : conns[p.opened]? = some evs) :
    (proxyUse P ident depth conns p issued).1.opened = p.opened + 1 ∧
    (proxyUse P ident depth conns p issued).2.conn = some p.opened ∧
    (match proxyExchange P ident depth issued evs with
     | .error e => (proxyUse P ident depth conns p issued).2 = .openfail p.opened e
     | .ok (rs, e) => (proxyUse P ident depth conns p issued).2 = .ran p.opened rs e) := by
  unfold proxyUse proxyExchange
  rw [hg]; dsimp only; rw [hc]; dsimp only
  cases openGateway ident evs with
  | error e => exact ⟨rfl, rfl, rfl⟩
  | ok st =>
    dsimp only
    rcases pipeline P depth 0 issued st with ⟨rs', e', st'⟩
    cases e' <;> exact ⟨rfl, rfl, rfl⟩

/-- gateway numbers are below the count of connections opened: a new connection is never a reused one -/
def Proxy.Inv (p : Proxy) : Prop := ∀ n st, p.gateway = some (n, st) → n < p.opened

theorem proxy_conn_fresh (P : Frame → Resp) (ident : Bool) (depth : Nat) (conns : List (List Ev)) (p : Proxy)
    (issued : List Iss) (hinv : p.Inv) :
    (proxyUse P ident depth conns p issued).1.Inv ∧
    p.opened ≤ (proxyUse P ident depth conns p issued).1.opened ∧
    (∀ n, (proxyUse P ident depth conns p issued).2.conn = some n →
      n < (proxyUse P ident depth conns p issued).1.opened) ∧
    (p.gateway = none → ∀ n, (proxyUse P ident depth conns p issued).2.conn = some n → n = p.opened) := by
  unfold proxyUse Proxy.Inv at *
  cases hg : p.gateway with
  | some g =>
    obtain ⟨m, st⟩ := g
    have hm := hinv m st hg
    dsimp only
    by_cases hsf : (!issued.isEmpty && sendFails st) = true
    · simp [hsf, UseOut.conn]; omega
    · simp only [hsf]
      rcases pipeline P depth 0 issued st with ⟨rs', e', st'⟩
      cases e' <;> simp [UseOut.conn] <;> omega
  | none =>
    dsimp only
    cases hc : conns[p.opened]? with
    | none => simp [UseOut.conn, hg]
    | some evs =>
      dsimp only
      cases openGateway ident evs with
      | error e => simp [UseOut.conn]
      | ok st =>
        dsimp only
        rcases pipeline P depth 0 issued st with ⟨rs', e', st'⟩
        cases e' <;> simp [UseOut.conn]

/-- **Every fault position of the gateway-opening phase** (proxy without `identity_default`): a reply stream
cut anywhere inside the Register reply or inside the List Identity reply makes `open_gateway` fail (which
exception is stated by `open_cut`), whatever would have followed. -/
theorem open_fault_fails (P : Frame → Resp) (depth : Nat) (issued : List Iss) (reg idf : Frame) (fs : List Frame)
    (k : Nat) (closed : Bool) (hr : IsRegister reg) (hi : IsIdentity idf)
    (hk : k < (encodeFrame reg).length + (encodeFrame idf).length) :
    ∃ e, proxyExchange P true depth issued [.data ((stream (reg :: idf :: fs)).take k), termEv closed] = .error e := by
  unfold proxyExchange
  rw [open_cut reg idf fs k closed hr hi]
  by_cases h1 : (encodeFrame reg).length ≤ k
  · have h2 : ¬ (encodeFrame idf).length ≤ k - (encodeFrame reg).length := by omega
    simp only [h1, h2, if_true, if_false]; exact ⟨_, rfl⟩
  · simp only [h1, if_false]; exact ⟨_, rfl⟩

/-- the whole stream of a healthy device opens the gateway and leaves exactly the replies to the operations -/
theorem open_whole (ident : Bool) (reg idf : Frame) (fs : List Frame) (closed : Bool) (hr : IsRegister reg)
    (hi : IsIdentity idf) :
    ∃ k, (stream fs).length ≤ k ∧
      openGateway ident [.data (stream (openFrames ident reg idf ++ fs)), termEv closed] =
        .ok (cutState fs k closed) := by
  cases ident with
  | true =>
    refine ⟨(stream (reg :: idf :: fs)).length - (encodeFrame reg).length - (encodeFrame idf).length, ?_, ?_⟩
    · simp only [stream_cons, List.length_append]; omega
    · have h := open_cut reg idf fs (stream (reg :: idf :: fs)).length closed hr hi
      rw [List.take_length] at h
      have h1 : (encodeFrame reg).length ≤ (stream (reg :: idf :: fs)).length := by
        simp only [stream_cons, List.length_append]; omega
      have h2 : (encodeFrame idf).length ≤ (stream (reg :: idf :: fs)).length - (encodeFrame reg).length := by
        simp only [stream_cons, List.length_append]; omega
      rw [if_pos h1, if_pos h2] at h
      simpa [openFrames, cutState] using h
  | false =>
    refine ⟨(stream (reg :: fs)).length - (encodeFrame reg).length, ?_, ?_⟩
    · simp only [stream_cons, List.length_append]; omega
    · have h := open_cut_noident reg fs (stream (reg :: fs)).length closed hr
      rw [List.take_length] at h
      have h1 : (encodeFrame reg).length ≤ (stream (reg :: fs)).length := by
        simp only [stream_cons, List.length_append]; omega
      rw [if_pos h1] at h
      simpa [openFrames, cutState] using h

/-- **… and returns correct data**: with no gateway, if the next connection is to a healthy device — it
delivers the whole stream: Register reply, List Identity reply (when the proxy identifies), and replies `fs`
answering the requests in order — the use yields every request's own reply and no error, on that new
connection. -/
theorem proxy_recovers (P : Frame → Resp) (ident : Bool) (depth : Nat) (conns : List (List Ev)) (p : Proxy)
    (issued : List Iss) (reg idf : Frame) (fs : List Frame) (closed : Bool)
    (hg : p.gateway = none)
    (hc : conns[p.opened]? = some [.data (stream (openFrames ident reg idf ++ fs)), termEv closed])
    (hr : IsRegister reg) (hi : IsIdentity idf) (hs : Served P fs)
    (hm : AllMatch issued (fs.flatMap (colsOf P)))
    (hn : issued.length ≤ (fs.flatMap (colsOf P)).length) :
    (proxyUse P ident depth conns p issued).2 =
      .ran p.opened ((issued.zip (fs.flatMap (colsOf P))).map mkRes) .ok := by
  obtain ⟨k, hk, ho⟩ := open_whole ident reg idf fs closed hr hi
  obtain ⟨h1, h2⟩ := complete_exchange P depth 0 issued fs k closed (cutState fs k closed) rfl hs hm hk hn
  obtain ⟨_, _, h3⟩ := proxy_reconnects P ident depth conns p issued _ hg hc
  unfold proxyExchange at h3
  rw [ho] at h3
  dsimp only at h3
  rw [h3, h1, h2]

/-- **after a failed `list_identity()` the next read on a healthy device returns correct data** -/
theorem identity_failure_then_recovers (P : Frame → Resp) (ident : Bool) (depth : Nat) (conns : List (List Ev))
    (p : Proxy) (issued : List Iss) (reg idf : Frame) (fs : List Frame) (closed : Bool)
    (hfail : (proxyIdentify ident conns p).2.Failed)
    (hc : conns[(proxyIdentify ident conns p).1.opened]? =
      some [.data (stream (openFrames ident reg idf ++ fs)), termEv closed])
    (hr : IsRegister reg) (hi : IsIdentity idf) (hs : Served P fs)
    (hm : AllMatch issued (fs.flatMap (colsOf P)))
    (hn : issued.length ≤ (fs.flatMap (colsOf P)).length) :
    (proxyUse P ident depth conns (proxyIdentify ident conns p).1 issued).2 =
      .ran (proxyIdentify ident conns p).1.opened ((issued.zip (fs.flatMap (colsOf P))).map mkRes) .ok :=
  proxy_recovers P ident depth conns _ issued reg idf fs closed
    (proxy_identity_failure_discards ident conns p hfail) hc hr hi hs hm hn

/-- **The last sentence of the property, at full strength**: a use of the proxy fails — for *whatever* reason:
any fault at any byte offset of the open phase (Register, List Identity) or of the data phase, in either
direction, EOF or silence, lost or foreign replies, on a gateway it already had or on one it was opening — then
the connection is discarded, and the next use, finding a healthy device, reconnects on a connection never
used before and returns every request's own reply without error. -/
theorem proxy_next_use_correct (P : Frame → Resp) (ident : Bool) (depth : Nat) (conns : List (List Ev))
    (p : Proxy) (issued₁ issued₂ : List Iss) (reg idf : Frame) (fs : List Frame) (closed : Bool)
    (hinv : p.Inv)
    (hfail : (proxyUse P ident depth conns p issued₁).2.Failed)
    (hc : conns[(proxyUse P ident depth conns p issued₁).1.opened]? =
      some [.data (stream (openFrames ident reg idf ++ fs)), termEv closed])
    (hr : IsRegister reg) (hi : IsIdentity idf) (hs : Served P fs)
    (hm : AllMatch issued₂ (fs.flatMap (colsOf P)))
    (hn : issued₂.length ≤ (fs.flatMap (colsOf P)).length) :
    (proxyUse P ident depth conns p issued₁).1.gateway = none ∧
    (∀ n, (proxyUse P ident depth conns p issued₁).2.conn = some n →
      n < (proxyUse P ident depth conns p issued₁).1.opened) ∧
    (proxyUse P ident depth conns (proxyUse P ident depth conns p issued₁).1 issued₂).2 =
      .ran (proxyUse P ident depth conns p issued₁).1.opened
        ((issued₂.zip (fs.flatMap (colsOf P))).map mkRes) .ok := by
  have hg := proxy_failure_discards P ident depth conns p issued₁ hfail
  exact ⟨hg, (proxy_conn_fresh P ident depth conns p issued₁ hinv).2.2.1,
    proxy_recovers P ident depth conns _ issued₂ reg idf fs closed hg hc hr hi hs hm hn⟩

/-- … in particular for a fresh proxy whose first connection behaves in any way at all (`evs₀` arbitrary: cut at
any offset of Register / List Identity / data replies, garbage, silence) and whose second connection is to a
healthy device: either the first use succeeded, or the second returns correct data on connection 1. -/
theorem fault_anywhere_then_recovers (P : Frame → Resp) (ident : Bool) (depth : Nat) (evs₀ : List Ev)
    (issued₁ issued₂ : List Iss) (reg idf : Frame) (fs : List Frame) (closed : Bool)
    (hr : IsRegister reg) (hi : IsIdentity idf) (hs : Served P fs)
    (hm : AllMatch issued₂ (fs.flatMap (colsOf P)))
    (hn : issued₂.length ≤ (fs.flatMap (colsOf P)).length) :
    (∃ rs, (proxyUse P ident depth [evs₀, [.data (stream (openFrames ident reg idf ++ fs)), termEv closed]]
        { gateway := none, opened := 0 } issued₁).2 = .ran 0 rs .ok) ∨
    (proxyUse P ident depth [evs₀, [.data (stream (openFrames ident reg idf ++ fs)), termEv closed]]
      (proxyUse P ident depth [evs₀, [.data (stream (openFrames ident reg idf ++ fs)), termEv closed]]
        { gateway := none, opened := 0 } issued₁).1 issued₂).2 =
      .ran 1 ((issued₂.zip (fs.flatMap (colsOf P))).map mkRes) .ok := by
  have hrec := proxy_reconnects P ident depth
    [evs₀, [.data (stream (openFrames ident reg idf ++ fs)), termEv closed]]
    { gateway := none, opened := 0 } issued₁ evs₀ rfl rfl
  obtain ⟨hop, _, hout⟩ := hrec
  cases hx : proxyExchange P ident depth issued₁ evs₀ with
  | error e =>
    rw [hx] at hout
    right
    have hfail : (proxyUse P ident depth
        [evs₀, [.data (stream (openFrames ident reg idf ++ fs)), termEv closed]]
        { gateway := none, opened := 0 } issued₁).2.Failed := by rw [hout]; trivial
    have := proxy_next_use_correct P ident depth _ { gateway := none, opened := 0 } issued₁ issued₂ reg idf fs
      closed (by intro n st h; simp at h) hfail (by rw [hop]; rfl) hr hi hs hm hn
    rw [this.2.2, hop]
  | ok r =>
    obtain ⟨rs, e⟩ := r
    rw [hx] at hout
    cases e with
    | ok => exact Or.inl ⟨rs, hout⟩
    | error er =>
      right
      have hfail : (proxyUse P ident depth
          [evs₀, [.data (stream (openFrames ident reg idf ++ fs)), termEv closed]]
          { gateway := none, opened := 0 } issued₁).2.Failed := by rw [hout]; trivial
      have := proxy_next_use_correct P ident depth _ { gateway := none, opened := 0 } issued₁ issued₂ reg idf fs
        closed (by intro n st h; simp at h) hfail (by rw [hop]; rfl) hr hi hs hm hn
      rw [this.2.2, hop]

/-! ### `synchronous` -/

/-- the repaired `synchronous` has the same result stream as `pipeline`, hence all of the above -/
theorem synchronous_eq_pipeline (P : Frame → Resp) (depth index : Nat) (issued : List Iss) (st : CSt) :
    synchronous P issued st = pipeline P depth index issued st := (pipeline_eq P depth index issued st).symm

/-! ### Non-vacuity and witnesses (tests on concrete values, by evaluation) -/

/-- a Register reply and three Read Tag replies, as the simulator sends them -/
def regFrame : Frame :=
  { cmd := 0x65, session := 0x11223344, status := 0, ctx := [0, 0, 0, 0, 0, 0, 0, 0], options := 0,
    payload := [1, 0, 0, 0] }

def readReply (ctx : Nat) (v : Nat) : Frame :=
  { cmd := 0x6f, session := 0x11223344, status := 0, ctx := [ctx, 0, 0, 0, 0, 0, 0, 0], options := 0,
    payload := [0, 0, 0, 0, 8, 0, 2, 0, 0, 0, 0, 0, 0xb2, 0, 10, 0, 0xcc, 0, 0, 0, 0xc4, 0, v, 0, 0, 0] }

def threeReplies : List Frame := [readReply 0x30 100, readReply 0x31 101, readReply 0x32 102]

def threeIssued : List Iss :=
  [{ idx := 0, ctx := [0x30], svc := 0x4c }, { idx := 1, ctx := [0x31], svc := 0x4c },
   { idx := 2, ctx := [0x32], svc := 0x4c }]

example : IsRegister regFrame := by decide
example : Served parseFrame threeReplies := by decide +kernel
example : AllMatch threeIssued (threeReplies.flatMap (colsOf parseFrame)) := by decide +kernel
example : (encodeFrame regFrame).length = 28 ∧ (stream threeReplies).length = 150 := by decide +kernel

/-- cut inside the second reply (offset 28 + 60), connection closed: one record, for request 0 with the
value of reply 0, then the framing error -/
example : (exchange parseFrame 2 threeIssued [.data ((stream (regFrame :: threeReplies)).take 88), .eof]).toOption =
    some (Prod.mk [{ iss := { idx := 0, ctx := [0x30], svc := 0x4c }, ctx := [0x30],
                     rpy := { svc := 0xcc, status := 0, raw := [0xcc, 0, 0, 0, 0xc4, 0, 100, 0, 0, 0] } }]
            (.error .rxerror)) := by decide +kernel

/-- the same cut delivered in two blocks gives the same outcome -/
example : (exchange parseFrame 2 threeIssued
    [.data ((stream (regFrame :: threeReplies)).take 30),
     .data (((stream (regFrame :: threeReplies)).take 88).drop 30), .eof]).toOption =
    (exchange parseFrame 2 threeIssued [.data ((stream (regFrame :: threeReplies)).take 88), .eof]).toOption := by
  decide +kernel

/-- the hypotheses of `exchange_cut_segmented` / `cut_yields_prefix` on the two-block delivery above -/
example : joinData [.data ((stream (regFrame :: threeReplies)).take 30),
      .data (((stream (regFrame :: threeReplies)).take 88).drop 30), .eof] =
      (stream (regFrame :: threeReplies)).take 88 ∧
    afterData [.data ((stream (regFrame :: threeReplies)).take 30),
      .data (((stream (regFrame :: threeReplies)).take 88).drop 30), Ev.eof] = [termEv true] := by decide +kernel

example : flat { buf := (stream threeReplies).take 20, evs := [.data (((stream threeReplies).take 60).drop 20), .eof],
                 pend := [] } = flat (cutState threeReplies 60 true) := by decide +kernel

/-- the hypotheses of `lost_reply_detected`: the reply to the second request is lost -/
example : Served parseFrame [readReply 0x30 100, readReply 0x32 102] ∧
    AllMatch [threeIssued[0]] ((colsOf parseFrame (readReply 0x30 100))) ∧
    (∀ c, (colsOf parseFrame (readReply 0x32 102)).head? = some c → ¬ Matches threeIssued[1] c) := by
  decide +kernel

example : (exchange parseFrame 2 threeIssued
    [.data (stream [regFrame, readReply 0x30 100, readReply 0x32 102]), .quiet]).toOption =
    some (Prod.mk [{ iss := { idx := 0, ctx := [0x30], svc := 0x4c }, ctx := [0x30],
                     rpy := { svc := 0xcc, status := 0, raw := [0xcc, 0, 0, 0, 0xc4, 0, 100, 0, 0, 0] } }]
            (.error .mismatch)) := by decide +kernel

/-- replies in the wrong order (a dropped or overtaken frame) are detected, not mispaired -/
example : (exchange parseFrame 2 threeIssued
    [.data (stream [regFrame, readReply 0x31 101, readReply 0x30 100, readReply 0x32 102]), .eof]).toOption =
    some ([], .error .mismatch) := by decide +kernel

/-- **The code before the `fix:` commit violates the property**: `synchronous` (what `operate` and
`proxy.read` use for `depth = 0`) with the connection closed exactly between the Register reply and
the first reply (offset 28) yields no record for three requests and ends **without** an error; the
repaired code raises. -/
theorem synchronousOld_short_silently :
    ∃ st, (connect [.data ((stream (regFrame :: threeReplies)).take 28), .eof]).toOption = some st ∧
      (synchronousOld parseFrame threeIssued st).1 = [] ∧
      (synchronousOld parseFrame threeIssued st).2.1 = .ok ∧
      (synchronous parseFrame threeIssued st).2.1 = .error .incomplete :=
  ⟨{ buf := [], evs := [.eof], pend := [] }, by decide +kernel⟩

/-- … and the same at the boundary after the first reply (offset 78), with silence instead of EOF -/
theorem synchronousOld_short_silently' :
    ∃ st, (connect [.data ((stream (regFrame :: threeReplies)).take 78), .quiet]).toOption = some st ∧
      (synchronousOld parseFrame threeIssued st).1.length = 1 ∧
      (synchronousOld parseFrame threeIssued st).2.1 = .ok ∧
      (synchronous parseFrame threeIssued st).2.1 = .error .incomplete :=
  ⟨{ buf := ((stream (regFrame :: threeReplies)).take 78).drop 28, evs := [.quiet], pend := [] },
    by decide +kernel⟩

/-- a List Identity reply (payload abbreviated: the model's `identify` only looks at command and status) -/
def identFrame : Frame :=
  { cmd := 0x63, session := 0x11223344, status := 0, ctx := [0, 0, 0, 0, 0, 0, 0, 0], options := 0,
    payload := [1, 0, 0x0c, 0, 4, 0, 1, 0, 0, 0] }

example : IsIdentity identFrame := by decide

def showUseOut : UseOut → Nat × Nat × Option Err
  | .ran n rs .ok => (n, rs.length, none)
  | .ran n rs (.error e) => (n, rs.length, some e)
  | .openfail n _ => (n, 1000, none)
  | .identified n none => (n, 2000, none)
  | .identified n (some _) => (n, 2001, none)
  | .refused => (99, 0, none)

/-- the proxy: first connection cut inside reply 1, second connection whole: failure, gateway discarded,
reconnect on connection 1, correct data -/
example : (proxyRun parseFrame false 2
      [[.data ((stream (regFrame :: threeReplies)).take 88), .eof],
       [.data (stream (regFrame :: threeReplies)), .quiet]]
      { gateway := none, opened := 0 } [.read threeIssued, .read threeIssued]).map showUseOut =
    [(0, 1, some .rxerror), (1, 3, none)] := by decide +kernel

/-- the proxy identifying its device: first connection cut inside the List Identity reply (offset 28 + 10):
`open_gateway` fails, nothing is kept; the next use opens connection 1 and gets all three values -/
example : (proxyRun parseFrame true 2
      [[.data ((stream (regFrame :: identFrame :: threeReplies)).take 38), .eof],
       [.data (stream (regFrame :: identFrame :: threeReplies)), .quiet]]
      { gateway := none, opened := 0 } [.read threeIssued, .read threeIssued]).map showUseOut =
    [(0, 1000, none), (1, 3, none)] := by decide +kernel

/-- `list_identity()` on an established gateway whose reply is lost (silence): it fails, the gateway is
discarded, the next read reconnects on connection 1 -/
example : (proxyRun parseFrame false 2
      [[.data (stream (regFrame :: threeReplies)), .quiet],
       [.data (stream (regFrame :: threeReplies)), .quiet]]
      { gateway := none, opened := 0 } [.read threeIssued, .identity, .read threeIssued]).map showUseOut =
    [(0, 3, none), (0, 2001, none), (1, 3, none)] := by decide +kernel

/-- the peer aborts the idle connection after the first use: the next use's first send raises, the gateway is
discarded, the use after it reconnects -/
example : (proxyRun parseFrame false 2
      [[.data (stream (regFrame :: threeReplies)), .reset],
       [.data (stream (regFrame :: threeReplies)), .quiet]]
      { gateway := none, opened := 0 } [.read threeIssued, .read threeIssued, .read threeIssued]).map showUseOut =
    [(0, 3, none), (0, 0, some .senderror), (1, 3, none)] := by decide +kernel

/-! ### Tie to what the live source says (regenerated on every run by `harness/extract.d/clientrx.py`) -/

/-- (offset, width) of consecutive fields of the given widths -/
def layoutOf : Nat → List Nat → List (Nat × Nat)
  | _, [] => []
  | o, w :: ws => (o, w) :: layoutOf (o + w) ws

/-- the header layout probed on the live `enip_machine` (field order, offsets, widths, total length, the
length field announcing the payload) is the one `takeFrame` / `encodeFrame` use; the command and service
codes of the model are those of the live parser tables; the sender context is NUL-padded to 8 bytes and
NUL-stripped on receipt -/
theorem generated_constants_agree :
    Generated.crxHeaderLayout = layoutOf 0 [2, 2, 4, 4, 8, 4] ∧
    Generated.crxHeaderFields = ["command", "length", "session_handle", "status", "sender_context", "options"] ∧
    Generated.crxHeaderLen = 24 ∧
    (∀ f : Frame, f.WF → (encodeFrame f).length = Generated.crxHeaderLen + f.payload.length) ∧
    cmdRegister = Generated.crxCmdRegister ∧ cmdSendRRData ∈ Generated.crxCmdSendData ∧
    serviceMultipleRpy = Generated.crxMultipleRpy ∧ dataReplyServices = Generated.crxDataRpy ∧
    Generated.crxContextPadsTo8StripsNul = true := by
  refine ⟨by decide, by decide, by decide, ?_, by decide, by decide, by decide, by decide, by decide⟩
  intro f hf; exact encodeFrame_length f hf

end Cpppo.ClientRx
