import Cpppo.Proofs.Dotdict
import Cpppo.Proofs.DotdictText
import Cpppo.Proofs.DotdictKeys
import Cpppo.Proofs.DotdictHeap
import Cpppo.Generated.Tables

/-!
# C16 — dotdict behaves as a tree of nested mappings addressed by dotted paths

Property theorems about the model `Cpppo.Dotdict` (`Model/Dotdict.lean`), which mirrors `dotdict.py` as it
is (with the two applied `fix:` commits: reserved names refused for intermediate levels, `__copy__` copies
the mappings held in lists).  The behaviour before those commits is kept (`fixReserved := false`,
`Heap.copyObj false`) and shown to violate the property on a witness.  One defect of the code as it is is a
**known finding**: a key that reduces to one leading dot and a single name (`'.c'`) is resolved to that name
twice.  The theorems that it touches are stated in full (`ResolveNormal`, `DotdotAddressesParent`,
`LeadingDotsIgnored`), proved as `…_partial` under the decidable hypothesis `reducesToDotName key = false`,
proved in full for the alternative `_resolve` (`…_repaired`, `fixResolve := true`), and refuted for the code
as it is on the witness (`…_fails`, `leading_dot_single_component`).

Layers:
* text: `chain` iterates `_resolve` as the nested `target[rest]` calls do; `resolve_normal_partial` says it
  computes the stack meaning of the dotted path (`SKey.path`).
* tree: `getK`/`setK`/`delK`/`popK`/… over the resolved segments; the theorems below hold for every
  tree, every segment list satisfying the decidable `GoodSeg`, every value.

Quantifiers: all trees, all keys (`SKey`: any number of leading dots, any number of components, any run
of dots after each), all segment paths, all values, all operation sequences — no bound on sizes.
-/
namespace Cpppo.Dotdict

deriving instance DecidableEq for Except

/-- the code as it is: reserved names read from the live class (`dotdict.__invalid_keys__`),
`_resolve` with its stale `rest` (`fixResolve = false`), reserved names refused for intermediate levels -/
def liveCfg : Cfg := { reserved := Generated.dotdictInvalidKeys }

/-- the alternative in which `_resolve` clears `rest` (not applied: the library relies on `'.name'`
keys being written and read through the same detour) -/
def repairedCfg : Cfg := { liveCfg with fixResolve := true }

/-! ## 1. `'..'` components address the parent level

`k.path` is computed by the stack walk `go`: a component is pushed, a run of `d` dots after it pops
`d - 1` levels (never above the root), leading dots are ignored; a path that ends at the root is
refused with `KeyError`. -/

/-- **Full statement**: `_resolve`, iterated as the nested calls do, yields exactly the levels the
dotted path means, for every key structure whose components are proper texts. -/
def ResolveNormal (fixed : Bool) : Prop :=
  ∀ k : SKey, k.WF → k.render ≠ [] → chain fixed k.render = k.path

/-- **Proved for the code as it is, except for keys that reduce to one leading dot and a single name**
(`reducesToDotName`, a decidable predicate on the key text: after the `'..'` loop the text is `.name`). -/
theorem resolve_normal_partial (k : SKey) (hw : k.WF) (hne : k.render ≠ [])
    (hok : reducesToDotName k.render = false) : chain false k.render = k.path :=
  chain_render false k hw hne (Or.inr hok)

/-- the full statement holds for the alternative `_resolve` that clears `rest` -/
theorem resolve_normal_repaired : ResolveNormal true :=
  fun k hw hne => chain_render true k hw hne (Or.inl rfl)

/-- **The full statement is false for the code as it is** (known finding): `'.c'` is a well-formed key
(one leading dot, the component `c`) that means the level `c`, but resolves to `c` inside `c`. -/
theorem resolve_normal_fails : ¬ ResolveNormal false := by
  intro h
  have hw : (SKey.mk 1 [("c".toList, 0)]).WF := by
    simp [SKey.WF, WFC, TextSeg, balanced, opens, closes]
  have := h ⟨1, [("c".toList, 0)]⟩ hw (by decide +kernel)
  exact absurd this (by decide +kernel)

/-- **Witness of the known finding on the operations**: with `a = 2` stored, `d['.a']` raises `KeyError`
and `'.a' in d` is `False` (the input replayed on the implementation by every run);
`d['.c'] = 2` creates `d.c.c`; the alternative `_resolve` gives `2` / `d.c`. -/
theorem leading_dot_single_component :
    chain false ".c".toList = ⟨["c".toList, "c".toList], none⟩ ∧
    getT liveCfg (.node [("a".toList, .leaf 2)]) ".a".toList = .error .key ∧
    containsT liveCfg (.node [("a".toList, .leaf 2)]) ".a".toList = .ok false ∧
    (setT liveCfg (.node []) ".c".toList (.tree (.leaf 2))).1
      = .node [("c".toList, .node [("c".toList, .leaf 2)])] ∧
    getT repairedCfg (.node [("a".toList, .leaf 2)]) ".a".toList = .ok (.leaf 2) ∧
    (setT repairedCfg (.node []) ".c".toList (.tree (.leaf 2))).1 = .node [("c".toList, .leaf 2)] := by
  decide +kernel

/-- lookup by key text is lookup along the meaning of the key (the two layers compose) -/
theorem lookup_by_meaning_partial (cfg : Cfg) (t : Tree) (k : SKey) (hw : k.WF) (hne : k.render ≠ [])
    (hok : cfg.fixResolve = true ∨ reducesToDotName k.render = false) :
    getT cfg t k.render = getK (rootKvs t) k.path.segs k.path.fin := by
  simp only [getT, chain_render cfg.fixResolve k hw hne hok]

/-- **Full statement**: `p.x..q` addresses what `p.q` addresses — a component followed by two dots is
skipped, whatever it is (it is not even looked up), at any depth and after any prefix. -/
def DotdotAddressesParent (fixed : Bool) : Prop :=
  ∀ (ld : Nat) (pre : List (Name × Nat)) (x : Name) (q : List (Name × Nat)), q ≠ [] →
    WFC (pre ++ (x, 2) :: q) → WFC (pre ++ q) →
    chain fixed (SKey.render ⟨ld, pre ++ (x, 2) :: q⟩) = chain fixed (SKey.render ⟨ld, pre ++ q⟩)

theorem dotdot_addresses_parent_partial (fixed : Bool) (ld : Nat) (pre : List (Name × Nat)) (x : Name)
    (q : List (Name × Nat)) (hq : q ≠ []) (hw1 : WFC (pre ++ (x, 2) :: q)) (hw2 : WFC (pre ++ q))
    (hok1 : fixed = true ∨ reducesToDotName (SKey.render ⟨ld, pre ++ (x, 2) :: q⟩) = false)
    (hok2 : fixed = true ∨ reducesToDotName (SKey.render ⟨ld, pre ++ q⟩) = false) :
    chain fixed (SKey.render ⟨ld, pre ++ (x, 2) :: q⟩) = chain fixed (SKey.render ⟨ld, pre ++ q⟩) := by
  have hne : ∀ (c : List (Name × Nat)), WFC c → c ≠ [] → SKey.render ⟨ld, c⟩ ≠ [] := by
    intro c hc hcne h
    have := renderComps_ne hc hcne
    simp only [SKey.render, List.append_eq_nil_iff] at h
    exact this h.2
  rw [chain_render fixed ⟨ld, pre ++ (x, 2) :: q⟩ hw1 (hne _ hw1 (by simp)) hok1,
    chain_render fixed ⟨ld, pre ++ q⟩ hw2 (hne _ hw2 (by simp [hq])) hok2]
  simp only [SKey.path, SKey.meaning]
  rw [go_append pre _ _ (by simp), go_append pre q _ hq]
  congr 1
  cases q with
  | nil => exact absurd rfl hq
  | cons c t => rw [go_cons_cons]; simp

theorem dotdot_addresses_parent_repaired : DotdotAddressesParent true :=
  fun ld pre x q hq hw1 hw2 =>
    dotdot_addresses_parent_partial true ld pre x q hq hw1 hw2 (Or.inl rfl) (Or.inl rfl)

/-- false for the code as it is: `'.x..c'` resolves to `c`, `'.c'` to `c` inside `c` -/
theorem dotdot_addresses_parent_fails : ¬ DotdotAddressesParent false := by
  intro h
  have := h 1 [] "x".toList [("c".toList, 0)] (by simp)
    (by simp [WFC, TextSeg, balanced, opens, closes]) (by simp [WFC, TextSeg, balanced, opens, closes])
  exact absurd this (by decide +kernel)

/-- **Full statement**: leading dots are ignored. -/
def LeadingDotsIgnored (fixed : Bool) : Prop :=
  ∀ (ld : Nat) (comps : List (Name × Nat)), WFC comps → comps ≠ [] →
    chain fixed (SKey.render ⟨ld, comps⟩) = chain fixed (SKey.render ⟨0, comps⟩)

theorem leading_dots_ignored_partial (fixed : Bool) (ld : Nat) (comps : List (Name × Nat)) (hw : WFC comps)
    (hne : comps ≠ [])
    (hok1 : fixed = true ∨ reducesToDotName (SKey.render ⟨ld, comps⟩) = false)
    (hok2 : fixed = true ∨ reducesToDotName (SKey.render ⟨0, comps⟩) = false) :
    chain fixed (SKey.render ⟨ld, comps⟩) = chain fixed (SKey.render ⟨0, comps⟩) := by
  have h : ∀ n, SKey.render ⟨n, comps⟩ ≠ [] := by
    intro n h
    have := renderComps_ne hw hne
    simp only [SKey.render, List.append_eq_nil_iff] at h
    exact this h.2
  rw [chain_render fixed ⟨ld, comps⟩ hw (h ld) hok1, chain_render fixed ⟨0, comps⟩ hw (h 0) hok2]
  rfl

theorem leading_dots_ignored_repaired : LeadingDotsIgnored true :=
  fun ld comps hw hne => leading_dots_ignored_partial true ld comps hw hne (Or.inl rfl) (Or.inl rfl)

/-- false for the code as it is: `'.c'` does not resolve as `'c'` does -/
theorem leading_dots_ignored_fails : ¬ LeadingDotsIgnored false := by
  intro h
  have := h 1 [("c".toList, 0)] (by simp [WFC, TextSeg, balanced, opens, closes]) (by simp)
  exact absurd this (by decide +kernel)

/- non-vacuity: keys of the documentation and of the parsers (`'..length'`, `'...command'`); the
excluded class is small: leading dots before two or more components are fine -/
example : (SKey.mk 0 [("a".toList, 1), ("b".toList, 1), ("c".toList, 3), ("d".toList, 0)]).WF := by
  simp [SKey.WF, WFC, TextSeg, balanced, opens, closes]
example : reducesToDotName "a.b.c...d".toList = false ∧ reducesToDotName "..length".toList = false ∧
    reducesToDotName ".a.b".toList = false ∧ reducesToDotName "a.....a.b".toList = false ∧
    reducesToDotName ".c".toList = true ∧ reducesToDotName "a...c".toList = true := by decide +kernel
example : chain false "a.b.c...d".toList = ⟨["a".toList, "d".toList], none⟩ := by decide +kernel
example : chain false "..length".toList = ⟨["length".toList], none⟩ := by decide +kernel
example : chain false ".a.b".toList = ⟨["a".toList, "b".toList], none⟩ := by decide +kernel
example : chain false "l[1].x...l[0]".toList = ⟨["l[0]".toList], none⟩ := by decide +kernel
example : chain false "a.b..".toList = ⟨["a".toList], none⟩ := by decide +kernel
example : chain false "a..".toList = ⟨[], some .key⟩ := by decide +kernel

/-! ## 1b. index expressions: the first segment is split off where its brackets balance -/

/-- **`_resolve` splits an indexed first segment off bracket-balanced**, whatever dots its index
expression contains (the documented `d['a[a[0].b-1].b']`): the key is the piece `p0` (which contains
`[`), the dot-free pieces `ps` and then `tail`, all joined by single dots; the text assembled so far is
unbalanced before each of the pieces and balanced after the last.  Then `mine` is exactly that
balanced text and `rest` is `tail`. -/
theorem first_segment_bracket_balanced (fixed : Bool) (p0 : Name) (ps : List Name) (tail : Name)
    (h0 : p0 ≠ []) (h0d : '.' ∉ p0) (h0b : '[' ∈ p0) (hp : ∀ p ∈ ps, '.' ∉ p)
    (hu : ∀ i, i < ps.length → balanced (accAfter p0 (ps.take i)) = false)
    (hb : balanced (accAfter p0 ps) = true)
    (hdd : dotdotStep (p0 ++ '.' :: rjoin ps tail) = none) :
    resolve fixed (p0 ++ '.' :: rjoin ps tail) = .ok (accAfter p0 ps, some tail) :=
  resolve_bracketed fixed p0 ps tail h0 h0d h0b hp hu hb hdd

def tIdx : Tree := .node [("a".toList, .list [.node [("b".toList, .leaf 1), ("n".toList, .leaf 2)],
    .node [("b".toList, .leaf 11)], .node [("b".toList, .leaf 22)]]),
  ("sel".toList, .node [("idx".toList, .leaf 1)])]

/- non-vacuity: the documented key is an instance (`p0 = a[a[0]`, `ps = [b-1]]`, `tail = b`), and the
index expressions evaluate against the peer values -/
example : rjoin ["b-1]".toList] "b".toList = "b-1].b".toList ∧
    accAfter "a[a[0]".toList ["b-1]".toList] = "a[a[0].b-1]".toList ∧
    balanced "a[a[0]".toList = false ∧ balanced "a[a[0].b-1]".toList = true ∧
    dotdotStep "a[a[0].b-1].b".toList = none := by decide +kernel
example : chain false "a[a[0].b-1].b".toList = ⟨["a[a[0].b-1]".toList, "b".toList], none⟩ := by decide +kernel
example : getT liveCfg tIdx "a[a[0].b-1].b".toList = .ok (.leaf 1) ∧
    getT liveCfg tIdx "a[a[sel.idx-1].n].b".toList = .ok (.leaf 22) ∧
    getT liveCfg tIdx "sel.idx...a[a[0].b].b".toList = .ok (.leaf 11) ∧
    containsT liveCfg tIdx "a[a[0].n].b".toList = .ok true ∧
    getT liveCfg tIdx "a[a[0].zz].b".toList = .error .attr ∧
    getT liveCfg tIdx "a[zz].b".toList = .error .name ∧
    getT liveCfg tIdx "a[a[0].n+1].b".toList = .error .index ∧
    getT liveCfg tIdx "a[sel].b".toList = .error .type := by decide +kernel
example : (setT liveCfg tIdx "a[a[0].n].b".toList (.tree (.leaf 33))).2 = none ∧
    getT liveCfg (setT liveCfg tIdx "a[a[0].n].b".toList (.tree (.leaf 33))).1 "a[2].b".toList = .ok (.leaf 33) := by
  decide +kernel

/-! ## 2. lookup after assignment -/

/-- **Looking up the path just assigned returns the stored value** (any tree, any depth, through
existing levels, created levels and list elements; `tv` is the value as stored: for a plain dict,
its conversion). -/
theorem get_set_same (cfg : Cfg) (segs : List Name) (kvs kvs' : Kvs) (tv : Tree)
    (hgood : ∀ m ∈ segs, GoodSeg m = true) (hne : segs ≠ [])
    (hset : setK cfg kvs segs none (.ok tv) = (kvs', none)) :
    getK kvs' segs none = .ok tv :=
  getK_setK_same cfg segs kvs kvs' tv hgood hne hset

/-- the same, by key text -/
theorem getT_setT_same (cfg : Cfg) (t : Tree) (key : Name) (v : PVal) (tv : Tree) (t' : Tree)
    (segs : List Name) (hc : chain cfg.fixResolve key = ⟨segs, none⟩) (hne : segs ≠ [])
    (hgood : ∀ m ∈ segs, GoodSeg m = true) (hv : conv cfg v = .ok tv)
    (hset : setT cfg t key v = (t', none)) : getT cfg t' key = .ok tv := by
  simp only [setT, hc, hv] at hset
  cases hs : setK cfg (rootKvs t) segs none (.ok tv) with
  | mk kvs' e =>
    simp only [hs, Prod.mk.injEq] at hset
    obtain ⟨rfl, rfl⟩ := hset
    simp only [getT, hc, rootKvs]
    exact getK_setK_same cfg segs _ kvs' tv hgood hne hs

/-- **An assignment does not disturb an independent path** (`Indep`: the two paths part ways at an
entry of some level): whatever the assignment does — succeed, or fail half-way after creating
levels — a lookup of the other path succeeds exactly when it did, with the same value. -/
theorem get_set_other (cfg : Cfg) {p q : List Name} (h : Indep p q) (kvs : Kvs) (fin : Option Err)
    (cv : Except Err Tree) (v : Tree) (hp : ∀ m ∈ p, GoodSeg m = true) (hq : ∀ m ∈ q, GoodSeg m = true) :
    getK (setK cfg kvs p fin cv).1 q none = .ok v ↔ getK kvs q none = .ok v :=
  getK_setK_indep cfg h kvs fin cv v hp hq

def tSample : Tree := .node [("a".toList, .node [("b".toList, .leaf 1)]),
  ("l".toList, .list [.leaf 1, .node [("x".toList, .leaf 1)]])]

/- non-vacuity: an assignment through a '..' detour and a list element, and what it leaves alone -/
example : GoodSeg "l[1]".toList = true ∧ GoodSeg "y".toList = true := by decide +kernel
example : setT liveCfg tSample "l[1].q..y".toList (.pdict [("z.w".toList, .tree (.leaf 7))])
    = (.node [("a".toList, .node [("b".toList, .leaf 1)]),
        ("l".toList, .list [.leaf 1, .node [("x".toList, .leaf 1),
          ("y".toList, .node [("z".toList, .node [("w".toList, .leaf 7)])])]])], none) := by decide +kernel
example : Indep ["l[1]".toList, "y".toList] ["a".toList, "b".toList] :=
  Indep.head (by decide +kernel)
example : Indep ["a".toList, "c".toList] ["a".toList, "b".toList] :=
  Indep.tail (Indep.head (by decide +kernel))

/-! ## 3. membership agrees with lookup -/

/-- **`key in d` is `True` exactly when `d[key]` succeeds, `False` exactly when it raises `KeyError`,
and raises the same exception in every other case.** -/
theorem contains_iff_get (cfg : Cfg) (t : Tree) (k : Name) :
    (containsT cfg t k = .ok true ↔ ∃ v, getT cfg t k = .ok v) ∧
    (containsT cfg t k = .ok false ↔ getT cfg t k = .error .key) ∧
    (∀ e, containsT cfg t k = .error e ↔ (getT cfg t k = .error e ∧ e ≠ .key)) := by
  unfold containsT
  cases h : getT cfg t k with
  | ok v => simp
  | error e => cases e <;> simp

example : containsT liveCfg tSample "a.x..b".toList = .ok true ∧
    containsT liveCfg tSample "a.x".toList = .ok false ∧
    containsT liveCfg tSample "l[5]".toList = .error .index := by decide +kernel

/-! ## 4. key iteration -/

/-- **Every listed key looks up to the listed value and is a member** — for every dotdict whose raw
keys are identifiers, with lists of mappings of any length: an element of a list of ten or more
mappings is listed with a right-aligned index (`rows[ 3].v`), which reads back as the same element
(`parseSeg_idxSeg`, `parseIdx_padIdx`: the decimal digits `natDigits` writes are read back by `parseInt`). -/
theorem listed_key_looks_up (cfg : Cfg) (kvs : Kvs)
    (hw : wfK isIdent kvs = true) (k : Name) (v : Tree)
    (h : (k, v) ∈ items (.node kvs)) :
    getT cfg (.node kvs) k = .ok v ∧ containsT cfg (.node kvs) k = .ok true :=
  items_lookup cfg kvs hw k v h

/-- a right-aligned index, whatever the field width, reads back as the index -/
theorem padded_index_reads_back (w n : Nat) : parseIdx (padIdx w n) = some (n : Int) :=
  parseIdx_padIdx w n

/-- **Key iteration lists exactly the leaf paths**: `(key, v)` is yielded iff `key` is the dotted
form of a path that descends through non-empty levels by name and through non-empty lists of
mappings by `name[i]`, and ends at a value `v` that is neither (`LeafAt`). -/
theorem keys_are_leaf_paths (kvs : Kvs) {P : Name → Bool} (hw : wfK P kvs = true) (k : Name) (v : Tree) :
    (k, v) ∈ items (.node kvs) ↔ ∃ p, k = joinDots p ∧ LeafAt kvs p v := by
  simp only [items, itemsK_eq, List.mem_map, Prod.mk.injEq, Prod.exists]
  constructor
  · rintro ⟨p, v', hm, rfl, rfl⟩
    exact ⟨p, rfl, (itemsP_leafAt kvs p v' hw).mp hm⟩
  · rintro ⟨p, rfl, hl⟩
    exact ⟨p, v, (itemsP_leafAt kvs p v hw).mpr hl, rfl, rfl⟩

/-- the listed values are leaves: never a non-empty level, never a non-empty list of mappings -/
theorem listed_values_are_leaves (kvs : Kvs) {P : Name → Bool} (hw : wfK P kvs = true) (k : Name) (v : Tree)
    (h : (k, v) ∈ items (.node kvs)) : IsLeafVal v := by
  obtain ⟨p, _, hl⟩ := (keys_are_leaf_paths kvs hw k v).mp h
  exact leafAt_isLeaf hl

def tIter : Tree := .node [("a".toList, .node [("b".toList, .leaf 1), ("e".toList, .node [])]),
  ("l".toList, .list [.node [("x".toList, .leaf 1)], .node [], .node [("y".toList, .node [("z".toList, .leaf 2)])]]),
  ("m".toList, .list [.leaf 1, .node [("x".toList, .leaf 1)]])]

example : wfK isIdent (rootKvs tIter) = true := by decide +kernel

/-- eleven mappings in a list: the listed keys carry right-aligned indices and look up -/
def tRows : Tree := .node [("rows".toList, .list ((List.range 11).map fun i => .node [("v".toList, .leaf (.int (Int.ofNat i)))])),
  ("n".toList, .leaf .none)]

example : keys tRows = ["rows[ 0].v", "rows[ 1].v", "rows[ 2].v", "rows[ 3].v", "rows[ 4].v", "rows[ 5].v",
    "rows[ 6].v", "rows[ 7].v", "rows[ 8].v", "rows[ 9].v", "rows[10].v", "n"].map String.toList := by
  decide +kernel
example : getT liveCfg tRows "rows[ 3].v".toList = .ok (.leaf 3) ∧
    getT liveCfg tRows "rows[10].v".toList = .ok (.leaf 10) ∧
    getT liveCfg tRows "rows[03].v".toList = .error .oom := by decide +kernel

/-- a stored `None` is a value like any other: the path is in the tree, `setdefault` leaves it alone -/
example : containsT liveCfg tRows "n".toList = .ok true ∧ getT liveCfg tRows "n".toList = .ok (.leaf .none) ∧
    setdefaultT liveCfg tRows "n".toList (.tree (.leaf 5)) = (tRows, .ok (.leaf .none)) := by decide +kernel
example : keys tIter = ["a.b".toList, "a.e".toList, "l[0].x".toList, "l[2].y.z".toList, "m".toList] := by decide +kernel

/-! ## 5. deletion -/

/-- **Deleting a non-empty level is refused**: `KeyError`, and nothing changes. -/
theorem del_refuses_nonempty (cfg : Cfg) (segs : List Name) (kvs : Kvs) (x : Name × Tree) (sub : Kvs)
    (hgood : ∀ m ∈ segs, GoodSeg m = true) (hne : segs ≠ [])
    (hget : getK kvs segs none = .ok (.node (x :: sub))) :
    delK cfg kvs segs none = (kvs, some .key) :=
  delK_refuses_nonempty cfg segs kvs x sub hgood hne hget

/-- **Deleting a leaf or an empty level removes it**: the deletion succeeds and the path is absent
afterwards (`KeyError`). -/
theorem del_leaf_removes (cfg : Cfg) {P : Name → Bool} (segs : List Name) (kvs : Kvs) (v : Tree)
    (hw : wfK P kvs = true) (hgood : ∀ m ∈ segs, GoodSeg m = true)
    (hlast : ∀ l, segs.getLast? = some l → '[' ∉ l) (hne : segs ≠ [])
    (hget : getK kvs segs none = .ok v) (hv : ∀ x sub, v ≠ .node (x :: sub)) :
    ∃ kvs', delK cfg kvs segs none = (kvs', none) ∧ getK kvs' segs none = .error .key :=
  delK_leaf cfg segs kvs v hw hgood hlast hne hget hv

example : delT liveCfg tSample "a".toList = (tSample, some .key) := by decide +kernel
example : (delT liveCfg tSample "l[1].x".toList).2 = none ∧
    getT liveCfg (delT liveCfg tSample "l[1].x".toList).1 "l[1].x".toList = .error .key := by decide +kernel

/-- **`pop( path, default )` of an absent entry of an existing level returns the default and leaves the
tree unchanged, at any depth** — a pop by dotted path is the pop of the level that holds the last
component (`AbsentLast`: every level down to the last component exists, the last component is not an
entry of its level; `.ok none` = "the default was returned"). -/
theorem pop_default_absent (segs : List Name) (kvs : Kvs) (h : AbsentLast kvs segs) :
    popK kvs segs none true = (kvs, .ok none) :=
  popK_default_absent segs kvs h

example : AbsentLast (rootKvs tSample) ["a".toList, "zz".toList] := ⟨_, rfl, rfl⟩
example : popT liveCfg tSample "a.zz".toList true = (tSample, .ok none) ∧
    popT liveCfg tSample "a.b.c...zz".toList true = (tSample, .ok none) ∧
    popT liveCfg tSample "a.zz".toList false = (tSample, .error .key) ∧
    popT liveCfg tSample "q.zz".toList true = (tSample, .error .key) := by decide +kernel

/-! ## 6. reserved method names are refused as keys -/

/-- **An assignment whose path has a reserved plain component is refused** (repaired code: also when
the component is an intermediate level). -/
theorem reserved_refused (cfg : Cfg) (hfix : cfg.fixReserved = true) : ∀ (segs : List Name) (kvs : Kvs)
    (cv : Except Err Tree), (∀ m ∈ segs, GoodSeg m = true) →
    (∃ m ∈ segs, '[' ∉ m ∧ isReserved cfg m = true) → (setK cfg kvs segs none cv).2 ≠ none
  | [], _, _, _, h => by obtain ⟨m, hm, _⟩ := h; simp at hm
  | m :: rest, kvs, cv, hgood, hres => by
    have hgr : ∀ x ∈ rest, GoodSeg x = true := fun x hx => hgood x (by simp [hx])
    unfold setK
    rw [restTruthy_good rest hgr]
    by_cases hr : rest = []
    · subst hr
      obtain ⟨m', hm', hb, hrv⟩ := hres
      simp only [List.mem_singleton] at hm'
      subst hm'
      simp only [decide_true, Bool.not_true, Bool.false_eq_true, if_false, hb, false_and, hrv, if_true]
      cases cv <;> simp
    · simp only [hr, decide_false, Bool.not_false, if_true]
      by_cases hb : '[' ∈ m
      · have hres' : ∃ m' ∈ rest, '[' ∉ m' ∧ isReserved cfg m' = true := by
          obtain ⟨m', hm', hb', hrv⟩ := hres
          simp only [List.mem_cons] at hm'
          rcases hm' with rfl | hm'
          · exact absurd hb hb'
          · exact ⟨m', hm', hb', hrv⟩
        simp only [hb, if_true]
        cases evalSeg kvs m with
        | error e => simp
        | ok t =>
          cases t with
          | leaf _ => simp
          | list _ => simp
          | node sub =>
            have ih := reserved_refused cfg hfix rest sub cv hgr hres'
            simp only
            cases hs : setK cfg sub rest none cv with
            | mk sub' e => rw [hs] at ih; simpa using ih
      · simp only [hb, if_false, hfix, Bool.true_and]
        by_cases hrm : isReserved cfg m = true
        · simp [hrm]
        · have hres' : ∃ m' ∈ rest, '[' ∉ m' ∧ isReserved cfg m' = true := by
            obtain ⟨m', hm', hb', hrv⟩ := hres
            simp only [List.mem_cons] at hm'
            rcases hm' with rfl | hm'
            · exact absurd hrv hrm
            · exact ⟨m', hm', hb', hrv⟩
          simp only [hrm]
          cases hl : lookupK m kvs with
          | none =>
            have ih := reserved_refused cfg hfix rest [] cv hgr hres'
            simp only
            cases hs : setK cfg [] rest none cv with
            | mk sub' e => rw [hs] at ih; simpa using ih
          | some t =>
            cases t with
            | leaf _ => simp
            | list _ => simp
            | node sub =>
              have ih := reserved_refused cfg hfix rest sub cv hgr hres'
              simp only
              cases hs : setK cfg sub rest none cv with
              | mk sub' e => rw [hs] at ih; simpa using ih

/-- a raw key that is not reserved -/
def notReserved (cfg : Cfg) (k : Name) : Bool := !isReserved cfg k

theorem keysOK_notReserved (cfg : Cfg) (segs : List Name) : KeysOK (notReserved cfg) cfg segs := by
  intro m _ hr _
  simp [notReserved, hr]

/-- **No operation sequence ever makes a reserved name a key of any level** (repaired code), whatever
the keys are — well-formed or not — as long as the trees handed in as values have none. -/
theorem no_reserved_key_ever (cfg : Cfg) (hfix : cfg.fixReserved = true) (ops : List Op) (t : Tree)
    (ht : wfRoot (notReserved cfg) t) (hops : ∀ op ∈ ops, OpOK (notReserved cfg) cfg op) :
    wfRoot (notReserved cfg) (run cfg t ops) :=
  wfRoot_run cfg hfix ops t ht hops

example : isReserved liveCfg "copy".toList = true ∧ isReserved liveCfg "__len".toList = true ∧
    isReserved liveCfg "length".toList = false := by decide +kernel
example : (setT liveCfg (.node []) "a.copy".toList (.tree (.leaf 1))).2 = some .key ∧
    (setT liveCfg (.node []) "copy.a".toList (.tree (.leaf 1))) = (.node [], some .key) ∧
    (setT liveCfg (.node []) "b".toList (.pdict [("keys.x".toList, .tree (.leaf 1))])).2 = some .key := by decide +kernel
/-- the hypotheses of `no_reserved_key_ever` hold for arbitrary key texts -/
example : OpOK (notReserved liveCfg) liveCfg (.set "a[0.copy]..x]".toList (.pdict [("copy.q".toList, .tree (.leaf 1))])) :=
  ⟨keysOK_notReserved _ _, by simp [valOK, itemsOK, keysOK_notReserved, wfT]⟩

/-- **Witness (code before `fix: C16-reserved-level`)**: `d['copy.x'] = 1` succeeds and makes `copy`
a key of the root. -/
theorem reservedOld_level :
    setT { liveCfg with fixReserved := false } (.node []) "copy.x".toList (.tree (.leaf 1))
      = (.node [("copy".toList, .node [("x".toList, .leaf 1)])], none) := by decide +kernel

/-! ## 7. plain dictionaries become addressable levels -/

/-- **A plain dict that is assigned is stored as a level**: the lookup of the assigned path returns a
mapping level, namely the conversion of the dict … -/
theorem plain_dict_becomes_level (cfg : Cfg) (segs : List Name) (kvs kvs' : Kvs)
    (items : List (Name × PVal)) (hgood : ∀ m ∈ segs, GoodSeg m = true) (hne : segs ≠ [])
    (hset : setK cfg kvs segs none (conv cfg (.pdict items)) = (kvs', none)) :
    ∃ sub, conv cfg (.pdict items) = .ok (.node sub) ∧ getK kvs' segs none = .ok (.node sub) := by
  obtain ⟨tv, htv⟩ := setK_ok_cv cfg kvs segs none _ kvs' (Or.inl hne) hset
  obtain ⟨sub, rfl⟩ := conv_pdict_node cfg items tv htv
  rw [htv] at hset
  exact ⟨sub, htv, getK_setK_same cfg segs kvs kvs' _ hgood hne hset⟩

/-- … in which the dict's own (dotted) keys are addressable: the item assigned last is found at its
key, converted in turn. -/
theorem plain_dict_item_addressable (cfg : Cfg) (its : List (Name × PVal)) (k : Name) (v : PVal)
    (sub : Kvs) (segs : List Name) (hc : chain cfg.fixResolve k = ⟨segs, none⟩) (hne : segs ≠ [])
    (hgood : ∀ m ∈ segs, GoodSeg m = true)
    (h : conv cfg (.pdict (its ++ [(k, v)])) = .ok (.node sub)) :
    ∃ tv, conv cfg v = .ok tv ∧ getK sub segs none = .ok tv := by
  simp only [conv] at h
  obtain ⟨acc, sub', hs, he⟩ := convItems_snoc cfg its k v [] _ h
  simp only [Tree.node.injEq] at he
  subst he
  rw [hc] at hs
  obtain ⟨tv, htv⟩ := setK_ok_cv cfg acc segs none _ _ (Or.inl hne) hs
  rw [htv] at hs
  exact ⟨tv, htv, getK_setK_same cfg segs acc _ tv hgood hne hs⟩

example : conv liveCfg (.pdict [("c.d".toList, .tree (.leaf 2)), ("e".toList, .pdict [("f..g".toList, .tree (.leaf 3))])])
    = .ok (.node [("c".toList, .node [("d".toList, .leaf 2)]), ("e".toList, .node [("g".toList, .leaf 3)])]) := by
  decide +kernel

/-! ## 8. the state is always a well-formed nested map -/

/-- raw keys as the property has them: identifiers that are not reserved -/
def goodName (cfg : Cfg) (k : Name) : Bool := isIdent k && !isReserved cfg k

/-- **Refinement invariant**: starting from a well-formed dotdict, after any sequence of
set/del/pop/setdefault/update operations (failed ones included) every level is a map — no key
twice — whose keys are non-reserved identifiers, recursively through lists; `OpOK` asks that the
segments an operation may store are such names (a decidable condition on the key text). -/
theorem run_is_nested_map (cfg : Cfg) (hfix : cfg.fixReserved = true) (ops : List Op) (t : Tree)
    (ht : wfRoot (goodName cfg) t) (hops : ∀ op ∈ ops, OpOK (goodName cfg) cfg op) :
    wfRoot (goodName cfg) (run cfg t ops) :=
  wfRoot_run cfg hfix ops t ht hops

example : wfRoot (goodName liveCfg) (.node []) := ⟨[], rfl, rfl⟩
example : KeysOK (goodName liveCfg) liveCfg (chain liveCfg.fixResolve "a.x..l[1].y".toList).segs := by
  intro m hm hr hlit
  have : m = "a".toList ∨ m = "l[1]".toList ∨ m = "y".toList := by
    have : (chain liveCfg.fixResolve "a.x..l[1].y".toList).segs = ["a".toList, "l[1]".toList, "y".toList] := by decide +kernel
    rw [this] at hm; simpa using hm
  rcases this with rfl | rfl | rfl
  · decide +kernel
  · exact absurd hlit (by decide +kernel)
  · decide +kernel

/-! ## 9. copies -/

/-- the raw keys the constructor re-inserts unchanged (every key the API can create is one) -/
example : CopyKey liveCfg "abc".toList = true := by decide +kernel

/-- **`copy.copy` / `copy.deepcopy` reproduce the tree** (repaired `__copy__`; both rebuild every
level through `__setitem__`).  In the value model the result shares nothing with the original by
construction; the statement with object identities is `copy_shares_nothing` below. -/
theorem copy_faithful (cfg : Cfg) (t : Tree) (h : wfT (CopyKey cfg) t = true) : copyT cfg t = .ok t :=
  copyT_ok cfg t h

example : wfT (CopyKey liveCfg) tIter = true := by decide +kernel

open Heap in
/-- **Witness (code before `fix: C16-copy-list-levels`)**, with object identities: after
`c = copy.copy( d )` for `d = {a: [ {x: 1} ]}`, the assignment `c['a[0].x'] = 5` changes `d`;
with the repaired `__copy__` it does not. -/
theorem copyOld_shares_list_elements :
    let d0 : Tree := .node [("a".toList, .list [.node [("x".toList, .leaf 1)]])]
    let (h0, d) := alloc d0 []
    (let (h1, c) := copyObj false 8 h0 d
     (assign h1 c [.key "a".toList, .idx 0] "x".toList 5).map (fun h2 => (read 8 h2 d, read 8 h2 c))
       = some (.node [("a".toList, .list [.node [("x".toList, .leaf 5)]])],
               .node [("a".toList, .list [.node [("x".toList, .leaf 5)]])])) ∧
    (let (h1, c) := copyObj true 8 h0 d
     (assign h1 c [.key "a".toList, .idx 0] "x".toList 5).map (fun h2 => (read 8 h2 d, read 8 h2 c))
       = some (d0, .node [("a".toList, .list [.node [("x".toList, .leaf 5)]])])) := by
  decide +kernel

open Heap in
/-- **Copies are structurally independent** (repaired `__copy__`, with object identities): in every
closed heap, for every object `d` (a dotdict of any shape, with lists of dotdicts, nested lists, …),
`c = copy.copy( d )` reads exactly as `d` does, and after any assignment made through `c` — at any path
through levels and list elements — `d` still reads as before.  (`__deepcopy__` rebuilds the same cells:
every mapping and every list is new, ints are shared.) -/
theorem copy_shares_nothing (f : Nat) (h : Heap) (d : Nat) (hc : Closed h) (hd : d < h.length)
    (hf : fits f h d = true) :
    read f (copyObj true f h d).1 (copyObj true f h d).2 = read f h d ∧
    ∀ (path : List Step) (k : Name) (v : Int) (h2 : Heap),
      assign (copyObj true f h d).1 (copyObj true f h d).2 path k v = some h2 →
      ∀ g, read g h2 d = read g h d :=
  copy_independent f h d hc hd hf

open Heap in
/-- the hypotheses hold for a dotdict built in an empty heap (and the copy is not the same object) -/
example : (let (h0, d) := alloc tIter []
    closedB h0 = true ∧ d < h0.length ∧ fits 8 h0 d = true ∧ (copyObj true 8 h0 d).2 ≠ d ∧
    read 8 h0 d = tIter) := by decide +kernel

/-! ## tie to the extracted constants -/

theorem generated_reserved_names :
    "copy".toList ∈ Generated.dotdictInvalidKeys ∧ "keys".toList ∈ Generated.dotdictInvalidKeys ∧
    "update".toList ∈ Generated.dotdictInvalidKeys ∧ Generated.dotdictInvalidKeys.all isIdent = true := by
  decide +kernel

end Cpppo.Dotdict
