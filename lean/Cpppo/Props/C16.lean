import Cpppo.Model.Dotdict
import Cpppo.Generated.Tables

namespace Cpppo.Dotdict

/-- membership agrees with lookup (placeholder until the full file is in) -/
theorem contains_true_iff (cfg : Cfg) (t : Tree) (k : Name) :
    containsT cfg t k = .ok true ↔ ∃ v, getT cfg t k = .ok v := by
  unfold containsT
  cases h : getT cfg t k with
  | ok v => simp
  | error e => cases e <;> simp

end Cpppo.Dotdict
