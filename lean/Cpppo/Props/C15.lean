import Cpppo.Proofs.Route
namespace Cpppo.Route
theorem accept_any (rp : Option RoutePath) : accept .any rp = true := rfl
end Cpppo.Route
