import Cpppo.Proofs.Route
import Cpppo.Proofs.RouteJson
import Cpppo.Generated.Tables

/-!
# C15 — Route-path filtering follows the configured device personality

Theorems about the model `Cpppo.Route` (`Model/Route.lean`), which mirrors `UCMM.request`'s acceptance
assertion, `main()`'s personality configuration, `client.unconnected_send`'s wrapper decision and
`device.parse_route_path` / `port_link`.

* acceptance: `accept_spec` (the exact accepted set) and its readings per personality
  (`accept_unconfigured`, `accept_simple`, `accept_path`), the refusals by dimension
  (`refuse_port`, `refuse_link`, `refuse_link_kind`, `refuse_length`);
* refusal: `refused_no_access` (error status, no payload, device unchanged, the executing function is
  not consulted), `status_zero_iff`, `session_ends_at_refusal` (nothing after a refused frame runs);
* texts: `parse_route_spells` ('p/l' chains of any length, numeric and IPv4 links),
  `parse_json_dicts_spells`, `parse_json_dict_spells`, `parse_json_strings_spells` (the JSON spellings,
  through the model's own `json.loads`), and what `main()` and the client make of them (`main_*`, `client_*`).

`σ`, `ρ`, `π` (device state, request, reply payload) and `exec` are arbitrary: the inner request's
execution is an abstract partial function of state and request (`none` = the addressed object raised).
-/
namespace Cpppo.Route

/-! ## Which requests a personality accepts -/

/-- **The accepted set, exactly**: no configuration, or the request carries no route path or an empty
one, or exactly the configured list. -/
theorem accept_spec (cfg : Config) (rp : Option RoutePath) :
    accept cfg rp = true ↔
      cfg = .any ∨ rp = none ∨ rp = some [] ∨ ∃ p, cfg = .path p ∧ rp = some p := by
  cases cfg with
  | any => simp [accept]
  | falsy =>
    cases rp with
    | none => simp [accept]
    | some q => cases q <;> simp [accept, eqCfg, Config.truthy]
  | path p =>
    cases rp with
    | none => simp [accept]
    | some q =>
      cases q with
      | nil => simp [accept]
      | cons a q =>
        simp only [accept, eqCfg]
        simp

/-- with no configuration every route path is accepted -/
theorem accept_unconfigured (rp : Option RoutePath) : accept .any rp = true := rfl

/-- the simple (non-routing) personalities: `False`/`0` (`-S`) or an empty list -/
def Config.Simple (cfg : Config) : Prop := cfg = .falsy ∨ cfg = .path []

/-- **a simple device accepts exactly the requests without a route path** (absent, or an empty one
inside the Unconnected Send wrapper) -/
theorem accept_simple (cfg : Config) (h : cfg.Simple) (rp : Option RoutePath) :
    accept cfg rp = true ↔ rp = none ∨ rp = some [] := by
  rw [accept_spec]
  rcases h with rfl | rfl
  · simp
  · constructor
    · rintro (h | h | h | ⟨p, hp, h⟩)
      · cases h
      · exact Or.inl h
      · exact Or.inr h
      · cases hp; exact Or.inr h
    · rintro (h | h)
      · exact Or.inr (Or.inl h)
      · exact Or.inr (Or.inr (Or.inl h))

/-- **a device configured with a route path accepts exactly: none, empty, or that very path** -/
theorem accept_path (p : RoutePath) (rp : Option RoutePath) :
    accept (.path p) rp = true ↔ rp = none ∨ rp = some [] ∨ rp = some p := by
  rw [accept_spec]; simp

/-- any non-empty request route path other than the configured one is refused -/
theorem refuse_mismatch (p q : RoutePath) (hq : q ≠ []) (hne : q ≠ p) : accept (.path p) (some q) = false := by
  cases h : accept (.path p) (some q) with
  | false => rfl
  | true =>
    rcases (accept_path p (some q)).mp h with h | h | h
    · cases h
    · exact absurd (Option.some.inj h) hq
    · exact absurd (Option.some.inj h) hne

/-- a simple device refuses every non-empty route path -/
theorem refuse_simple (cfg : Config) (h : cfg.Simple) (q : RoutePath) (hq : q ≠ []) :
    accept cfg (some q) = false := by
  cases ha : accept cfg (some q) with
  | false => rfl
  | true =>
    rcases (accept_simple cfg h (some q)).mp ha with h | h
    · cases h
    · exact absurd (Option.some.inj h) hq

/-- differing in one **port** -/
theorem refuse_port (pre post : RoutePath) (p p' : Int) (l : Link) (h : p' ≠ p) :
    accept (.path (pre ++ .pl p l :: post)) (some (pre ++ .pl p' l :: post)) = false :=
  refuse_mismatch _ _ (by simp) (by simp [h])

/-- differing in one **link** (number or address) -/
theorem refuse_link (pre post : RoutePath) (p : Int) (l l' : Link) (h : l' ≠ l) :
    accept (.path (pre ++ .pl p l :: post)) (some (pre ++ .pl p l' :: post)) = false :=
  refuse_mismatch _ _ (by simp) (by simp [h])

/-- differing in the **kind of link**: the number `n` and an address, even one spelling the same digits -/
theorem refuse_link_kind (pre post : RoutePath) (p : Int) (n : Int) (s : Text) :
    accept (.path (pre ++ .pl p (.num n) :: post)) (some (pre ++ .pl p (.addr s) :: post)) = false
    ∧ accept (.path (pre ++ .pl p (.addr s) :: post)) (some (pre ++ .pl p (.num n) :: post)) = false :=
  ⟨refuse_link pre post p _ _ (by simp), refuse_link pre post p _ _ (by simp)⟩

/-- differing in **length** (a prefix, an extension, …) -/
theorem refuse_length (p q : RoutePath) (hq : q ≠ []) (h : q.length ≠ p.length) :
    accept (.path p) (some q) = false :=
  refuse_mismatch p q hq (fun e => h (by rw [e]))

example : accept (.path [.pl 1 (.num 0), .pl 2 (.addr [49, 46, 50, 46, 51, 46, 52])])
    (some [.pl 1 (.num 0), .pl 2 (.addr [49, 46, 50, 46, 51, 46, 52])]) = true := by decide
example : accept (.path [.pl 1 (.num 0)]) (some [.pl 1 (.addr [48])]) = false := by decide
example : accept .falsy (some [.pl 1 (.num 0)]) = false := by decide
example : Config.Simple .falsy := Or.inl rfl

/-! ## A refused request: error status, no payload, nothing executed, nothing changed -/

section serve
variable {σ ρ π : Type} (exec : σ → ρ → Option (σ × π)) (cfg : Config) (st : σ)
  (rp : Option RoutePath) (req : ρ)

/-- **A refused request receives an error status, carries no payload and leaves the device exactly
as it was** — for every way of executing requests. -/
theorem refused_no_access (h : accept cfg rp = false) :
    serveWith exec cfg st rp req = (st, ⟨true, 8, none⟩) := by
  simp [serveWith, h]

/-- … in particular the outcome does not depend on `exec` at all: the request is never handed to
the addressed object (no execution step is taken, so no tag can be read or written) -/
theorem refused_ignores_exec (exec' : σ → ρ → Option (σ × π)) (h : accept cfg rp = false) :
    serveWith exec cfg st rp req = serveWith exec' cfg st rp req := by
  rw [refused_no_access exec cfg st rp req h, refused_no_access exec' cfg st rp req h]

theorem refused_status_ne_zero (h : accept cfg rp = false) :
    (serveWith exec cfg st rp req).2.status ≠ 0 ∧ (serveWith exec cfg st rp req).2.payload = none
    ∧ (serveWith exec cfg st rp req).1 = st := by
  rw [refused_no_access exec cfg st rp req h]; simp

/-- an accepted request is executed exactly once, on the current state, and its result is the reply -/
theorem accepted_executes (h : accept cfg rp = true) (st' : σ) (p : π) (he : exec st req = some (st', p)) :
    serveWith exec cfg st rp req = (st', ⟨true, 0, some p⟩) := by
  simp [serveWith, h, he]

/-- **status 0 exactly when the route path is acceptable and the addressed object did not raise** -/
theorem status_zero_iff :
    (serveWith exec cfg st rp req).2.status = 0 ↔ accept cfg rp = true ∧ (exec st req).isSome = true := by
  unfold serveWith
  cases ha : accept cfg rp with
  | false => simp
  | true =>
    cases he : exec st req with
    | none => simp
    | some x => simp

/-- whatever happens, a reply is produced (`proceed`), and the device changes only through `exec` -/
theorem serve_state (st1 : σ) (r : Reply π) (h : serveWith exec cfg st rp req = (st1, r)) :
    st1 = st ∨ ∃ p, exec st req = some (st1, p) := by
  unfold serveWith at h
  cases ha : accept cfg rp with
  | false => simp [ha] at h; exact Or.inl h.1.symm
  | true =>
    cases he : exec st req with
    | none => simp [ha, he] at h; exact Or.inl h.1.symm
    | some x => simp [ha, he] at h; exact Or.inr ⟨x.2, by rw [← h.1]⟩

/-! ### the session afterwards (`enip_srv_tcp`: a non-zero status ends it) -/

/-- **After a refused frame nothing more is executed**: with frames `pre` all served, a refused
frame produces the last reply of the session (status 8) and every later frame `post` is ignored;
the device is as `pre` left it. -/
theorem session_ends_at_refusal (pre post : List (Option RoutePath × ρ)) (st1 : σ)
    (hpre : runAll exec cfg st pre = some st1) (h : accept cfg rp = false) :
    (sessionWith exec cfg st (pre ++ (rp, req) :: post)).1 = st1
    ∧ (sessionWith exec cfg st (pre ++ (rp, req) :: post)).2.length = pre.length + 1
    ∧ (sessionWith exec cfg st (pre ++ (rp, req) :: post)).2.getLast? = some ⟨true, 8, none⟩ := by
  induction pre generalizing st with
  | nil =>
    simp only [runAll_nil, Option.some.injEq] at hpre
    subst hpre
    simp [sessionWith, refused_no_access exec cfg st rp req h]
  | cons f pre ih =>
    obtain ⟨frp, freq⟩ := f
    rw [runAll_cons] at hpre
    cases ha : accept cfg frp with
    | false => simp [ha] at hpre
    | true =>
      cases he : exec st freq with
      | none => simp [ha, he] at hpre
      | some x =>
        obtain ⟨st', p⟩ := x
        simp only [ha, he, if_true] at hpre
        have := ih st' hpre
        simp only [List.cons_append, sessionWith, accepted_executes exec cfg st frp freq ha st' p he,
          beq_self_eq_true, if_true]
        refine ⟨this.1, by simp [this.2.1], ?_⟩
        rw [List.getLast?_cons_of_ne_nil]
        · exact this.2.2
        · intro e; have := this.2.1; rw [e] at this; simp at this

/-- all replies but the last have status 0: the session never continues past an error -/
theorem session_statuses (frames : List (Option RoutePath × ρ)) :
    ∀ r ∈ (sessionWith exec cfg st frames).2.dropLast, r.status = 0 := by
  induction frames generalizing st with
  | nil => simp [sessionWith]
  | cons f rest ih =>
    obtain ⟨frp, freq⟩ := f
    simp only [sessionWith]
    cases hs : serveWith exec cfg st frp freq with
    | mk st' r =>
      by_cases h0 : r.status = 0
      · simp only [h0, beq_self_eq_true, if_true]
        intro x hx
        cases hr : (sessionWith exec cfg st' rest).2 with
        | nil => simp [hr] at hx
        | cons y ys =>
          rw [hr] at hx
          simp only [List.dropLast_cons_cons, List.mem_cons] at hx
          rcases hx with rfl | hx
          · exact h0
          · exact ih st' x (by rw [hr]; exact hx)
      · simp [h0]

end serve

/-! ## A device that also has a routing table

`UCMM.request` looks the request's first hop up in the routing table *before* the route-path test.  A hit
is forwarded (outside the property, `forward` is arbitrary); a miss is a local request and **must go
through the very same route-path test**, whatever the table contains. -/

section routed
variable {σ ρ π : Type} (exec : σ → ρ → Option (σ × π))
  (forward : σ → Text → Option RoutePath → ρ → σ × Reply π) (routes : List Text) (cfg : Config) (st : σ)
  (rp : Option RoutePath) (req : ρ)

/-- when the request is local: no table, no route path, a first segment that is not a port, or a first hop
the table does not list -/
theorem findRoute_none_iff :
    findRoute routes rp = none ↔
      rp = none ∨ rp = some [] ∨ ∃ s rest, rp = some (s :: rest) ∧ ∀ k, routeKey s = some k → k ∉ routes := by
  unfold findRoute
  cases rp with
  | none => simp
  | some p =>
    cases p with
    | nil => simp
    | cons s rest =>
      cases hk : routeKey s with
      | none => simp [hk]
      | some k =>
        by_cases hm : k ∈ routes
        · simp [hk, hm]
        · simp [hk, hm]

/-- without a routing table every request is local -/
theorem findRoute_no_table : findRoute [] rp = none := by
  unfold findRoute
  cases rp with
  | none => rfl
  | some p =>
    cases p with
    | nil => rfl
    | cons s rest => cases hk : routeKey s <;> simp [hk]

/-- **a request that misses the table is filtered exactly like on a device without a table** -/
theorem local_when_table_misses (h : findRoute routes rp = none) :
    serveRouted exec forward routes cfg st rp req = serveWith exec cfg st rp req := by
  simp [serveRouted, h]

/-- **… so a configured route path is enforced whatever the routing table holds**: a request whose first
hop is not in the table and whose route path is not acceptable gets the error status, no payload, and
nothing is executed or forwarded -/
theorem refused_with_routing_table (hmiss : findRoute routes rp = none) (h : accept cfg rp = false) :
    serveRouted exec forward routes cfg st rp req = (st, ⟨true, 8, none⟩) := by
  rw [local_when_table_misses exec forward routes cfg st rp req hmiss, refused_no_access exec cfg st rp req h]

/-- … and neither the executor nor the forwarder is consulted -/
theorem refused_with_routing_table_ignores (exec' : σ → ρ → Option (σ × π))
    (forward' : σ → Text → Option RoutePath → ρ → σ × Reply π)
    (hmiss : findRoute routes rp = none) (h : accept cfg rp = false) :
    serveRouted exec forward routes cfg st rp req = serveRouted exec' forward' routes cfg st rp req := by
  rw [refused_with_routing_table exec forward routes cfg st rp req hmiss h,
    refused_with_routing_table exec' forward' routes cfg st rp req hmiss h]

/-- a hit is the forwarder's business only (the local executor is not consulted) -/
theorem forwarded_when_table_hits (k : Text) (h : findRoute routes rp = some k) :
    serveRouted exec forward routes cfg st rp req = forward st k rp req := by
  simp [serveRouted, h]

/-- a session on a device without a table is the session of the earlier sections -/
theorem sessionRouted_no_table (frames : List (Option RoutePath × ρ)) :
    sessionRouted exec forward [] cfg st frames = sessionWith exec cfg st frames := by
  induction frames generalizing st with
  | nil => rfl
  | cons f rest ih =>
    obtain ⟨frp, freq⟩ := f
    rw [sessionRouted, sessionWith, local_when_table_misses exec forward [] cfg st frp freq (findRoute_no_table frp)]
    cases hs : serveWith exec cfg st frp freq with
    | mk st' r => simp only [ih]

/-- a refused local frame ends the session of a device with a table, too -/
theorem sessionRouted_refusal (post : List (Option RoutePath × ρ))
    (hmiss : findRoute routes rp = none) (h : accept cfg rp = false) :
    sessionRouted exec forward routes cfg st ((rp, req) :: post) = (st, [⟨true, 8, none⟩]) := by
  rw [sessionRouted, refused_with_routing_table exec forward routes cfg st rp req hmiss h]
  simp

end routed

/-- the hypotheses are satisfiable: configured 1/0, table {1/5}: 1/7 misses the table and is refused,
1/5 hits it -/
example : findRoute [[49, 47, 53]] (some [.pl 1 (.num 7)]) = none
    ∧ accept (.path [.pl 1 (.num 0)]) (some [.pl 1 (.num 7)]) = false
    ∧ findRoute [[49, 47, 53]] (some [.pl 1 (.num 5), .pl 1 (.num 0)]) = some [49, 47, 53] := by decide

/-! ### the concrete device of the differential runs: a refused write leaves every tag as it was -/

/-- **refused ⇒ tags and access log untouched, for every request (write, multiple, …)** and every routing
table the first hop is not in -/
theorem refused_tags_untouched (cfg : Config) (routes : List Text) (d : Dev) (rp : Option RoutePath) (toCM : Bool)
    (req : Req) (hmiss : findRoute routes rp = none) (h : accept cfg rp = false) :
    (serve cfg routes d rp toCM req).1 = d ∧ (serve cfg routes d rp toCM req).2.status = 8
      ∧ (serve cfg routes d rp toCM req).2.payload = none := by
  unfold serve
  rw [refused_with_routing_table _ _ routes cfg d _ _ hmiss h]
  simp

/-- non-vacuity: the same write is performed when the route path matches and is not when it differs —
with and without a routing table -/
example :
    (serve (.path [.pl 1 (.num 0)]) [] ⟨[[1, 2, 3, 4], [10, 20]], []⟩ (some [.pl 1 (.num 0)]) true
      (.single (.write 0 1 [77]))).1.tags = [[1, 77, 3, 4], [10, 20]]
    ∧ (serve (.path [.pl 1 (.num 0)]) [] ⟨[[1, 2, 3, 4], [10, 20]], []⟩ (some [.pl 1 (.num 1)]) true
      (.single (.write 0 1 [77]))).1 = ⟨[[1, 2, 3, 4], [10, 20]], []⟩
    ∧ (serve (.path [.pl 1 (.num 0)]) [[49, 47, 53]] ⟨[[1, 2, 3, 4], [10, 20]], []⟩ (some [.pl 1 (.num 7)]) true
      (.single (.write 0 1 [77]))).1 = ⟨[[1, 2, 3, 4], [10, 20]], []⟩
    ∧ (serve (.path [.pl 1 (.num 0)]) [[49, 47, 53]] ⟨[[1, 2, 3, 4], [10, 20]], []⟩ (some [.pl 1 (.num 0)]) true
      (.single (.write 0 1 [77]))).1.tags = [[1, 77, 3, 4], [10, 20]] := by decide

/-- an Unconnected Send that does not address a Connection Manager is not executed either, whatever
the personality and the route path (repo fix 080c990): error status, tags and access log untouched -/
theorem not_to_cm_untouched (cfg : Config) (routes : List Text) (d : Dev) (rp : Option RoutePath) (req : Req)
    (hmiss : findRoute routes rp = none) :
    (serve cfg routes d rp false req).1 = d ∧ (serve cfg routes d rp false req).2.status = 8
      ∧ (serve cfg routes d rp false req).2.payload = none := by
  unfold serve
  rw [local_when_table_misses _ _ routes cfg d _ _ hmiss]
  unfold serveWith
  cases accept cfg rp <;> simp [execFrame]

/-- an unknown tag, when the route path is acceptable, is *answered* (status 0, a CIP error inside) and
the session goes on (repo fix e94e54f); when it is not acceptable the frame is refused like any other -/
example :
    (serve .falsy [] ⟨[[1, 2, 3, 4], [10, 20]], []⟩ (some []) true (.single (.unknown false))).2.status = 0
    ∧ (serve .falsy [] ⟨[[1, 2, 3, 4], [10, 20]], []⟩ (some [.pl 1 (.num 0)]) true (.single (.unknown false))).2.status = 8 := by
  decide

/-! ## Textual route paths denote the segments they spell -/

/-- **'port/link', chained 'p/l/p/l…' of any length, numeric and IPv4-address links**: parsing the
spelling gives back exactly the segments (no trailer). -/
theorem parse_route_spells (segs : List Seg) (hne : segs ≠ []) (hwf : ∀ s ∈ segs, s.WF) :
    parseRoutePath (renderSlash segs) = some segs := by
  match segs, hne with
  | s :: rest, _ =>
    have hs := hwf s (by simp)
    cases s with
    | other k v => exact absurd hs (by simp [Seg.WF])
    | pl p l =>
      obtain ⟨tail, ht⟩ := renderSlash_head p l rest hs.1
      have hpos : 0 < p.toNat := by have := hs.1; omega
      -- not JSON …
      have hjson : jsonLoads (renderSlash (.pl p l :: rest)) = none := by
        rw [ht]; exact jsonLoads_number_slash _ hpos _
      -- … and it does not look like an attempt at JSON: it starts with a digit
      obtain ⟨c, cs, hc, hd⟩ := renderNat_head p.toNat
      have hd' := isDigit_iff.mp hd
      have hparts : (Seg.pl p l :: rest).flatMap segParts ≠ [] := by simp [segParts]
      have hsplit : splitOn 47 (renderSlash (.pl p l :: rest)) = (Seg.pl p l :: rest).flatMap segParts :=
        splitOn_joinWith 47 _ hparts (no_slash_parts _ hwf)
      have hslash : slash (renderSlash (.pl p l :: rest)) = .ok (.pl p l :: rest) [] := by
        have h91 : (c == 91) = false := by simp; omega
        have h123 : (c == 123) = false := by simp; omega
        have h34 : (c == 34) = false := by simp; omega
        have hshape : renderSlash (.pl p l :: rest) = c :: (cs ++ 47 :: tail) := by rw [ht, hc]; rfl
        unfold slash
        rw [hshape]
        simp only [h91, h123, h34, Bool.or_self, Bool.false_eq_true, if_false]
        rw [← hshape, hsplit, pairs_parts _ hwf]
        have h2 := stage2_segs _ hwf
        simp only [List.map_cons] at h2
        simp [joinWith, finish, h2]
      simp [parseRoutePath, parseRoute, hjson, hslash]

/-- the hypotheses are satisfiable: a three-hop path with numeric and address links -/
example : ∀ s ∈ [Seg.pl 1 (.num 0), .pl 2 (.addr [49, 48, 46, 48, 46, 48, 46, 50, 53, 53]), .pl 15 (.num (-2))],
    s.WF := by decide

example : parseRoutePath (renderSlash [.pl 1 (.num 0), .pl 2 (.addr [49, 48, 46, 48, 46, 48, 46, 50, 53, 53])])
    = some [.pl 1 (.num 0), .pl 2 (.addr [49, 48, 46, 48, 46, 48, 46, 50, 53, 53])] := by decide +kernel

/-- **JSON list of `{"port":p,"link":l}` objects**, any length: parses to the segments it spells -/
theorem parse_json_dicts_spells (segs : List Seg) (hne : segs ≠ []) (hwf : ∀ s ∈ segs, s.WF) :
    parseRoutePath (renderJsonList (segs.map renderSegDict)) = some segs :=
  parseRoutePath_dicts segs hne hwf

/-- **a bare JSON object** `{"port":p,"link":l}` is en-listed -/
theorem parse_json_dict_spells (s : Seg) (hs : s.WF) : parseRoutePath (renderSegDict s) = some [s] :=
  parseRoutePath_dict1 s hs

/-- **JSON list of "p/l" strings**, any length -/
theorem parse_json_strings_spells (segs : List Seg) (hne : segs ≠ []) (hwf : ∀ s ∈ segs, s.WF) :
    parseRoutePath (renderJsonList (segs.map renderSegStr)) = some segs :=
  parseRoutePath_strs segs hne hwf

/-- all spellings of the same segments denote the same route path -/
theorem spellings_agree (segs : List Seg) (hne : segs ≠ []) (hwf : ∀ s ∈ segs, s.WF) :
    parseRoutePath (renderSlash segs) = parseRoutePath (renderJsonList (segs.map renderSegDict))
    ∧ parseRoutePath (renderSlash segs) = parseRoutePath (renderJsonList (segs.map renderSegStr)) := by
  rw [parse_route_spells segs hne hwf, parse_json_dicts_spells segs hne hwf, parse_json_strings_spells segs hne hwf]
  exact ⟨rfl, rfl⟩

-- '[{"port":1,"link":"1.2.3.4"},{"port":2,"link":0}]' and '["1/1.2.3.4","2/0"]'
example : parseRoutePath (renderJsonList ([Seg.pl 1 (.addr [49, 46, 50, 46, 51, 46, 52]), .pl 2 (.num 0)].map renderSegDict))
    = some [.pl 1 (.addr [49, 46, 50, 46, 51, 46, 52]), .pl 2 (.num 0)] := by decide +kernel
example : renderJsonList ([Seg.pl 1 (.addr [49, 46, 50, 46, 51, 46, 52]), .pl 2 (.num 0)].map renderSegStr)
    = [91, 34, 49, 47, 49, 46, 50, 46, 51, 46, 52, 34, 44, 34, 50, 47, 48, 34, 93] := by decide +kernel

/-! ### … and so does what is configured from them: `main()` -/

/-- `--route-path p/l` configures exactly that single segment (with or without `-S`) -/
theorem main_route (s : Seg) (h : s.WF) (simple : Bool) :
    mainConfig (some (renderSlash [s])) simple = some (.path [s]) := by
  have hp := parse_route_spells [s] (by simp) (by simpa using h)
  have hne : (renderSlash [s]).isEmpty = false := by
    cases s with
    | other k v => exact absurd h (by simp [Seg.WF])
    | pl p l =>
      obtain ⟨tail, ht⟩ := renderSlash_head p l [] h.1
      obtain ⟨c, cs, hc, _⟩ := renderNat_head p.toNat
      rw [ht, hc]; rfl
  simp [mainConfig, hne, hp]

/-- `main()` insists on a single segment: a longer spelled path stops the start-up -/
theorem main_multi_refused (segs : List Seg) (hwf : ∀ s ∈ segs, s.WF) (hlen : 2 ≤ segs.length) (simple : Bool) :
    mainConfig (some (renderSlash segs)) simple = none := by
  have hne : segs ≠ [] := by intro e; rw [e] at hlen; simp at hlen
  have hp := parse_route_spells segs hne hwf
  match segs, hne, hlen with
  | s :: t :: rest, _, _ =>
    cases s with
    | other k v => exact absurd (hwf (.other k v) (by simp)) (by simp [Seg.WF])
    | pl p l =>
      obtain ⟨tail, ht⟩ := renderSlash_head p l (t :: rest) (hwf (.pl p l) (by simp)).1
      obtain ⟨c, cs, hc, _⟩ := renderNat_head p.toNat
      have hne' : (renderSlash (.pl p l :: t :: rest)).isEmpty = false := by rw [ht, hc]; rfl
      simp [mainConfig, hne', hp]

/-- `-S` alone, or an empty `--route-path`, is the simple personality; neither flag is "any" -/
theorem main_simple : mainConfig none true = some .falsy ∧ mainConfig (some []) false = some .falsy
    ∧ mainConfig none false = some .any := ⟨rfl, rfl, rfl⟩

/-- a `[UCMM] Route Path = p/l/…` configuration entry gives exactly that personality (any length: the
single-segment restriction is `main()`'s, not the UCMM's), and no entry gives "any" -/
theorem file_config_spelled (segs : List Seg) (hne : segs ≠ []) (hwf : ∀ s ∈ segs, s.WF) :
    fileConfig (some (renderSlash segs)) = some (.path segs) ∧ fileConfig none = some .any := by
  simp [fileConfig, parse_route_spells segs hne hwf]

/-! ### … and what a client request carries -/

/-- a client that disables the route path (`route_path=False/0/[]`, as `-S` does) is accepted by
**every** personality, with or without the Unconnected Send wrapper -/
theorem client_simple_always_accepted (s : SendArg) (cfg : Config) :
    ∃ rp, clientCarried .falsy s = some rp ∧ accept cfg rp = true := by
  cases s with
  | dflt => exact ⟨some [], rfl, (accept_spec cfg _).mpr (Or.inr (Or.inr (Or.inl rfl)))⟩
  | empty => exact ⟨none, rfl, (accept_spec cfg _).mpr (Or.inr (Or.inl rfl))⟩
  | other => exact ⟨some [], rfl, (accept_spec cfg _).mpr (Or.inr (Or.inr (Or.inl rfl)))⟩

/-- a client spelling a route path carries exactly those segments … -/
theorem client_carries_spelled (segs : List Seg) (hne : segs ≠ []) (hwf : ∀ s ∈ segs, s.WF) :
    clientCarried (.text (renderSlash segs)) .dflt = some (some segs) := by
  have hp := parse_route_spells segs hne hwf
  have hnil : (renderSlash segs).isEmpty = false := by
    match segs, hne with
    | s :: rest, _ =>
      cases s with
      | other k v => exact absurd (hwf (.other k v) (by simp)) (by simp [Seg.WF])
      | pl p l =>
        obtain ⟨tail, ht⟩ := renderSlash_head p l rest (hwf (.pl p l) (by simp)).1
        obtain ⟨c, cs, hc, _⟩ := renderNat_head p.toNat
        rw [ht, hc]; rfl
  simp [clientCarried, hnil, hp]

/-- a connector whose `route_path_default` was configured (on the class or the instance) carries **that**
route path when an operation names none — not the library's '1/0' -/
theorem client_configured_default (segs : List Seg) (hne : segs ≠ []) (hwf : ∀ s ∈ segs, s.WF) :
    clientCarried (.dfltAs (renderSlash segs)) .dflt = some (some segs) := by
  have h := client_carries_spelled segs hne hwf
  simpa [clientCarried] using h

/-- the unconfigured connector is the special case `route_path_default = '1/0'`, and a falsy default
sends no route path at all (accepted by every personality) -/
theorem client_default_is_configured_default (s : SendArg) :
    clientCarried .dflt s = clientCarried (.dfltAs routeDefault) s
    ∧ clientCarried (.dfltAs []) s = clientCarried .falsy s := ⟨rfl, rfl⟩

/-- … so a device configured (through `main()`) with the single segment `s` accepts a client that
spells `segs` iff `segs = [s]` -/
theorem spelled_end_to_end (s : Seg) (hs : s.WF) (segs : List Seg) (hne : segs ≠ []) (hwf : ∀ x ∈ segs, x.WF)
    (simple : Bool) :
    ∃ cfg rp, mainConfig (some (renderSlash [s])) simple = some cfg
      ∧ clientCarried (.text (renderSlash segs)) .dflt = some rp
      ∧ (accept cfg rp = true ↔ segs = [s]) := by
  refine ⟨_, _, main_route s hs simple, client_carries_spelled segs hne hwf, ?_⟩
  rw [accept_path]
  constructor
  · rintro (h | h | h)
    · cases h
    · exact absurd (Option.some.inj h) hne
    · exact Option.some.inj h
  · intro h; exact Or.inr (Or.inr (by rw [h]))

/-- the default client (route path '1/0') is accepted exactly by the unconfigured device and the one
configured with port 1, link 0 -/
theorem client_default : clientCarried .dflt .dflt = some (some [.pl 1 (.num 0)]) := by decide +kernel

/-- tie to the live source: the model's default route path is `client.route_path_default`, and the
default send path is non-empty (so the default client always uses the Unconnected Send wrapper) -/
theorem generated_client_defaults :
    Generated.clientRouteDefault = routeDefault ∧ Generated.clientSendDefault ≠ [] := by decide

/-! ### behaviour outside the statement, pinned as the code has it (see notes/C15.md) -/

/-- JSON scalars are refused by `parse_route_path` (the documented `--route-path=0/false/null` raises) -/
example : parseRoutePath [48] = none ∧ parseRoutePath [102, 97, 108, 115, 101] = none
    ∧ parseRoutePath [110, 117, 108, 108] = none := by decide +kernel

end Cpppo.Route
