import Cpppo.Proofs.ConcurrentArr
import Cpppo.Proofs.ConcurrentLgx
import Cpppo.Proofs.Forwards
import Cpppo.Proofs.ForwardsThreads
import Cpppo.Proofs.ForwardsSpec

/-!
# C09 — Concurrent sessions are isolated and each request is atomic

About `Cpppo.Concurrent.runSched` (model of: one thread per connection, shared parsers under
`dfa_base.lock`, bundle members parsed one by one with the lock released in between, ONE atomic
slice operation on the shared tag storage per request, one reply frame per request frame).

The theorems quantify over **every schedule** (`sched : List Sid`, any length, any number of sessions:
a blocked or finished thread that is scheduled does nothing, so every list is an interleaving that
respects program order and lock exclusion), every program `prog : Sid → List (Frame τ)` (frames of
one request or of bundle members, parsed by any shared parsers), every initial memory, and — for the
generic ones — every atomic operation `exec`, so they hold for the array instance `execOp` and for the
Logix device model `execLgx` alike.

PARTIAL with respect to the property as stated about the running simulator: that CPython executes one
`list` slice read / slice assignment atomically, that `threading.Lock` excludes, and that the OS/GIL
produces only interleavings of the modelled steps are *assumptions* of the model (named in
notes/C09.md); real schedules are sampled by the correspondence, not enumerated.  The two
`…_counterexample` theorems show that the statements are sensitive to exactly these assumptions.
-/
namespace Cpppo.Concurrent

variable {σ τ α : Type}

/-! ## linearizability -/

/-- **All replies and the shared memory are those of ONE sequential order of whole requests that
respects every session's own order** (witness: the order of the access steps).  Holds at every moment
of every schedule: what has been executed for session `s` is a prefix of `s`'s own program, in
program order; what `s` has been sent so far is a prefix of what that sequential run answers `s`. -/
theorem linearizable (exec : σ → List τ → σ × α) (m0 : σ) (prog : Sid → List (Frame τ)) (sched : List Sid) :
    let st := runSched exec (init m0 prog) sched
    ∃ order : List (Sid × List τ),
      (∀ s, proj s order <+: requests (prog s)) ∧
      st.mem = (runSeq exec m0 order).1 ∧
      (∀ s, (st.thr s).sent.flatten <+: proj s (runSeq exec m0 order).2) := by
  intro st
  have h := runSched_inv exec m0 prog _ (inv_init exec m0 prog) sched
  refine ⟨st.hist, fun s => ?_, h.mem, fun s => ?_⟩
  · exact ⟨_, by rw [← List.append_assoc]; exact h.ord s⟩
  · exact ⟨_, h.rep s⟩

/-- **When every session has been answered completely**: the sequential order contains exactly every
session's requests in that session's order, every session received exactly the replies that order
gives to its own requests — none missing, none duplicated, none of another session — framed exactly
as its request frames were (a bundle of `n` members is answered by one frame of `n` replies). -/
theorem linearizable_complete (exec : σ → List τ → σ × α) (m0 : σ) (prog : Sid → List (Frame τ))
    (sched : List Sid) (hfin : ∀ s, ((runSched exec (init m0 prog) sched).thr s).finished = true) :
    let st := runSched exec (init m0 prog) sched
    ∃ order : List (Sid × List τ),
      (∀ s, proj s order = requests (prog s)) ∧
      st.mem = (runSeq exec m0 order).1 ∧
      (∀ s, (st.thr s).sent.flatten = proj s (runSeq exec m0 order).2) ∧
      (∀ s, (st.thr s).sent.map List.length = (prog s).map List.length) ∧
      (∀ s, (st.thr s).sent.flatten.length = (requests (prog s)).length) := by
  intro st
  have h := runSched_inv exec m0 prog _ (inv_init exec m0 prog) sched
  have hidle : ∀ s, (st.thr s).pc = .idle ∧ (st.thr s).frames = [] := by
    intro s
    have := hfin s
    unfold Thread.finished at this
    split at this
    · rename_i h1 h2; exact ⟨h1, h2⟩
    · cases this
  have hord : ∀ s, proj s st.hist = requests (prog s) := by
    intro s
    have := h.ord s
    rw [(hidle s).1, (hidle s).2] at this
    simpa [PC.pending, requests_nil] using this
  have hrep : ∀ s, (st.thr s).sent.flatten = proj s (runSeq exec m0 st.hist).2 := by
    intro s
    have := h.rep s
    rw [(hidle s).1] at this
    simpa [PC.results] using this
  refine ⟨st.hist, hord, h.mem, hrep, fun s => ?_, fun s => ?_⟩
  · have := h.frm s
    rw [(hidle s).1, (hidle s).2] at this
    simpa [PC.frameSizes] using this
  · rw [hrep s, proj_runSeq_length, hord s]

/-! ## isolation -/

/-- **The `i`-th reply a session receives answers that session's own `i`-th request**, evaluated on
the memory left by a sequential prefix of the linear order — it depends on nothing else: not on which
frames other sessions' requests travelled in, not on how the parse steps interleaved. -/
theorem isolation (exec : σ → List τ → σ × α) (m0 : σ) (prog : Sid → List (Frame τ)) (sched : List Sid)
    (s : Sid) (i : Nat) (a : α)
    (hrep : ((runSched exec (init m0 prog) sched).thr s).sent.flatten[i]? = some a) :
    ∃ (pre post : List (Sid × List τ)) (w : List τ),
      (runSched exec (init m0 prog) sched).hist = pre ++ (s, w) :: post ∧
      (proj s pre).length = i ∧
      (requests (prog s))[i]? = some w ∧
      (∀ e ∈ pre, e.2 ∈ requests (prog e.1)) ∧
      a = (exec (runSeq exec m0 pre).1 w).2 := by
  have h := runSched_inv exec m0 prog _ (inv_init exec m0 prog) sched
  generalize runSched exec (init m0 prog) sched = st at h hrep
  have h1 : (proj s (runSeq exec m0 st.hist).2)[i]? = some a := by
    rw [← h.rep s]
    rw [List.getElem?_append_left]
    · exact hrep
    · exact (List.getElem?_eq_some_iff.mp hrep).1
  obtain ⟨pre, post, w, hsplit, hlen, ha⟩ := proj_runSeq_getElem exec m0 st.hist s i a h1
  refine ⟨pre, post, w, hsplit, hlen, ?_, ?_, ha⟩
  · have := h.ord s
    rw [hsplit, proj_append, proj_cons_same, List.append_assoc, List.append_assoc] at this
    rw [← this, List.getElem?_append_right (by omega), hlen]
    simp
  · intro e he
    exact hist_mem_prog h e (by rw [hsplit]; exact List.mem_append_left _ he)

/-- **Requests take effect atomically**: whatever property of the shared memory every whole request
preserves holds in every state a reply was computed from — no reply ever observes a state in which a
request of another session has taken effect only in part. -/
theorem atomic_invariant (exec : σ → List τ → σ × α) (m0 : σ) (prog : Sid → List (Frame τ)) (sched : List Sid)
    (I : σ → Prop) (h0 : I m0)
    (hpres : ∀ s w, w ∈ requests (prog s) → ∀ m, I m → I (exec m w).1) :
    let st := runSched exec (init m0 prog) sched
    I st.mem ∧
    ∀ (s : Sid) (i : Nat) (a : α), (st.thr s).sent.flatten[i]? = some a →
      ∃ (m : σ) (w : List τ), I m ∧ (requests (prog s))[i]? = some w ∧ a = (exec m w).2 := by
  intro st
  have h := runSched_inv exec m0 prog _ (inv_init exec m0 prog) sched
  constructor
  · rw [h.mem]
    apply runSeq_invariant exec I
    · exact h0
    · intro e he m hm
      exact hpres e.1 e.2 (hist_mem_prog h e he) m hm
  · intro s i a ha
    obtain ⟨pre, post, w, _, _, hw, hpre, rfl⟩ := isolation exec m0 prog sched s i a ha
    refine ⟨_, w, ?_, hw, rfl⟩
    apply runSeq_invariant exec I _ _ h0
    intro e he m hm
    exact hpres e.1 e.2 (hpre e he) m hm

/-- **No parse corruption**: whatever interleaving of parse steps happened, every request that was
ever executed on behalf of session `s` is, symbol for symbol, one of the requests `s` itself sent. -/
theorem no_parse_corruption (exec : σ → List τ → σ × α) (m0 : σ) (prog : Sid → List (Frame τ)) (sched : List Sid) :
    ∀ e ∈ (runSched exec (init m0 prog) sched).hist, e.2 ∈ requests (prog e.1) :=
  fun e he => hist_mem_prog (runSched_inv exec m0 prog _ (inv_init exec m0 prog) sched) e he

/-- **Lock exclusion**: at every moment of every schedule at most one thread is inside a given shared
parser, and a parser's lock is held exactly by the thread that is inside it. -/
theorem parser_exclusive (exec : σ → List τ → σ × α) (m0 : σ) (prog : Sid → List (Frame τ)) (sched : List Sid) :
    let st := runSched exec (init m0 prog) sched
    (∀ s s' p, (st.thr s).pc.inside = some p → (st.thr s').pc.inside = some p → s = s') ∧
    (∀ s p, st.lock p = some s ↔ (st.thr s).pc.inside = some p) := by
  intro st
  have h := runSched_inv exec m0 prog _ (inv_init exec m0 prog) sched
  exact ⟨fun s s' p h1 h2 => h.excl h1 h2, fun s p => ⟨h.own s p, h.lck s p⟩⟩

/-- **No deadlock**: as long as some session has not been answered completely, some thread can take a
step (a thread blocked on a parser is waiting for a thread that is inside it and can always move). -/
theorem no_deadlock (exec : σ → List τ → σ × α) (m0 : σ) (prog : Sid → List (Frame τ)) (sched : List Sid)
    (s : Sid) (hs : ((runSched exec (init m0 prog) sched).thr s).finished = false) :
    ∃ s', (nextKind (runSched exec (init m0 prog) sched) s').enabled = true := by
  have h := runSched_inv exec m0 prog _ (inv_init exec m0 prog) sched
  exact inv_no_deadlock h s hs

/-- every enabled step strictly reduces the work its thread has left and leaves the others' alone:
together with `no_deadlock`, every fair schedule answers every request. -/
theorem step_progress (exec : σ → List τ → σ × α) (st : State σ τ α) (s : Sid)
    (hen : (nextKind st s).enabled = true) :
    ((step exec st s).thr s).work + 1 = (st.thr s).work ∧
    ∀ s', s' ≠ s → ((step exec st s).thr s').work = (st.thr s').work :=
  step_work exec st s hen

/-! ## the array instance: slice reads and slice writes -/

/-- **No lost write.**  In every sequential order (hence, by `linearizable_complete`, after every
complete concurrent run) an element that only session `a` assigns holds what `a`'s own requests, run
alone in `a`'s own order, leave there: `a`'s last value for it, whatever the other sessions did to
the rest of the array in between. -/
theorem no_lost_write (m0 : Mem) (prog : Sid → List (Frame Op)) (sched : List Sid)
    (hfin : ∀ s, ((runSched execOp (init m0 prog) sched).thr s).finished = true)
    (a : Sid) (k j : Nat)
    (honly : ∀ s, s ≠ a → ∀ op, [op] ∈ requests (prog s) → op.assigns (shape m0) k j = false) :
    elem (runSched execOp (init m0 prog) sched).mem k j
      = elem (runOps m0 (requests (prog a))) k j
    ∧ elem (runOps m0 (requests (prog a))) k j
      = ((lastAssigned (shape m0) k j (requests (prog a))).or (elem m0 k j)) := by
  obtain ⟨order, hord, hmem, -⟩ := linearizable_complete execOp m0 prog sched hfin
  constructor
  · rw [hmem, ← hord a]
    apply no_lost_write_seq
    intro e he hne op hop
    apply honly e.1 hne op
    rw [← hord e.1, ← hop]
    exact mem_proj_of_mem he
  · exact runOps_elem m0 _ k j

/-- **A multi-element read never observes part of a multi-element write.**  If elements `[b, b+n)` of
array `k` start out equal and every write request of every session that touches them overwrites the
whole stripe with one value, then every reply to a read of `[b, b+n)`, in every schedule, carries `n`
equal values (and the read is never refused). -/
theorem multi_element_atomic (m0 : Mem) (prog : Sid → List (Frame Op)) (sched : List Sid)
    (k b n : Nat) (hn : 0 < n) (h0 : Uniform k b n m0)
    (hsafe : ∀ s op, [op] ∈ requests (prog s) → op.stripeSafe k b n)
    (s : Sid) (i : Nat) (a : Res)
    (hreq : (requests (prog s))[i]? = some [Op.read k b n])
    (hrep : ((runSched execOp (init m0 prog) sched).thr s).sent.flatten[i]? = some a) :
    ∃ v, a = .data (List.replicate n v) := by
  have := (atomic_invariant execOp m0 prog sched (Uniform k b n) h0 ?_).2 s i a hrep
  · obtain ⟨m, w, hm, hw, rfl⟩ := this
    rw [hreq] at hw
    cases hw
    exact read_uniform m k b n hn hm
  · intro s w hw m hm
    exact execOp_uniform k b n m w hm (fun op hop => hsafe s op (hop ▸ hw))

/-! ## the Logix instance -/

/-- **In the Logix device model every Read/Write Tag [Fragmented] request is at most ONE slice
operation on ONE tag's array** (refused: none; read: one slice read, device untouched; write: one slice
assignment, nothing else changes) — the model-level counterpart of the correspondence check "every
accepted request made exactly one storage access".  It is what makes `execLgx` a legitimate atomic
`exec` for the generic theorems above. -/
theorem lgx_request_is_one_array_op (d : Logix.Dev) (s : Logix.Simple) (hs : isTagRequest s = true) :
    OneArrayOp d (Logix.execSimple d s) := execSimple_one_array_op d s hs

/-! ## sensitivity witnesses: the assumptions are necessary -/

/-- session 0 writes `[1,1]` over `[0,0]`, session 1 reads both elements -/
def demoProg : Sid → List (Frame Op)
  | 0 => [[(0, [.write 0 0 [.int 1, .int 1]])]]
  | 1 => [[(0, [.read 0 0 2])]]
  | _ => []

def demoMem : Mem := [[.int 0, .int 0]]

/-- the same programs when a write is carried out element by element (one access per element) -/
def splitProg (prog : Sid → List (Frame Op)) : Sid → List (Frame Op) :=
  fun s => (prog s).map fun f => f.flatMap fun m => (m.2.flatMap splitOp).map fun o => (m.1, [o])

/-- the schedule: 0 parses and performs its first element write; 1 runs to completion; 0 finishes -/
def tornSched : List Sid := [0, 0, 0, 0, 0, 0, 0, 0, 0] ++ [1, 1, 1, 1, 1, 1, 1] ++ [0, 0]

/-- **If the storage access were split into per-element steps the statement is false**: a schedule of
the two demo sessions exists in which the read returns `[1, 0]`, which no sequential order of the
whole requests produces. -/
theorem nonatomic_counterexample :
    let st := runSched execOp (init demoMem (splitProg demoProg)) tornSched
    (st.thr 1).sent = [[.data [.int 1, .int 0]]] ∧
    ¬ ∃ order : List (Sid × List Op),
        (∀ s, proj s order = requests (demoProg s)) ∧
        (st.thr 1).sent.flatten = proj 1 (runSeq execOp demoMem order).2 := by
  intro st
  have hsent : (st.thr 1).sent = [[.data [.int 1, .int 0]]] := by decide
  refine ⟨hsent, ?_⟩
  rintro ⟨order, hord, hrep⟩
  rw [hsent] at hrep
  have h1 : (proj 1 (runSeq execOp demoMem order).2)[0]? = some (.data [.int 1, .int 0]) := by
    rw [← hrep]; rfl
  obtain ⟨pre, post, w, hsplit, hlen, ha⟩ := proj_runSeq_getElem execOp demoMem order 1 0 _ h1
  have hw : w = [Op.read 0 0 2] := by
    have := hord 1
    rw [hsplit, proj_append, proj_cons_same] at this
    have hp : proj 1 pre = [] := List.eq_nil_of_length_eq_zero hlen
    rw [hp] at this
    simp only [List.nil_append, demoProg, requests, List.flatMap_cons, List.flatMap_nil, id,
      List.append_nil, List.map_cons, List.map_nil] at this
    exact (List.cons.inj this).1
  subst hw
  have hu : Uniform 0 0 2 (runSeq execOp demoMem pre).1 := by
    apply runSeq_invariant execOp (Uniform 0 0 2)
    · exact ⟨_, .int 0, rfl, by decide, by intro j _ hj; match j, hj with | 0, _ => rfl | 1, _ => rfl⟩
    · intro e he m hm
      apply execOp_uniform 0 0 2 m e.2 hm
      intro op hop
      have hmem : e.2 ∈ requests (demoProg e.1) := by
        rw [← hord e.1, hsplit]
        exact mem_proj_of_mem (List.mem_append_left _ he)
      rw [hop] at hmem
      match he1 : e.1, hmem with
      | 0, hmem =>
        simp only [demoProg, requests, List.flatMap_cons, List.flatMap_nil, id, List.append_nil,
          List.map_cons, List.map_nil, List.mem_singleton, List.cons.injEq, and_true] at hmem
        subst hmem
        right; left
        exact ⟨by decide, by decide, .int 1, by decide⟩
      | 1, hmem =>
        simp only [demoProg, requests, List.flatMap_cons, List.flatMap_nil, id, List.append_nil,
          List.map_cons, List.map_nil, List.mem_singleton, List.cons.injEq, and_true] at hmem
        subst hmem
        trivial
      | n + 2, hmem => simp [demoProg, requests] at hmem
  obtain ⟨v, hv⟩ := read_uniform _ 0 0 2 (by decide) hu
  rw [← ha] at hv
  simp only [List.replicate, Res.data.injEq, List.cons.injEq, and_true] at hv
  obtain ⟨h1, h2⟩ := hv
  rw [← h1] at h2
  cases h2

/-- two sessions, one shared parser; the "memory" logs what is executed, the reply echoes it -/
def echoExec (m : List (List Nat)) (w : List Nat) : List (List Nat) × List Nat := (m ++ [w], w)

def echoProg : Sid → List (Frame Nat)
  | 0 => [[(0, [1, 2])]]
  | 1 => [[(0, [3, 4])]]
  | _ => []

/-- 0 enters the parser and feeds `1`; 1 enters the same parser (nothing stops it) and feeds `3`;
0 feeds `2` and takes the result -/
def raceSched : List Sid := [0, 0, 0, 1, 1, 1, 0, 0, 0, 0, 0]

/-- **If a shared parser were used without its lock the statement is false**: session 0 executes, and
is answered for, a request made of session 1's and its own symbols.  With the lock the same schedule
is harmless (thread 1 just waits). -/
theorem unlocked_parser_counterexample :
    ((runSchedWith false echoExec (init [] echoProg) raceSched).thr 0).sent = [[[3, 2]]] ∧
    ((runSchedWith true echoExec (init [] echoProg) raceSched).thr 0).sent = [[[1, 2]]] := by
  constructor <;> decide

/-! ## non-vacuity -/

/-- three sessions (single requests and a bundle) on two parsers -/
def sampleProg : Sid → List (Frame Op)
  | 0 => [[(0, [.write 0 0 [.int 7, .int 7]])], [(0, [.read 0 0 3])]]
  | 1 => [[(0, [.read 0 0 2]), (1, [.write 0 2 [.int 5]])]]
  | 2 => [[(1, [.write 0 0 [.int 9, .int 9]])]]
  | _ => []

def sampleMem : Mem := [[.int 0, .int 0, .int 0]]

def sampleSched : List Sid :=
  [0, 1, 2, 0, 1, 2, 2, 0, 1, 1, 2, 0, 0, 2, 1, 1, 1, 0, 2, 1, 1, 1, 1, 0, 2, 1, 1, 0, 0, 0, 0, 0, 0, 0, 1]

/-- the sample run completes, with genuinely interleaved accesses (the access order is 0, 2, 1, 1, 0) -/
example :
    let st := runSched execOp (init sampleMem sampleProg) sampleSched
    (∀ s < 4, (st.thr s).finished = true) ∧ st.hist.map (·.1) = [0, 2, 1, 1, 0] ∧
    (st.thr 0).sent = [[.done], [.data [.int 9, .int 9, .int 5]]] ∧
    (st.thr 1).sent = [[.data [.int 9, .int 9], .done]] ∧ st.mem = [[.int 9, .int 9, .int 5]] := by
  decide

/-- `linearizable_complete`'s hypothesis is satisfiable: in the sample run every session (the three that
send something and all the others) is answered completely -/
example : ∀ s : Nat, ((runSched execOp (init sampleMem sampleProg) sampleSched).thr s).finished = true := by
  intro s
  by_cases h : s < 3
  · have : s = 0 ∨ s = 1 ∨ s = 2 := by
      have h' : s < 3 := h
      omega
    rcases this with rfl | rfl | rfl <;> decide
  · have hlt : ∀ x ∈ sampleSched, x < 3 := by decide
    rw [runSched_thr_of_not_mem _ _ _ _ (fun hm => absurd (hlt s hm) h)]
    have : sampleProg s = [] := by
      match s, h with
      | n + 3, _ => rfl
    simp [init, Thread.finished, this]

/-- `multi_element_atomic`'s hypotheses are satisfiable: stripe `[0,2)` of the sample is only ever
overwritten whole -/
example : Uniform 0 0 2 sampleMem ∧ ∀ s op, [op] ∈ requests (sampleProg s) → op.stripeSafe 0 0 2 := by
  refine ⟨⟨_, .int 0, rfl, by decide, by intro j _ hj; match j, hj with | 0, _ => rfl | 1, _ => rfl⟩, ?_⟩
  intro s op hop
  match s, hop with
  | 0, hop =>
    simp only [sampleProg, requests, List.flatMap_cons, List.flatMap_nil, id, List.append_nil,
      List.map_cons, List.map_nil, List.cons_append, List.nil_append, List.mem_cons, List.cons.injEq,
      and_true, List.not_mem_nil, or_false] at hop
    rcases hop with rfl | rfl
    · right; left; exact ⟨by decide, by decide, .int 7, by decide⟩
    · trivial
  | 1, hop =>
    simp only [sampleProg, requests, List.flatMap_cons, List.flatMap_nil, id, List.append_nil,
      List.map_cons, List.map_nil, List.mem_cons, List.cons.injEq, and_true, List.not_mem_nil,
      or_false] at hop
    rcases hop with rfl | rfl
    · trivial
    · right; right; right; decide
  | 2, hop =>
    simp only [sampleProg, requests, List.flatMap_cons, List.flatMap_nil, id, List.append_nil,
      List.map_cons, List.map_nil, List.mem_singleton, List.cons.injEq, and_true] at hop
    subst hop
    right; left; exact ⟨by decide, by decide, .int 9, by decide⟩
  | n + 3, hop => simp [sampleProg, requests] at hop

/-- `no_lost_write`'s hypothesis is satisfiable: only session 1 assigns element 2 of array 0 -/
example : ∀ s, s ≠ 1 → ∀ op, [op] ∈ requests (sampleProg s) → op.assigns (shape sampleMem) 0 2 = false := by
  intro s hs op hop
  match s, hs, hop with
  | 0, _, hop =>
    simp only [sampleProg, requests, List.flatMap_cons, List.flatMap_nil, id, List.append_nil,
      List.map_cons, List.map_nil, List.cons_append, List.nil_append, List.mem_cons, List.cons.injEq,
      and_true, List.not_mem_nil, or_false] at hop
    rcases hop with rfl | rfl <;> decide
  | 2, _, hop =>
    simp only [sampleProg, requests, List.flatMap_cons, List.flatMap_nil, id, List.append_nil,
      List.map_cons, List.map_nil, List.mem_singleton, List.cons.injEq, and_true] at hop
    subst hop; decide
  | n + 3, _, hop => simp [sampleProg, requests] at hop

/-- the generic theorems apply verbatim to the Logix device model (what the driver replays) -/
example (d : Logix.Dev) (prog : Sid → List (Frame Logix.Simple)) (sched : List Sid) :=
  linearizable execLgx d prog sched

end Cpppo.Concurrent

/-!
## Connected (Forward Open) sessions: the Connection Manager's shared table

`Connection_Manager.forwards` (`server/enip/device.py`) is one dict shared by all session threads, keyed by
`(peer host, peer port, O->T connection ID)`.  `Cpppo.Forwards.step` mirrors Forward Open, Forward Close, the
end of a session, and the routing decision of a Connected request.  The theorems quantify over **every
interleaving of every number of sessions' operations** (`ops : List Op`, any length) and every initial table.
Each operation is one step: the dict insert / the key scan + `del` are taken to be atomic with respect to the
other session threads (GIL; the scan runs on a `list(...)` copy of the keys) - the same named residue as above.
-/
namespace Cpppo.Forwards

/-- **Session isolation for Connected sessions.**  What a session is answered (Forward Open accepted or
refused, every Connected request delivered through its connection / routed by its own path / failing to
parse) over any interleaving with any other sessions' operations is exactly what it is answered when it
runs alone on its own part of the table: no operation of another peer - in particular another session
ending, or a Forward Close with the same connection serial from another peer - can change it. -/
theorem connected_session_isolation (p : Peer) (ops : List Op) (t : Table) :
    outsOf p t ops = (run (restrict p t) (ops.filter (fun op => decide (op.peer = p)))).2 :=
  outsOf_restrict p ops t

/-- the same over the wire, where a request that cannot be parsed ends its session (`enip_srv_tcp` drops the
connection and the session's end purges its connections): still only the session's **own** failures count -/
theorem connected_session_isolation_wire (p : Peer) (ops : List Op) (t : Table) :
    outsOfWire p t ops = (runWire (restrict p t) (ops.filter (fun op => decide (op.peer = p)))).2 :=
  outsOfWire_restrict p ops t

/-- one-step form: an operation of another peer changes no lookup of this peer's connections
(peers differ when host **or** port differ) -/
theorem other_peer_untouched (t : Table) (op : Op) (k : Key) (h : op.peer ≠ k.peer) :
    lookup (step t op).1 k = lookup t k := by
  obtain ⟨p, c⟩ := k
  have := step_restrict_other p t op h
  rw [← lookup_restrict p (step t op).1 c, this, lookup_restrict]

/-- the end of a session purges every one of its connections … -/
theorem fin_purges_own (t : Table) (p : Peer) (c : Nat) : lookup (step t (.fin p)).1 ⟨p, c⟩ = none :=
  lookup_filter_of_drop _ t _ (by intro e; simp)

/-- … a Forward Close purges exactly the peer's connections carrying that serial, and keeps its others -/
theorem fclose_keeps_other_serial (t : Table) (p : Peer) (s c : Nat) (e : Entry)
    (h : lookup t ⟨p, c⟩ = some e) (hs : e.serial ≠ s) : lookup (step t (.fclose p s)).1 ⟨p, c⟩ = some e := by
  induction t with
  | nil => simp [lookup] at h
  | cons kv r ih =>
    obtain ⟨k', e'⟩ := kv
    simp only [lookup] at h
    by_cases hk : k' = ⟨p, c⟩
    · simp only [hk, if_true, Option.some.injEq] at h
      subst h; subst hk
      simp [step, List.filter, hs, lookup]
    · simp only [hk, if_false] at h
      have := ih h
      simp only [step] at this ⊢
      cases hf : (!(decide ((k', e').1.peer = p) && decide ((k', e').2.serial = s))) <;>
        simp only [List.filter, hf, lookup, hk, if_false, this]

theorem fclose_purges_serial (t : Table) (p : Peer) (s c : Nat) (e : Entry)
    (h : lookup (step t (.fclose p s)).1 ⟨p, c⟩ = some e) : e.serial ≠ s := by
  induction t with
  | nil => simp [step, lookup] at h
  | cons kv r ih =>
    obtain ⟨k', e'⟩ := kv
    simp only [step] at h ih
    cases hf : (!(decide ((k', e').1.peer = p) && decide ((k', e').2.serial = s)))
    · simp only [List.filter, hf] at h
      exact ih h
    · simp only [List.filter, hf, lookup] at h
      by_cases hk : k' = ⟨p, c⟩
      · simp only [hk, if_true, Option.some.injEq] at h
        subst h; subst hk
        simpa using hf
      · simp only [hk, if_false] at h
        exact ih h

/-- a Connected request through an open connection to the PCCC Object is delivered there, whatever other
peers did in between: after `p`'s accepted Forward Open, as long as `p` itself neither closes nor ends -/
theorem open_connection_survives (p : Peer) (cid serial : Nat) (tgt : Target) (t : Table) (others : List Op)
    (hfree : lookup t ⟨p, cid⟩ = none) (hoth : ∀ op ∈ others, op.peer ≠ p) :
    lookup (run (step t (.fopen p cid serial tgt)).1 others).1 ⟨p, cid⟩ = some ⟨serial, tgt⟩ := by
  have h0 : lookup (step t (.fopen p cid serial tgt)).1 ⟨p, cid⟩ = some ⟨serial, tgt⟩ := by
    simp [step, hfree, lookup_append, lookup]
  generalize (step t (.fopen p cid serial tgt)).1 = t' at h0
  induction others generalizing t' with
  | nil => exact h0
  | cons op ops ih =>
    simp only [run]
    apply ih (fun o ho => hoth o (List.mem_cons_of_mem _ ho))
    rw [other_peer_untouched t' op ⟨p, cid⟩ (hoth op List.mem_cons_self)]
    exact h0

/-- **The two models together: session threads sharing the Forward Open table.**  Take the thread machine of the first
part of this file (one thread per session, shared parsers under locks, ONE atomic access per request, any schedule)
with the Forward Open table as its shared memory and `run` (a request = a list of table operations) as the atomic
access.  If every session `s` is a distinct peer `peerOf s` and sends only operations of its own peer, then in every
schedule that answers everybody, every session has been sent exactly the replies of its own requests executed alone,
one after the other, on its own part of the initial table - whatever the other sessions did and however the steps
interleaved. -/
theorem threads_connected_isolation (peerOf : Concurrent.Sid → Peer) (hinj : ∀ a b, peerOf a = peerOf b → a = b)
    (t0 : Table) (prog : Concurrent.Sid → List (Concurrent.Frame Op)) (sched : List Concurrent.Sid)
    (hown : ∀ s, ∀ w ∈ Concurrent.requests (prog s), ∀ op ∈ w, op.peer = peerOf s)
    (hfin : ∀ s, ((Concurrent.runSched run (Concurrent.init t0 prog) sched).thr s).finished = true) (s : Concurrent.Sid) :
    ((Concurrent.runSched run (Concurrent.init t0 prog) sched).thr s).sent.flatten
      = seqReplies (restrict (peerOf s) t0) (Concurrent.requests (prog s)) := by
  obtain ⟨order, hproj, _, hsent, _, _⟩ := Concurrent.linearizable_complete run t0 prog sched hfin
  rw [hsent s, proj_runSeq_restrict peerOf hinj s order t0, hproj s]
  intro e he op hop
  have := mem_proj_of_mem e order he
  rw [hproj e.1] at this
  exact hown e.1 e.2 this op hop

/-- two session threads from one host (ports 1001 and 1000) -/
def threadsProg : Concurrent.Sid → List (Concurrent.Frame Op)
  | 0 => [[(0, [.fopen ⟨1, 1001⟩ 5 7 .pccc, .send ⟨1, 1001⟩ 5 .df1])], [(0, [.send ⟨1, 1001⟩ 5 .df1])]]
  | 1 => [[(0, [.fclose ⟨1, 1000⟩ 7])], [(0, [.fin ⟨1, 1000⟩])]]
  | _ => []

def threadsSched : List Concurrent.Sid := (List.range 80).map (· % 2)

/-- the hypotheses of `threads_connected_isolation` are satisfiable on a genuinely interleaved run: both sessions are
answered completely, session 1's Forward Close (same serial) and end fall between session 0's open and its last
request, and session 0 is served through its connection both times -/
example :
    let st := Concurrent.runSched run (Concurrent.init [] threadsProg) threadsSched
    (∀ s < 3, (st.thr s).finished = true) ∧ st.hist.map (·.1) = [0, 1, 0, 1] ∧
    (st.thr 0).sent = [[[.opened, .viaPccc]], [[.viaPccc]]] ∧ (st.thr 1).sent = [[[.closed]], [[.ended]]] := by
  decide +kernel

/-- **Refinement to the simplest specification.**  Over every operation sequence from the empty table, the
insertion-ordered list the model keeps (as the code keeps a dict) behaves exactly like a partial map
`(peer, connection ID) → Option (serial, target)` (`Spec.step`: open = insert when absent, else refuse; close =
forget this peer's entries with that serial; end = forget this peer's entries; Connected request = look up): every
answer is the abstract map's answer, and every lookup in the final table is the abstract map's value. -/
theorem table_refines_map (ops : List Op) :
    (∀ k, lookup (run [] ops).1 k = (Spec.run (fun _ => none) ops).1 k)
    ∧ (run [] ops).2 = (Spec.run (fun _ => none) ops).2 := by
  have h := run_refines ops [] (by simp [KeysNodup])
  have h0 : lookup ([] : Table) = fun _ => none := rfl
  rw [h0] at h
  exact h

/-- decision logic stated outright: a DF1 command (no path of its own) is delivered to the PCCC Object **iff** this
peer holds an open connection with that ID leading there; a CIP request is answered by the router unless the
connection leads to the PCCC Object -/
theorem df1_served_iff (t : Table) (p : Peer) (c : Nat) :
    (step t (.send p c .df1)).2 = .viaPccc ↔ ∃ s, lookup t ⟨p, c⟩ = some ⟨s, .pccc⟩ := by
  simp only [step]
  cases h : lookup t ⟨p, c⟩ with
  | none => simp [respond]
  | some e =>
    obtain ⟨s, tg⟩ := e
    cases tg <;> simp [respond]

theorem cip_served_iff (t : Table) (p : Peer) (c : Nat) :
    (step t (.send p c .cip)).2 = .viaRouter ↔ ¬ ∃ s, lookup t ⟨p, c⟩ = some ⟨s, .pccc⟩ := by
  simp only [step]
  cases h : lookup t ⟨p, c⟩ with
  | none => simp [respond]
  | some e =>
    obtain ⟨s, tg⟩ := e
    cases tg <;> simp [respond]

/-- the table is a dict: keys stay unique over every operation sequence -/
theorem table_keys_unique (ops : List Op) : KeysNodup (run [] ops).1 :=
  run_keysNodup ops [] (by simp [KeysNodup])

/-! sensitivity / non-vacuity -/

/-- purging by host only (ignoring the port) breaks isolation: session B (10.0.0.1:1001) opened a connection
to the PCCC Object, session A (same host, port 1000) ends, B's DF1 request fails - alone, B is served -/
theorem hostOnly_counterexample :
    let A : Peer := ⟨1, 1000⟩
    let B : Peer := ⟨1, 1001⟩
    let ops := [Op.fopen B 5 7 .pccc, .send B 5 .df1, .fin A, .send B 5 .df1]
    outsOfHostOnly B [] ops = [.opened, .viaPccc, .failed]
    ∧ outsOf B [] ops = [.opened, .viaPccc, .viaPccc] := by decide

example : -- hypotheses of `open_connection_survives` / `fclose_keeps_other_serial` are satisfiable, non-trivially
    let A : Peer := ⟨1, 1000⟩
    let B : Peer := ⟨1, 1001⟩
    let C : Peer := ⟨2, 1001⟩
    let ops := [Op.fopen A 5 7 .router, .fopen B 5 7 .pccc, .fopen B 6 8 .pccc, .fopen B 5 9 .router,
                .fclose A 7, .fclose C 7, .fclose B 8, .send B 5 .df1, .send B 6 .df1, .send A 5 .cip, .fin C]
    (run [] ops).2 = [.opened, .opened, .opened, .refused, .closed, .closed, .closed, .viaPccc, .failed, .viaRouter, .ended]
    ∧ (run [] ops).1 = [(⟨B, 5⟩, ⟨7, .pccc⟩)] := by decide

end Cpppo.Forwards
