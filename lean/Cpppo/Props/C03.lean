import Cpppo.Model.Logix
namespace Cpppo.Logix
theorem placeholder_c03 : True := trivial
end Cpppo.Logix
