import Cpppo.Props.C04
import Cpppo.Props.C05
import Cpppo.Props.C07

/-!
# C03 — Tags behave as typed arrays: a read returns the most recently written values

About `Cpppo.Logix.execTag` / `execSimple` (model of `Logix.request`, `Object.request`), for every
device, every tag type and length, every path form, every index / count / offset / budget.
The "array" of a tag is `tag.vals`; a write of converted values `w` at element `b` replaces exactly
`vals[b .. b+|w|)` (`spliceAt`), and a read returns exactly `(vals.drop b).take k`.
-/
namespace Cpppo.Logix

/-- **A read returns the stored elements of the addressed range, with the tag's own CIP type**
(valid range, fragment offset `j` elements; status 0 on the last fragment, 6 before). -/
theorem read_returns_stored (d : Dev) (self : Nat × Nat) (svc : Nat) (isFrag : Bool) (p : Path)
    (n off c i a : Nat) (tag : Tag) (hr : resolveTag d self p = some (c, i, a, tag))
    (hv : tag.Vector) (hs : 0 < tag.ty.size) (j : Nat)
    (hoff : (if isFrag then off else 0) = j * tag.ty.size)
    (hfit : resolveElement p + n ≤ tag.vals.length) (hj : j < n) :
    execTag d self svc true isFrag p 0 n off [] =
      (d, { svc := svc
            status := if n - j ≤ fragCount d.maxBytes tag.ty.size then 0 else 6
            ty := some tag.ty
            vals := (tag.vals.drop (resolveElement p + j)).take (min (n - j) (fragCount d.maxBytes tag.ty.size)) }) := by
  unfold execTag
  rw [hr]
  simp only [↓reduceIte, hoff]
  rw [read_fragment tag hv d.maxBytes (resolveElement p) n j hs hfit hj]

/-- **A successful write stores exactly the converted values at the addressed elements**
(valid range, fragment offset `j` elements). -/
theorem write_stores (d : Dev) (self : Nat × Nat) (svc : Nat) (isFrag : Bool) (p : Path)
    (reqTy n off c i a : Nat) (data : Bytes) (tag : Tag) (w : List Val)
    (hr : resolveTag d self p = some (c, i, a, tag)) (hw : convWrite tag reqTy data = some w)
    (hv : tag.Vector) (hs : 0 < tag.ty.size) (j : Nat)
    (hoff : (if isFrag then off else 0) = j * tag.ty.size)
    (hfit : resolveElement p + n ≤ tag.vals.length) (hw1 : 1 ≤ w.length) (hj : j + w.length ≤ n) :
    execTag d self svc false isFrag p reqTy n off data =
      (d.setAttr c i a { tag with vals := spliceAt tag.vals (resolveElement p + j) w },
       { svc := svc, status := 0 }) := by
  unfold execTag
  rw [hr]
  simp only [Bool.false_eq_true, ↓reduceIte, hw, hoff]
  rw [write_fragment tag hv d.maxBytes (resolveElement p) n j w hs hfit hw1 hj]

/-- **A write changes only the addressed elements of the addressed tag**: every other address is
untouched, and inside the tag every element outside `[b, b+|w|)` keeps its value. -/
theorem write_frame (d : Dev) (c i a : Nat) (tag : Tag) (b : Nat) (w : List Val)
    (htag : d.attr? c i a = some tag) (hfit : b + w.length ≤ tag.vals.length) :
    let d' := d.setAttr c i a { tag with vals := spliceAt tag.vals b w }
    (∀ c' i' a', (c', i', a') ≠ (c, i, a) → d'.attr? c' i' a' = d.attr? c' i' a')
    ∧ (∃ t', d'.attr? c i a = some t' ∧ t'.ty = tag.ty ∧ t'.scalar = tag.scalar
        ∧ t'.vals.length = tag.vals.length
        ∧ ∀ k, t'.vals[k]? = if b ≤ k ∧ k < b + w.length then w[k - b]? else tag.vals[k]?) := by
  refine ⟨?_, ?_⟩
  · intro c' i' a' hne
    rw [Dev.attr?_setAttr, if_neg]
    intro h; apply hne; obtain ⟨rfl, rfl, rfl⟩ := h; rfl
  · refine ⟨{ tag with vals := spliceAt tag.vals b w }, ?_, rfl, rfl, spliceAt_length _ _ _ hfit, ?_⟩
    · rw [Dev.attr?_setAttr, if_pos ⟨rfl, rfl, rfl⟩, htag]; rfl
    · intro k; exact getElem?_spliceAt _ _ _ _ hfit

/-- after a write the same path designates the updated tag -/
theorem resolveTag_setAttr_same {d : Dev} {self : Nat × Nat} {p : Path} {c i a : Nat} {tag : Tag}
    (hr : resolveTag d self p = some (c, i, a, tag)) (t' : Tag) :
    resolveTag (d.setAttr c i a t') self p = some (c, i, a, t') := by
  have ⟨htag, _⟩ := resolveTag_some hr
  unfold resolveTag at hr ⊢
  rw [(Dev.setAttr_symbols d c i a t').1]
  split at hr
  · simp at hr
  · rename_i c0 i0 a0 hres
    dsimp only at hr ⊢
    split at hr
    · simp at hr
    · rename_i hself
      rw [if_neg hself]
      split at hr
      · simp at hr
      · simp only [Option.some.injEq, Prod.mk.injEq] at hr
        obtain ⟨rfl, rfl, rfl, rfl⟩ := hr
        rw [Dev.attr?_setAttr, if_pos ⟨rfl, rfl, rfl⟩, htag]
        rfl

/-- **Read-after-write: reading the elements just written returns the written values as represented in
the tag's type** (whole written range read back in one reply that fits the budget). -/
theorem write_then_read (d : Dev) (self : Nat × Nat) (p : Path) (reqTy n c i a : Nat) (data : Bytes)
    (tag : Tag) (w : List Val)
    (hr : resolveTag d self p = some (c, i, a, tag)) (hw : convWrite tag reqTy data = some w)
    (hv : tag.Vector) (hs : 0 < tag.ty.size)
    (hfit : resolveElement p + n ≤ tag.vals.length) (hwn : w.length = n) (hn : 1 ≤ n)
    (hbud : n ≤ fragCount d.maxBytes tag.ty.size) :
    let d' := (execTag d self svcWrTag false false p reqTy n 0 data).1
    (execTag d' self svcRdTag true false p 0 n 0 []).2 =
      { svc := svcRdTag, status := 0, ty := some tag.ty, vals := w } := by
  intro d'
  have hd' : d' = d.setAttr c i a { tag with vals := spliceAt tag.vals (resolveElement p) w } := by
    show (execTag d self svcWrTag false false p reqTy n 0 data).1 = _
    rw [write_stores d self svcWrTag false p reqTy n 0 c i a data tag w hr hw hv hs 0 (by simp) hfit
      (by omega) (by omega)]
    simp
  have h1 : resolveTag d' self p
      = some (c, i, a, { tag with vals := spliceAt tag.vals (resolveElement p) w }) := by
    rw [hd']; exact resolveTag_setAttr_same hr _
  have hl : (spliceAt tag.vals (resolveElement p) w).length = tag.vals.length :=
    spliceAt_length _ _ _ (by omega)
  have hmb : d'.maxBytes = d.maxBytes := by
    show (execTag d self svcWrTag false false p reqTy n 0 data).1.maxBytes = d.maxBytes
    rw [write_stores d self svcWrTag false p reqTy n 0 c i a data tag w hr hw hv hs 0 (by simp) hfit
      (by omega) (by omega)]
    rfl
  rw [read_returns_stored d' self svcRdTag false p n 0 c i a _ h1 hv hs 0 (by simp) (by simp only [hl]; exact hfit) hn]
  simp only [Nat.sub_zero, Nat.add_zero, hmb]
  rw [if_pos hbud, Nat.min_eq_left hbud]
  congr 1
  -- the slice of the spliced list at the written position is what was written
  unfold spliceAt
  rw [List.append_assoc, List.drop_append_of_le_length (by simp; omega)]
  have : (List.take (resolveElement p) tag.vals).length = resolveElement p := by simp; omega
  rw [List.drop_of_length_le (by omega), List.nil_append, ← hwn, List.take_left]

/-- **Symbolic and numeric addressing agree**: a tag name that the symbol table maps to
`(c, i, a)` designates the same attribute as the path `@c/i/a` (each followed by an optional element). -/
theorem symbolic_numeric_agree (d : Dev) (self : Nat × Nat) (name : String) (c i a : Nat) (tail : Path)
    (hsym : lookupSym d.symbols (lower name) = some (c, i, a))
    (htail : tail = [] ∨ ∃ e, tail = [.elem e]) :
    resolveTag d self (.symbolic name :: tail) = resolveTag d self (.cls c :: .ins i :: .attr a :: tail)
    ∧ resolveElement (.symbolic name :: tail) = resolveElement (.cls c :: .ins i :: .attr a :: tail) := by
  have hname : ("" : String).isEmpty = true := rfl
  rcases htail with rfl | ⟨e, rfl⟩
  · refine ⟨?_, rfl⟩
    unfold resolveTag resolve
    simp [resolveGo, hsym, hname, isAttrSeg]
  · refine ⟨?_, rfl⟩
    unfold resolveTag resolve
    simp [resolveGo, hsym, hname, isAttrSeg]

/-- **Read Tag and Read Tag Fragmented at offset 0 return the same elements.** -/
theorem service_views_agree (d : Dev) (self : Nat × Nat) (p : Path) (n : Nat) :
    let r1 := (execTag d self svcRdTag true false p 0 n 0 []).2
    let r2 := (execTag d self svcRdFrg true true p 0 n 0 []).2
    r1.status = r2.status ∧ r1.ext = r2.ext ∧ r1.ty = r2.ty ∧ r1.vals = r2.vals := by
  unfold execTag
  simp only [↓reduceIte, Bool.false_eq_true]
  split
  · simp [errReply]
  · generalize tagAccess _ _ _ _ _ _ _ = acc
    cases acc <;> simp [errReply]

/-- **Get Attribute Single returns the whole array as the tag type's bytes.** -/
theorem get_attribute_single_whole (d : Dev) (self : Nat × Nat) (c i a : Nat) (tag : Tag) (bs : Bytes)
    (hself : (c, i) = self) (htag : d.attr? c i a = some tag) (hbs : tag.produce = some bs) :
    (execAttr d self (.getAttrSingle [.cls c, .ins i, .attr a])).2 = { svc := svcGaSng, status := 0, raw := bs } := by
  have hname : ("" : String).isEmpty = true := rfl
  unfold Dev.attr? at htag
  cases ho : d.obj? c i with
  | none => simp [ho] at htag
  | some o =>
    simp only [ho, Option.bind_some] at htag
    unfold execAttr
    simp [resolve, resolveGo, hname, hself, ho, htag, hbs, List.getLast?]

/-! ### inversion: what a success status implies, with no assumption on the request -/

/-- **Any read answered with status 0 or 6 returned exactly a slice of the addressed tag's stored elements,
starting at `index + offset / size`, at least one element, inside the requested range; status 0 iff the
slice reaches the end of the requested range.**  (every tag, scalar or array; every path/count/offset) -/
theorem read_ok_inv (d : Dev) (self : Nat × Nat) (svc : Nat) (isFrag : Bool) (p : Path) (n off : Nat)
    (h : (execTag d self svc true isFrag p 0 n off []).2.status = 0
       ∨ (execTag d self svc true isFrag p 0 n off []).2.status = 6) :
    ∃ c i a tag beg k, resolveTag d self p = some (c, i, a, tag)
      ∧ beg = resolveElement p + (if isFrag then off else 0) / tag.ty.size
      ∧ 1 ≤ k ∧ beg + k ≤ resolveElement p + n ∧ resolveElement p + n ≤ tag.len
      ∧ (execTag d self svc true isFrag p 0 n off []).2.ty = some tag.ty
      ∧ (execTag d self svc true isFrag p 0 n off []).2.vals = (tag.vals.drop beg).take k
      ∧ ((execTag d self svc true isFrag p 0 n off []).2.status = 0 ↔ beg + k = resolveElement p + n) := by
  unfold execTag at h ⊢
  cases hr : resolveTag d self p with
  | none => rw [hr] at h; simp [errReply] at h
  | some r =>
    obtain ⟨c, i, a, tag⟩ := r
    rw [hr] at h
    simp only [↓reduceIte] at h ⊢
    cases hacc : tagAccess tag d.maxBytes true (resolveElement p) n (if isFrag then off else 0) [] with
    | refused => rw [hacc] at h; simp [errReply] at h
    | wrote t' => exact absurd hacc (tagAccess_read_ne_wrote _ _ _ _ _ _ _)
    | read st vals =>
      obtain ⟨beg, k, h1, h2, h3, h4, h5, _, h7⟩ := tagAccess_read_inv _ _ _ _ _ _ _ _ hacc
      exact ⟨c, i, a, tag, beg, k, rfl, h1, h2, h3, h4, rfl, h5, h7⟩

/-- **Any write acknowledged with status 0 stored exactly the request's values, converted to the tag's type,
at elements `[beg, beg + |w|)` of the addressed tag — inside the tag and inside the declared range — and
changed nothing else.**  (every tag, scalar or array) -/
theorem write_ok_inv (d : Dev) (self : Nat × Nat) (svc : Nat) (isFrag : Bool) (p : Path) (reqTy n off : Nat)
    (data : Bytes) (h : (execTag d self svc false isFrag p reqTy n off data).2.status = 0) :
    ∃ c i a tag w beg, resolveTag d self p = some (c, i, a, tag) ∧ convWrite tag reqTy data = some w
      ∧ beg = resolveElement p + (if isFrag then off else 0) / tag.ty.size
      ∧ 1 ≤ w.length ∧ beg + w.length ≤ resolveElement p + n ∧ resolveElement p + n ≤ tag.len
      ∧ (execTag d self svc false isFrag p reqTy n off data).1
          = d.setAttr c i a { tag with vals := if tag.scalar then w.take 1 else spliceAt tag.vals beg w } := by
  unfold execTag at h ⊢
  cases hr : resolveTag d self p with
  | none => rw [hr] at h; simp [errReply] at h
  | some r =>
    obtain ⟨c, i, a, tag⟩ := r
    rw [hr] at h
    simp only [Bool.false_eq_true, ↓reduceIte] at h ⊢
    cases hw : convWrite tag reqTy data with
    | none => rw [hw] at h; simp [errReply] at h
    | some w =>
      rw [hw] at h
      simp only at h ⊢
      cases hacc : tagAccess tag d.maxBytes false (resolveElement p) n (if isFrag then off else 0) w with
      | refused => rw [hacc] at h; simp [errReply] at h
      | read st vals => exact absurd hacc (tagAccess_write_ne_read _ _ _ _ _ _ _ _)
      | wrote t' =>
        obtain ⟨beg, h1, h2, h3, h4, h5⟩ := tagAccess_wrote_inv _ _ _ _ _ _ _ hacc
        exact ⟨c, i, a, tag, w, beg, rfl, hw, h1, h2, h3, h4, by rw [h5]⟩

/-! ### histories: the arrays have a fixed type and length forever -/

/-- the shape of a tag: element type, scalar flag, number of elements -/
def Tag.shape (t : Tag) : CipType × Bool × Nat := (t.ty, t.scalar, t.vals.length)

theorem execTag_shape (d : Dev) (hwf : d.WF) (self : Nat × Nat) (svc : Nat) (isRead isFrag : Bool) (p : Path)
    (reqTy n off : Nat) (data : Bytes) (c' i' a' : Nat) :
    ((execTag d self svc isRead isFrag p reqTy n off data).1.attr? c' i' a').map Tag.shape
      = (d.attr? c' i' a').map Tag.shape := by
  unfold execTag
  split
  · rfl
  · rename_i c i a tag hr
    have htag := (resolveTag_some hr).1
    split
    · rfl
    · rename_i wvals hwv
      split
      · rfl
      · rfl
      · rename_i t' hacc
        by_cases hrd : isRead = true
        · subst hrd; exact absurd hacc (tagAccess_read_ne_wrote _ _ _ _ _ _ _)
        · have hrd' : isRead = false := by simpa using hrd
          subst hrd'
          simp only [Bool.false_eq_true, ↓reduceIte] at hwv
          obtain ⟨_, h1, h2, h3⟩ :=
            tagAccess_wrote_wf tag (hwf c i a tag htag) _ _ _ _ wvals (convWrite_canon hwv) t' hacc
          simp only
          rw [Dev.attr?_setAttr]
          split
          · rename_i h; obtain ⟨rfl, rfl, rfl⟩ := h
            rw [htag]; simp [Tag.shape, h1, h2, h3]
          · rfl

/-- **After any sequence of Read/Write Tag [Fragmented] requests every tag still has its original
element type and length, and stays producible** (fixed-length typed arrays). -/
theorem history_shape (d : Dev) (hwf : d.WF) (ss : List Simple) (hs : ∀ s ∈ ss, isTagService s = true)
    (c i a : Nat) :
    ((runSingly d ss).1.attr? c i a).map Tag.shape = (d.attr? c i a).map Tag.shape ∧ (runSingly d ss).1.WF := by
  induction ss generalizing d with
  | nil => exact ⟨rfl, hwf⟩
  | cons s rest ih =>
    have hs1 : isTagService s = true := hs s (by simp)
    have hstep : ((execSimple d s).1.attr? c i a).map Tag.shape = (d.attr? c i a).map Tag.shape
        ∧ (execSimple d s).1.WF := by
      unfold execSimple execSimpleAt
      cases s <;> simp [isTagService] at hs1 <;> simp only
      all_goals exact ⟨execTag_shape _ hwf _ _ _ _ _ _ _ _ _ _ _ _, execTag_preserves_wf _ hwf _ _ _ _ _ _ _ _ _⟩
    obtain ⟨h1, h2⟩ := ih (execSimple d s).1 hstep.2 (fun x hx => hs x (by simp [hx]))
    simp only [runSingly]
    exact ⟨h1.trans hstep.1, h2⟩

/-- any sequence of reads leaves the device exactly as it was -/
theorem history_reads_pure (d : Dev) (ss : List Simple)
    (hs : ∀ s ∈ ss, match s with | .readTag .. | .readFrag .. => True | _ => False) :
    (runSingly d ss).1 = d := by
  induction ss generalizing d with
  | nil => rfl
  | cons s rest ih =>
    have h1 : (execSimple d s).1 = d := by
      have := hs s (by simp)
      unfold execSimple execSimpleAt
      cases s <;> simp only at this ⊢ <;> exact execTag_read_noop _ _ _ _ _ _ _
    simp only [runSingly]
    rw [h1]
    exact ih d (fun x hx => hs x (by simp [hx]))

/-! ### non-vacuity -/

example : (execSimple demoDev (.readTag [.symbolic "A", .elem 1] 2)).2.vals = [.int 2, .int 3] := by
  decide +kernel

example :
    let d' := (execSimple demoDev (.writeTag [.cls 2, .ins 1, .attr 1, .elem 1] 193 1 [255])).1
    (execSimple d' (.readTag [.symbolic "a"] 3)).2.vals = [.int 1, .int 1, .int 3] := by decide +kernel

end Cpppo.Logix
