import Cpppo.Proofs.History
import Cpppo.Proofs.Natural
import Cpppo.Generated.Tables

/-!
# C18 — History replay delivers every logged record exactly once, in order, on time

The theorems are about the model `Cpppo.History` of `history/files.py` (`reader.open`, `loader.load`)
with the three repairs of `fixes/C18-*.patch` (`Fix.new`); the code as it was (`Fix.old`) is kept in
the model and shown to violate the property on concrete histories.

Quantification: every history `H` (any number of files, visited newest first as `reader.open` does;
any lines: records with usable or unusable payloads, comments, lines with an unparsable timestamp),
every look-ahead, every schedule of `load` calls (clock, `limit`, `upcoming`) whose clock does not go
back, every start point (the clock of the first call).  Hypothesis `WF H` (decidable):
  * every file begins (after comments) with a parseable record whose payload is JSON (the "initial
    frame"; `reader.open` skips other files by design and the loader fails on a damaged first frame),
  * timestamps do not decrease along the history,
  * the first timestamps of the files strictly increase.  Given the second, this is equivalent to: a
    file whose records all carry one timestamp is followed by a file that starts strictly later.
The last condition is what makes `delivered_exactly_once_partial` *partial*: `reader.open` identifies
files by timestamps only, and `exactly_once_all_fails` shows that without it records are lost
(known finding, `known_findings.json`).

`spanLines H c` are the lines of the start file (the newest file whose first record is not later
than `c`, else the oldest file) and of all newer files, oldest first; `deliverable` keeps the
records with a non-empty register payload, as (timestamp, payload) — the events that must come out.
-/
namespace Cpppo.History

/-- the events delivered by the first `n` calls, in order of delivery -/
def deliveredBy (outs : List LoadOut) (n : Nat) : List Event := ((outs.take n).map outEvents).flatten

/-- all events delivered, in order of delivery -/
def delivered (outs : List LoadOut) : List Event := (outs.map outEvents).flatten

section
variable (H : History) (o : Opts) (hfix : o.fix = .new) (hwf : WF H)
  (a : LoadArgs) (as : List LoadArgs) (hmono : ClockMono (a :: as))
include hfix hwf hmono

/-- **Exactly once, in order, as logged** (partial: under `WF`).  Every `load` call returns (the
loader never hangs), and the events delivered by the whole schedule, in order of delivery, are an
initial segment of the events of the history from the start file on: nothing is delivered twice,
nothing is skipped, nothing is reordered, timestamps and values are those logged.  Holds with any
`limit` / `upcoming` arguments. -/
theorem delivered_exactly_once_partial :
    (runLoads H o (a :: as) {}).length = (a :: as).length ∧
    (∀ out ∈ runLoads H o (a :: as) {}, out ≠ .hang) ∧
    ∃ later, deliverable (spanLines H a.clock) = delivered (runLoads H o (a :: as) {}) ++ later := by
  have ht := run_trace H o hfix hwf a as hmono
  obtain ⟨h1, h2⟩ := trace_length ht
  obtain ⟨c, r, h3, h4⟩ := trace_prefix ht
  exact ⟨h1, h2, deliverable r, by rw [delivered, h4, h3, deliverable_append]⟩

/-- **Never early.**  An event delivered by the `i`-th call is not later than the historical clock
of that call plus the look-ahead. -/
theorem never_early (i : Nat) (b : LoadArgs) (out : LoadOut)
    (hb : (a :: as)[i]? = some b) (hout : (runLoads H o (a :: as) {})[i]? = some out) :
    ∀ e ∈ outEvents out, e.1 ≤ b.clock + o.la :=
  trace_never_early (run_trace H o hfix hwf a as hmono) i b out hb hout

/-- **Not late.**  After a call without `limit`/`upcoming`, every event whose time (minus look-ahead)
the clock of that call has reached has been delivered, by that call or an earlier one. -/
theorem not_late (i : Nat) (b : LoadArgs) (hb : (a :: as)[i]? = some b)
    (hl : b.limit = none) (hu : b.upcoming = none) :
    ∃ later, deliverable (spanLines H a.clock) = deliveredBy (runLoads H o (a :: as) {}) (i + 1) ++ later ∧
      ∀ e ∈ later, b.clock + o.la < e.1 := by
  obtain ⟨c, r, h1, h2, h3⟩ :=
    trace_not_late (run_trace H o hfix hwf a as hmono) (spanLines_sorted hwf a.clock) i b hb hl hu
  exact ⟨deliverable r, by rw [deliveredBy, h2, h1, deliverable_append],
    fun e he => h3 _ (mem_deliverable_ts he)⟩

/-- **On time** (the three clauses in one equation).  With calls that carry no `limit`/`upcoming`,
what has been delivered after the `i`-th call is exactly the sequence of the events of the history
(from the start file on) whose time the clock of that call, plus look-ahead, has reached. -/
theorem replay_on_time (i : Nat) (b : LoadArgs) (hb : (a :: as)[i]? = some b)
    (hl : b.limit = none) (hu : b.upcoming = none) :
    deliveredBy (runLoads H o (a :: as) {}) (i + 1) =
      (deliverable (spanLines H a.clock)).filter (fun e => e.1 ≤ b.clock + o.la) := by
  obtain ⟨c, r, h1, h2, h3, h4⟩ :=
    trace_on_time (run_trace H o hfix hwf a as hmono) hmono (spanLines_sorted hwf a.clock) i b hb hl hu
  rw [deliveredBy, h2, h1, deliverable_append, List.filter_append]
  have hc : (deliverable c).filter (fun e => e.1 ≤ b.clock + o.la) = deliverable c := by
    rw [List.filter_eq_self]
    intro e he
    simpa using h3 _ (mem_deliverable_ts he)
  have hr : (deliverable r).filter (fun e => e.1 ≤ b.clock + o.la) = [] := by
    rw [List.filter_eq_nil_iff]
    intro e he
    have := h4 _ (mem_deliverable_ts he)
    simp only [decide_eq_true_eq, Nat.not_le]
    exact this
  rw [hc, hr, List.append_nil]

/-- **Completion.**  When the loader is EXHAUSTED or COMPLETE, every event of the history from the
start file on has been delivered (exactly once and in order, by `delivered_exactly_once_partial`). -/
theorem complete_all_delivered
    (hst : (lastState (runLoads H o (a :: as) {}) {}).st = .exhausted ∨
           (lastState (runLoads H o (a :: as) {}) {}).st = .complete) :
    delivered (runLoads H o (a :: as) {}) = deliverable (spanLines H a.clock) :=
  trace_exhausted (run_trace H o hfix hwf a as hmono) (by simp) {} hst

end

section
variable (H : History) (o : Opts) (hfix : o.fix = .new) (hwf : WF H)
  (a : LoadArgs) (as : List LoadArgs) (hmono : ClockMono (a :: as))
include hfix hwf hmono

/-- **Final values.**  When the replay is COMPLETE the queue of pending records is empty and the
register map holds, for every register, the last value logged for it from the start file on, stamped
with the time of that record (the driver and the code print it through `realtime`, which `advance`
inverts: `advance_realtime`); a register never logged is absent. -/
theorem final_values (hst : (lastState (runLoads H o (a :: as) {}) {}).st = .complete) :
    (lastState (runLoads H o (a :: as) {}) {}).future = [] ∧
    ∀ r, lookupReg r (lastState (runLoads H o (a :: as) {}) {}).values =
      lastLogged r (deliverable (spanLines H a.clock)) := by
  obtain ⟨hp, hg, _⟩ := runLoads_pending H o (a :: as) {} (by intro h; simp at h)
  have hfut := hg hst
  refine ⟨hfut, fun r => ?_⟩
  have hall := complete_all_delivered H o hfix hwf a as hmono (Or.inr hst)
  unfold delivered at hall
  rw [hall] at hp
  have : pending (lastState (runLoads H o (a :: as) {}) {}) =
      (lastState (runLoads H o (a :: as) {}) {}).values := by simp [pending, hfut]
  rw [this] at hp
  rw [hp, lookupReg_foldl_absorb]
  cases lastLogged r (deliverable (spanLines H a.clock)) <;> rfl

/-- **Comment lines and lines with a damaged timestamp are skipped without losing the records around
them**: with calls that carry no `limit`/`upcoming`, the history and the history without those lines
deliver the same events by the same calls.  (Records with an unusable payload are covered by every
theorem above: `deliverable` leaves them out and everything else is still delivered.) -/
theorem junk_lines_skipped (hall : ∀ b ∈ a :: as, b.limit = none ∧ b.upcoming = none) (i : Nat)
    (hi : i < (a :: as).length) :
    deliveredBy (runLoads (H.map stripLines) o (a :: as) {}) (i + 1) =
      deliveredBy (runLoads H o (a :: as) {}) (i + 1) := by
  obtain ⟨b, hb⟩ : ∃ b, (a :: as)[i]? = some b := ⟨(a :: as)[i], by simp⟩
  obtain ⟨hl, hu⟩ := hall b (List.mem_of_getElem? hb)
  rw [replay_on_time H o hfix hwf a as hmono i b hb hl hu,
    replay_on_time (H.map stripLines) o hfix hwf.strip a as hmono i b hb hl hu,
    spanLines_strip a.clock H hwf.first_ok, deliverable_strip]

end

/-- **Completion is reached.**  Let the schedule end with two calls `b1`, `b2` without
`limit`/`upcoming` whose clock has reached the last timestamp of the history (the clock of the first
call of the schedule fixes the start file).  Then the replay is COMPLETE after `b2` (and by
`complete_all_delivered` / `final_values` everything was delivered and the register map is final). -/
theorem replay_completes (H : History) (o : Opts) (hfix : o.fix = .new) (hwf : WF H)
    (front : List LoadArgs) (b1 b2 : LoadArgs) (hmono : ClockMono (front ++ [b1, b2]))
    (h1 : b1.limit = none ∧ b1.upcoming = none) (h2 : b2.limit = none ∧ b2.upcoming = none)
    (hlast : ∀ t ∈ tsOf (spanLines H ((front ++ [b1]).head (by simp)).clock), t ≤ b1.clock) :
    (lastState (runLoads H o (front ++ [b1, b2]) {}) {}).st = .complete := by
  -- the schedule up to and including b1, as `a :: as`
  obtain ⟨a, as, hsched⟩ : ∃ a as, front ++ [b1] = a :: as := by
    cases front with
    | nil => exact ⟨b1, [], rfl⟩
    | cons x xs => exact ⟨x, xs ++ [b1], rfl⟩
  have hhead : ((front ++ [b1]).head (by simp)).clock = a.clock := by simp [hsched]
  rw [hhead] at hlast
  have hsplit : front ++ [b1, b2] = (front ++ [b1]) ++ [b2] := by simp
  have hmono1 : ClockMono (a :: as) := by
    rw [← hsched]
    unfold ClockMono at hmono ⊢
    rw [hsplit] at hmono
    exact (List.pairwise_append.mp hmono).1
  have hb12 : b1.clock ≤ b2.clock := by
    unfold ClockMono at hmono
    rw [hsplit] at hmono
    exact (List.pairwise_append.mp hmono).2.2 b1 (by simp) b2 (by simp)
  have htrace := run_trace H o hfix hwf a as hmono1
  obtain ⟨_, hnohang⟩ := trace_length htrace
  rw [← hsched] at htrace hnohang
  obtain ⟨c, r, hc, hdel, hpos, hset⟩ := trace_last htrace {}
  -- after b1 everything is consumed and the loader knows it
  have hs1 : r = [] ∧ ((lastState (runLoads H o (front ++ [b1]) {}) {}).st = .exhausted ∨
      (lastState (runLoads H o (front ++ [b1]) {}) {}).st = .complete) := by
    rcases hset h1.1 h1.2 with h | ⟨ts, p, tl, hr, hlt⟩
    · exact h
    · exfalso
      have : ts ∈ tsOf (spanLines H a.clock) := by
        rw [hc, hr, tsOf_append, tsOf_cons_recd]; simp
      exact Nat.lt_irrefl _ (Nat.lt_of_lt_of_le (Nat.lt_of_le_of_lt (Nat.le_add_right _ _) hlt) (hlast ts this))
  have hgen : (lastState (runLoads H o (front ++ [b1]) {}) {}).gen = .noop := by
    cases hpos with
    | exhausted _ _ hg => exact hg
    | inFile later f post need rest cur adv _ _ _ _ _ _ _ hnone hsome =>
      exfalso
      cases need with
      | none => have := (hnone rfl).1; rcases hs1.2 with h | h <;> rw [this] at h <;> simp at h
      | some tp => have := (hsome tp.1 tp.2 rfl).1; rcases hs1.2 with h | h <;> rw [this] at h <;> simp at h
  -- whatever is still queued was delivered, hence logged, hence not later than the clock of b2
  obtain ⟨_, _, hq⟩ := runLoads_pending H o (front ++ [b1]) {} (by intro h; simp at h)
  have hfut : ∀ e ∈ (lastState (runLoads H o (front ++ [b1]) {}) {}).future, e.1 ≤ b2.clock := by
    intro e he
    rcases hq e he with h | h
    · simp at h
    · rw [hdel] at h
      have : e.1 ∈ tsOf (spanLines H a.clock) := by
        rw [hc, tsOf_append]; exact List.mem_append_left _ (mem_deliverable_ts h)
      exact Nat.le_trans (hlast _ this) hb12
  obtain ⟨t, s2, hload, hst2⟩ := load_exhausted_complete H o b2 _ hs1.2 hgen h2.2 hfut
  rw [hsplit, runLoads_append H o (front ++ [b1]) [b2] {} hnohang]
  simp only [runLoads, hload]
  rw [lastState_append_done]
  exact hst2

/-- **Copies.**  With compressed copies beside (or instead of) the plain files — the same lines under
names that sort directly after the original — the replay is that of the history without copies, to
which the theorems above apply.  (`withCopies` violates `WF` by itself: copies share a first timestamp.) -/
theorem copies_irrelevant (fs : List (File × Nat)) (o : Opts) (hfix : o.fix = .new)
    (hwf : WF (fs.map (·.1))) (a : LoadArgs) (as : List LoadArgs) (hmono : ClockMono (a :: as)) :
    runLoads (withCopies fs) o (a :: as) {} = runLoads (fs.map (·.1)) o (a :: as) {} :=
  runLoads_copies fs o (a :: as) {} (delivered_exactly_once_partial _ o hfix hwf a as hmono).2.1

/-! ### Which file is opened -/

/-- the initial open (`after=False`): the newest file whose first record is not later than the
target, else the oldest file -/
theorem select_before_spec (c : Time) (H : History) (hok : ∀ f ∈ H, FirstOk f) :
    (H = [] → scan c false false H none = none) ∧
    ∀ pre f post, startSplit c H = some (pre, f, post) →
      scan c false false H none = some (openedOf f) ∧ H = pre ++ f :: post ∧
      (∀ g ∈ pre, c < firstTs0 g) ∧ (firstTs0 f ≤ c ∨ post = []) := by
  refine ⟨by rintro rfl; rfl, ?_⟩
  intro pre f post hs
  have := scan_before c H none hok
  rw [hs] at this
  exact ⟨this, startSplit_spec hs⟩

/-- a later open (`after=True`): of the files visited newest first, the last one before the first
file whose first timestamp is not after (`strict`: not strictly after) the target -/
theorem select_after_spec (target : Time) (strict : Bool) (newer : History) (g f : File) (older : History)
    (hnewer : ∀ h ∈ newer ++ [g], FirstOk h ∧ afterOk strict target (firstTs0 h) = true)
    (hf : FirstOk f) (hstop : afterOk strict target (firstTs0 f) = false) :
    scan target true strict (newer ++ g :: f :: older) none = some (openedOf g) := by
  obtain ⟨pf, rf, hfr, _⟩ := hf.ok
  obtain ⟨hg, hgok⟩ := hnewer g (by simp)
  obtain ⟨pg, rg, hgr, _⟩ := hg.ok
  have : newer ++ g :: f :: older = (newer ++ [g]) ++ f :: older := by simp
  rw [this, scan_after_stop target strict (newer ++ [g]) f older none
    (by intro t p r h; rw [hfr] at h; simp only [First.ok.injEq] at h; rw [← h.1]; exact hstop)
    (by rw [hfr]; simp), openedOf_eq hgr]
  refine scan_after_all target strict newer g none ?_ hgr hgok
  intro h hh
  obtain ⟨h1, h2⟩ := hnewer h (by simp [hh])
  obtain ⟨p, r, hr, _⟩ := h1.ok
  exact ⟨_, _, _, hr, h2⟩

/-! ### The order in which files are visited (`misc.natural`) and the clock -/

/-- "does not sort after" by the `natural` key is a total preorder on names -/
theorem natural_sort_total :
    (∀ a b, naturalLe a b = true ∨ naturalLe b a = true) ∧
    (∀ a b c, naturalLe a b = true → naturalLe b c = true → naturalLe a c = true) :=
  ⟨natural_totalPre.total, natural_totalPre.trans⟩

/-- the visiting order is a permutation of the directory listing, sorted by the `natural` key -/
theorem natural_sort_sorted (names : List (List Nat)) :
    (sortByLt naturalLt names).Perm names ∧
    (sortByLt naturalLt names).Pairwise (fun a b => naturalLt b a = false) :=
  ⟨sortByLt_perm _ _, sortByLt_sorted naturalLt natural_totalPre names⟩

/-- suffix as a list of code points -/
def sfx (s : String) : List Nat := s.toList.map Char.toNat

/-- rotation names come newest first: `''`, `.0`, `.1`, `.1.bz2`, `.1.gz`, `.2`, `.10` -/
theorem rotation_names_order :
    sortByLt naturalLt [sfx ".10", sfx ".1.gz", sfx "", sfx ".2", sfx ".1", sfx ".0", sfx ".1.bz2"]
      = [sfx "", sfx ".0", sfx ".1", sfx ".1.bz2", sfx ".1.gz", sfx ".2", sfx ".10"] := by decide +kernel

/-- the historical clock `historical + (now - basis) * factor` does not go back, and `realtime`
(the stamp put on replayed values) is its inverse -/
theorem clock_monotone_and_inverse (hist : Int) (fd : Nat) (hfd : 0 < fd) :
    (∀ w w', w ≤ w' → advance hist fd w ≤ advance hist fd w') ∧
    (∀ ts, advance hist fd (realtime hist fd ts) = ts) :=
  ⟨advance_mono hist fd, advance_realtime hist fd hfd⟩

/-- the clock runs at the same rate on both sides of `basis`: `k` whole steps of wall-clock time
(`k` negative: calls made before the wall-clock instant at which the start point is scheduled) move
it by `k` ticks from the start point -- in particular it is below `historical` before `basis`, so
that by `never_early` (stated for the clock of each call) nothing later than it is delivered then -/
theorem clock_affine (hist : Int) (fd : Nat) (hfd : 0 < fd) (k : Int) :
    advance hist fd (k * fd) = hist + k ∧ (k < 0 → advance hist fd (k * fd) < hist) := by
  rw [advance_affine hist fd hfd k]
  exact ⟨rfl, fun h => by omega⟩

/-- a call 30 ticks before the scheduled start point 1100: the clock is 1070, not 1100 -/
example : advance 1100 10 (-30 * 10) = 1070 := by decide

/-! ### Non-vacuity -/

def eventsOf' (outs : List LoadOut) : List (List Event) := outs.map outEvents

def R (t : Time) (v : Int) (reg : Nat := 40001) : Line := .recd t (.regs [(reg, v)])

/-- three files (newest first), equal timestamps inside and across a boundary where that is allowed,
a comment, a line with a damaged timestamp, a truncated payload -/
def H0 : History :=
  [[R 1040 6, R 1040 7 40002],
   [.comment, R 1020 3, .corrupt, .recd 1025 .bad, R 1030 4, R 1040 5],
   [R 1000 1, R 1010 2 40002]]

example : WF H0 := by decide

def sched0 : List LoadArgs :=
  [⟨1005, none, none⟩, ⟨1015, some 1, none⟩, ⟨1030, none, some 1030⟩, ⟨1030, none, none⟩, ⟨1050, none, none⟩,
   ⟨1060, none, none⟩]

example : ClockMono sched0 := by decide

/-- the replay of `H0` from 1005 with look-ahead 5 delivers all seven events once, in order -/
example : delivered (runLoads H0 { la := 5 } sched0 {}) = deliverable (spanLines H0 1005) ∧
    (lastState (runLoads H0 { la := 5 } sched0 {}) {}).st = .complete := by decide +kernel

example : (deliverable (spanLines H0 1005)).length = 7 := by decide +kernel

/-- the hypotheses of `replay_completes` on that schedule (its last two calls are 1050 and 1060) -/
example : ∀ t ∈ tsOf (spanLines H0 1005), t ≤ 1050 := by decide +kernel

/-- the final register map of that replay -/
example : (lastState (runLoads H0 { la := 5 } sched0 {}) {}).values
    = [(40001, 1040, 6), (40002, 1040, 7)] := by decide +kernel

/-- `H0` with a gz copy of its middle file and both a gz and a bz2 copy of its oldest file -/
example : withCopies [(H0[0], 0), (H0[1], 1), (H0[2], 2)] ≠ H0 ∧
    runLoads (withCopies [(H0[0], 0), (H0[1], 1), (H0[2], 2)]) { la := 5 } sched0 {}
      = runLoads H0 { la := 5 } sched0 {} := by decide +kernel

example : stripLines H0[1] ≠ H0[1] := by decide

/-- polled before the scheduled start point: with the start point at 1100 and calls from clock 1070 on,
the record of 1096 is not delivered by the calls at 1070 and 1090 but by the one at 1100 -/
example : eventsOf' (runLoads [[R 1000 1, R 1090 2, R 1096 6 40002, R 1110 3]] {}
      [⟨1070, none, none⟩, ⟨1090, none, none⟩, ⟨1100, none, none⟩] {})
    = [[(1000, [(40001, 1)])], [(1090, [(40001, 2)])], [(1096, [(40002, 6)])]] := by decide +kernel

/-! ### The code before the repairs, and what remains open -/

def eventsOf (outs : List LoadOut) : List (List Event) := outs.map outEvents

/-- finding (a): a file with a single record that had to be awaited is opened a second time, its
record is delivered twice (`fixes/C18-reopen-guard.patch`) -/
theorem old_duplicates :
    delivered (runLoads [[R 1040 5]] { fix := .old } [⟨1025, none, none⟩, ⟨1075, none, none⟩] {})
      = [(1040, [(40001, 5)]), (1040, [(40001, 5)])] ∧
    delivered (runLoads [[R 1040 5]] { fix := .new } [⟨1025, none, none⟩, ⟨1075, none, none⟩] {})
      = [(1040, [(40001, 5)])] := by decide +kernel

/-- finding (a) as first observed: three files, replay from the middle, one call per step -/
theorem old_duplicates_three_files :
    delivered (runLoads [[R 1040 5], [R 1020 3, R 1030 4], [R 1000 1, R 1010 2]] { fix := .old }
      [⟨1025, none, none⟩, ⟨1035, none, none⟩, ⟨1045, none, none⟩] {})
    = [(1020, [(40001, 3)]), (1030, [(40001, 4)]), (1040, [(40001, 5)]), (1040, [(40001, 5)])] := by
  decide +kernel

/-- finding (c): a line with a damaged timestamp ends the replay FAILED and the later records are
lost (`fixes/C18-corrupt-timestamp.patch`) -/
theorem old_fails_on_corrupt_timestamp :
    let outs := runLoads [[R 1000 1, .corrupt, R 1010 2, R 1020 3]] { fix := .old }
      [⟨990, none, none⟩, ⟨1000, none, none⟩, ⟨1030, none, none⟩] {}
    delivered outs = [(1000, [(40001, 1)])] ∧ (lastState outs {}).st = .failed := by decide +kernel

/-- finding (d): a file that ends in a record with an unusable payload is opened again and again; the
`load` call never returns (`fixes/C18-reopen-guard.patch`) -/
theorem old_hangs_on_trailing_bad_payload :
    (runLoads [[R 1020 4, R 1030 5], [R 1000 1, .recd 1010 .bad]] { fix := .old }
      [⟨990, none, none⟩, ⟨1000, none, none⟩, ⟨1010, none, none⟩] {}).getLast? = some .hang := by
  decide +kernel

/-- the hypothesis without the condition on the first timestamps of the files -/
structure WF0 (H : History) : Prop where
  first_ok : ∀ f ∈ H, FirstOk f
  mono : (tsOf (chron H)).Pairwise (· ≤ ·)

instance (H : History) : Decidable (WF0 H) :=
  if h : (∀ f ∈ H, FirstOk f) ∧ (tsOf (chron H)).Pairwise (· ≤ ·) then isTrue ⟨h.1, h.2⟩
  else isFalse fun w => h ⟨w.first_ok, w.mono⟩

/-- the property at full strength: for every history with non-decreasing timestamps (equal
timestamps anywhere), a replay that is COMPLETE has delivered every event from the start file on -/
def ExactlyOnceAll : Prop :=
  ∀ (H : History) (la : Time) (a : LoadArgs) (as : List LoadArgs), WF0 H → ClockMono (a :: as) →
    (lastState (runLoads H { la := la } (a :: as) {}) {}).st = .complete →
    delivered (runLoads H { la := la } (a :: as) {}) = deliverable (spanLines H a.clock)

/-- finding (b), open: files `.1` = [1000], `.0` = [1000, 1010], `''` = [1020, 1030] replayed from 990.
After the one-timestamp file `.1` the next file must start strictly later; `.0` starts at the same
timestamp, is skipped, and its two records are never delivered. -/
theorem exactly_once_all_fails : ¬ ExactlyOnceAll := by
  intro h
  have := h [[R 1020 4, R 1030 5], [R 1000 2, R 1010 3], [R 1000 1]] 0 ⟨990, none, none⟩
    [⟨1000, none, none⟩, ⟨1010, none, none⟩, ⟨1020, none, none⟩, ⟨1030, none, none⟩, ⟨1040, none, none⟩]
    (by decide) (by decide) (by decide +kernel)
  revert this
  decide +kernel

/-- what the repaired code delivers on that history: the record of `.1`, then `''`; `.0` is lost -/
theorem equal_boundary_loses_a_file :
    delivered (runLoads [[R 1020 4, R 1030 5], [R 1000 2, R 1010 3], [R 1000 1]] {}
      [⟨990, none, none⟩, ⟨1000, none, none⟩, ⟨1010, none, none⟩, ⟨1020, none, none⟩, ⟨1030, none, none⟩,
       ⟨1040, none, none⟩] {})
    = [(1000, [(40001, 1)]), (1020, [(40001, 4)]), (1030, [(40001, 5)])] := by decide +kernel

/-! ### Tie to the constants extracted from the live source -/

def stateNo (name : String) : Nat := ((Generated.loaderStates.find? (·.1 == name)).map (·.2)).getD 99

/-- the numbering the model's state tests rely on: `while state <= STREAMING` means INITIAL, SWITCHING
or STREAMING; `not self` (`state >= COMPLETE`) means COMPLETE or FAILED; `after = state != INITIAL` -/
theorem loader_state_numbering :
    (Generated.loaderStates.filter (·.2 ≤ stateNo "STREAMING")).map (·.1) = ["INITIAL", "SWITCHING", "STREAMING"] ∧
    (Generated.loaderStates.filter (stateNo "COMPLETE" ≤ ·.2)).map (·.1) = ["COMPLETE", "FAILED"] ∧
    (Generated.loaderStates.map (·.2)).Nodup := by decide

/-- the smallest tick used by the harness (2 ms) exceeds the comparison tolerance of `timestamp`, and
timestamps are written with millisecond precision -/
theorem tick_exceeds_tolerance : Generated.historyEpsilonUs < 2000 ∧ Generated.historyPrecision = 3 := by decide

end Cpppo.History
