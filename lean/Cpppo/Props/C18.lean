import Cpppo.Model.History

/-! # C18 (work in progress): witnesses -/
namespace Cpppo.History

def R (t : Time) (v : Int) : Line := .recd t (.regs [(40001, v)])

def eventsOf : List LoadOut → List (List Event)
  | [] => []
  | .hang :: r => [] :: eventsOf r
  | .done _ _ e :: r => e :: eventsOf r

/-- finding (a) on the old code: record 1040 of the newest file is delivered twice -/
theorem old_duplicates :
    (eventsOf (runLoads [[R 1040 5], [R 1020 3, R 1030 4], [R 1000 1, R 1010 2]] { fix := .old }
      [⟨1025, none, none⟩, ⟨1035, none, none⟩, ⟨1045, none, none⟩] {})).flatten
    = [(1020, [(40001, 3)]), (1030, [(40001, 4)]), (1040, [(40001, 5)]), (1040, [(40001, 5)])] := by
  decide +kernel

end Cpppo.History
