import Cpppo.Proofs.Codec.Encap
import Cpppo.Proofs.Codec.Typed
import Cpppo.Generated.Tables

/-!
# C01 — Wire codec round-trip over the whole EtherNet/IP CIP message grammar

`Cpppo.Codec` is an encoder/decoder pair written directly from the CIP layout tables (it shares no code
with cpppo).  The theorems below say that for every well-formed message of the grammar — every field
value in range, every length, every number of segments / items / members / extended status words —
decoding the encoded bytes recovers exactly the message, consumes exactly those bytes, and hence that
re-encoding a decoded canonical encoding regenerates the original bytes.

The tie to the code (parts 1–3 of the property for cpppo itself) is the correspondence: on generated
messages cpppo's `produce` bytes are decoded by `decodeSvc`/`decodeMessage` to the same fields cpppo's own
parsers report, and `encode (decode bytes) = bytes` (the independent encoder yields cpppo's bytes).

`WF` predicates are the field ranges of the wire formats plus the canonical-form conditions the code
itself documents (no extended status with status 0; narrowest EPATH segment form; port ≥ 15 in extended
form).
-/
namespace Cpppo.Codec
open Cpppo

/-- **Encapsulation frame: header fields, declared length, payload — and nothing of what follows.** -/
theorem frame_roundtrip (f : Frame) (rest : Bytes) (h : f.hdr.WF) (hl : f.payload.length < 65536) :
    decodeFrame (encodeFrame f ++ rest) = some (f, rest) := decodeFrame_encode f rest h hl

/-- a frame is exactly 24 bytes plus its payload -/
theorem frame_length (f : Frame) (h : f.hdr.context.length = 8) :
    (encodeFrame f).length = 24 + f.payload.length := encodeFrame_length f h

/-- **Whole message: header + Register / Unregister / List* / Legacy / SendRRData / SendUnitData command,
CPF items (null, connection id/data, unconnected send, communications service, identity, legacy,
unrecognised), Unconnected Send wrapper.** -/
theorem message_roundtrip (m : Message) (rest : Bytes) (h : m.WF) :
    decodeMessage (encodeMessage m ++ rest) = some (m, rest) := decodeMessage_encode m rest h

/-- **Every request and reply of the Logix-dialect, Object, Multiple Service Packet and Connection Manager
services (incl. small and large Forward Open).** -/
theorem service_roundtrip (s : Svc) (h : s.WF) : decodeSvc (encodeSvc s) = some s := decodeSvc_encode s h

/-- **Producing a parsed, canonically encoded message regenerates exactly the original bytes.** -/
theorem service_canonical (bs : Bytes) (h : ∃ s : Svc, s.WF ∧ encodeSvc s = bs) :
    (decodeSvc bs).map encodeSvc = some bs := by
  obtain ⟨s, hs, rfl⟩ := h
  rw [decodeSvc_encode s hs]; rfl

theorem message_canonical (bs : Bytes) (h : ∃ m : Message, m.WF ∧ encodeMessage m = bs) :
    (decodeMessage bs).map (fun p => encodeMessage p.1) = some bs := by
  obtain ⟨m, hm, rfl⟩ := h
  have := decodeMessage_encode m [] hm
  simp only [List.append_nil] at this
  rw [this]; rfl

/-- **EPATH: 0..N segments of every kind (class/instance/attribute/connection at 8/16 bit, element at
8/16/32 bit, symbolic of odd and even length, port/link with small and extended port numbers and numeric or
address-string links); size byte = words; plain and padded forms.** -/
theorem epath_roundtrip (padded : Bool) (segs : List Seg) (rest : Bytes) (h : EpathWF segs) :
    decodeEpath padded (encodeEpath (if padded then .padded else .plain) segs ++ rest) = some (segs, rest) :=
  decodeEpath_encode padded segs rest h

theorem epath_single_roundtrip (s : Seg) (rest : Bytes) (h : s.WF) :
    decodeSeg (encodeEpath .single [s] ++ rest) = some (s, rest) := decodeSingle_encode s rest h

/-- **Status with 0..N extended status words.** -/
theorem status_roundtrip (s : Status) (rest : Bytes) (h : s.WF) :
    decodeStatus (encodeStatus s ++ rest) = some (s, rest) := decodeStatus_encode s rest h

/-- **Strings of 0..255 / 0..65535 bytes; an odd-length STRING carries exactly one pad byte.** -/
theorem sstring_roundtrip (s rest : Bytes) : decodeSString (encodeSString s ++ rest) = some (s, rest) :=
  decodeSString_encode s rest

theorem string_roundtrip (s rest : Bytes) (h : s.length < 65536) :
    decodeString (encodeString s ++ rest) = some (s, rest) := decodeString_encode s rest h

theorem string_pad (s : Bytes) : (encodeString s).length = 2 + s.length + s.length % 2 := by
  unfold encodeString
  simp only [List.length_append, le_length]
  split <;> simp <;> omega

/-- **Forward Open network connection parameters: bit fields of the small and the large layout.** -/
theorem ncp_roundtrip (large : Bool) (p : Ncp) (h : p.WF large) : decodeNcp large (encodeNcp large p) = p :=
  decodeNcp_encode large p h

/-- **1..N bundled services: the offset table locates every member.** -/
theorem members_roundtrip (ms : List Bytes) (h : MembersWF ms) : decodeMembers (encodeMembers ms) = some ms :=
  decodeMembers_encode ms h

/-- **0..N CPF items.** -/
theorem cpf_roundtrip (cpf : Option (List Item)) (h : CpfWF cpf) : decodeCpf (encodeCpf cpf) = some cpf :=
  decodeCpf_encode cpf h

/-- **Typed data, integer element types at their full width (SINT…ULINT): `struct.unpack ∘ struct.pack = id`
for every representable value, any number of elements.** -/
theorem typed_int_roundtrip (t : CipType) (hi : t.isInt = true) (is : List Int) (bss : List Bytes)
    (h : is.mapM (Bytes.packInt t.signed t.size) = some bss) :
    decodeVals t bss.flatten = some (is.map .int) := decodeVals_int t hi is bss h

theorem typed_bool_roundtrip (bs : List Bool) :
    decodeVals .bool (bs.map fun b => if b then 255 else 0) = some (bs.map .bool) := decodeVals_bool bs

theorem typed_real_roundtrip (ws : List Nat) (h : ∀ w ∈ ws, w < 2 ^ 32 ∧ Float'.quiet32 w = w) :
    decodeVals .real ((ws.map (Bytes.le 4)).flatten) = some (ws.map .f32) := decodeVals_real ws h

theorem typed_lreal_roundtrip (ws : List Nat) (h : ∀ w ∈ ws, w < 2 ^ 64) :
    decodeVals .lreal ((ws.map (Bytes.le 8)).flatten) = some (ws.map .f64) := decodeVals_lreal ws h

/-! ### Tie: the constants the layout-table codec uses are the ones the live classes register
(`Cpppo.Generated` is regenerated from the imported modules on every run; a changed opcode, item id,
command or service code, or header field breaks one of these obligations) -/

theorem tie_header :
    Generated.codecHeaderSize = 24
    ∧ Generated.codecHeaderFields.map (fun f => (f.2.1, f.2.2))
        = [("<H", 2), ("<H", 2), ("<I", 4), ("<I", 4), ("octets", 8), ("<I", 4)] := by decide

theorem tie_epath_opcodes :
    Generated.epathOpcodes
      = [("attribute", 0x30), ("class", 0x20), ("connection", 0x2c), ("element", 0x28), ("instance", 0x24),
         ("port", 0x00), ("symbolic", 0x91)] := by decide

theorem tie_cpf_items :
    Generated.cpfItemIds = [0x0001, 0x000C, 0x00A1, 0x00B1, 0x00B2, 0x0100]
    ∧ Generated.cpfItemIds.all recognised = true := by decide

theorem tie_commands :
    Generated.encapCommands.map (·.1) = [0x0001, 0x0004, 0x0063, 0x0064, 0x0065, 0x0066, 0x006F, 0x0070] := by decide

theorem tie_services :
    Generated.objectServices
      = [("GA_ALL", 0x01), ("GA_LST", 0x03), ("GA_SNG", 0x0E), ("SA_SNG", 0x10), ("MULTIPLE", 0x0A),
         ("FWD_OPEN", 0x54), ("FWD_OPLG", 0x5B), ("FWD_CLOS", 0x4E)]
    ∧ (Generated.svcReadTag, Generated.svcReadFrag, Generated.svcWriteTag, Generated.svcWriteFrag)
        = (0x4C, 0x52, 0x4D, 0x53) := by decide

/-! ### Non-vacuity: a concrete SendRRData request (tests of the hypotheses, not the claim) -/

def demoReq : Svc := .readFragReq [.sym [83, 67, 65, 68, 65], .elem 300] 4 8

example : decodeSvc (encodeSvc demoReq) = some demoReq := by decide +kernel

example : encodeSvc demoReq = [0x52, 6, 0x91, 5, 83, 67, 65, 68, 65, 0, 0x29, 0, 0x2c, 1, 4, 0, 8, 0, 0, 0] := by
  decide +kernel

def demoMsg : Message :=
  { hdr := { command := 0x6F, session := 0x12345678, status := 0, context := [1, 2, 3, 4, 5, 6, 7, 8], options := 0 }
    cmd := .sendData 0 5 (some [
      { typeId := 0, body := .empty },
      { typeId := 0xB2, body := .usend (.send [.cls 6, .ins 1] 5 157 (encodeSvc demoReq) [.port 1 (.num 0)]) }]) }

example : decodeMessage (encodeMessage demoMsg ++ [9, 9]) = some (demoMsg, [9, 9]) := by decide +kernel

example : (encodeMessage demoMsg).length = 24 + 50 := by decide +kernel

end Cpppo.Codec
