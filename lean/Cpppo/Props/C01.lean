import Cpppo.Proofs.Codec.Prim
namespace Cpppo.Codec
theorem placeholder_c01 : True := trivial
end Cpppo.Codec
