import Cpppo.Proofs.Source
import Cpppo.Proofs.Engine

/-!
# C10 — A length limit bounds what a nested parser may consume

Theorems about the models `Cpppo.Source` (`peeking`/`chaining`) and `Cpppo.Engine`
(`state.run`/`state.transition`/`dfa_base.delegate`), for **every** machine of the DSL, every state of
it at every nesting depth, every input, every chunking of the input, every limit and repeat value
(constant, data field or environment-supplied) and every amount of fuel.  A run that does not return
`.ok` is a failed parse (`NonTerminal`, `AssertionError`) - the property speaks about successful runs
("... or it fails").
-/
namespace Cpppo.Source

/-! ## `sent` is the number of symbols actually taken, across push-back and chained blocks -/

/-- **Refinement.**  Any sequence of `next`/`peek`/`push`/`chain` on the concrete iterator (push-back
stack, current block, queue of chained blocks) returns what the same sequence returns on the plain
list of remaining symbols, and leaves the corresponding list and the same `sent`. -/
theorem source_refines (s : Source) (ops : List Op) :
    (s.steps ops).1 = (s.abs.steps ops).1 ∧ (s.steps ops).2.abs = (s.abs.steps ops).2 :=
  steps_abs s ops

/-- **`sent` = symbols delivered by `next` − symbols pushed back**, whatever the interleaving with
`peek` (which pulls a symbol and pushes it back) and `chain`. -/
theorem sent_counts (s : Source) (ops : List Op) :
    (s.steps ops).2.sent = s.sent + countNext ops (s.steps ops).1 - countPush ops := by
  have h := steps_abs s ops
  have := steps_sent s.abs ops
  rw [← h.1, ← h.2] at this
  exact this

/-- **`sent` counts what is missing from the input.**  When every `push` gives back the most
recently taken symbol (the discipline `remembering.push` asserts, and the only way the engine uses
`push`, through `peek`), then the symbols taken and not given back, followed by what the source
still holds, are exactly the original content followed by all chained blocks in order - and `sent`
has advanced by the number of symbols taken and not given back. -/
theorem sent_counts_taken (s : Source) (ops : List Op) (h : disciplined [] s.abs ops = true) :
    (takenAfter [] s.abs ops).reverse ++ (s.steps ops).2.view = s.view ++ chained ops
    ∧ (s.steps ops).2.sent = s.sent + (takenAfter [] s.abs ops).length := by
  have hr := steps_abs s ops
  have := disciplined_accounts [] s.abs ops h
  rw [← hr.2] at this
  simp only [List.reverse_nil, List.nil_append, List.length_nil] at this
  have h2 : (s.steps ops).2.sent - ((takenAfter [] s.abs ops).length : Int) = s.sent - (0 : Nat) := this.2
  exact ⟨this.1, by omega⟩

/-- non-vacuity: a disciplined sequence mixing all four operations over two chained blocks -/
example : disciplined [] ({ cur := [1, 2] } : Source).abs
    [.next, .peek, .chain [3], .next, .push 2, .chain [], .chain [4, 5], .next, .next, .next, .next, .next] = true
    := by decide

example : (({ cur := [1, 2] } : Source).steps
    [.next, .peek, .chain [3], .next, .push 2, .chain [], .chain [4, 5], .next, .next, .next, .next, .next]).2.sent
    = 5 := by decide

/-- a `push` that is not preceded by a `next` makes `sent` negative (why `sent` is an `Int`) -/
example : (({ cur := [7] } : Source).steps [.push 9]).2.sent = -1 := by decide

end Cpppo.Source

namespace Cpppo.Engine
open Cpppo.Source

/-! ## the limit -/

/-- **A run that ends by itself ends at or before the ending it was given.**  For every state of
every machine (so for every nested parser), every enclosing ending, every world. -/
theorem run_limit (M : Machine) (f i : Nat) (ps : Option (List Crumb)) (x : Int) (w : World)
    (r : RunOut) (h : runState M f i ps (some x) w = .ok r) (hc : r.closed = false) :
    r.w.sent ≤ x :=
  (runState_good M f i ps (some x) w r h).lim hc x rfl

/-- **So does a run whose generator is closed by the enclosing `delegate`** (stasis), although the
code then skips the final `assert source.sent <= ending`: provided the run started within the ending
and the delegate's `seen` set holds no crumb from the future (both hold for every run started by
`delegate`, see `sub_machine_limit`). -/
theorem run_limit_closed (M : Machine) (f i : Nat) (ps : Option (List Crumb)) (x : Int) (w : World)
    (r : RunOut) (h : runState M f i ps (some x) w = .ok r) (hc : r.closed = true)
    (hps : CrumbsLe ps w.sent) (hw : w.sent ≤ x) : r.w.sent ≤ x :=
  (runState_good M f i ps (some x) w r h).closedLim hc hps x rfl hw

/-- **The sub-machine of a dfa never ends beyond the ending**, however its states' runs ended
(by themselves or closed), for every dfa at every depth: the symbols after the boundary are left to
the enclosing grammar. -/
theorem sub_machine_limit (M : Machine) (f f' i : Nat) (x : Int) (w : World)
    (out : World × Nat × Bool) (h : delegate M (runState M f) i (some x) f' w = .ok out)
    (hw : w.sent ≤ x) : out.1.sent ≤ x :=
  (delegate_spec (runState_good M f) i (some x) f' w out h).2.1
    (fun y hy => by cases hy; exact hw) x rfl

/-- **A state given `limit = L` (constant, data field or callable) completes having consumed at
most its own symbol plus `L`** - whatever the enclosing ending. -/
theorem run_own_limit (M : Machine) (f i : Nat) (e : Option Int) (w : World) (r : RunOut) (L : Nat)
    (h : runState M f i none e w = .ok r) (hL : (resolve w (M.st i).limit).1 = some L) :
    r.w.sent ≤ w.sent + (M.st i).own + L := by
  have g := runState_good M f i none e w r h
  exact g.ownLim L hL (fun hc => by rw [g.top rfl] at hc; simp at hc)

/-- the same for a nested state (run by a `delegate` with its `seen` set) -/
theorem run_own_limit_nested (M : Machine) (f i : Nat) (ps : Option (List Crumb)) (e : Option Int)
    (w : World) (r : RunOut) (L : Nat) (h : runState M f i ps e w = .ok r)
    (hL : (resolve w (M.st i).limit).1 = some L) (hps : CrumbsLe ps w.sent) :
    r.w.sent ≤ w.sent + (M.st i).own + L :=
  (runState_good M f i ps e w r h).ownLim L hL (fun _ => hps)

/-- **`ending` only shrinks**: the ending a state passes to its sub-machine and uses for itself is
at most the enclosing one and at most `sent + limit`. -/
theorem run_ending_shrinks (e : Option Int) (s : Int) (L : Nat) :
    ∃ y, shrink e s (some L) = some y ∧ y ≤ s + L ∧ (∀ x, e = some x → y ≤ x) := by
  obtain ⟨y, hy, hyl⟩ := shrink_le_limit (e := e) (s := s) (l := some L) rfl
  refine ⟨y, hy, hyl, fun x hx => ?_⟩
  obtain ⟨y', hy', hyx⟩ := shrink_le_enclosing (s := s) (l := some L) hx
  rw [hy] at hy'; cases hy'; exact hyx

/-- nested limits give the minimum -/
theorem nested_endings (s1 s2 : Int) (L1 L2 : Nat) :
    shrink (shrink none s1 (some L1)) s2 (some L2) = some (min (s1 + L1) (s2 + L2)) := by
  simp only [shrink]
  split
  · rw [Int.min_eq_right (by omega)]
  · rw [Int.min_eq_left (by omega)]

/-- no limit: the enclosing ending is passed on unchanged -/
theorem no_limit_keeps_ending (e : Option Int) (s : Int) : shrink e s none = e := rfl

/-! ## nothing skipped, nothing reordered; `sent` is what was taken -/

/-- **A run consumes a prefix of what was still to be delivered** (the source's remaining symbols
followed by the blocks the driver had not chained yet): what is left afterwards is the rest, in
order, and `sent` has advanced by exactly the length of that prefix. -/
theorem run_consumed_prefix (M : Machine) (f i : Nat) (ps : Option (List Crumb)) (e : Option Int)
    (w : World) (r : RunOut) (h : runState M f i ps e w = .ok r) :
    ∃ consumed, w.total = consumed ++ r.w.total ∧ r.w.sent = w.sent + consumed.length :=
  (runState_good M f i ps e w r h).adv

/-! ## repeat -/

/-- **A repeat count of `n` runs the sub-machine exactly `n` times** (`None` = once): never more;
fewer only when the no-progress detection (`stasis`) ended the loop, and then at least once; and
with `n = 0` not at all - nothing is consumed. -/
theorem repeat_exact (M : Machine) (f f' i : Nat) (e : Option Int) (w : World) (init : Nat)
    (rep : Spec) (store : Option Nat) (out : World × Nat × Bool)
    (hk : (M.st i).kind = .dfa init rep store)
    (h : delegate M (runState M f) i e f' w = .ok out) :
    out.2.1 ≤ repeatOf w rep
    ∧ (out.2.2 = false → out.2.1 = repeatOf w rep)
    ∧ (out.2.2 = true → 1 ≤ out.2.1)
    ∧ (repeatOf w rep = 0 → out.2.1 = 0 ∧ out.1.sent = w.sent ∧ out.1.total = w.total) :=
  (delegate_spec (runState_good M f) i e f' w out h).2.2 init rep store hk

/-- **`octets` / `octets_drop` / `octets_struct` with repeat `n` consume exactly `n` symbols or
fail** (a dfa over a single consuming terminal state): fixed-size fields, payloads counted by a
length field (`enip_machine`'s `repeat='.length'`, Unconnected Send's request) and the repaired
"unrecognized CPF item" scanner end exactly at the boundary the count declares, never beyond it. -/
theorem octets_exact (M : Machine) (f f' i j : Nat) (e : Option Int) (w : World) (rep : Spec)
    (out : World × Nat × Bool)
    (hk : (M.st i).kind = .dfa j rep none) (hb : (M.st j).isByte)
    (h : delegate M (runState M f) i e f' w = .ok out) :
    out.1.sent = w.sent + repeatOf w rep := by
  unfold delegate at h
  rw [hk] at h
  simp only at h
  split at h
  · simp at h
  · rename_i w2 k st hcy
    simp only [Except.ok.injEq] at h; subst h
    have := (cycleLoop_bytes M f i j e _ f' 0 _ _ hb hcy).1
    simp only [Nat.sub_zero] at this
    rw [this]
    have hs : ((resolve w rep).2.setDfa i
        { ((resolve w rep).2.dfa M i) with cycle := 0, final := (resolve w rep).1.getD 1 }).sent = w.sent := by
      rw [(setDfa_idle _ _ _).sent, (resolve_idle w rep).sent]
    simp only [hs, repeatOf]

/-! ## the outermost run -/

/-- **A top-level parser given `limit = L` that completes has consumed at most `L` symbols (after
its own), the consumed symbols are a prefix of the input, and everything after them - in
particular every byte beyond the boundary - is still there, in order.** -/
theorem top_limit (M : Machine) (fuel top : Nat) (w w' : World) (t : Bool) (L : Nat)
    (h : runTop M fuel top w = .ok (w', t)) (hL : (resolve w (M.st top).limit).1 = some L) :
    ∃ consumed, w.total = consumed ++ w'.total
      ∧ w'.sent = w.sent + consumed.length
      ∧ consumed.length ≤ (M.st top).own + L := by
  unfold runTop at h
  split at h
  · simp at h
  · rename_i r hr
    simp only [Except.ok.injEq, Prod.mk.injEq] at h
    obtain ⟨rfl, _⟩ := h
    obtain ⟨c, hc, hs⟩ := run_consumed_prefix M fuel top none none w r hr
    have := run_own_limit M fuel top none w r L hr hL
    exact ⟨c, hc, hs, by omega⟩

/-- the outermost run is never closed from outside: its final assertion is always evaluated -/
theorem top_not_closed (M : Machine) (f i : Nat) (e : Option Int) (w : World) (r : RunOut)
    (h : runState M f i none e w = .ok r) : r.closed = false :=
  (runState_good M f i none e w r h).top rfl

/-! ## non-vacuity: concrete machines (tests by evaluation) -/

/-- `.*` as `cpppo.regex` builds it: a non-consuming, non-terminal copy of the initial state in
front of a consuming loop -/
def starLoop (b : Nat) : State := { kind := .input, term := true, edges := [(.any, [.plain (some b)])] }
def starInit (b : Nat) : State := { kind := .null, edges := [(.any, [.plain (some b)])] }

/-- SSTRING-like: a one-byte length field (states 0-3), then `.*` limited by it (4-6), then a tail
that drops whatever follows (7); 8 is the outer dfa.
0 byte leaf, 1 done, 2 octets_struct(1) -> field 0, 3 field wrapper, 4 loop, 5 star init,
6 body dfa limit=field 0, 7 tail, 8 top -/
def sstringM (tail : Bool) : Machine :=
  [ { kind := .input, term := true },
    { kind := .null, term := true },
    { kind := .dfa 0 (.const 1) (some 0), edges := [(.eps, [.guard .always (some 1)])] },
    { kind := .dfa 2 .none none, edges := [(.eps, [.plain (some 6)])] },
    starLoop 4,
    starInit 4,
    { kind := .dfa 5 .none none, term := true, limit := .field 0,
      edges := if tail then [(.eps, [.plain (some 7)])] else [] },
    { kind := .drop, term := true, edges := [(.any, [.plain (some 7)])] },
    { kind := .dfa 3 .none none, term := true } ]

def sentOf (r : Except (Err × World) (World × Bool)) : Option (Int × Option Sym × Bool) :=
  match r with
  | .ok (w, t) => some (w.sent, w.peek, t)
  | .error _ => none

def errOf (r : Except (Err × World) (World × Bool)) : Option (Err × Int) :=
  match r with
  | .ok _ => none
  | .error (e, w) => some (e, w.sent)

/-- length 2, body `7 8`, then `9 9` dropped by the tail state: everything consumed, terminal -/
example : sentOf (runTop (sstringM true) 40 8 { src := { rest := [2, 7, 8, 9, 9] } })
    = some (5, none, true) := by
  decide +kernel

/-- without the tail state the limited body stops after two symbols and leaves `9 9`, although
`.*` would accept them; also when run on its own with the length already parsed -/
example : sentOf (runTop (sstringM false) 40 8 { src := { rest := [2, 7, 8, 9, 9] } })
      = some (3, some 9, true)
    ∧ sentOf (runTop (sstringM false) 40 6 { src := { rest := [7, 8, 9, 9] }, data := [(0, 2)] })
      = some (2, some 9, true) := by
  decide +kernel

/-- the same input arriving in three blocks gives the same result -/
example : sentOf (runTop (sstringM false) 40 8 { src := { rest := [2] }, pend := [[7, 8, 9], [9]] })
    = some (3, some 9, true) := by
  decide +kernel

/-- a length longer than the data: `.*` accepts the shorter body, the parse completes with what
there is (still within the limit) -/
example : sentOf (runTop (sstringM false) 40 8 { src := { rest := [5, 7, 8] } })
    = some (3, none, true) := by
  decide +kernel

/-- `octets(repeat=5, limit=3)`: the fourth symbol is taken past the ending and the final assertion
fails - the parse does not complete; with `limit=5` it does -/
def octetsM (lim : Nat) : Machine :=
  [ { kind := .input, term := true },
    { kind := .dfa 0 (.const 5) none, term := true, limit := .const lim } ]

example : errOf (runTop (octetsM 3) 40 1 { src := { rest := [1, 2, 3, 4, 5, 6] } })
    = some (.assertion, 4) := by
  decide +kernel

example : sentOf (runTop (octetsM 5) 40 1 { src := { rest := [1, 2, 3, 4, 5, 6] } })
    = some (5, some 6, true) := by
  decide +kernel

/-- the hypotheses of `octets_exact` hold for this machine -/
example : ((octetsM 5).st 0).isByte ∧ ((octetsM 5).st 1).kind = .dfa 0 (.const 5) none := by
  simp [State.isByte, octetsM, Machine.st]

/-- a two-byte element (`words`) under a limit that cuts it in half: the sub-machine stops in a
non-terminal state (`NonTerminal`) -/
def wordM : Machine :=
  [ { kind := .input, term := true },
    { kind := .input, edges := [(.any, [.plain (some 0)])] },
    { kind := .dfa 1 (.const 2) none, term := true, limit := .const 3 } ]

example : errOf (runTop wordM 40 2 { src := { rest := [1, 2, 3, 4, 5] } }) = some (.nonterminal, 3) := by
  decide +kernel

/-! ### finding: an unrecognized CPF item was not confined to its length (repaired by a `fix:`)

One CPF item as the library parses it: `type_id` (UINT), `length` (UINT), then - for a type the
library does not recognize - the item's octets.  `fixed = false` is the code before the `fix:`
commit (a self-looping `octets` state with no limit: "just parse remainder"), `fixed = true` the
repaired code (`octets(repeat='.length')`).
0 byte leaf, 1 type_id -> field 0, 2 length -> field 1, 3 done, 4 unrecognized, 5 the item dfa -/
def cpfItem (fixed : Bool) : Machine :=
  [ { kind := .input, term := true },
    { kind := .dfa 0 (.const 2) (some 0), edges := [(.any, [.plain (some 2)])] },
    { kind := .dfa 0 (.const 2) (some 1),
      edges := [(.eps, [.guard (.eq 1 0) (some 3), .plain (some 4)])] },
    { kind := .null, term := true },
    if fixed then { kind := .dfa 0 (.field 1) none, term := true }
    else { kind := .dfa 0 .none none, term := true, edges := [(.any, [.plain (some 4)])] },
    { kind := .dfa 1 .none none, term := true } ]

/-- an item of type 0x9999 with length 2 (`AA BB`), followed by three octets of the enclosing
grammar: the item ends after 6 octets -/
def cpfItemInput : World := { src := { rest := [0x99, 0x99, 2, 0, 0xAA, 0xBB, 0x11, 0x22, 0x33] } }

/-- **The code before the fix read past the item's length** (all 9 octets: 3 beyond the boundary
declared by the length field it had just parsed) - the replay used against the implementation. -/
theorem cpfItemOld_overreads :
    sentOf (runTop (cpfItem false) 60 5 cpfItemInput) = some (9, none, true) := by
  decide +kernel

/-- the repaired item parser stops at the boundary and leaves `11 22 33` -/
theorem cpfItem_confined :
    sentOf (runTop (cpfItem true) 60 5 cpfItemInput) = some (6, some 0x11, true) := by
  decide +kernel

/-- repeat 0: nothing consumed; the dfa reports terminal because `current` is still the
(terminal) state the constructor left there -/
example : sentOf (runTop [ { kind := .input, term := true },
      { kind := .dfa 0 (.const 0) none, term := true } ] 40 1 { src := { rest := [1, 2] } })
    = some (0, some 1, true) := by
  decide +kernel

/-- hypotheses of `run_limit_closed` are satisfiable: the `seen` set a delegate starts a cycle with -/
example (w : World) (t : Option Nat) : CrumbsLe (some [w.crumb t]) w.sent := by
  intro l hl c hc
  simp only [Option.some.injEq] at hl; subst hl
  simp only [List.mem_singleton] at hc; subst hc
  exact Int.le_refl _

end Cpppo.Engine
